import Rl2tp.Driver.Ops
import Rl2tp.Driver.SpecOps

/-- line-synchronous driver: `rl2tp_driver model|spec`, one answer per input line -/
partial def loop (h : IO.FS.Stream) (out : IO.FS.Stream) (f : String → String) : IO Unit := do
  let line ← h.getLine
  if line.isEmpty then return ()
  let l := if line.back == '\n' then line.dropRight 1 else line
  out.putStrLn (f l)
  loop h out f

def main (args : List String) : IO UInt32 := do
  let stdin ← IO.getStdin
  let stdout ← IO.getStdout
  match args with
  | ["model"] => loop stdin stdout Rl2tp.Driver.answer; return 0
  | ["spec"] => loop stdin stdout Rl2tp.Driver.specAnswer; return 0
  | _ => IO.eprintln "usage: rl2tp_driver model|spec"; return 2
