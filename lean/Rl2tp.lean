import Rl2tp.Prim
import Rl2tp.Spec.Md5
import Rl2tp.Spec.Utf8
import Rl2tp.Model.Basic
import Rl2tp.Model.Types
import Rl2tp.Model.Avp
import Rl2tp.Model.Message
import Rl2tp.Model.Hide
