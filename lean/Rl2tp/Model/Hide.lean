/-
  Model.Hide: `AVP::hide` / `AVP::reveal` (RFC 2661 §4.3 as the code implements it).
  The hash is a parameter: the theorems hold for any function with 16-octet output; the driver
  instantiates it with `Spec.Md5.md5`.
-/
import Rl2tp.Model.Avp
namespace Rl2tp

def xorB (a k : Bytes) : Bytes := List.zipWith (· ^^^ ·) a k

/-- the first `n` 16-octet chunks of a buffer -/
def chunks : Nat → Bytes → List Bytes
  | 0, _ => []
  | n + 1, bs => bs.take 16 :: chunks n (bs.drop 16)

section
variable (md5 : Bytes → Bytes)

/-- forward chaining (`hide`): chunk i is XORed with `md5 (secret ++ previous *encrypted* chunk)` -/
def encChain (secret : Bytes) : Bytes → List Bytes → List Bytes
  | _, [] => []
  | key, p :: ps => let c := xorB p key; c :: encChain secret (md5 (secret ++ c)) ps

/-- what `reveal`'s in-place loop computes.  The code walks the chunks last to first so that the
    chunk before the current one is still ciphertext when its digest is taken; each chunk is thus
    XORed with the key derived from the *ciphertext* chunk before it, which is what this says. -/
def decChain (secret : Bytes) : Bytes → List Bytes → List Bytes
  | _, [] => []
  | key, c :: cs => xorB c key :: decChain secret (md5 (secret ++ c)) cs

def word16Of : Bytes → UInt16
  | a :: b :: _ => word16 a b
  | _ => 0

/-- `AVP::hide`; `rv` is the RandomVector's four octets as a word, `ap` the 16 alignment octets -/
def hide (a : AVP) (secret : Bytes) (rv : UInt32) (lp ap : Bytes) : Except Fault AVP :=
  if a.isHidden then .ok a else
  let img := a.payload
  let attrOctets := img.take 2
  let length := img.length + 6 - 2
  if length > 1023 then .error .panic else
  let input := be16 (UInt16.ofNat length) ++ img.drop 2 ++ lp
  let padLen := (16 - input.length % 16) % 16
  let input := input ++ ap.take padLen
  let n := input.length / 16
  let key1 := md5 (attrOctets ++ secret ++ be32 rv)
  .ok (.hidden (word16Of attrOctets) (encChain md5 secret key1 (chunks n input)).flatten)

/-- `AVP::reveal`: outer `Except` = panic/UB, inner = the `DecodeResult` -/
def reveal (a : AVP) (secret : Bytes) (rv : UInt32) : Except Fault (Except DErr AVP) :=
  match a with
  | .hidden t v =>
    if v.length = 0 then .ok (.error .emptyHiddenAVP) else
    if v.length % 16 ≠ 0 then .ok (.error .misalignedHiddenAVP) else
    let n := v.length / 16
    let plain := (decChain md5 secret (md5 (be16 t ++ secret ++ be32 rv)) (chunks n v)).flatten
    match (readU16 : M Bytes DErr UInt16) plain with
    | .ok total rest =>
      if total.toNat < 6 || total.toNat > 1023 then .ok (.error (.invalidOriginalAVPLength total)) else
      -- `total_length - Header::LENGTH`
      match (subM total.toNat 6 : M Bytes DErr Nat) rest with
      | .fault f => .error f
      | .err e _ => .ok (.error e)
      | .ok plen rest =>
        if plen > rest.length then .ok (.error (.invalidOriginalAVPLength total)) else
        match (inSub plen (decodeAvp t) : M Bytes DErr (Except DErr AVP)) rest with
        | .ok r _ => .ok r
        | .err e _ => .ok (.error e)
        | .fault f => .error f
    | .err e _ => .ok (.error e)
    | .fault f => .error f
  | _ => .ok (.ok a)

end
end Rl2tp
