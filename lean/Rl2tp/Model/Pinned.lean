/-
  Model.Pinned: the functions of the *pinned* tree (before the `fix:` commits in /repo) that the defects D1–D10
  of `known_findings.json` live in, written the way the pinned source read, each with a kernel-checked witness
  that the property fails on it — and, next to it, that the same input is handled by the repaired function
  of the model.  Nothing here is used by a property theorem: these are the "third case" records (model and code
  agreed, the property was false of both) and the reason the theorems of `Props/` carry the guards they do.
  The witnesses are the replay lines of `/verif/corpus/`.  Not reproduced: D6 (its witness needs a concrete MD5 key; it is a
  corpus line and an `example` of `Props/C13`) and D8 (a `println!` is not a function of the value model; C19's check
  watches the file descriptors).
-/
import Rl2tp.Model.Message
import Rl2tp.Model.Hide
import Rl2tp.Model.Bitmask
namespace Rl2tp.Pinned

section
variable {ρ : Type} [Rdr ρ]

/-! ### D1 — control message whose Length field is below the 12-octet header -/

/-- `ControlMessage::try_read` of the pinned tree: no `length < 12` test in front of `length - 12` -/
def decodeControlCore (w : UInt16) : M ρ (List DErr) Msg := do
  if !hasLength w then fail [.controlMessageWithoutLength] else
  if !hasNsNr w then fail [.controlMessageWithoutNsNr] else
  if (← len) < 10 then fail [.incompleteControlMessageHeader] else
  let length ← readU16
  let tid ← readU16
  let sid ← readU16
  let ns ← readU16
  let nr ← readU16
  if length.toNat > (← len) + 12 then fail [.incompleteControlMessagePayload] else
  let bodyLength ← subM length.toNat 12
  let body ← inSub bodyLength (greedy : M ρ DErr (List Res))
  match body with
  | .error e => fail [e]
  | .ok rs =>
    if firstBad rs then fail [.controlMessageTypeNotFirst] else
    if (resErrors rs) ≠ [] then fail (resErrors rs) else
    pure (.control { length := length, tunnelId := tid, sessionId := sid, ns := ns, nr := nr, avps := resValues rs })

/-! ### D2 — AVP whose length field is below the 6-octet header -/

/-- `Header::try_read` of the pinned tree: `length - 6` without the guard -/
def readHeader : M ρ DErr (Option (Except DErr Header)) := do
  if (← len) < 6 then pure none else
  let o1 ← readU8
  let o2 ← readU8
  let length : Nat := (o1.toNat / 64) * 256 + o2.toNat
  let vendor ← readU16
  let attr ← readU16
  let payloadLength ← subM length 6
  pure (some (.ok { flags := UInt8.ofNat (o1.toNat % 64), payloadLength := UInt16.ofNat payloadLength,
                    vendorId := vendor, attributeType := attr }))

/-! ### D3, D4, D10 — the data-message decoder -/

/-- header minimum of the pinned tree: 4 octets counted for the 2-octet Offset Size field (D10) -/
def readDataHeader (w : UInt16) : M ρ DErr DataHdr := do
  let minimal := 4 + (if hasLength w then 2 else 0) + (if hasNsNr w then 4 else 0) + (if hasOffset w then 4 else 0)
  if (← len) < minimal then fail .incompleteDataMessageHeader else
  let mlen ← (if hasLength w then do let l ← readU16; pure (some l) else pure none : M ρ DErr (Option UInt16))
  let tid ← readU16
  let sid ← readU16
  let nsnr ← (if hasNsNr w then do let a ← readU16; let b ← readU16; pure (some (a, b)) else pure none
                : M ρ DErr (Option (UInt16 × UInt16)))
  let off ← (if hasOffset w then do let o ← readU16; pure (some o) else pure none : M ρ DErr (Option UInt16))
  pure { mlen := mlen, tid := tid, sid := sid, nsnr := nsnr, off := off }

/-- `bytes(n)` of the pinned `SliceReader`: slices unconditionally (D5) -/
def readBytesPinned (n : Nat) : M ρ DErr Bytes := fun r =>
  match Rdr.bytes r n with
  | some (b, r') => .ok b r'
  | none => .fault .panic

/-- payload extent of the pinned tree: the *total* Length used as the payload length (D3), the priority bit
    never copied (D4) -/
def readDataPayload (_w : UInt16) (h : DataHdr) : M ρ DErr Msg := do
  let remaining ← len
  let plen := match h.mlen with | some l => l.toNat | none => remaining
  if plen = 0 then fail .emptyDataMessagePayload else
  let d ← readBytesPinned plen
  pure (.data { prio := false, length := h.mlen, tunnelId := h.tid, sessionId := h.sid, nsnr := h.nsnr,
                offset := none, data := d })

def decodeData (w : UInt16) : M ρ DErr Msg := do
  let h ← readDataHeader w
  skipOffset h.off
  readDataPayload w h

end

/-! ## witnesses (the corpus lines) -/

/-- D1: `dec 111 132000040001000200030004` — Length = 4: the subtraction underflows -/
example : (decodeControlCore 0x1320 : M Bytes (List DErr) Msg) [0, 4, 0, 1, 0, 2, 0, 3, 0, 4] = .fault .panic := by decide
/-- … the repaired decoder rejects it -/
example : (Rl2tp.decodeControlCore 0x1320 : M Bytes (List DErr) Msg) [0, 4, 0, 1, 0, 2, 0, 3, 0, 4]
    = .err [.incompleteControlMessageHeader] [] := by decide

/-- D2: `avps 000300000007` — AVP length 3 -/
example : (readHeader : M Bytes DErr _) [0, 3, 0, 0, 0, 7] = .fault .panic := by decide
example : (Rl2tp.readHeader : M Bytes DErr _) [0, 3, 0, 0, 0, 7] = .ok (some (.error (.invalidAVPLength 3))) [] := by decide

/-- D3: `rt D(0,9,256,53,-,-,95)` — a well-formed data message that carries Length = 9 (its true size): the
    pinned decoder asks for 9 payload octets where 1 remains -/
example : (decodeData 0x0220 : M Bytes DErr Msg) [0, 9, 1, 0, 0, 53, 0x95] = .fault .panic := by decide
example : (Rl2tp.decodeData 0x0220 : M Bytes DErr Msg) [0, 9, 1, 0, 0, 53, 0x95]
    = .ok (.data { prio := false, length := some 9, tunnelId := 256, sessionId := 53, nsnr := none, offset := none,
                   data := [0x95] }) [] := by decide

/-- D4: `rt D(1,-,7,9,-,-,aa)` — priority bit set on the wire, `false` in the decoded value -/
example : (decodeData 0x8020 : M Bytes DErr Msg) [0, 7, 0, 9, 0xaa]
    = .ok (.data { prio := false, length := none, tunnelId := 7, sessionId := 9, nsnr := none, offset := none,
                   data := [0xaa] }) [] := by decide
example : (Rl2tp.decodeData 0x8020 : M Bytes DErr Msg) [0, 7, 0, 9, 0xaa]
    = .ok (.data { prio := true, length := none, tunnelId := 7, sessionId := 9, nsnr := none, offset := none,
                   data := [0xaa] }) [] := by decide

/-- D5: `rd 3b b2` — `bytes(2)` on a one-octet reader -/
example : (readBytesPinned 2 : M Bytes DErr Bytes) [0x3b] = .fault .panic := by decide
example : (readBytes 2 DErr.messageReadError : M Bytes DErr Bytes) [0x3b] = .err .messageReadError [0x3b] := by decide

/-- D10: `rt D(0,-,7,9,-,0,aa)` — the crate's own encoding of an offset-carrying message with one payload
    octet is refused by the pinned header minimum -/
example : (decodeData 0x4020 : M Bytes DErr Msg) [0, 7, 0, 9, 0, 0, 0xaa] = .err .incompleteDataMessageHeader [0, 7, 0, 9, 0, 0, 0xaa] := by
  decide
example : (Rl2tp.decodeData 0x4020 : M Bytes DErr Msg) [0, 7, 0, 9, 0, 0, 0xaa]
    = .ok (.data { prio := false, length := none, tunnelId := 7, sessionId := 9, nsnr := none, offset := none,
                   data := [0xaa] }) [] := by decide

/-! ### D7 — `BearerCapabilities::new(digital, analog)` stored digital at bit 6, analog at bit 7 -/

def bearerCapabilitiesNew (digital analog : Bool) : UInt32 := UInt32.ofNat (b2n digital * 64 + b2n analog * 128)

/-- `bits BearerCapabilities 1 0`: built as digital-only, the accessor named "digital" says no -/
example : MaskKind.first .bearerCapabilities (bearerCapabilitiesNew true false) = false := by decide
example : MaskKind.first .bearerCapabilities (MaskKind.new .bearerCapabilities true false) = true := by decide

/-! ### D9 — the first-AVP rule of the pinned tree looked at the decode result only -/

def firstOk : Res → Bool
  | .ok (.messageType _) => true
  | _ => false

/-- a first AVP that *is* a Message Type AVP with the unassigned code 5: the pinned rule calls it "not first",
    the repaired rule lets the decoder's own error (which carries the code) through -/
example : firstOk (.error (.unknownMessageType 5)) = false ∧ Rl2tp.firstOk (.error (.unknownMessageType 5)) = true := by
  decide

end Rl2tp.Pinned
