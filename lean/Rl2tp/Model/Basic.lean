/-
  Model.Basic: the reader contract, the decoder monad, the writer.

  What Rust can do wrong is representable here: every unchecked read, `skip_bytes`, `subreader`
  and `write_bytes_at` is a primitive that yields a `Fault` when its precondition fails.
  "Decoding is total" is then the theorem that the `fault` constructor is unreachable.
-/
import Rl2tp.Prim
namespace Rl2tp

/-- `ub`: an `*_unchecked` read past the end (undefined behaviour in Rust);
    `panic`: a safe-indexed slice past the end, a failed `assert!`, or arithmetic overflow;
    `fuel`: the greedy loop ran out of iterations (shown impossible: termination). -/
inductive Fault
  | ub | panic | fuel
  deriving Repr, DecidableEq, Inhabited

/-- `rl2tp::common::DecodeError`, variant for variant. -/
inductive DErr
  | incompleteAVP (t : UInt16)
  | unknownMessageType (c : UInt16)
  | invalidUtf8 (t : UInt16)
  | invalidResultCodeErrorType (c : UInt16)
  | avpReadError (t : UInt16)
  | invalidAVPLength (l : UInt16)
  | unknownAvp (t : UInt16)
  | emptyHiddenAVP
  | misalignedHiddenAVP
  | invalidOriginalAVPLength (l : UInt16)
  | unsupportedVendorId (v : UInt16)
  | invalidVersion (v : UInt8)
  | invalidReservedBits
  | incompleteFlags
  | invalidOffset (n : UInt16)
  | incompleteDataMessageHeader
  | incompleteDataMessagePayload
  | emptyDataMessagePayload
  | messageReadError
  | forbiddenControlMessagePriority
  | forbiddenControlMessageOffset
  | controlMessageWithoutLength
  | controlMessageWithoutNsNr
  | incompleteControlMessageHeader
  | incompleteControlMessagePayload
  | controlMessageTypeNotFirst
  deriving Repr, DecidableEq, Inhabited

/-- The public `Reader<T>` trait.  An operation may fault: the cursor instance below faults exactly
    when the Rust contract is violated. `bytes` is the one checked operation (it returns `Option`). -/
class Rdr (ρ : Type) where
  len : ρ → Nat
  u8 : ρ → Except Fault (UInt8 × ρ)
  u16 : ρ → Except Fault (UInt16 × ρ)
  u32 : ρ → Except Fault (UInt32 × ρ)
  u64 : ρ → Except Fault (UInt64 × ρ)
  skip : ρ → Nat → Except Fault ρ
  sub : ρ → Nat → Except Fault (ρ × ρ)
  bytes : ρ → Nat → Option (Bytes × ρ)

/-- The reference cursor (`SliceReader`): the remaining octets. -/
instance : Rdr Bytes where
  len s := s.length
  u8 s := match s with
    | a :: r => .ok (a, r)
    | _ => .error .ub
  u16 s := match s with
    | a :: b :: r => .ok (word16 a b, r)
    | _ => .error .ub
  u32 s := match s with
    | a :: b :: c :: d :: r => .ok (word32 a b c d, r)
    | _ => .error .ub
  u64 s := match s with
    | a :: b :: c :: d :: e :: f :: g :: h :: r => .ok (word64 a b c d e f g h, r)
    | _ => .error .ub
  skip s n := if n ≤ s.length then .ok (s.drop n) else .error .panic
  sub s n := if n ≤ s.length then .ok (s.take n, s.drop n) else .error .panic
  bytes s n := if n ≤ s.length then some (s.take n, s.drop n) else none

deriving instance DecidableEq for Except

inductive Out (ρ ε α : Type)
  | ok (a : α) (r : ρ)
  | err (e : ε) (r : ρ)
  | fault (f : Fault)
  deriving Repr, DecidableEq

abbrev M (ρ ε α : Type) := ρ → Out ρ ε α

@[inline] def M.bind (m : M ρ ε α) (f : α → M ρ ε β) : M ρ ε β := fun s =>
  match m s with
  | .ok a s' => f a s'
  | .err e s' => .err e s'
  | .fault f => .fault f

instance : Monad (M ρ ε) where
  pure a := fun s => .ok a s
  bind := M.bind

@[simp] theorem bind_apply (m : M ρ ε α) (f : α → M ρ ε β) (s : ρ) :
    (m >>= f) s = match m s with
      | .ok a s' => f a s'
      | .err e s' => .err e s'
      | .fault f => .fault f := rfl

@[simp] theorem pure_apply (a : α) (s : ρ) : (pure a : M ρ ε α) s = .ok a s := rfl

def fail {ρ ε α : Type} (e : ε) : M ρ ε α := fun r => .err e r
@[simp] theorem fail_apply {ρ ε α : Type} (e : ε) (r : ρ) : (fail e : M ρ ε α) r = .err e r := rfl

section prims
variable {ρ : Type} [Rdr ρ] {ε : Type}

def len : M ρ ε Nat := fun r => .ok (Rdr.len r) r

def readU8 : M ρ ε UInt8 := fun r =>
  match Rdr.u8 r with
  | .ok (v, r') => .ok v r'
  | .error f => .fault f
def readU16 : M ρ ε UInt16 := fun r =>
  match Rdr.u16 r with
  | .ok (v, r') => .ok v r'
  | .error f => .fault f
def readU32 : M ρ ε UInt32 := fun r =>
  match Rdr.u32 r with
  | .ok (v, r') => .ok v r'
  | .error f => .fault f
def readU64 : M ρ ε UInt64 := fun r =>
  match Rdr.u64 r with
  | .ok (v, r') => .ok v r'
  | .error f => .fault f
def skip (n : Nat) : M ρ ε Unit := fun r =>
  match Rdr.skip r n with
  | .ok r' => .ok () r'
  | .error f => .fault f
/-- `reader.bytes(n).ok_or(e)?` -/
def readBytes (n : Nat) (e : ε) : M ρ ε Bytes := fun r =>
  match Rdr.bytes r n with
  | some (b, r') => .ok b r'
  | none => .err e r
/-- `reader.bytes(n).map(to_owned).unwrap_or_default()` -/
def readBytesOrEmpty (n : Nat) : M ρ ε Bytes := fun r =>
  match Rdr.bytes r n with
  | some (b, r') => .ok b r'
  | none => .ok [] r

/-- unsigned subtraction as Rust does it: `a - b` underflows when `b > a` (a panic with overflow checks, a
    wrapped value without); the model makes that a fault, so "no arithmetic overflow" is a theorem -/
def subM (a b : Nat) : M ρ ε Nat := fun r => if b ≤ a then .ok (a - b) r else .fault .panic

/-- what the parent sees of a sub-reader run: the value or the error, never the sub-reader's state -/
def subResult {ε' : Type} (o : Out ρ ε α) (r' : ρ) : Out ρ ε' (Except ε α) :=
  match o with
  | .ok a _ => .ok (.ok a) r'
  | .err e _ => .ok (.error e) r'
  | .fault f => .fault f

/-- run `m` on a sub-reader of `n` octets; the parent advances past them whatever `m` does -/
def inSub {ε' : Type} (n : Nat) (m : M ρ ε α) : M ρ ε' (Except ε α) := fun r =>
  match Rdr.sub r n with
  | .ok (s, r') => subResult (m s) r'
  | .error f => .fault f

@[simp] theorem len_apply (r : ρ) : (len : M ρ ε Nat) r = .ok (Rdr.len r) r := rfl
end prims

/-! ### the cursor instance, in simp-normal form -/

@[simp] theorem len_bytes (s : Bytes) : Rdr.len s = s.length := rfl

@[simp] theorem readU8_cons (a : UInt8) (r : Bytes) : (readU8 : M Bytes ε UInt8) (a :: r) = .ok a r := rfl
@[simp] theorem readU16_cons (a b : UInt8) (r : Bytes) :
    (readU16 : M Bytes ε UInt16) (a :: b :: r) = .ok (word16 a b) r := rfl
@[simp] theorem readU32_cons (a b c d : UInt8) (r : Bytes) :
    (readU32 : M Bytes ε UInt32) (a :: b :: c :: d :: r) = .ok (word32 a b c d) r := rfl
@[simp] theorem readU64_cons (a b c d e f g h : UInt8) (r : Bytes) :
    (readU64 : M Bytes ε UInt64) (a :: b :: c :: d :: e :: f :: g :: h :: r) = .ok (word64 a b c d e f g h) r := rfl

theorem skip_ok {s : Bytes} {n : Nat} (h : n ≤ s.length) : (skip n : M Bytes ε Unit) s = .ok () (s.drop n) := by
  simp [skip, Rdr.skip, h]

theorem readBytes_ok {s : Bytes} {n : Nat} (e : ε) (h : n ≤ s.length) :
    (readBytes n e : M Bytes ε Bytes) s = .ok (s.take n) (s.drop n) := by
  simp [readBytes, Rdr.bytes, h]

theorem readBytesOrEmpty_ok {s : Bytes} {n : Nat} (h : n ≤ s.length) :
    (readBytesOrEmpty n : M Bytes ε Bytes) s = .ok (s.take n) (s.drop n) := by
  simp [readBytesOrEmpty, Rdr.bytes, h]

@[simp] theorem M.ite_apply {ρ ε α : Type} (c : Prop) [Decidable c] (a b : M ρ ε α) (s : ρ) :
    (if c then a else b) s = if c then a s else b s := by
  split <;> rfl

theorem subM_ok {ρ ε : Type} {a b : Nat} (h : b ≤ a) (r : ρ) : (subM a b : M ρ ε Nat) r = .ok (a - b) r := by
  simp [subM, h]

theorem readBytes_all (s : Bytes) (e : ε) : (readBytes s.length e : M Bytes ε Bytes) s = .ok s [] := by
  rw [readBytes_ok e (Nat.le_refl _)]; simp

theorem inSub_ok {ε' : Type} {s : Bytes} {n : Nat} (m : M Bytes ε α) (h : n ≤ s.length) :
    (inSub n m : M Bytes ε' (Except ε α)) s = subResult (m (s.take n)) (s.drop n) := by
  simp [inSub, Rdr.sub, h]

/-! ## the writer (`VecWriter`): a byte vector, appends, and one positional overwrite -/

/-- `write_bytes_at`: refuses (the `assert!`) unless the range lies inside the written data -/
def writeAt (w : Bytes) (off : Nat) (bs : Bytes) : Except Fault Bytes :=
  if off + bs.length ≤ w.length then .ok (w.take off ++ bs ++ w.drop (off + bs.length)) else .error .panic

theorem writeAt_length {w bs : Bytes} {off : Nat} {w' : Bytes} (h : writeAt w off bs = .ok w') :
    w'.length = w.length := by
  unfold writeAt at h
  split at h
  · cases h
    simp
    omega
  · cases h

end Rl2tp
