/-
  Model.Cursor: operation sequences over the reference cursor and the reference byte vector (C18).
  Here the model *is* the reference: `SliceReader` must behave as `Bytes` with take/drop, `VecWriter`
  as `Bytes` with append and `writeAt`.
-/
import Rl2tp.Model.Basic
namespace Rl2tp

inductive ROp
  | u8 | u16 | u32 | u64
  | bytes (n : Nat) | skip (n : Nat) | sub (n : Nat)
  deriving Repr, DecidableEq

/-- what one reader operation returns -/
inductive RVal
  | num (n : Nat)
  | octets (b : Bytes)
  | none            -- `bytes(n)` refused
  | unit
  | subreader (b : Bytes)
  deriving Repr, DecidableEq

/-- one operation on the cursor: value and remaining octets, or a fault when the precondition fails -/
def ROp.run (s : Bytes) : ROp → Except Fault (RVal × Bytes)
  | .u8 => (Rdr.u8 s).map fun (v, r) => (.num v.toNat, r)
  | .u16 => (Rdr.u16 s).map fun (v, r) => (.num v.toNat, r)
  | .u32 => (Rdr.u32 s).map fun (v, r) => (.num v.toNat, r)
  | .u64 => (Rdr.u64 s).map fun (v, r) => (.num v.toNat, r)
  | .bytes n => match Rdr.bytes s n with
    | some (b, r) => .ok (.octets b, r)
    | none => .ok (.none, s)
  | .skip n => (Rdr.skip s n).map fun r => (.unit, r)
  | .sub n => (Rdr.sub s n).map fun (b, r) => (.subreader b, r)

/-- run a sequence; stops at the first fault -/
def runOps : Bytes → List ROp → List (RVal × Nat) × Option Fault
  | _, [] => ([], none)
  | s, op :: ops =>
    match op.run s with
    | .error f => ([], some f)
    | .ok (v, r) =>
      let (vs, f) := runOps r ops
      ((v, r.length) :: vs, f)

/-- reader operations with sub-readers that are *used*: `push n` carves a sub-reader of `n` octets and goes on
    inside it while the parent waits, `pop` returns to the parent (at the position behind the carved range). -/
inductive NOp
  | op (o : ROp) | push (n : Nat) | pop
  deriving Repr, DecidableEq

/-- run a nested sequence: current reader, waiting parents; stops at the first fault.  Each step reports the
    value and the number of octets the *current* reader has left. -/
def runNested : Bytes → List Bytes → List NOp → List (RVal × Nat) × Option Fault
  | _, _, [] => ([], none)
  | cur, st, .op o :: ops =>
    match o.run cur with
    | .error f => ([], some f)
    | .ok (v, r) =>
      let (vs, f) := runNested r st ops
      ((v, r.length) :: vs, f)
  | cur, st, .push n :: ops =>
    match Rdr.sub cur n with
    | .error f => ([], some f)
    | .ok (b, r) =>
      let (vs, f) := runNested b (r :: st) ops
      ((.unit, b.length) :: vs, f)
  | _, p :: st, .pop :: ops =>
    let (vs, f) := runNested p st ops
    ((.unit, p.length) :: vs, f)
  | cur, [], .pop :: ops =>
    let (vs, f) := runNested cur [] ops
    ((.unit, cur.length) :: vs, f)

inductive WOp
  | bytes (b : Bytes) | u8 (v : UInt8) | u16 (v : UInt16) | u32 (v : UInt32) | u64 (v : UInt64)
  | at (off : Nat) (b : Bytes)
  deriving Repr, DecidableEq

/-- one writer operation; a refused overwrite leaves the buffer as it was -/
def WOp.run (w : Bytes) : WOp → Bytes × Bool
  | .bytes b => (w ++ b, true)
  | .u8 v => (w ++ [v], true)
  | .u16 v => (w ++ be16 v, true)
  | .u32 v => (w ++ be32 v, true)
  | .u64 v => (w ++ be64 v, true)
  | .at off b => match writeAt w off b with
    | .ok w' => (w', true)
    | .error _ => (w, false)

def runWOps : Bytes → List WOp → List (Bool × Nat) × Bytes
  | w, [] => ([], w)
  | w, op :: ops =>
    let (w', ok) := op.run w
    let (rs, wf) := runWOps w' ops
    ((ok, w'.length) :: rs, wf)

end Rl2tp
