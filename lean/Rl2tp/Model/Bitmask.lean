/-
  Model.Bitmask: the four bitmask AVPs (`framing_capabilities.rs`, `bearer_capabilities.rs`,
  `bearer_type.rs`, `framing_type.rs`): constructor from two booleans and the two accessors.
  "first"/"second" is the accessor *named after* the first/second constructor parameter; that binding
  is read off the Rust signatures:
    FramingCapabilities::new(async_framing_supported, sync_framing_supported)
    BearerCapabilities::new(digital_access_supported, analog_access_supported)
    BearerType::new(analog_request, digital_request)
    FramingType::new(analog_request, digital_request)
-/
import Rl2tp.Model.Types
namespace Rl2tp

inductive MaskKind | framingCapabilities | bearerCapabilities | bearerType | framingType
  deriving Repr, DecidableEq

def bit32 (w : UInt32) (i : Nat) : Bool := w.toNat / 2 ^ i % 2 = 1

def b2n (b : Bool) : Nat := if b then 1 else 0

/-- `K::new(x, y)` as the raw word -/
def MaskKind.new : MaskKind → Bool → Bool → UInt32
  | .framingCapabilities, async, sync => UInt32.ofNat (b2n async * 64 + b2n sync * 128)
  | .bearerCapabilities, digital, analog => UInt32.ofNat (b2n digital * 128 + b2n analog * 64)
  | .bearerType, analog, digital => UInt32.ofNat (b2n analog * 64 + b2n digital * 128)
  | .framingType, analog, digital => UInt32.ofNat (b2n analog * 64 + b2n digital * 128)

/-- accessor named after the first constructor parameter -/
def MaskKind.first : MaskKind → UInt32 → Bool
  | .framingCapabilities, w => bit32 w 6   -- is_async_framing_supported
  | .bearerCapabilities, w => bit32 w 7    -- is_digital_access_supported
  | .bearerType, w => bit32 w 6            -- is_analog_request
  | .framingType, w => bit32 w 6           -- is_analog_request

/-- accessor named after the second constructor parameter -/
def MaskKind.second : MaskKind → UInt32 → Bool
  | .framingCapabilities, w => bit32 w 7   -- is_sync_framing_supported
  | .bearerCapabilities, w => bit32 w 6    -- is_analog_access_supported
  | .bearerType, w => bit32 w 7            -- is_digital_request
  | .framingType, w => bit32 w 7           -- is_digital_request

def MaskKind.toAvp : MaskKind → UInt32 → AVP
  | .framingCapabilities, w => .framingCapabilities w
  | .bearerCapabilities, w => .bearerCapabilities w
  | .bearerType, w => .bearerType w
  | .framingType, w => .framingType w

end Rl2tp
