/-
  Model.Message: the flag word (`message/flags.rs`), `ControlMessage`, `DataMessage`, `Message`.
-/
import Rl2tp.Model.Avp
namespace Rl2tp

/-! ### the flag word — the crate's own bit numbering on the big-endian u16 -/

/-- `Flags::get_bit` -/
def fbit (w : UInt16) (i : Nat) : Bool := w.toNat / 2 ^ i % 2 = 1

def isControl (w : UInt16) : Bool := fbit w 8
def hasLength (w : UInt16) : Bool := fbit w 9
def hasNsNr (w : UInt16) : Bool := fbit w 12
def hasOffset (w : UInt16) : Bool := fbit w 14
def isPrioritized (w : UInt16) : Bool := fbit w 15
/-- `Flags::get_version`: bits 4..7 -/
def version (w : UInt16) : UInt8 := UInt8.ofNat (w.toNat / 16 % 16)
/-- `Flags::reserved_bits_ok`: bits 0,1,2,3,10,11,13 all clear -/
def reservedOk (w : UInt16) : Bool :=
  !fbit w 0 && !fbit w 1 && !fbit w 2 && !fbit w 3 && !fbit w 10 && !fbit w 11 && !fbit w 13

/-- `Flags::new(..)` as a word; `version` is 2 at both call sites -/
def mkFlags (control hasLen hasNsNr hasOff prio : Bool) : UInt16 :=
  UInt16.ofNat ((if control then 256 else 0) + (if hasLen then 512 else 0) + (if hasNsNr then 4096 else 0)
    + (if hasOff then 16384 else 0) + (if prio then 32768 else 0) + 32)

section decode
variable {ρ : Type} [Rdr ρ]

/-- lift a single-error decoder into the message decoder (`map_err(|x| vec![x])`) -/
def liftE (m : M ρ DErr α) : M ρ (List DErr) α := fun r =>
  match m r with
  | .ok a r' => .ok a r'
  | .err e r' => .err [e] r'
  | .fault f => .fault f

def isMessageTypeOk : Res → Bool
  | .ok (.messageType _) => true
  | _ => false

/-- the first-AVP rule of `ControlMessage::try_read` -/
def firstOk : Res → Bool
  | .ok (.messageType _) => true
  | .error (.unknownMessageType _) => true
  | .error (.incompleteAVP t) => t == 0
  | _ => false

/-- the body has a first AVP and it does not pass the first-AVP rule -/
def firstBad : List Res → Bool
  | [] => false
  | first :: _ => !firstOk first

def resErrors (rs : List Res) : List DErr := rs.filterMap fun | .error e => some e | .ok _ => none
def resValues (rs : List Res) : List AVP := rs.filterMap fun | .ok a => some a | .error _ => none

/-- `ControlMessage::try_read` after the unused-field checks -/
def decodeControlCore (w : UInt16) : M ρ (List DErr) Msg := do
  if !hasLength w then fail [.controlMessageWithoutLength] else
  if !hasNsNr w then fail [.controlMessageWithoutNsNr] else
  if (← len) < 10 then fail [.incompleteControlMessageHeader] else
  let length ← readU16
  let tid ← readU16
  let sid ← readU16
  let ns ← readU16
  let nr ← readU16
  if length.toNat < 12 then fail [.incompleteControlMessageHeader] else
  if length.toNat > (← len) + 12 then fail [.incompleteControlMessagePayload] else
  let bodyLength ← subM length.toNat 12              -- `length as usize - FIXED_LENGTH`
  let body ← inSub bodyLength (greedy : M ρ DErr (List Res))
  match body with
  | .error e => fail [e]   -- unreachable: the greedy reader never returns an error itself
  | .ok rs =>
    if firstBad rs then fail [.controlMessageTypeNotFirst] else
    if (resErrors rs) ≠ [] then fail (resErrors rs) else
    pure (.control { length := length, tunnelId := tid, sessionId := sid, ns := ns, nr := nr, avps := resValues rs })

/-- `ControlMessage::try_read`: the unused-field checks (gated by the option), then the rest -/
def decodeControl (w : UInt16) (o : Opts) : M ρ (List DErr) Msg := do
  if o.unused && isPrioritized w then fail [.forbiddenControlMessagePriority] else
  if o.unused && hasOffset w then fail [.forbiddenControlMessageOffset] else
  decodeControlCore w

/-- the fixed fields of a data message, as far as the flag word announces them -/
structure DataHdr where
  mlen : Option UInt16
  tid : UInt16
  sid : UInt16
  nsnr : Option (UInt16 × UInt16)
  off : Option UInt16
  deriving Repr, DecidableEq

/-- `DataMessage::try_read`, first block: the minimum-length guard and the unchecked reads it covers
    (Length, Tunnel ID, Session ID, Ns/Nr, Offset Size — each only if its flag bit is set) -/
def readDataHeader (w : UInt16) : M ρ DErr DataHdr := do
  let minimal := 4 + (if hasLength w then 2 else 0) + (if hasNsNr w then 4 else 0) + (if hasOffset w then 2 else 0)
  if (← len) < minimal then fail .incompleteDataMessageHeader else
  let mlen ← (if hasLength w then do let l ← readU16; pure (some l) else pure none : M ρ DErr (Option UInt16))
  let tid ← readU16
  let sid ← readU16
  let nsnr ← (if hasNsNr w then do let a ← readU16; let b ← readU16; pure (some (a, b)) else pure none
                : M ρ DErr (Option (UInt16 × UInt16)))
  let off ← (if hasOffset w then do let o ← readU16; pure (some o) else pure none : M ρ DErr (Option UInt16))
  pure { mlen := mlen, tid := tid, sid := sid, nsnr := nsnr, off := off }

/-- second block: the offset pad is skipped if it fits -/
def skipOffset : Option UInt16 → M ρ DErr Unit
  | some off => do if (← len) < off.toNat then fail (.invalidOffset off) else skip off.toNat
  | none => pure ()

/-- third block: the payload extent, from the Length field (which counts from the first flag octet)
    or from what remains -/
def readDataPayload (initial : Nat) (w : UInt16) (h : DataHdr) : M ρ DErr Msg := do
  let remaining ← len
  let consumed ← subM initial remaining              -- `initial_length - reader.len()`
  let headerLength := 2 + consumed
  match h.mlen with
  | some l =>
    -- `(length as usize) < header_length || length as usize - header_length > reader.len()`: the
    -- subtraction is only evaluated when the first disjunct is false
    if l.toNat < headerLength then fail .incompleteDataMessagePayload else
    let plen ← subM l.toNat headerLength
    if plen > remaining then fail .incompleteDataMessagePayload else
    if plen = 0 then fail .emptyDataMessagePayload else
    let d ← readBytes plen .messageReadError
    pure (.data { prio := isPrioritized w, length := h.mlen, tunnelId := h.tid, sessionId := h.sid, nsnr := h.nsnr,
                  offset := none, data := d })
  | none =>
    if remaining = 0 then fail .emptyDataMessagePayload else
    let d ← readBytes remaining .messageReadError
    pure (.data { prio := isPrioritized w, length := h.mlen, tunnelId := h.tid, sessionId := h.sid, nsnr := h.nsnr,
                  offset := none, data := d })

/-- `DataMessage::try_read` -/
def decodeData (w : UInt16) : M ρ DErr Msg := do
  let initial ← len
  let h ← readDataHeader w
  skipOffset h.off
  readDataPayload initial w h

/-- `Message::try_read_validate` -/
def decode (o : Opts) : M ρ (List DErr) Msg := do
  if (← len) < 2 then fail [.incompleteFlags] else
  let w ← readU16
  if o.version && version w ≠ 2 then fail [.invalidVersion (version w)] else
  if o.reserved && !reservedOk w then fail [.invalidReservedBits] else
  if isControl w then decodeControl w o else liftE (decodeData w)

/-- `Message::try_read` -/
def decodeDefault : M ρ (List DErr) Msg := decode Opts.default

end decode

/-! ### encoders -/

/-- the AVP loop of `ControlMessage::write` -/
def writeAvps : Bytes → List AVP → Except Fault Bytes
  | w, [] => .ok w
  | w, a :: as =>
    match writeAvp w a with
    | .ok w' => writeAvps w' as
    | .error f => .error f

/-- `ControlMessage::write`: flags, 2 placeholder octets, ids, AVPs, then Length back-patched at the
    captured absolute position -/
def writeControl (w : Bytes) (c : Control) : Except Fault Bytes :=
  let start := w.length
  let w1 := w ++ be16 (mkFlags true true true false false)
  let lengthPos := w1.length
  let w2 := w1 ++ [0, 0] ++ be16 c.tunnelId ++ be16 c.sessionId ++ be16 c.ns ++ be16 c.nr
  match writeAvps w2 c.avps with
  | .error f => .error f
  | .ok w3 =>
    let length := w3.length - start
    if length ≤ 65535 then writeAt w3 lengthPos (be16 (UInt16.ofNat length)) else .error .panic

/-- `DataMessage::write` (appends only) -/
def dataImage (d : Data) : Bytes :=
  be16 (mkFlags false d.length.isSome d.nsnr.isSome d.offset.isSome d.prio)
    ++ (match d.length with | some l => be16 l | none => [])
    ++ be16 d.tunnelId ++ be16 d.sessionId
    ++ (match d.nsnr with | some (a, b) => be16 a ++ be16 b | none => [])
    ++ (match d.offset with | some o => be16 o | none => [])
    ++ d.data

def writeMsg (w : Bytes) : Msg → Except Fault Bytes
  | .control c => writeControl w c
  | .data d => .ok (w ++ dataImage d)

def encode (m : Msg) : Except Fault Bytes := writeMsg [] m

end Rl2tp
