/-
  Model.InPlace: the loops of `AVP::hide` / `AVP::reveal` as the code runs them — in place, on one buffer, with
  slice and index expressions that panic when out of range — rather than as the chunk-list recursions `encChain` /
  `decChain` of `Model.Hide`.

      hide:    input[0..16] ^= MD5(type ‖ secret ‖ RV);   for i in 1..n       { input[i] ^= MD5(secret ‖ input[i-1]) }
      reveal:  for i in (1..n).rev() { data[i] ^= MD5(secret ‖ data[i-1]) };  data[0..16] ^= MD5(type ‖ secret ‖ RV)

  (`x[i]` = the i-th 16-octet chunk.)  `reveal` walks last to first so that chunk i-1 is still ciphertext when its
  digest is taken; `hide` walks first to last so that chunk i-1 is already ciphertext.  `Proofs/InPlace.lean` proves
  that on an aligned buffer neither loop can index out of range and that they compute exactly `decChain` / `encChain`
  — the order of the walk is part of what is proved, not an assumption.

  Granularity: the inner `for j in 0..16 { buf[start + j] ^= key[j] }` is one step (`xorChunkAt`) whose guard is the
  condition under which all sixteen index expressions are in range.
-/
import Rl2tp.Model.Hide
namespace Rl2tp

/-- `&buf[lo..hi]`: panics unless `lo ≤ hi ≤ len` -/
def sliceAt (buf : Bytes) (lo hi : Nat) : Except Fault Bytes :=
  if lo ≤ hi ∧ hi ≤ buf.length then .ok ((buf.drop lo).take (hi - lo)) else .error .panic

/-- `for j in 0..16 { buf[start + j] ^= key[j] }`: every index in range iff `start + 16 ≤ len` and `16 ≤ |key|` -/
def xorChunkAt (buf : Bytes) (start : Nat) (key : Bytes) : Except Fault Bytes :=
  if start + 16 ≤ buf.length ∧ 16 ≤ key.length then
    .ok (buf.take start ++ xorB ((buf.drop start).take 16) (key.take 16) ++ buf.drop (start + 16))
  else .error .panic

section
variable (md5 : Bytes → Bytes)

/-- reveal's `for i in (1..n).rev()`: `revLoop k` runs i = k, k-1, …, 1 -/
def revLoop (secret : Bytes) : Nat → Bytes → Except Fault Bytes
  | 0, buf => .ok buf
  | i + 1, buf =>
    match sliceAt buf (i * 16) (i * 16 + 16) with
    | .error f => .error f
    | .ok prev =>
      match xorChunkAt buf ((i + 1) * 16) (md5 (secret ++ prev)) with
      | .error f => .error f
      | .ok buf' => revLoop secret i buf'

/-- hide's `for i in 1..n`: `fwdLoop i k` runs i, i+1, …, i+k-1 -/
def fwdLoop (secret : Bytes) : Nat → Nat → Bytes → Except Fault Bytes
  | _, 0, buf => .ok buf
  | i, k + 1, buf =>
    match sliceAt buf ((i - 1) * 16) ((i - 1) * 16 + 16) with
    | .error f => .error f
    | .ok prev =>
      match xorChunkAt buf (i * 16) (md5 (secret ++ prev)) with
      | .error f => .error f
      | .ok buf' => fwdLoop secret (i + 1) k buf'

/-- the decryption part of `AVP::reveal` (after the empty / misaligned checks), in place -/
def revealInPlace (t : UInt16) (secret : Bytes) (rv : UInt32) (v : Bytes) : Except Fault Bytes :=
  let n := v.length / 16
  match (if n > 1 then revLoop md5 secret (n - 1) v else .ok v) with
  | .error f => .error f
  | .ok buf => xorChunkAt buf 0 (md5 (be16 t ++ secret ++ be32 rv))

/-- the encryption part of `AVP::hide` (after padding), in place -/
def hideInPlace (attrOctets secret : Bytes) (rv : UInt32) (input : Bytes) : Except Fault Bytes :=
  let n := input.length / 16
  match xorChunkAt input 0 (md5 (attrOctets ++ secret ++ be32 rv)) with
  | .error f => .error f
  | .ok buf => if n > 1 then fwdLoop md5 secret 1 (n - 1) buf else .ok buf

/-- `AVP::reveal` with the decryption done in place (what the driver runs); `Proofs/InPlace.lean`: equal to `reveal` -/
def revealIP (a : AVP) (secret : Bytes) (rv : UInt32) : Except Fault (Except DErr AVP) :=
  match a with
  | .hidden t v =>
    if v.length = 0 then .ok (.error .emptyHiddenAVP) else
    if v.length % 16 ≠ 0 then .ok (.error .misalignedHiddenAVP) else
    match revealInPlace md5 t secret rv v with
    | .error f => .error f
    | .ok plain =>
      match (readU16 : M Bytes DErr UInt16) plain with
      | .ok total rest =>
        if total.toNat < 6 || total.toNat > 1023 then .ok (.error (.invalidOriginalAVPLength total)) else
        match (subM total.toNat 6 : M Bytes DErr Nat) rest with
        | .fault f => .error f
        | .err e _ => .ok (.error e)
        | .ok plen rest =>
          if plen > rest.length then .ok (.error (.invalidOriginalAVPLength total)) else
          match (inSub plen (decodeAvp t) : M Bytes DErr (Except DErr AVP)) rest with
          | .ok r _ => .ok r
          | .err e _ => .ok (.error e)
          | .fault f => .error f
      | .err e _ => .ok (.error e)
      | .fault f => .error f
  | _ => .ok (.ok a)

/-- `AVP::hide` with the encryption done in place -/
def hideIP (a : AVP) (secret : Bytes) (rv : UInt32) (lp ap : Bytes) : Except Fault AVP :=
  if a.isHidden then .ok a else
  let img := a.payload
  let attrOctets := img.take 2
  let length := img.length + 6 - 2
  if length > 1023 then .error .panic else
  let input := be16 (UInt16.ofNat length) ++ img.drop 2 ++ lp
  let padLen := (16 - input.length % 16) % 16
  let input := input ++ ap.take padLen
  match hideInPlace md5 attrOctets secret rv input with
  | .error f => .error f
  | .ok out => .ok (.hidden (word16Of attrOctets) out)

end
end Rl2tp
