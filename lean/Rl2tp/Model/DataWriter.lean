/-
  Model.DataWriter: `Flags::new` and `DataMessage::write` as the code runs them — setter by setter, write by write —
  next to the closed forms `mkFlags` / `dataImage` that the theorems use.  `Proofs/DataWriter.lean` proves them equal.

      Flags::new:  data = 0;  set_type (bit 8 for control);  set_length (9);  set_ns_nr (12);  set_offset (14);
                   set_prioritized (15);  set_version: assert v <= 0xf; data &= 0xff0f; data |= (v & 0xf) << 4
      DataMessage::write:  flags.write;  [Length];  tunnel id;  session id;  [Ns; Nr];  [Offset Size];  data
-/
import Rl2tp.Model.Message
namespace Rl2tp

/-- `Flags::set_bit(i)`: `data |= 1 << i` -/
def setBit (w : UInt16) (i : Nat) : UInt16 := w ||| ((1 : UInt16) <<< UInt16.ofNat i)

/-- `Flags::set_version(v)`: the `assert!` is a fault, then clear the nibble and OR the version in -/
def setVersion (w : UInt16) (v : UInt8) : Except Fault UInt16 :=
  if v.toNat ≤ 0xf then .ok ((w &&& (0xff0f : UInt16)) ||| ((v &&& (0xf : UInt8)).toUInt16 <<< (4 : UInt16))) else .error .panic

/-- `Flags::new(type, has_length, has_ns_nr, has_offset, is_prioritized, version)` -/
def flagsNew (control hasLen hasNsNr hasOff prio : Bool) (v : UInt8) : Except Fault UInt16 :=
  let r : UInt16 := 0
  let r := if control then setBit r 8 else r
  let r := if hasLen then setBit r 9 else r
  let r := if hasNsNr then setBit r 12 else r
  let r := if hasOff then setBit r 14 else r
  let r := if prio then setBit r 15 else r
  setVersion r v

/-- `DataMessage::write(protocol_version = 2, writer)`: a sequence of appends -/
def writeDataSteps (w : Bytes) (d : Data) : Except Fault Bytes :=
  match flagsNew false d.length.isSome d.nsnr.isSome d.offset.isSome d.prio 2 with
  | .error f => .error f
  | .ok flags =>
    let w := w ++ be16 flags                                   -- flags.write
    let w := match d.length with | some l => w ++ be16 l | none => w
    let w := w ++ be16 d.tunnelId
    let w := w ++ be16 d.sessionId
    let w := match d.nsnr with | some (ns, nr) => (w ++ be16 ns) ++ be16 nr | none => w
    let w := match d.offset with | some o => w ++ be16 o | none => w
    .ok (w ++ d.data)

end Rl2tp
