/-
  Model.WriterLog: the encoders again, instrumented with the log of every positional overwrite
  (`write_bytes_at`) they issue: (absolute offset, length).  `*_erase` theorems in Props/C09 show that
  erasing the log gives back the plain encoders, so these are the same functions, observed more closely.
-/
import Rl2tp.Model.Message
namespace Rl2tp

abbrev OwLog := List (Nat × Nat)

def writeAvpL (w : Bytes) (a : AVP) : Except Fault (Bytes × OwLog) :=
  let start := w.length
  let w1 := w ++ [0, 0]
  let w2 := w1 ++ be16 0
  let w3 := w2 ++ a.payload
  let length := w3.length - start
  match makeFlagsAndLength true a.isHidden length with
  | .error f => .error f
  | .ok fl =>
    match writeAt w3 start fl with
    | .ok out => .ok (out, [(start, fl.length)])
    | .error f => .error f

def writeAvpsL : Bytes → List AVP → Except Fault (Bytes × OwLog)
  | w, [] => .ok (w, [])
  | w, a :: as =>
    match writeAvpL w a with
    | .ok (w', l) =>
      (match writeAvpsL w' as with
        | .ok (w'', l') => .ok (w'', l ++ l')
        | .error f => .error f)
    | .error f => .error f

def writeControlL (w : Bytes) (c : Control) : Except Fault (Bytes × OwLog) :=
  let start := w.length
  let w1 := w ++ be16 (mkFlags true true true false false)
  let lengthPos := w1.length
  let w2 := w1 ++ [0, 0] ++ be16 c.tunnelId ++ be16 c.sessionId ++ be16 c.ns ++ be16 c.nr
  match writeAvpsL w2 c.avps with
  | .error f => .error f
  | .ok (w3, l) =>
    let length := w3.length - start
    if length ≤ 65535 then
      match writeAt w3 lengthPos (be16 (UInt16.ofNat length)) with
      | .ok out => .ok (out, l ++ [(lengthPos, 2)])
      | .error f => .error f
    else .error .panic

def writeMsgL (w : Bytes) : Msg → Except Fault (Bytes × OwLog)
  | .control c => writeControlL w c
  | .data d => .ok (w ++ dataImage d, [])

end Rl2tp
