/-
  Model.Types: the values (`AVP`, messages, enumerations with their code tables).
  Fixed-size octet arrays are carried as the big-endian word they denote
  (`[u8;4]` ≅ `UInt32`, `[u8;16]` ≅ `UInt64 × UInt64`): `from_be_bytes` is a bijection, the
  octets on the wire are `be32` / `be64` of the word.  Strings are carried as their UTF-8 octets;
  that they are well-formed is part of `Encodable` (Rust's `String` invariant).
-/
import Rl2tp.Model.Basic
namespace Rl2tp

inductive MessageType
  | startControlConnectionRequest | startControlConnectionReply | startControlConnectionConnected
  | stopControlConnectionNotification | hello | outgoingCallRequest | outgoingCallReply
  | outgoingCallConnected | incomingCallRequest | incomingCallReply | incomingCallConnected
  | callDisconnectNotify | wanErrorNotify | setLinkInfo
  deriving Repr, DecidableEq, Inhabited

/-- `MESSAGE_CODE_TO_TYPE` (the phf map) -/
def MessageType.ofCode (c : UInt16) : Option MessageType :=
  match c.toNat with
  | 1 => some .startControlConnectionRequest
  | 2 => some .startControlConnectionReply
  | 3 => some .startControlConnectionConnected
  | 4 => some .stopControlConnectionNotification
  | 6 => some .hello
  | 7 => some .outgoingCallRequest
  | 8 => some .outgoingCallReply
  | 9 => some .outgoingCallConnected
  | 10 => some .incomingCallRequest
  | 11 => some .incomingCallReply
  | 12 => some .incomingCallConnected
  | 14 => some .callDisconnectNotify
  | 15 => some .wanErrorNotify
  | 16 => some .setLinkInfo
  | _ => none

/-- `MessageType::get_code` -/
def MessageType.toCode : MessageType → UInt16
  | .startControlConnectionRequest => 1
  | .startControlConnectionReply => 2
  | .startControlConnectionConnected => 3
  | .stopControlConnectionNotification => 4
  | .hello => 6
  | .outgoingCallRequest => 7
  | .outgoingCallReply => 8
  | .outgoingCallConnected => 9
  | .incomingCallRequest => 10
  | .incomingCallReply => 11
  | .incomingCallConnected => 12
  | .callDisconnectNotify => 14
  | .wanErrorNotify => 15
  | .setLinkInfo => 16

/-- `result_code::ErrorType`, `#[repr(u16)]` in declaration order (what `num_enum` derives) -/
inductive ErrorType
  | ok | noControlConnectionExists | wrongLength | outOfRangeOrBadReserved | insufficientResources
  | invalidSessionId | generic | tryAnotherDestination | unknownMandatoryAvp
  deriving Repr, DecidableEq, Inhabited

def ErrorType.ofCode (c : UInt16) : Option ErrorType :=
  match c.toNat with
  | 0 => some .ok
  | 1 => some .noControlConnectionExists
  | 2 => some .wrongLength
  | 3 => some .outOfRangeOrBadReserved
  | 4 => some .insufficientResources
  | 5 => some .invalidSessionId
  | 6 => some .generic
  | 7 => some .tryAnotherDestination
  | 8 => some .unknownMandatoryAvp
  | _ => none

def ErrorType.toCode : ErrorType → UInt16
  | .ok => 0 | .noControlConnectionExists => 1 | .wrongLength => 2 | .outOfRangeOrBadReserved => 3
  | .insufficientResources => 4 | .invalidSessionId => 5 | .generic => 6
  | .tryAnotherDestination => 7 | .unknownMandatoryAvp => 8

inductive ProxyAuthenType
  | reserved | textualUserNamePasswordExchange | pppChap | pppPap | noAuthentication
  | microsoftChapVersion1
  deriving Repr, DecidableEq, Inhabited

def ProxyAuthenType.ofCode (c : UInt16) : Option ProxyAuthenType :=
  match c.toNat with
  | 0 => some .reserved
  | 1 => some .textualUserNamePasswordExchange
  | 2 => some .pppChap
  | 3 => some .pppPap
  | 4 => some .noAuthentication
  | 5 => some .microsoftChapVersion1
  | _ => none

def ProxyAuthenType.toCode : ProxyAuthenType → UInt16
  | .reserved => 0 | .textualUserNamePasswordExchange => 1 | .pppChap => 2 | .pppPap => 3
  | .noAuthentication => 4 | .microsoftChapVersion1 => 5

inductive StopCcnCode
  | reserved | generalRequestToClearControlConnection | generalError | controlChannelAlreadyExists
  | requesterNotAuthorizedToEstablishControlChannel | requesterProtocolVersionUnsupported
  | requesterShutdown | fsmError
  deriving Repr, DecidableEq, Inhabited

def StopCcnCode.ofCode (c : UInt16) : Option StopCcnCode :=
  match c.toNat with
  | 0 => some .reserved
  | 1 => some .generalRequestToClearControlConnection
  | 2 => some .generalError
  | 3 => some .controlChannelAlreadyExists
  | 4 => some .requesterNotAuthorizedToEstablishControlChannel
  | 5 => some .requesterProtocolVersionUnsupported
  | 6 => some .requesterShutdown
  | 7 => some .fsmError
  | _ => none

def StopCcnCode.toCode : StopCcnCode → UInt16
  | .reserved => 0 | .generalRequestToClearControlConnection => 1 | .generalError => 2
  | .controlChannelAlreadyExists => 3 | .requesterNotAuthorizedToEstablishControlChannel => 4
  | .requesterProtocolVersionUnsupported => 5 | .requesterShutdown => 6 | .fsmError => 7

inductive CdnCode
  | reserved | callDisconnectedLossOfCarrier | callDisconnectedWithErrorCode
  | callDisconnectedAdministrative | callFailedTemporarilyUnavailable
  | callFailedPermanentlyUnavailable | invalidDestination | callFailedNoCarrier
  | callFailedBusySignal | callFailedNoDialTone | callEstablishTimeout | callNoFramingDetected
  deriving Repr, DecidableEq, Inhabited

def CdnCode.ofCode (c : UInt16) : Option CdnCode :=
  match c.toNat with
  | 0 => some .reserved
  | 1 => some .callDisconnectedLossOfCarrier
  | 2 => some .callDisconnectedWithErrorCode
  | 3 => some .callDisconnectedAdministrative
  | 4 => some .callFailedTemporarilyUnavailable
  | 5 => some .callFailedPermanentlyUnavailable
  | 6 => some .invalidDestination
  | 7 => some .callFailedNoCarrier
  | 8 => some .callFailedBusySignal
  | 9 => some .callFailedNoDialTone
  | 10 => some .callEstablishTimeout
  | 11 => some .callNoFramingDetected
  | _ => none

def CdnCode.toCode : CdnCode → UInt16
  | .reserved => 0 | .callDisconnectedLossOfCarrier => 1 | .callDisconnectedWithErrorCode => 2
  | .callDisconnectedAdministrative => 3 | .callFailedTemporarilyUnavailable => 4
  | .callFailedPermanentlyUnavailable => 5 | .invalidDestination => 6 | .callFailedNoCarrier => 7
  | .callFailedBusySignal => 8 | .callFailedNoDialTone => 9 | .callEstablishTimeout => 10
  | .callNoFramingDetected => 11

/-- `rl2tp::avp::AVP`, one constructor per variant, in the order of the Rust enum -/
inductive AVP
  | messageType (t : MessageType)
  | randomVector (v : UInt32)
  | resultCode (code : UInt16) (error : Option (ErrorType × Option Bytes))
  | protocolVersion (version revision : UInt8)
  | framingCapabilities (w : UInt32)
  | bearerCapabilities (w : UInt32)
  | tieBreaker (v : UInt64)
  | firmwareRevision (v : UInt16)
  | hostName (v : Bytes)
  | vendorName (v : Bytes)
  | assignedTunnelId (v : UInt16)
  | receiveWindowSize (v : UInt16)
  | challenge (v : Bytes)
  | challengeResponse (hi lo : UInt64)
  | q931CauseCode (code : UInt16) (msg : UInt8) (advisory : Option Bytes)
  | assignedSessionId (v : UInt16)
  | callSerialNumber (v : UInt32)
  | minimumBps (v : UInt32)
  | maximumBps (v : UInt32)
  | bearerType (w : UInt32)
  | framingType (w : UInt32)
  | calledNumber (v : Bytes)
  | callingNumber (v : Bytes)
  | subAddress (v : Bytes)
  | txConnectSpeed (v : UInt32)
  | rxConnectSpeed (v : UInt32)
  | physicalChannelId (v : UInt32)
  | privateGroupId (v : Bytes)
  | sequencingRequired
  | initialReceivedLcpConfReq (v : Bytes)
  | lastSentLcpConfReq (v : Bytes)
  | lastReceivedLcpConfReq (v : Bytes)
  | proxyAuthenType (t : ProxyAuthenType)
  | proxyAuthenName (v : Bytes)
  | proxyAuthenChallenge (v : Bytes)
  | proxyAuthenId (v : UInt8)
  | proxyAuthenResponse (v : Bytes)
  | callErrors (crc framing hardware buffer timeout alignment : UInt32)
  | accm (send receive : UInt32)
  | hidden (t : UInt16) (v : Bytes)
  deriving Repr, DecidableEq, Inhabited

structure Control where
  length : UInt16
  tunnelId : UInt16
  sessionId : UInt16
  ns : UInt16
  nr : UInt16
  avps : List AVP
  deriving Repr, DecidableEq

structure Data where
  prio : Bool
  length : Option UInt16
  tunnelId : UInt16
  sessionId : UInt16
  nsnr : Option (UInt16 × UInt16)
  offset : Option UInt16
  data : Bytes
  deriving Repr, DecidableEq

inductive Msg
  | control (c : Control)
  | data (d : Data)
  deriving Repr, DecidableEq

/-- `ValidationOptions` (`true` = `Yes`) -/
structure Opts where
  reserved : Bool
  version : Bool
  unused : Bool
  deriving Repr, DecidableEq

/-- the options `Message::try_read` uses -/
def Opts.default : Opts := { reserved := false, version := true, unused := false }
def Opts.strict : Opts := { reserved := true, version := true, unused := true }

end Rl2tp
