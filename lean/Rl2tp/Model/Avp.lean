/-
  Model.Avp: the 39 payload decoders (`types/*.rs`), the dispatch table, the AVP header,
  the greedy reader, the writers and `get_length` — function by function, same guards, same order
  of reads.  Written once, polymorphic in the reader.
-/
import Rl2tp.Model.Types
import Rl2tp.Spec.Utf8
namespace Rl2tp

open Spec.Utf8 (valid)

section decoders
variable {ρ : Type} [Rdr ρ]

/-! ### the payload shapes (each Rust file is one of these, instantiated) -/

/-- guard `len < 2`, one unchecked u16 -/
def leafU16 (attr : UInt16) (mk : UInt16 → AVP) : M ρ DErr AVP := do
  if (← len) < 2 then fail (.incompleteAVP attr) else
  let v ← readU16
  pure (mk v)

def leafU32 (attr : UInt16) (mk : UInt32 → AVP) : M ρ DErr AVP := do
  if (← len) < 4 then fail (.incompleteAVP attr) else
  let v ← readU32
  pure (mk v)

def leafU64 (attr : UInt16) (mk : UInt64 → AVP) : M ρ DErr AVP := do
  if (← len) < 8 then fail (.incompleteAVP attr) else
  let v ← readU64
  pure (mk v)

/-- first four octets of a slice as the word they denote (`<[u8;4]>::try_from`) -/
def word32Of : Bytes → UInt32
  | a :: b :: c :: d :: _ => word32 a b c d
  | _ => 0

def word64Of : Bytes → UInt64
  | a :: b :: c :: d :: e :: f :: g :: h :: _ => word64 a b c d e f g h
  | _ => 0

/-- guard `len < 4`, then `bytes(4)` (a checked request) converted to `[u8;4]` -/
def leafB4 (attr : UInt16) (mk : UInt32 → AVP) : M ρ DErr AVP := do
  if (← len) < 4 then fail (.incompleteAVP attr) else
  let b ← readBytes 4 (.avpReadError attr)
  pure (mk (word32Of b))

/-- rest of the sub-reader, which must not be empty -/
def leafBytes (attr : UInt16) (mk : Bytes → AVP) : M ρ DErr AVP := do
  if (← len) = 0 then fail (.incompleteAVP attr) else
  let b ← readBytes (← len) (.avpReadError attr)
  pure (mk b)

/-- rest of the sub-reader, non-empty and well-formed UTF-8 -/
def leafStr (attr : UInt16) (mk : Bytes → AVP) : M ρ DErr AVP := do
  if (← len) = 0 then fail (.incompleteAVP attr) else
  let b ← readBytes (← len) (.avpReadError attr)
  if valid b then pure (mk b) else fail (.invalidUtf8 attr)

/-- `MessageType::try_read` -/
def readMessageType : M ρ DErr AVP := do
  if (← len) < 2 then fail (.incompleteAVP 0) else
  let c ← readU16
  match MessageType.ofCode c with
  | some t => pure (.messageType t)
  | none => fail (.unknownMessageType c)

/-- `result_code::Error::try_read` (caller has checked `len >= 2`) -/
def readRcError : M ρ DErr (ErrorType × Option Bytes) := do
  let raw ← readU16
  match ErrorType.ofCode raw with
  | none => fail (.invalidResultCodeErrorType raw)
  | some et =>
    if (← len) ≠ 0 then
      let b ← readBytes (← len) (.avpReadError 1)
      if valid b then pure (et, some b) else fail (.invalidUtf8 1)
    else pure (et, none)

/-- `ResultCode::try_read` -/
def readResultCode : M ρ DErr AVP := do
  if (← len) < 2 then fail (.incompleteAVP 1) else
  let code ← readU16
  if (← len) ≥ 2 then
    let e ← readRcError
    pure (.resultCode code (some e))
  else pure (.resultCode code none)

def readProtocolVersion : M ρ DErr AVP := do
  if (← len) < 2 then fail (.incompleteAVP 2) else
  let v ← readU8
  let r ← readU8
  pure (.protocolVersion v r)

def readQ931 : M ρ DErr AVP := do
  if (← len) < 3 then fail (.incompleteAVP 12) else
  let code ← readU16
  let msg ← readU8
  if (← len) ≠ 0 then
    let b ← readBytes (← len) (.avpReadError 12)
    if valid b then pure (.q931CauseCode code msg (some b)) else fail (.invalidUtf8 12)
  else pure (.q931CauseCode code msg none)

def readChallengeResponse : M ρ DErr AVP := do
  if (← len) < 16 then fail (.incompleteAVP 13) else
  let b ← readBytes 16 (.avpReadError 13)
  pure (.challengeResponse (word64Of b) (word64Of (b.drop 8)))

def readProxyAuthenType : M ρ DErr AVP := do
  if (← len) < 2 then fail (.incompleteAVP 29) else
  let c ← readU16
  match ProxyAuthenType.ofCode c with
  | some t => pure (.proxyAuthenType t)
  | none => fail (.incompleteAVP 29)

def readProxyAuthenId : M ρ DErr AVP := do
  if (← len) < 2 then fail (.incompleteAVP 32) else
  skip 1
  let v ← readU8
  pure (.proxyAuthenId v)

def readCallErrors : M ρ DErr AVP := do
  if (← len) < 26 then fail (.incompleteAVP 34) else
  skip 2
  let a ← readU32
  let b ← readU32
  let c ← readU32
  let d ← readU32
  let e ← readU32
  let f ← readU32
  pure (.callErrors a b c d e f)

def readAccm : M ρ DErr AVP := do
  if (← len) < 10 then fail (.incompleteAVP 35) else
  skip 2
  let s ← readBytes 4 (.avpReadError 35)
  let r ← readBytes 4 (.avpReadError 35)
  pure (.accm (word32Of s) (word32Of r))

/-- `decode_avp`: the 39-way dispatch table -/
def decodeAvp (t : UInt16) : M ρ DErr AVP :=
  match t.toNat with
  | 0 => readMessageType
  | 1 => readResultCode
  | 2 => readProtocolVersion
  | 3 => leafU32 3 .framingCapabilities
  | 4 => leafU32 4 .bearerCapabilities
  | 5 => leafU64 5 .tieBreaker
  | 6 => leafU16 6 .firmwareRevision
  | 7 => leafBytes 7 .hostName
  | 8 => leafStr 8 .vendorName
  | 9 => leafU16 9 .assignedTunnelId
  | 10 => leafU16 10 .receiveWindowSize
  | 11 => leafBytes 11 .challenge
  | 12 => readQ931
  | 13 => readChallengeResponse
  | 14 => leafU16 14 .assignedSessionId
  | 15 => leafU32 15 .callSerialNumber
  | 16 => leafU32 16 .minimumBps
  | 17 => leafU32 17 .maximumBps
  | 18 => leafU32 18 .bearerType
  | 19 => leafU32 19 .framingType
  | 21 => leafStr 21 .calledNumber
  | 22 => leafStr 22 .callingNumber
  | 23 => leafStr 23 .subAddress
  | 24 => leafU32 24 .txConnectSpeed
  | 25 => leafB4 25 .physicalChannelId
  | 26 => leafBytes 26 .initialReceivedLcpConfReq
  | 27 => leafBytes 27 .lastSentLcpConfReq
  | 28 => leafBytes 28 .lastReceivedLcpConfReq
  | 29 => readProxyAuthenType
  | 30 => leafBytes 30 .proxyAuthenName
  | 31 => leafBytes 31 .proxyAuthenChallenge
  | 32 => readProxyAuthenId
  | 33 => leafBytes 33 .proxyAuthenResponse
  | 34 => readCallErrors
  | 35 => readAccm
  | 36 => leafB4 36 .randomVector
  | 37 => leafBytes 37 .privateGroupId
  | 38 => leafU32 38 .rxConnectSpeed
  | 39 => pure .sequencingRequired
  | _ => fail (.unknownAvp t)

/-! ### AVP header and the greedy reader -/

structure Header where
  flags : UInt8          -- octet 1 &&& 0x3f
  payloadLength : UInt16
  vendorId : UInt16
  attributeType : UInt16
  deriving Repr, DecidableEq

def Header.isHidden (h : Header) : Bool := h.flags.toNat / 2 % 2 = 1

/-- `Header::try_read`: `none` = fewer than 6 octets remain (the loop ends);
    `some (error e)` = the length field is below the header size. -/
def readHeader : M ρ DErr (Option (Except DErr Header)) := do
  if (← len) < 6 then pure none else
  let o1 ← readU8
  let o2 ← readU8
  let length : Nat := (o1.toNat / 64) * 256 + o2.toNat
  let vendor ← readU16
  let attr ← readU16
  if length < 6 then pure (some (.error (.invalidAVPLength (UInt16.ofNat length)))) else
  let payloadLength ← subM length 6                -- `length - Self::LENGTH`
  pure (some (.ok { flags := UInt8.ofNat (o1.toNat % 64), payloadLength := UInt16.ofNat payloadLength,
                    vendorId := vendor, attributeType := attr }))

abbrev Res := Except DErr AVP

/-- One iteration of `try_read_greedy`'s loop body after a header was read:
    `(result, continue?)`. -/
def greedyStep (h : Header) : M ρ DErr (Res × Bool) := do
  if h.payloadLength.toNat > (← len) then pure (.error (.invalidAVPLength h.payloadLength), false) else
  if h.vendorId ≠ 0 then
    skip h.payloadLength.toNat
    pure (.error (.unsupportedVendorId h.vendorId), true)
  else if h.isHidden then do
    let b ← readBytesOrEmpty h.payloadLength.toNat
    pure (.ok (.hidden h.attributeType b), true)
  else do
    let res ← inSub h.payloadLength.toNat (decodeAvp h.attributeType)
    pure (res, true)

/-- `AVP::try_read_greedy`, by recursion on fuel; `greedy` supplies `len + 1`, and running out of
    fuel is a `Fault` that `greedy_noFault` shows unreachable (each iteration consumes ≥ 6 octets). -/
def greedyAux : Nat → M ρ DErr (List Res)
  | 0 => fun _ => .fault .fuel
  | fuel + 1 => do
    match ← readHeader with
    | none => pure []
    | some (.error e) => pure [.error e]
    | some (.ok h) =>
      let (res, cont) ← greedyStep h
      if cont then
        let rest ← greedyAux fuel
        pure (res :: rest)
      else pure [res]

def greedy : M ρ DErr (List Res) := fun r => greedyAux (Rdr.len r + 1) r

end decoders

/-! ### writers -/

def AVP.attr : AVP → UInt16
  | .messageType _ => 0 | .resultCode .. => 1 | .protocolVersion .. => 2 | .framingCapabilities _ => 3
  | .bearerCapabilities _ => 4 | .tieBreaker _ => 5 | .firmwareRevision _ => 6 | .hostName _ => 7
  | .vendorName _ => 8 | .assignedTunnelId _ => 9 | .receiveWindowSize _ => 10 | .challenge _ => 11
  | .q931CauseCode .. => 12 | .challengeResponse .. => 13 | .assignedSessionId _ => 14
  | .callSerialNumber _ => 15 | .minimumBps _ => 16 | .maximumBps _ => 17 | .bearerType _ => 18
  | .framingType _ => 19 | .calledNumber _ => 21 | .callingNumber _ => 22 | .subAddress _ => 23
  | .txConnectSpeed _ => 24 | .physicalChannelId _ => 25 | .initialReceivedLcpConfReq _ => 26
  | .lastSentLcpConfReq _ => 27 | .lastReceivedLcpConfReq _ => 28 | .proxyAuthenType _ => 29
  | .proxyAuthenName _ => 30 | .proxyAuthenChallenge _ => 31 | .proxyAuthenId _ => 32
  | .proxyAuthenResponse _ => 33 | .callErrors .. => 34 | .accm .. => 35 | .randomVector _ => 36
  | .privateGroupId _ => 37 | .rxConnectSpeed _ => 38 | .sequencingRequired => 39
  | .hidden t _ => t

/-- the value octets `WritableAVP::write` emits after the attribute type -/
def AVP.value : AVP → Bytes
  | .messageType t => be16 t.toCode
  | .randomVector v => be32 v
  | .resultCode code none => be16 code
  | .resultCode code (some (et, none)) => be16 code ++ be16 et.toCode
  | .resultCode code (some (et, some m)) => be16 code ++ be16 et.toCode ++ m
  | .protocolVersion v r => [v, r]
  | .framingCapabilities w => be32 w
  | .bearerCapabilities w => be32 w
  | .tieBreaker v => be64 v
  | .firmwareRevision v => be16 v
  | .hostName v => v
  | .vendorName v => v
  | .assignedTunnelId v => be16 v
  | .receiveWindowSize v => be16 v
  | .challenge v => v
  | .challengeResponse hi lo => be64 hi ++ be64 lo
  | .q931CauseCode code msg none => be16 code ++ [msg]
  | .q931CauseCode code msg (some a) => be16 code ++ [msg] ++ a
  | .assignedSessionId v => be16 v
  | .callSerialNumber v => be32 v
  | .minimumBps v => be32 v
  | .maximumBps v => be32 v
  | .bearerType w => be32 w
  | .framingType w => be32 w
  | .calledNumber v => v
  | .callingNumber v => v
  | .subAddress v => v
  | .txConnectSpeed v => be32 v
  | .rxConnectSpeed v => be32 v
  | .physicalChannelId v => be32 v
  | .privateGroupId v => v
  | .sequencingRequired => []
  | .initialReceivedLcpConfReq v => v
  | .lastSentLcpConfReq v => v
  | .lastReceivedLcpConfReq v => v
  | .proxyAuthenType t => be16 t.toCode
  | .proxyAuthenName v => v
  | .proxyAuthenChallenge v => v
  | .proxyAuthenId v => [0, v]
  | .proxyAuthenResponse v => v
  | .callErrors a b c d e f => [0, 0] ++ be32 a ++ be32 b ++ be32 c ++ be32 d ++ be32 e ++ be32 f
  | .accm s r => [0, 0] ++ be32 s ++ be32 r
  | .hidden _ v => v

/-- `WritableAVP::write`: attribute type, then the value -/
def AVP.payload (a : AVP) : Bytes := be16 a.attr ++ a.value

/-- `QueryableAVP::get_length` (hand-kept per type in the code; mirrored, not derived from `value`) -/
def AVP.getLength : AVP → Nat
  | .messageType _ => 2
  | .randomVector _ => 4
  | .resultCode _ none => 2
  | .resultCode _ (some (_, none)) => 4
  | .resultCode _ (some (_, some m)) => 4 + m.length
  | .protocolVersion .. => 2
  | .framingCapabilities _ => 4
  | .bearerCapabilities _ => 4
  | .tieBreaker _ => 8
  | .firmwareRevision _ => 2
  | .hostName v => v.length
  | .vendorName v => v.length
  | .assignedTunnelId _ => 2
  | .receiveWindowSize _ => 2
  | .challenge v => v.length
  | .challengeResponse .. => 16
  | .q931CauseCode _ _ none => 3
  | .q931CauseCode _ _ (some a) => 3 + a.length
  | .assignedSessionId _ => 2
  | .callSerialNumber _ => 4
  | .minimumBps _ => 4
  | .maximumBps _ => 4
  | .bearerType _ => 4
  | .framingType _ => 4
  | .calledNumber v => v.length
  | .callingNumber v => v.length
  | .subAddress v => v.length
  | .txConnectSpeed _ => 4
  | .rxConnectSpeed _ => 4
  | .physicalChannelId _ => 4
  | .privateGroupId v => v.length
  | .sequencingRequired => 0
  | .initialReceivedLcpConfReq v => v.length
  | .lastSentLcpConfReq v => v.length
  | .lastReceivedLcpConfReq v => v.length
  | .proxyAuthenType _ => 2
  | .proxyAuthenName v => v.length
  | .proxyAuthenChallenge v => v.length
  | .proxyAuthenId _ => 2
  | .proxyAuthenResponse v => v.length
  | .callErrors .. => 26
  | .accm .. => 10
  | .hidden _ v => v.length

def AVP.isHidden : AVP → Bool
  | .hidden .. => true
  | _ => false

/-- `make_flags_and_length` (asserts `length ≤ 1023`) -/
def makeFlagsAndLength (mandatory hidden : Bool) (length : Nat) : Except Fault Bytes :=
  if length ≤ 1023 then
    .ok [UInt8.ofNat ((length / 256 % 4) * 64 + (if mandatory then 1 else 0) + (if hidden then 2 else 0)),
         UInt8.ofNat (length % 256)]
  else .error .panic

/-- `AVP::write`: placeholder, vendor id, payload, then back-patch flags+length at the captured
    absolute offset -/
def writeAvp (w : Bytes) (a : AVP) : Except Fault Bytes :=
  let start := w.length
  let w1 := w ++ [0, 0]
  let w2 := w1 ++ be16 0
  let w3 := w2 ++ a.payload
  let length := w3.length - start
  match makeFlagsAndLength true a.isHidden length with
  | .error f => .error f
  | .ok fl => writeAt w3 start fl

def encodeAvp (a : AVP) : Except Fault Bytes := writeAvp [] a

/-- every positional overwrite `AVP::write` issues: (offset, length) -/
def writeAvpOverwrites (w : Bytes) (_a : AVP) : List (Nat × Nat) := [(w.length, 2)]

end Rl2tp
