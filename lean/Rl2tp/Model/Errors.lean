/-
  Model.Errors: `avp::avp_name` (the second, hand-kept number → name table) and `impl Display for
  DecodeError` (thiserror), plus the Rust variant name of each AVP kind (what `Debug` prints first).
-/
import Rl2tp.Model.Avp
namespace Rl2tp.Text

def kindName : AVP → String
  | .messageType _ => "MessageType" | .randomVector _ => "RandomVector" | .resultCode .. => "ResultCode"
  | .protocolVersion .. => "ProtocolVersion" | .framingCapabilities _ => "FramingCapabilities"
  | .bearerCapabilities _ => "BearerCapabilities" | .tieBreaker _ => "TieBreaker"
  | .firmwareRevision _ => "FirmwareRevision" | .hostName _ => "HostName" | .vendorName _ => "VendorName"
  | .assignedTunnelId _ => "AssignedTunnelId" | .receiveWindowSize _ => "ReceiveWindowSize"
  | .challenge _ => "Challenge" | .challengeResponse .. => "ChallengeResponse"
  | .q931CauseCode .. => "Q931CauseCode" | .assignedSessionId _ => "AssignedSessionId"
  | .callSerialNumber _ => "CallSerialNumber" | .minimumBps _ => "MinimumBps" | .maximumBps _ => "MaximumBps"
  | .bearerType _ => "BearerType" | .framingType _ => "FramingType" | .calledNumber _ => "CalledNumber"
  | .callingNumber _ => "CallingNumber" | .subAddress _ => "SubAddress" | .txConnectSpeed _ => "TxConnectSpeed"
  | .rxConnectSpeed _ => "RxConnectSpeed" | .physicalChannelId _ => "PhysicalChannelId"
  | .privateGroupId _ => "PrivateGroupId" | .sequencingRequired => "SequencingRequired"
  | .initialReceivedLcpConfReq _ => "InitialReceivedLcpConfReq" | .lastSentLcpConfReq _ => "LastSentLcpConfReq"
  | .lastReceivedLcpConfReq _ => "LastReceivedLcpConfReq" | .proxyAuthenType _ => "ProxyAuthenType"
  | .proxyAuthenName _ => "ProxyAuthenName" | .proxyAuthenChallenge _ => "ProxyAuthenChallenge"
  | .proxyAuthenId _ => "ProxyAuthenId" | .proxyAuthenResponse _ => "ProxyAuthenResponse"
  | .callErrors .. => "CallErrors" | .accm .. => "Accm" | .hidden .. => "Hidden"



/-- `avp::avp_name`: the second, hand-kept number → name table -/
def avpName (t : UInt16) : String :=
  match t.toNat with
  | 0 => "MessageType" | 1 => "ResultCode" | 2 => "ProtocolVersion" | 3 => "FramingCapabilities"
  | 4 => "BearerCapabilities" | 5 => "TieBreaker" | 6 => "FirmwareRevision" | 7 => "HostName"
  | 8 => "VendorName" | 9 => "AssignedTunnelId" | 10 => "ReceiveWindowSize" | 11 => "Challenge"
  | 12 => "Q931CauseCode" | 13 => "ChallengeResponse" | 14 => "AssignedSessionId" | 15 => "CallSerialNumber"
  | 16 => "MinimumBps" | 17 => "MaximumBps" | 18 => "BearerType" | 19 => "FramingType" | 21 => "CalledNumber"
  | 22 => "CallingNumber" | 23 => "SubAddress" | 24 => "TxConnectSpeed" | 25 => "PhysicalChannelId"
  | 26 => "InitialReceivedLcpConfReq" | 27 => "LastSentLcpConfReq" | 28 => "LastReceivedLcpConfReq"
  | 29 => "ProxyAuthenType" | 30 => "ProxyAuthenName" | 31 => "ProxyAuthenChallenge" | 32 => "ProxyAuthenId"
  | 33 => "ProxyAuthenResponse" | 34 => "CallErrors" | 35 => "Accm" | 36 => "RandomVector"
  | 37 => "PrivateGroupId" | 38 => "RxConnectSpeed" | 39 => "SequencingRequired"
  | n => toString n

/-- `impl Display for DecodeError` (thiserror) -/
def display : DErr → String
  | .incompleteAVP t => s!"Incomplete AVP ({avpName t})"
  | .unknownMessageType c => s!"MessageType AVP with unknown message type ({c.toNat})"
  | .invalidUtf8 t => s!"AVP ({avpName t}) with invalid UTF-8 string payload"
  | .invalidResultCodeErrorType c => s!"Unknown error type ({c.toNat}) in ResultCode AVP"
  | .avpReadError t => s!"Read error when parsing AVP ({avpName t})"
  | .invalidAVPLength l => s!"AVP with invalid length ({l.toNat})"
  | .unknownAvp t => s!"AVP with unknown type ({t.toNat})"
  | .emptyHiddenAVP => "Hidden AVP with empty payload"
  | .misalignedHiddenAVP => "Hidden AVP with invalid alignment"
  | .invalidOriginalAVPLength l => s!"Hidden AVP with invalid original length ({l.toNat})"
  | .unsupportedVendorId v => s!"AVP with unsupported vendor ID ({v.toNat}) encountered"
  | .invalidVersion v => s!"Message with invalid version field ({v.toNat})"
  | .invalidReservedBits => "Message with invalid reserved bits"
  | .incompleteFlags => "Message with incomplete flags field"
  | .invalidOffset n => s!"Message with invalid offset ({n.toNat})"
  | .incompleteDataMessageHeader => "Incomplete data message header"
  | .incompleteDataMessagePayload => "Incomplete data message payload"
  | .emptyDataMessagePayload => "Empty data message payload"
  | .messageReadError => "Read error when parsing message"
  | .forbiddenControlMessagePriority => "Control message with forbidden message priority present"
  | .forbiddenControlMessageOffset => "Control message with forbidden offset present"
  | .controlMessageWithoutLength => "Control message without required length field"
  | .controlMessageWithoutNsNr => "Control message without required NsNr field"
  | .incompleteControlMessageHeader => "Incomplete control message header"
  | .incompleteControlMessagePayload => "Incomplete control message payload"
  | .controlMessageTypeNotFirst => "First AVP of control message is not MessageType"


end Rl2tp.Text
