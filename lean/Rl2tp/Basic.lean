def hello := "world"
