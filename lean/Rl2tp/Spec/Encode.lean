/-
  Spec.Encode: the octets of every AVP and message, written from RFC 2661 §3.1, §4.1, §4.4 and the
  crate's bit numbering as one field table: a value is a list of fields, a field is a big-endian
  integer, raw octets, or reserved zero octets.  Mandatory bit always set, vendor id 0, hidden bit only
  on hidden AVPs, reserved octets zero.
-/
import Rl2tp.Model.Types
namespace Rl2tp.Spec

inductive Field
  | u8 (v : UInt8) | u16 (v : UInt16) | u32 (v : UInt32) | u64 (v : UInt64)
  | raw (b : Bytes)
  | reserved (n : Nat)

def Field.emit : Field → Bytes
  | .u8 v => [v]
  | .u16 v => be16 v
  | .u32 v => be32 v
  | .u64 v => be64 v
  | .raw b => b
  | .reserved n => List.replicate n 0

/-- RFC 2661 §4.4: attribute type number and value layout of each AVP -/
def layout : AVP → Nat × List Field
  | .messageType t => (0, [.u16 t.toCode])
  | .resultCode c none => (1, [.u16 c])
  | .resultCode c (some (e, none)) => (1, [.u16 c, .u16 e.toCode])
  | .resultCode c (some (e, some m)) => (1, [.u16 c, .u16 e.toCode, .raw m])
  | .protocolVersion v r => (2, [.u8 v, .u8 r])
  | .framingCapabilities w => (3, [.u32 w])
  | .bearerCapabilities w => (4, [.u32 w])
  | .tieBreaker v => (5, [.u64 v])
  | .firmwareRevision v => (6, [.u16 v])
  | .hostName v => (7, [.raw v])
  | .vendorName v => (8, [.raw v])
  | .assignedTunnelId v => (9, [.u16 v])
  | .receiveWindowSize v => (10, [.u16 v])
  | .challenge v => (11, [.raw v])
  | .q931CauseCode c m none => (12, [.u16 c, .u8 m])
  | .q931CauseCode c m (some a) => (12, [.u16 c, .u8 m, .raw a])
  | .challengeResponse hi lo => (13, [.u64 hi, .u64 lo])
  | .assignedSessionId v => (14, [.u16 v])
  | .callSerialNumber v => (15, [.u32 v])
  | .minimumBps v => (16, [.u32 v])
  | .maximumBps v => (17, [.u32 v])
  | .bearerType w => (18, [.u32 w])
  | .framingType w => (19, [.u32 w])
  | .calledNumber v => (21, [.raw v])
  | .callingNumber v => (22, [.raw v])
  | .subAddress v => (23, [.raw v])
  | .txConnectSpeed v => (24, [.u32 v])
  | .physicalChannelId v => (25, [.u32 v])
  | .initialReceivedLcpConfReq v => (26, [.raw v])
  | .lastSentLcpConfReq v => (27, [.raw v])
  | .lastReceivedLcpConfReq v => (28, [.raw v])
  | .proxyAuthenType t => (29, [.u16 t.toCode])
  | .proxyAuthenName v => (30, [.raw v])
  | .proxyAuthenChallenge v => (31, [.raw v])
  | .proxyAuthenId v => (32, [.reserved 1, .u8 v])
  | .proxyAuthenResponse v => (33, [.raw v])
  | .callErrors a b c d e f => (34, [.reserved 2, .u32 a, .u32 b, .u32 c, .u32 d, .u32 e, .u32 f])
  | .accm s r => (35, [.reserved 2, .u32 s, .u32 r])
  | .randomVector v => (36, [.u32 v])
  | .privateGroupId v => (37, [.raw v])
  | .rxConnectSpeed v => (38, [.u32 v])
  | .sequencingRequired => (39, [])
  | .hidden t v => (t.toNat, [.raw v])

def isHiddenAvp : AVP → Bool
  | .hidden .. => true
  | _ => false

/-- one AVP on the wire -/
def encodeAvp (a : AVP) : Bytes :=
  let value := (layout a).2.flatMap Field.emit
  let n := 6 + value.length
  [UInt8.ofNat (n / 256 % 4 * 64 + 1 + (if isHiddenAvp a then 2 else 0)), UInt8.ofNat (n % 256), 0, 0]
    ++ be16 (UInt16.ofNat (layout a).1) ++ value

/-- a control message: flag word 0x1320 (T, L, S, version 2), Length = total size, ids, Ns, Nr, AVPs -/
def encodeControl (c : Control) : Bytes :=
  let body := c.avps.flatMap encodeAvp
  [0x13, 0x20] ++ be16 (UInt16.ofNat (12 + body.length)) ++ be16 c.tunnelId ++ be16 c.sessionId ++ be16 c.ns ++ be16 c.nr
    ++ body

/-- a data message: flag word from which optional fields are present (L = 0x0200, S = 0x1000,
    O = 0x4000, P = 0x8000, version 2 = 0x0020), then the fields in RFC order, then the payload -/
def encodeData (d : Data) : Bytes :=
  let w : Nat := 0x0020 + (if d.length.isSome then 0x0200 else 0) + (if d.nsnr.isSome then 0x1000 else 0)
    + (if d.offset.isSome then 0x4000 else 0) + (if d.prio then 0x8000 else 0)
  be16 (UInt16.ofNat w)
    ++ (match d.length with | some l => be16 l | none => [])
    ++ be16 d.tunnelId ++ be16 d.sessionId
    ++ (match d.nsnr with | some (ns, nr) => be16 ns ++ be16 nr | none => [])
    ++ (match d.offset with | some o => be16 o | none => [])
    ++ d.data

def encode : Msg → Bytes
  | .control c => encodeControl c
  | .data d => encodeData d

end Rl2tp.Spec
