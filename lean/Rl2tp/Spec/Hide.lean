/-
  Spec.Hide: RFC 2661 §4.3 written from the RFC's formulas, block by index:

      b1 = MD5(AV ‖ S ‖ RV)        c(1) = p(1) xor b1
      b2 = MD5(S ‖ c(1))           c(2) = p(2) xor b2     …     bi = MD5(S ‖ c(i−1)),  c(i) = p(i) xor bi

  (blocks are counted from 0 here).  The plaintext is the 2-octet original-length subfield (as the
  crate fills it: the length of the whole original AVP, 6 + |value|), the original value, the caller's
  length padding, then just enough of the caller's alignment padding to reach a multiple of 16 octets.
  Shares nothing with `Model.Hide` except `Prim` and XOR on octet strings.
-/
import Rl2tp.Prim
import Rl2tp.Spec.Avp
namespace Rl2tp.Spec.Hide

def xor (a k : Bytes) : Bytes := List.zipWith (· ^^^ ·) a k

/-- the i-th 16-octet block of a buffer -/
def block (buf : Bytes) (i : Nat) : Bytes := (buf.drop (16 * i)).take 16

def plaintext (v lp ap : Bytes) : Bytes :=
  be16 (UInt16.ofNat (6 + v.length)) ++ v ++ lp ++ ap.take ((16 - (2 + v.length + lp.length) % 16) % 16)

section
variable (md5 : Bytes → Bytes) (t : UInt16) (s : Bytes) (rv : UInt32)

/-- c(i) -/
def cipherBlock (plain : Bytes) : Nat → Bytes
  | 0 => xor (block plain 0) (md5 (be16 t ++ s ++ be32 rv))
  | i + 1 => xor (block plain (i + 1)) (md5 (s ++ cipherBlock plain i))

/-- the hidden value: c(0) ‖ c(1) ‖ … -/
def hiddenValue (v lp ap : Bytes) : Bytes :=
  let plain := plaintext v lp ap
  ((List.range (plain.length / 16)).map (cipherBlock md5 t s rv plain)).flatten

/-- p(i) recovered from the ciphertext: p(0) = c(0) xor b1, p(i) = c(i) xor MD5(S ‖ c(i−1)) -/
def plainBlock (c : Bytes) : Nat → Bytes
  | 0 => xor (block c 0) (md5 (be16 t ++ s ++ be32 rv))
  | i + 1 => xor (block c (i + 1)) (md5 (s ++ block c i))

def decrypted (c : Bytes) : Bytes := ((List.range (c.length / 16)).map (plainBlock md5 t s rv c)).flatten

/-- the reference for `reveal`: nothing for an empty or misaligned value; otherwise decrypt, read the two-octet
    original length `L` (the whole original AVP in the crate's convention: 6 ≤ L ≤ 1023 and the `L − 6` value octets
    must lie within what follows the subfield), and read those octets by the payload table of the announced type.
    `some a` = the revealed AVP, `none` = refused.  Uses `Spec.parsePayload`, not the model's decoders. -/
def reveal (c : Bytes) : Option AVP :=
  if c.length = 0 ∨ c.length % 16 ≠ 0 then none else
  let plain := decrypted md5 t s rv c
  let l := (Spec.u16At plain 0).toNat
  if l < 6 ∨ l > 1023 ∨ l - 6 > c.length - 2 then none else
  Spec.parsePayload t ((plain.drop 2).take (l - 6))
end

end Rl2tp.Spec.Hide
