/-
  Spec.Md5: RFC 1321 as a plain Lean function (own implementation; the crate uses the `md5` crate).
  The hiding theorems (C11–C13) are parametric in the hash and only need `md5_length`;
  that this function *is* MD5 rests on the RFC 1321 test suite below (kernel-checked) and on the
  differential comparison with the crate's dependency (a test, labelled as a test).
-/
import Rl2tp.Prim
namespace Rl2tp.Spec.Md5

def kTable : List UInt32 := [
  0xd76aa478, 0xe8c7b756, 0x242070db, 0xc1bdceee, 0xf57c0faf, 0x4787c62a, 0xa8304613, 0xfd469501,
  0x698098d8, 0x8b44f7af, 0xffff5bb1, 0x895cd7be, 0x6b901122, 0xfd987193, 0xa679438e, 0x49b40821,
  0xf61e2562, 0xc040b340, 0x265e5a51, 0xe9b6c7aa, 0xd62f105d, 0x02441453, 0xd8a1e681, 0xe7d3fbc8,
  0x21e1cde6, 0xc33707d6, 0xf4d50d87, 0x455a14ed, 0xa9e3e905, 0xfcefa3f8, 0x676f02d9, 0x8d2a4c8a,
  0xfffa3942, 0x8771f681, 0x6d9d6122, 0xfde5380c, 0xa4beea44, 0x4bdecfa9, 0xf6bb4b60, 0xbebfbc70,
  0x289b7ec6, 0xeaa127fa, 0xd4ef3085, 0x04881d05, 0xd9d4d039, 0xe6db99e5, 0x1fa27cf8, 0xc4ac5665,
  0xf4292244, 0x432aff97, 0xab9423a7, 0xfc93a039, 0x655b59c3, 0x8f0ccc92, 0xffeff47d, 0x85845dd1,
  0x6fa87e4f, 0xfe2ce6e0, 0xa3014314, 0x4e0811a1, 0xf7537e82, 0xbd3af235, 0x2ad7d2bb, 0xeb86d391]

def sTable : List UInt32 := [
  7, 12, 17, 22, 7, 12, 17, 22, 7, 12, 17, 22, 7, 12, 17, 22,
  5, 9, 14, 20, 5, 9, 14, 20, 5, 9, 14, 20, 5, 9, 14, 20,
  4, 11, 16, 23, 4, 11, 16, 23, 4, 11, 16, 23, 4, 11, 16, 23,
  6, 10, 15, 21, 6, 10, 15, 21, 6, 10, 15, 21, 6, 10, 15, 21]

def rotl (x n : UInt32) : UInt32 := (x <<< n) ||| (x >>> (32 - n))

def le32 (x : UInt32) : Bytes :=
  [UInt8.ofNat (x.toNat % 256), UInt8.ofNat (x.toNat / 256 % 256),
   UInt8.ofNat (x.toNat / 65536 % 256), UInt8.ofNat (x.toNat / 16777216)]

def le64 (n : Nat) : Bytes :=
  (List.range 8).map fun i => UInt8.ofNat (n / 256 ^ i % 256)

def wordLE (a b c d : UInt8) : UInt32 :=
  UInt32.ofNat (a.toNat + 256 * (b.toNat + 256 * (c.toNat + 256 * d.toNat)))

/-- the sixteen little-endian words of a 64-octet block -/
def words : Bytes → List UInt32
  | a :: b :: c :: d :: r => wordLE a b c d :: words r
  | _ => []

structure St where
  a : UInt32
  b : UInt32
  c : UInt32
  d : UInt32

def step (m : List UInt32) (s : St) (i : Nat) : St :=
  let (f, g) :=
    if i < 16 then ((s.b &&& s.c) ||| (~~~ s.b &&& s.d), i)
    else if i < 32 then ((s.d &&& s.b) ||| (~~~ s.d &&& s.c), (5 * i + 1) % 16)
    else if i < 48 then (s.b ^^^ s.c ^^^ s.d, (3 * i + 5) % 16)
    else (s.c ^^^ (s.b ||| ~~~ s.d), (7 * i) % 16)
  let f' := f + s.a + kTable.getD i 0 + m.getD g 0
  { a := s.d, d := s.c, c := s.b, b := s.b + rotl f' (sTable.getD i 0) }

def block (s : St) (chunk : Bytes) : St :=
  let m := words chunk
  let t := (List.range 64).foldl (step m) s
  { a := s.a + t.a, b := s.b + t.b, c := s.c + t.c, d := s.d + t.d }

def pad (m : Bytes) : Bytes :=
  m ++ [0x80] ++ List.replicate ((119 - m.length % 64) % 64) 0 ++ le64 (8 * m.length)

/-- fold over the 64-octet blocks; `fuel` bounds the number of blocks -/
def blocks : Nat → St → Bytes → St
  | 0, s, _ => s
  | fuel + 1, s, bs => if bs.length < 64 then s else blocks fuel (block s (bs.take 64)) (bs.drop 64)

def md5 (m : Bytes) : Bytes :=
  let p := pad m
  let s := blocks (p.length / 64 + 1) { a := 0x67452301, b := 0xefcdab89, c := 0x98badcfe, d := 0x10325476 } p
  le32 s.a ++ le32 s.b ++ le32 s.c ++ le32 s.d

theorem md5_length (m : Bytes) : (md5 m).length = 16 := by
  simp [md5, le32]

def hexDigit (n : Nat) : Char := if n < 10 then Char.ofNat (48 + n) else Char.ofNat (87 + n)
def toHex (b : Bytes) : String := String.ofList (b.flatMap fun x => [hexDigit (x.toNat / 16), hexDigit (x.toNat % 16)])

/-! RFC 1321, appendix A.5 test suite — kernel-checked -/
example : md5 [] = [0xd4,0x1d,0x8c,0xd9,0x8f,0x00,0xb2,0x04,0xe9,0x80,0x09,0x98,0xec,0xf8,0x42,0x7e] := by decide +kernel
example : md5 [0x61] = [0x0c,0xc1,0x75,0xb9,0xc0,0xf1,0xb6,0xa8,0x31,0xc3,0x99,0xe2,0x69,0x77,0x26,0x61] := by decide +kernel
example : md5 [0x61,0x62,0x63] = [0x90,0x01,0x50,0x98,0x3c,0xd2,0x4f,0xb0,0xd6,0x96,0x3f,0x7d,0x28,0xe1,0x7f,0x72] := by decide +kernel
example : md5 [0x6d,0x65,0x73,0x73,0x61,0x67,0x65,0x20,0x64,0x69,0x67,0x65,0x73,0x74] = [0xf9,0x6b,0x69,0x7d,0x7c,0xb7,0x93,0x8d,0x52,0x5a,0x2f,0x31,0xaa,0xf1,0x61,0xd0] := by decide +kernel

end Rl2tp.Spec.Md5
