/-
  Spec.Avp: the 39 AVP payload formats of RFC 2661 §4.4 as one table, read by position
  (`u16At p i` = the big-endian u16 at octet offset `i`), no cursor, no monad.  A format ignores surplus
  octets unless it says "rest".  `none` = the payload is not a value of that attribute type.
  Then the AVP framing of §4.1 with the crate's bit numbering: octet 0 = LLxx xxHM (length bits 8..9 in
  bits 6..7, H = bit 1, M = bit 0), octet 1 = length bits 0..7, vendor id, attribute type.
-/
import Rl2tp.Model.Types
import Rl2tp.Spec.Utf8
namespace Rl2tp.Spec

def u8At (s : Bytes) (i : Nat) : UInt8 := s.getD i 0
def u16At (s : Bytes) (i : Nat) : UInt16 := word16 (s.getD i 0) (s.getD (i + 1) 0)
def u32At (s : Bytes) (i : Nat) : UInt32 := word32 (s.getD i 0) (s.getD (i + 1) 0) (s.getD (i + 2) 0) (s.getD (i + 3) 0)
def u64At (s : Bytes) (i : Nat) : UInt64 :=
  word64 (s.getD i 0) (s.getD (i + 1) 0) (s.getD (i + 2) 0) (s.getD (i + 3) 0)
    (s.getD (i + 4) 0) (s.getD (i + 5) 0) (s.getD (i + 6) 0) (s.getD (i + 7) 0)

/-- at least `n` octets, then `mk` of the payload -/
def fixed (n : Nat) (p : Bytes) (mk : Bytes → AVP) : Option AVP := if p.length < n then none else some (mk p)
/-- the whole payload, which must not be empty -/
def restBytes (p : Bytes) (mk : Bytes → AVP) : Option AVP := if p.length = 0 then none else some (mk p)
/-- the whole payload, non-empty and well-formed UTF-8 -/
def restText (p : Bytes) (mk : Bytes → AVP) : Option AVP :=
  if p.length = 0 then none else if Utf8.valid p then some (mk p) else none

/-- RFC 2661 §4.4, attribute type → payload format -/
def parsePayload (t : UInt16) (p : Bytes) : Option AVP :=
  match t.toNat with
  | 0 => if p.length < 2 then none else (MessageType.ofCode (u16At p 0)).map .messageType
  | 1 =>
    if p.length < 2 then none
    else if p.length < 4 then some (.resultCode (u16At p 0) none)      -- code only (a stray octet is ignored)
    else match ErrorType.ofCode (u16At p 2) with
      | none => none
      | some et =>
        if p.length = 4 then some (.resultCode (u16At p 0) (some (et, none)))
        else if Utf8.valid (p.drop 4) then some (.resultCode (u16At p 0) (some (et, some (p.drop 4)))) else none
  | 2 => fixed 2 p fun p => .protocolVersion (u8At p 0) (u8At p 1)
  | 3 => fixed 4 p fun p => .framingCapabilities (u32At p 0)
  | 4 => fixed 4 p fun p => .bearerCapabilities (u32At p 0)
  | 5 => fixed 8 p fun p => .tieBreaker (u64At p 0)
  | 6 => fixed 2 p fun p => .firmwareRevision (u16At p 0)
  | 7 => restBytes p .hostName
  | 8 => restText p .vendorName
  | 9 => fixed 2 p fun p => .assignedTunnelId (u16At p 0)
  | 10 => fixed 2 p fun p => .receiveWindowSize (u16At p 0)
  | 11 => restBytes p .challenge
  | 12 =>
    if p.length < 3 then none
    else if p.length = 3 then some (.q931CauseCode (u16At p 0) (u8At p 2) none)
    else if Utf8.valid (p.drop 3) then some (.q931CauseCode (u16At p 0) (u8At p 2) (some (p.drop 3))) else none
  | 13 => fixed 16 p fun p => .challengeResponse (u64At p 0) (u64At p 8)
  | 14 => fixed 2 p fun p => .assignedSessionId (u16At p 0)
  | 15 => fixed 4 p fun p => .callSerialNumber (u32At p 0)
  | 16 => fixed 4 p fun p => .minimumBps (u32At p 0)
  | 17 => fixed 4 p fun p => .maximumBps (u32At p 0)
  | 18 => fixed 4 p fun p => .bearerType (u32At p 0)
  | 19 => fixed 4 p fun p => .framingType (u32At p 0)
  | 21 => restText p .calledNumber
  | 22 => restText p .callingNumber
  | 23 => restText p .subAddress
  | 24 => fixed 4 p fun p => .txConnectSpeed (u32At p 0)
  | 25 => fixed 4 p fun p => .physicalChannelId (u32At p 0)
  | 26 => restBytes p .initialReceivedLcpConfReq
  | 27 => restBytes p .lastSentLcpConfReq
  | 28 => restBytes p .lastReceivedLcpConfReq
  | 29 => if p.length < 2 then none else (ProxyAuthenType.ofCode (u16At p 0)).map .proxyAuthenType
  | 30 => restBytes p .proxyAuthenName
  | 31 => restBytes p .proxyAuthenChallenge
  | 32 => fixed 2 p fun p => .proxyAuthenId (u8At p 1)                       -- octet 0 reserved
  | 33 => restBytes p .proxyAuthenResponse
  | 34 => fixed 26 p fun p =>                                                  -- octets 0..1 reserved
      .callErrors (u32At p 2) (u32At p 6) (u32At p 10) (u32At p 14) (u32At p 18) (u32At p 22)
  | 35 => fixed 10 p fun p => .accm (u32At p 2) (u32At p 6)                  -- octets 0..1 reserved
  | 36 => fixed 4 p fun p => .randomVector (u32At p 0)
  | 37 => restBytes p .privateGroupId
  | 38 => fixed 4 p fun p => .rxConnectSpeed (u32At p 0)
  | 39 => some .sequencingRequired
  | _ => none

/-- the 10-bit length an AVP announces -/
def avpLen (s : Bytes) : Nat := (u8At s 0).toNat / 64 * 256 + (u8At s 1).toNat

/-- the AVPs of a control-message body, element-wise: a value, or `none` for a record that is not one
    (vendor-specific, undecodable, unusable length — the latter ends the list).  A tail shorter than a
    header is ignored.  `fuel` bounds the number of records (`length + 1` always suffices). -/
def avps : Nat → Bytes → List (Option AVP)
  | 0, _ => []
  | fuel + 1, s =>
    if s.length < 6 then []
    else if avpLen s < 6 ∨ avpLen s > s.length then [none]
    else
      let payload := (s.drop 6).take (avpLen s - 6)
      let r := if u16At s 2 ≠ 0 then none
        else if (u8At s 0).toNat / 2 % 2 = 1 then some (.hidden (u16At s 4) payload)
        else parsePayload (u16At s 4) payload
      r :: avps fuel (s.drop (avpLen s))

end Rl2tp.Spec
