/-
  Spec.Utf8: well-formed UTF-8 octet sequences, transcribed from the Unicode standard, table 3-7.
  Models `std::str::from_utf8(..).is_ok()`; agreement with Rust is checked exhaustively for all
  strings of up to 3 octets and on generated / boundary 4-octet strings (correspondence, `utf8` ops).
-/
import Rl2tp.Prim
namespace Rl2tp.Spec.Utf8

def inRange (lo hi b : UInt8) : Bool := lo ≤ b && b ≤ hi
def cont (b : UInt8) : Bool := inRange 0x80 0xBF b

def valid : Bytes → Bool
  | [] => true
  | a :: rest =>
    if a ≤ 0x7F then valid rest
    else if inRange 0xC2 0xDF a then
      match rest with
      | b :: r => cont b && valid r
      | _ => false
    else if a == 0xE0 then
      match rest with
      | b :: c :: r => inRange 0xA0 0xBF b && cont c && valid r
      | _ => false
    else if inRange 0xE1 0xEC a || inRange 0xEE 0xEF a then
      match rest with
      | b :: c :: r => cont b && cont c && valid r
      | _ => false
    else if a == 0xED then
      match rest with
      | b :: c :: r => inRange 0x80 0x9F b && cont c && valid r
      | _ => false
    else if a == 0xF0 then
      match rest with
      | b :: c :: d :: r => inRange 0x90 0xBF b && cont c && cont d && valid r
      | _ => false
    else if inRange 0xF1 0xF3 a then
      match rest with
      | b :: c :: d :: r => cont b && cont c && cont d && valid r
      | _ => false
    else if a == 0xF4 then
      match rest with
      | b :: c :: d :: r => inRange 0x80 0x8F b && cont c && cont d && valid r
      | _ => false
    else false

example : valid [0x61, 0xC3, 0xA9, 0xE2, 0x82, 0xAC, 0xF0, 0x90, 0x8D, 0x88] = true := by decide
example : valid [0xC0, 0x80] = false := by decide
example : valid [0xED, 0xA0, 0x80] = false := by decide
example : valid [0xF4, 0x90, 0x80, 0x80] = false := by decide

end Rl2tp.Spec.Utf8
