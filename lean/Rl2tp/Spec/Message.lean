/-
  Spec.Message: the L2TPv2 message layout of RFC 2661 §3.1 as this crate lays it out on the wire, read by position
  and by mask from the octets themselves.  Shares nothing with the model (no import of `Model/*` beyond the value
  types that come with `Spec.Avp`).

  Flag octets as they arrive (the crate numbers bits from the least significant end of each octet):

      octet 0:  P O r S r r L T        T = 0x01  L = 0x02  S = 0x10  O = 0x40  P = 0x80   reserved = 0x2C
      octet 1:  v v v v r r r r        version = high nibble                             reserved = 0x0F

  `decode` answers `some (message, octets consumed)` or `none`.

  Decisions of this specification where the pinned code had no defined behaviour (DESIGN.md §4/C05):
  a control Length below 12 or beyond the input is rejected; a data Length smaller than the header it
  must cover (pad included), or larger than the input, is rejected; an empty data payload is rejected;
  an AVP whose 10-bit length is below 6 or beyond the body makes the message invalid; 1..5 octets left
  after the last AVP are ignored.
-/
import Rl2tp.Spec.Avp
namespace Rl2tp.Spec

/-! ### the two flag octets, by mask -/

def bitT (x : UInt8) : Bool := x &&& 0x01 != 0
def bitL (x : UInt8) : Bool := x &&& 0x02 != 0
def bitS (x : UInt8) : Bool := x &&& 0x10 != 0
def bitO (x : UInt8) : Bool := x &&& 0x40 != 0
def bitP (x : UInt8) : Bool := x &&& 0x80 != 0
/-- the version nibble -/
def ver (y : UInt8) : UInt8 := y >>> 4
/-- no reserved bit is set in either flag octet -/
def reservedClear (x y : UInt8) : Bool := x &&& 0x2C == 0 && y &&& 0x0F == 0

/-- octets of the fixed data-message fields after the flag word: ids, and Length / Ns,Nr / Offset Size
    when their bit is set -/
def headerSize (x : UInt8) : Nat :=
  4 + (if bitL x then 2 else 0) + (if bitS x then 4 else 0) + (if bitO x then 2 else 0)

/-- a data message with first flag octet `x`; `s` = the octets after the flag word, the count returned is relative to `s` -/
def dataMessage (x : UInt8) (s : Bytes) : Option (Msg × Nat) :=
  let need := headerSize x
  if s.length < need then none else
  let idPos := if bitL x then 2 else 0
  let pad := if bitO x then (u16At s (need - 2)).toNat else 0
  if s.length - need < pad then none else
  let start := need + pad                        -- where the payload begins
  let nsnr := if bitS x then some (u16At s (idPos + 4), u16At s (idPos + 6)) else none
  if bitL x then
    let l := (u16At s 0).toNat                   -- counts from the first flag octet
    if l < 2 + start ∨ l - (2 + start) > s.length - start ∨ l = 2 + start then none
    else some (.data { prio := bitP x, length := some (u16At s 0), tunnelId := u16At s idPos,
                       sessionId := u16At s (idPos + 2), nsnr := nsnr, offset := none,
                       data := (s.drop start).take (l - (2 + start)) }, l - 2)
  else
    if s.length = start then none
    else some (.data { prio := bitP x, length := none, tunnelId := u16At s idPos,
                       sessionId := u16At s (idPos + 2), nsnr := nsnr, offset := none,
                       data := s.drop start }, s.length)

/-- all records are values and the first one, if any, is a Message Type -/
def acceptAvps (rs : List (Option AVP)) : Option (List AVP) :=
  if rs.any (·.isNone) then none else
  match rs with
  | [] => some []
  | some (.messageType _) :: _ => some (rs.filterMap id)
  | _ => none

/-- a control message with first flag octet `x`; `s` = the octets after the flag word -/
def controlMessage (x : UInt8) (o : Opts) (s : Bytes) : Option (Msg × Nat) :=
  if o.unused ∧ (bitP x ∨ bitO x) then none else
  if ¬ bitL x ∨ ¬ bitS x then none else
  if s.length < 10 then none else
  let l := (u16At s 0).toNat
  if l < 12 ∨ l > s.length + 2 then none else
  let body := (s.drop 10).take (l - 12)
  match acceptAvps (avps (body.length + 1) body) with
  | none => none
  | some as =>
    -- Length, Tunnel ID, Session ID, Ns, Nr: five big-endian u16 in this order
    some (.control (Control.mk (u16At s 0) (u16At s 2) (u16At s 4) (u16At s 6) (u16At s 8) as), l - 2)

/-- `some (message, octets consumed)` iff the input starts with a valid message under the options -/
def decode (o : Opts) (b : Bytes) : Option (Msg × Nat) :=
  if b.length < 2 then none else
  let x := u8At b 0
  let y := u8At b 1
  if o.version ∧ ver y ≠ 2 then none else
  if o.reserved ∧ ¬ reservedClear x y then none else
  (if bitT x then controlMessage x o (b.drop 2) else dataMessage x (b.drop 2)).map fun p => (p.1, p.2 + 2)

end Rl2tp.Spec
