/-
  Driver.Text: the canonical text form of values, errors and results (DESIGN.md appendix B.5),
  the same one the Rust harness prints.  Parsers reject what they do not understand (`none`), they
  never default.
-/
import Rl2tp.Model.Message
import Rl2tp.Model.Hide
import Rl2tp.Model.Errors
namespace Rl2tp.Text

def hexDigit (n : Nat) : Char := if n < 10 then Char.ofNat (48 + n) else Char.ofNat (87 + n)

def hex (b : Bytes) : String :=
  if b.isEmpty then "." else
  String.ofList (b.flatMap fun x => [hexDigit (x.toNat / 16), hexDigit (x.toNat % 16)])

def nibble (c : Char) : Option Nat :=
  if '0' ≤ c ∧ c ≤ '9' then some (c.toNat - 48)
  else if 'a' ≤ c ∧ c ≤ 'f' then some (c.toNat - 87)
  else none

def unhexList : List Char → Option Bytes
  | [] => some []
  | h :: l :: rest => do
    let a ← nibble h
    let b ← nibble l
    let r ← unhexList rest
    pure (UInt8.ofNat (a * 16 + b) :: r)
  | _ => none

def unhex (s : String) : Option Bytes := if s == "." then some [] else unhexList s.toList

def nat? (s : String) : Option Nat := s.toNat?
def u8? (s : String) : Option UInt8 := do let n ← s.toNat?; if n < 256 then some (UInt8.ofNat n) else none
def u16? (s : String) : Option UInt16 := do let n ← s.toNat?; if n < 65536 then some (UInt16.ofNat n) else none
def u32? (s : String) : Option UInt32 := do let n ← s.toNat?; if n < 4294967296 then some (UInt32.ofNat n) else none
def u64? (s : String) : Option UInt64 := do let n ← s.toNat?; if n < 18446744073709551616 then some (UInt64.ofNat n) else none

/-! ### enumerations: the Rust `Debug` names -/

def MessageType.all : List (MessageType × String) := [
  (.startControlConnectionRequest, "StartControlConnectionRequest"),
  (.startControlConnectionReply, "StartControlConnectionReply"),
  (.startControlConnectionConnected, "StartControlConnectionConnected"),
  (.stopControlConnectionNotification, "StopControlConnectionNotification"),
  (.hello, "Hello"),
  (.outgoingCallRequest, "OutgoingCallRequest"),
  (.outgoingCallReply, "OutgoingCallReply"),
  (.outgoingCallConnected, "OutgoingCallConnected"),
  (.incomingCallRequest, "IncomingCallRequest"),
  (.incomingCallReply, "IncomingCallReply"),
  (.incomingCallConnected, "IncomingCallConnected"),
  (.callDisconnectNotify, "CallDisconnectNotify"),
  (.wanErrorNotify, "WanErrorNotify"),
  (.setLinkInfo, "SetLinkInfo")]

def ErrorType.all : List (ErrorType × String) := [
  (.ok, "Ok"), (.noControlConnectionExists, "NoControlConnectionExists"), (.wrongLength, "WrongLength"),
  (.outOfRangeOrBadReserved, "OutOfRangeOrBadReserved"), (.insufficientResources, "InsufficientResources"),
  (.invalidSessionId, "InvalidSessionId"), (.generic, "Generic"),
  (.tryAnotherDestination, "TryAnotherDestination"), (.unknownMandatoryAvp, "UnknownMandatoryAvp")]

def ProxyAuthenType.all : List (ProxyAuthenType × String) := [
  (.reserved, "Reserved"), (.textualUserNamePasswordExchange, "TextualUserNamePasswordExchange"),
  (.pppChap, "PppChap"), (.pppPap, "PppPap"), (.noAuthentication, "NoAuthentication"),
  (.microsoftChapVersion1, "MicrosoftChapVersion1")]

def StopCcnCode.all : List (StopCcnCode × String) := [
  (.reserved, "Reserved"), (.generalRequestToClearControlConnection, "GeneralRequestToClearControlConnection"),
  (.generalError, "GeneralError"), (.controlChannelAlreadyExists, "ControlChannelAlreadyExists"),
  (.requesterNotAuthorizedToEstablishControlChannel, "RequesterNotAuthorizedToEstablishControlChannel"),
  (.requesterProtocolVersionUnsupported, "RequesterProtocolVersionUnsupported"),
  (.requesterShutdown, "RequesterShutdown"), (.fsmError, "FsmError")]

def CdnCode.all : List (CdnCode × String) := [
  (.reserved, "Reserved"), (.callDisconnectedLossOfCarrier, "CallDisconnectedLossOfCarrier"),
  (.callDisconnectedWithErrorCode, "CallDisconnectedWithErrorCode"),
  (.callDisconnectedAdministrative, "CallDisconnectedAdministrative"),
  (.callFailedTemporarilyUnavailable, "CallFailedTemporarilyUnavailable"),
  (.callFailedPermanentlyUnavailable, "CallFailedPermanentlyUnavailable"),
  (.invalidDestination, "InvalidDestination"), (.callFailedNoCarrier, "CallFailedNoCarrier"),
  (.callFailedBusySignal, "CallFailedBusySignal"), (.callFailedNoDialTone, "CallFailedNoDialTone"),
  (.callEstablishTimeout, "CallEstablishTimeout"), (.callNoFramingDetected, "CallNoFramingDetected")]

def nameOf [DecidableEq α] (all : List (α × String)) (x : α) : String :=
  match all.find? (·.1 == x) with
  | some p => p.2
  | none => "?"

def ofName (all : List (α × String)) (s : String) : Option α := (all.find? (·.2 == s)).map (·.1)

/-! ### AVP terms -/

def optHex : Option Bytes → String
  | none => "-"
  | some b => hex b

def optUnhex (s : String) : Option (Option Bytes) := if s == "-" then some none else (unhex s).map some

def avpArgs : AVP → List String
  | .messageType t => [nameOf MessageType.all t]
  | .randomVector v => [hex (be32 v)]
  | .resultCode c none => [toString c.toNat, "-", "-"]
  | .resultCode c (some (et, m)) => [toString c.toNat, nameOf ErrorType.all et, optHex m]
  | .protocolVersion v r => [toString v.toNat, toString r.toNat]
  | .framingCapabilities w | .bearerCapabilities w | .bearerType w | .framingType w => [toString w.toNat]
  | .tieBreaker v => [toString v.toNat]
  | .firmwareRevision v | .assignedTunnelId v | .receiveWindowSize v | .assignedSessionId v => [toString v.toNat]
  | .callSerialNumber v | .minimumBps v | .maximumBps v | .txConnectSpeed v | .rxConnectSpeed v => [toString v.toNat]
  | .hostName v | .vendorName v | .challenge v | .calledNumber v | .callingNumber v | .subAddress v
  | .privateGroupId v | .initialReceivedLcpConfReq v | .lastSentLcpConfReq v | .lastReceivedLcpConfReq v
  | .proxyAuthenName v | .proxyAuthenChallenge v | .proxyAuthenResponse v => [hex v]
  | .challengeResponse hi lo => [hex (be64 hi ++ be64 lo)]
  | .q931CauseCode c m a => [toString c.toNat, toString m.toNat, optHex a]
  | .physicalChannelId v => [hex (be32 v)]
  | .sequencingRequired => []
  | .proxyAuthenType t => [nameOf ProxyAuthenType.all t]
  | .proxyAuthenId v => [toString v.toNat]
  | .callErrors a b c d e f => [a, b, c, d, e, f].map (toString ·.toNat)
  | .accm s r => [hex (be32 s), hex (be32 r)]
  | .hidden t v => [toString t.toNat, hex v]

def renderAvp (a : AVP) : String := kindName a ++ "(" ++ ",".intercalate (avpArgs a) ++ ")"

def b4? (s : String) : Option UInt32 := do
  let b ← unhex s
  if b.length = 4 then some (word32Of b) else none

def b16? (s : String) : Option (UInt64 × UInt64) := do
  let b ← unhex s
  if b.length = 16 then some (word64Of b, word64Of (b.drop 8)) else none

def splitArgs (inner : String) : List String := if inner.isEmpty then [] else inner.splitOn ","

/-- `Kind(arg,..)`; string-valued fields must be well-formed UTF-8 (Rust `String`) -/
def parseAvp (s : String) : Option AVP := do
  let cs := s.toList
  let i ← cs.findIdx? (· == '(')
  if cs.getLast? ≠ some ')' then none
  let kind := String.ofList (cs.take i)
  let inner := String.ofList ((cs.drop (i + 1)).dropLast)
  let a := splitArgs inner
  let str? (x : String) : Option Bytes := do
    let b ← unhex x
    if Spec.Utf8.valid b then some b else none
  let optStr? (x : String) : Option (Option Bytes) :=
    if x == "-" then some none else (str? x).map some
  match kind, a with
  | "MessageType", [x] => (ofName MessageType.all x).map .messageType
  | "RandomVector", [x] => (b4? x).map .randomVector
  | "ResultCode", [c, e, m] => do
    let c ← u16? c
    if e == "-" then (if m == "-" then some (.resultCode c none) else none)
    else do
      let et ← ofName ErrorType.all e
      let m ← optStr? m
      some (.resultCode c (some (et, m)))
  | "ProtocolVersion", [v, r] => do some (.protocolVersion (← u8? v) (← u8? r))
  | "FramingCapabilities", [x] => (u32? x).map .framingCapabilities
  | "BearerCapabilities", [x] => (u32? x).map .bearerCapabilities
  | "BearerType", [x] => (u32? x).map .bearerType
  | "FramingType", [x] => (u32? x).map .framingType
  | "TieBreaker", [x] => (u64? x).map .tieBreaker
  | "FirmwareRevision", [x] => (u16? x).map .firmwareRevision
  | "AssignedTunnelId", [x] => (u16? x).map .assignedTunnelId
  | "ReceiveWindowSize", [x] => (u16? x).map .receiveWindowSize
  | "AssignedSessionId", [x] => (u16? x).map .assignedSessionId
  | "CallSerialNumber", [x] => (u32? x).map .callSerialNumber
  | "MinimumBps", [x] => (u32? x).map .minimumBps
  | "MaximumBps", [x] => (u32? x).map .maximumBps
  | "TxConnectSpeed", [x] => (u32? x).map .txConnectSpeed
  | "RxConnectSpeed", [x] => (u32? x).map .rxConnectSpeed
  | "HostName", [x] => (unhex x).map .hostName
  | "Challenge", [x] => (unhex x).map .challenge
  | "InitialReceivedLcpConfReq", [x] => (unhex x).map .initialReceivedLcpConfReq
  | "LastSentLcpConfReq", [x] => (unhex x).map .lastSentLcpConfReq
  | "LastReceivedLcpConfReq", [x] => (unhex x).map .lastReceivedLcpConfReq
  | "ProxyAuthenName", [x] => (unhex x).map .proxyAuthenName
  | "ProxyAuthenChallenge", [x] => (unhex x).map .proxyAuthenChallenge
  | "ProxyAuthenResponse", [x] => (unhex x).map .proxyAuthenResponse
  | "PrivateGroupId", [x] => (unhex x).map .privateGroupId
  | "VendorName", [x] => (str? x).map .vendorName
  | "CalledNumber", [x] => (str? x).map .calledNumber
  | "CallingNumber", [x] => (str? x).map .callingNumber
  | "SubAddress", [x] => (str? x).map .subAddress
  | "Q931CauseCode", [c, m, a] => do some (.q931CauseCode (← u16? c) (← u8? m) (← optStr? a))
  | "ChallengeResponse", [x] => (b16? x).map fun p => .challengeResponse p.1 p.2
  | "PhysicalChannelId", [x] => (b4? x).map .physicalChannelId
  | "ProxyAuthenType", [x] => (ofName ProxyAuthenType.all x).map .proxyAuthenType
  | "ProxyAuthenId", [x] => (u8? x).map .proxyAuthenId
  | "CallErrors", [a, b, c, d, e, f] => do
    some (.callErrors (← u32? a) (← u32? b) (← u32? c) (← u32? d) (← u32? e) (← u32? f))
  | "Accm", [s, r] => do some (.accm (← b4? s) (← b4? r))
  | "SequencingRequired", [] => some .sequencingRequired
  | "Hidden", [t, v] => do some (.hidden (← u16? t) (← unhex v))
  | _, _ => none

/-! ### messages -/

def optU16 : Option UInt16 → String
  | none => "-"
  | some v => toString v.toNat

def renderMsg : Msg → String
  | .control c =>
    "C(" ++ ",".intercalate [toString c.length.toNat, toString c.tunnelId.toNat, toString c.sessionId.toNat,
      toString c.ns.toNat, toString c.nr.toNat] ++ ")[" ++ ";".intercalate (c.avps.map renderAvp) ++ "]"
  | .data d =>
    "D(" ++ ",".intercalate [if d.prio then "1" else "0", optU16 d.length, toString d.tunnelId.toNat,
      toString d.sessionId.toNat,
      (match d.nsnr with | none => "-" | some (a, b) => toString a.toNat ++ "." ++ toString b.toNat),
      optU16 d.offset, hex d.data] ++ ")"

def optU16? (s : String) : Option (Option UInt16) := if s == "-" then some none else (u16? s).map some

def parseMsg (s : String) : Option Msg := do
  let cs := s.toList
  match cs with
  | 'C' :: '(' :: rest =>
    let i ← rest.findIdx? (· == ')')
    let f := (String.ofList (rest.take i)).splitOn ","
    let tail := rest.drop (i + 1)
    match f, tail with
    | [l, t, sid, ns, nr], '[' :: body =>
      if body.getLast? ≠ some ']' then none
      let inner := String.ofList body.dropLast
      let avps ← (if inner.isEmpty then some [] else (inner.splitOn ";").mapM parseAvp)
      some (.control { length := ← u16? l, tunnelId := ← u16? t, sessionId := ← u16? sid, ns := ← u16? ns,
                       nr := ← u16? nr, avps := avps })
    | _, _ => none
  | 'D' :: '(' :: rest =>
    if rest.getLast? ≠ some ')' then none
    let f := (String.ofList rest.dropLast).splitOn ","
    match f with
    | [p, l, t, sid, nsnr, off, d] =>
      let prio ← (if p == "1" then some true else if p == "0" then some false else none)
      let nsnr ← (if nsnr == "-" then some none else
        match nsnr.splitOn "." with
        | [a, b] => do some (some ((← u16? a), (← u16? b)))
        | _ => none)
      some (.data { prio := prio, length := ← optU16? l, tunnelId := ← u16? t, sessionId := ← u16? sid,
                    nsnr := nsnr, offset := ← optU16? off, data := ← unhex d })
    | _ => none
  | _ => none

/-! ### errors -/

def renderErr : DErr → String
  | .incompleteAVP t => s!"IncompleteAVP({t.toNat})"
  | .unknownMessageType c => s!"UnknownMessageType({c.toNat})"
  | .invalidUtf8 t => s!"InvalidUtf8({t.toNat})"
  | .invalidResultCodeErrorType c => s!"InvalidResultCodeErrorType({c.toNat})"
  | .avpReadError t => s!"AVPReadError({t.toNat})"
  | .invalidAVPLength l => s!"InvalidAVPLength({l.toNat})"
  | .unknownAvp t => s!"UnknownAvp({t.toNat})"
  | .emptyHiddenAVP => "EmptyHiddenAVP"
  | .misalignedHiddenAVP => "MisalignedHiddenAVP"
  | .invalidOriginalAVPLength l => s!"InvalidOriginalAVPLength({l.toNat})"
  | .unsupportedVendorId v => s!"UnsupportedVendorId({v.toNat})"
  | .invalidVersion v => s!"InvalidVersion({v.toNat})"
  | .invalidReservedBits => "InvalidReservedBits"
  | .incompleteFlags => "IncompleteFlags"
  | .invalidOffset n => s!"InvalidOffset({n.toNat})"
  | .incompleteDataMessageHeader => "IncompleteDataMessageHeader"
  | .incompleteDataMessagePayload => "IncompleteDataMessagePayload"
  | .emptyDataMessagePayload => "EmptyDataMessagePayload"
  | .messageReadError => "MessageReadError"
  | .forbiddenControlMessagePriority => "ForbiddenControlMessagePriority"
  | .forbiddenControlMessageOffset => "ForbiddenControlMessageOffset"
  | .controlMessageWithoutLength => "ControlMessageWithoutLength"
  | .controlMessageWithoutNsNr => "ControlMessageWithoutNsNr"
  | .incompleteControlMessageHeader => "IncompleteControlMessageHeader"
  | .incompleteControlMessagePayload => "IncompleteControlMessagePayload"
  | .controlMessageTypeNotFirst => "ControlMessageTypeNotFirst"

def parseErr (s : String) : Option DErr := do
  let cs := s.toList
  match cs.findIdx? (· == '(') with
  | none =>
    match s with
    | "EmptyHiddenAVP" => some .emptyHiddenAVP
    | "MisalignedHiddenAVP" => some .misalignedHiddenAVP
    | "InvalidReservedBits" => some .invalidReservedBits
    | "IncompleteFlags" => some .incompleteFlags
    | "IncompleteDataMessageHeader" => some .incompleteDataMessageHeader
    | "IncompleteDataMessagePayload" => some .incompleteDataMessagePayload
    | "EmptyDataMessagePayload" => some .emptyDataMessagePayload
    | "MessageReadError" => some .messageReadError
    | "ForbiddenControlMessagePriority" => some .forbiddenControlMessagePriority
    | "ForbiddenControlMessageOffset" => some .forbiddenControlMessageOffset
    | "ControlMessageWithoutLength" => some .controlMessageWithoutLength
    | "ControlMessageWithoutNsNr" => some .controlMessageWithoutNsNr
    | "IncompleteControlMessageHeader" => some .incompleteControlMessageHeader
    | "IncompleteControlMessagePayload" => some .incompleteControlMessagePayload
    | "ControlMessageTypeNotFirst" => some .controlMessageTypeNotFirst
    | _ => none
  | some i =>
    if cs.getLast? ≠ some ')' then none
    let name := String.ofList (cs.take i)
    let arg := String.ofList ((cs.drop (i + 1)).dropLast)
    match name with
    | "IncompleteAVP" => (u16? arg).map .incompleteAVP
    | "UnknownMessageType" => (u16? arg).map .unknownMessageType
    | "InvalidUtf8" => (u16? arg).map .invalidUtf8
    | "InvalidResultCodeErrorType" => (u16? arg).map .invalidResultCodeErrorType
    | "AVPReadError" => (u16? arg).map .avpReadError
    | "InvalidAVPLength" => (u16? arg).map .invalidAVPLength
    | "UnknownAvp" => (u16? arg).map .unknownAvp
    | "InvalidOriginalAVPLength" => (u16? arg).map .invalidOriginalAVPLength
    | "UnsupportedVendorId" => (u16? arg).map .unsupportedVendorId
    | "InvalidVersion" => (u8? arg).map .invalidVersion
    | "InvalidOffset" => (u16? arg).map .invalidOffset
    | _ => none

def renderErrs (es : List DErr) : String := "[" ++ ";".intercalate (es.map renderErr) ++ "]"

def renderRes : Res → String
  | .ok a => renderAvp a
  | .error e => "!" ++ renderErr e

def renderResList (rs : List Res) : String := "[" ++ ";".intercalate (rs.map renderRes) ++ "]"

def renderFault : Fault → String
  | .ub => "fault ub" | .panic => "fault panic" | .fuel => "fault fuel"

def underscore (s : String) : String := String.ofList (s.toList.map fun c => if c == ' ' then '_' else c)

def parseOpts (s : String) : Option Opts :=
  match s.toList with
  | [r, v, u] =>
    let b (c : Char) : Option Bool := if c == '1' then some true else if c == '0' then some false else none
    do some { reserved := ← b r, version := ← b v, unused := ← b u }
  | _ => none

end Rl2tp.Text
