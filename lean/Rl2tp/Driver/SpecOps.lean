/-
  Driver.SpecOps: the specification's side of the correspondence (`rl2tp_driver spec`).
  Ops the specification does not define are answered `n/a` (skipped by the comparison).
-/
import Rl2tp.Driver.Ops
namespace Rl2tp.Driver

def specAnswer (_line : String) : String := "n/a"

end Rl2tp.Driver
