/-
  Driver.SpecOps: the specification's side of the correspondence (`rl2tp_driver spec`).
  Ops the specification does not define are answered `n/a` (skipped by the comparison).
-/
import Rl2tp.Driver.Ops
import Rl2tp.Spec.Hide
namespace Rl2tp.Driver
open Rl2tp.Text

/-- `hide` through `Spec.Hide.hiddenValue` (own MD5): non-hidden argument that fits; else the model's
    trivial branches are not the specification's business -/
def specRun (f : List String) : Option String :=
  match f with
  | ["hide", a, s, rv, lp, ap] => do
    let a ← parseAvp a
    let ap ← unhex ap
    if ap.length ≠ 16 then none
    if a.isHidden then some "n/a" else
    if 6 + a.value.length > 1023 then some "panic" else
    let v := Spec.Hide.hiddenValue Spec.Md5.md5 a.attr (← unhex s) (← b4? rv) a.value (← unhex lp) ap
    some (renderAvp (.hidden a.attr v))
  | ["md5", b] => do some (hex (Spec.Md5.md5 (← unhex b)))
  | _ => some "n/a"

def specAnswer (line : String) : String :=
  match specRun (line.splitOn " ") with
  | some s => s
  | none => "bad-op"

end Rl2tp.Driver
