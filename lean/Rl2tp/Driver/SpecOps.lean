/-
  Driver.SpecOps: the specification's side of the correspondence (`rl2tp_driver spec`).
  Ops the specification does not define are answered `n/a` (skipped by the comparison).
-/
import Rl2tp.Driver.Ops
import Rl2tp.Spec.Hide
import Rl2tp.Spec.Message
import Rl2tp.Spec.Encode
namespace Rl2tp.Driver
open Rl2tp.Text

/-- `hide` through `Spec.Hide.hiddenValue` (own MD5): non-hidden argument that fits; else the model's
    trivial branches are not the specification's business -/
def specRun (f : List String) : Option String :=
  match f with
  | ["hide", a, s, rv, lp, ap] => do
    let a ← parseAvp a
    let ap ← unhex ap
    if ap.length ≠ 16 then none
    if a.isHidden then some "n/a" else
    if 6 + a.value.length > 1023 then some "panic" else
    let v := Spec.Hide.hiddenValue Spec.Md5.md5 a.attr (← unhex s) (← b4? rv) a.value (← unhex lp) ap
    some (renderAvp (.hidden a.attr v))
  | ["md5", b] => do some (hex (Spec.Md5.md5 (← unhex b)))
  | ["dec", o, b] => do
    let b ← unhex b
    some (match Spec.decode (← parseOpts o) b with
      | some (m, n) => "ok " ++ renderMsg m ++ " rem=" ++ toString (b.length - n)
      | none => "err")
  | ["decd", b] => do
    let b ← unhex b
    some (match Spec.decode Opts.default b with
      | some (m, n) => "ok " ++ renderMsg m ++ " rem=" ++ toString (b.length - n)
      | none => "err")
  | ["avps", b] => do
    let b ← unhex b
    some ("[" ++ ";".intercalate ((Spec.avps (b.length + 1) b).map fun
      | some a => renderAvp a
      | none => "!") ++ "]")
  | ["pay", t, b] => do
    some (match Spec.parsePayload (← u16? t) (← unhex b) with
      | some a => renderAvp a
      | none => "!")
  | ["enc", p, m] => do
    -- within the wire limits (each AVP ≤ 1023, control message ≤ 65535) the octets are the specified ones
    let p ← unhex p
    let m ← parseMsg m
    let fits := match m with
      | .control c => c.avps.all (fun a => (Spec.encodeAvp a).length ≤ 1023) && (Spec.encodeControl c).length ≤ 65535
      | .data _ => true
    some (if fits then "ok " ++ hex (p ++ Spec.encode m) else "panic")
  | ["enca", p, a] => do
    let p ← unhex p
    let a ← parseAvp a
    some (if (Spec.encodeAvp a).length ≤ 1023 then "ok " ++ hex (p ++ Spec.encodeAvp a) else "panic")
  | ["utf8", b] => do some (if Spec.Utf8.valid (← unhex b) then "1" else "0")
  | ["reveal", a, s, rv] => do
    -- RFC 2661 §4.3 decryption (`Spec.Hide.decrypted`), then the format table on the announced octets
    let a ← parseAvp a
    let s ← unhex s
    let rv ← b4? rv
    match a with
    | .hidden t v =>
      -- the named reference (`C12.reveal_eq_reference`: the model's `reveal` equals it)
      some (match Spec.Hide.reveal Spec.Md5.md5 t s rv v with
        | some x => renderAvp x
        | none => "!")
    | _ => some "n/a"
  | _ => some "n/a"

def specAnswer (line : String) : String :=
  match specRun (line.splitOn " ") with
  | some s => s
  | none => "bad-op"

end Rl2tp.Driver
