/-
  Driver.Ops: one case line in, one answer line out — the model's side of the correspondence.
  Every op mirrors the op of the same name in /verif/harness/src/ops.rs (the `R` part of its answer).
  A line that does not parse is answered `bad-op`, never defaulted.
-/
import Rl2tp.Driver.Text
import Rl2tp.Model.Bitmask
import Rl2tp.Model.Cursor
import Rl2tp.Model.WriterLog
import Rl2tp.Model.InPlace
import Rl2tp.Model.DataWriter
import Rl2tp.Spec.Md5
namespace Rl2tp.Driver
open Rl2tp.Text

def md5 := Spec.Md5.md5

def showDec (o : Out Bytes (List DErr) Msg) : String :=
  match o with
  | .ok m r => "ok " ++ renderMsg m ++ " rem=" ++ toString r.length
  | .err es _ => "err " ++ renderErrs es
  | .fault f => renderFault f

def dec (o : Opts) (b : Bytes) : Out Bytes (List DErr) Msg := decode o b

def showAvps (o : Out Bytes DErr (List Res)) : String :=
  match o with
  | .ok rs r => renderResList rs ++ " rem=" ++ toString r.length
  | .err e _ => "err " ++ renderErr e
  | .fault f => renderFault f

def avps (b : Bytes) : Out Bytes DErr (List Res) := greedy b

def owText (l : List (Nat × Nat)) : String :=
  "[" ++ ";".intercalate (l.map fun (o, n) => toString o ++ "+" ++ toString n) ++ "]"

/-- what the driver runs for a message: data messages through the write-by-write model (`writeDataSteps`,
    = `writeMsg` by `writeDataSteps_eq`), control messages through the logging encoder -/
def runMsgL (p : Bytes) : Msg → Except Fault (Bytes × OwLog)
  | .data d => (writeDataSteps p d).map fun w => (w, [])
  | m => writeMsgL p m

def runMsg (p : Bytes) : Msg → Except Fault Bytes
  | .data d => writeDataSteps p d
  | m => writeMsg p m

def encMsgText (p : Bytes) (m : Msg) : String :=
  match runMsgL p m with
  | .error _ => "panic"
  | .ok (w, ow) => "ok " ++ hex w ++ " ow=" ++ owText ow

def encAvpText (p : Bytes) (a : AVP) : String :=
  (match writeAvpL p a with
    | .error _ => "panic"
    | .ok (w, ow) => "ok " ++ hex w ++ " ow=" ++ owText ow) ++ " len=" ++ toString a.getLength

def strictDec (b : Bytes) := dec Opts.strict b

def hasDeclaredLen : Msg → Bool
  | .control _ => true
  | .data d => d.length.isSome

def declaredLen : Msg → Nat
  | .control c => c.length.toNat
  | .data d => (d.length.getD 0).toNat

def revealText (r : Except Fault (Except DErr AVP)) : String :=
  match r with
  | .error _ => "panic"
  | .ok (.ok a) => renderAvp a
  | .ok (.error e) => "!" ++ renderErr e

def parseROp (s : String) : Option ROp :=
  match s with
  | "u8" => some .u8 | "u16" => some .u16 | "u32" => some .u32 | "u64" => some .u64
  | _ =>
    match s.toList with
    | 'b' :: n => (String.ofList n).toNat?.map .bytes
    | 'k' :: n => (String.ofList n).toNat?.map .skip
    | 's' :: n => (String.ofList n).toNat?.map .sub
    | _ => none

def parseNOp (s : String) : Option NOp :=
  match s.toList with
  | 'P' :: n => (String.ofList n).toNat?.map .push
  | ['Q'] => some .pop
  | _ => (parseROp s).map .op

def rdText (data : Bytes) (names : List String) (ops : List NOp) : String :=
  let (vs, f) := runNested data [] ops
  let one (nm : String) (op : NOp) (vn : RVal × Nat) : String :=
    let (v, n) := vn
    match op with
    | .push _ | .pop => nm ++ "=ok:" ++ toString n ++ "/" ++ (if n = 0 then "1" else "0")
    | .op _ =>
      match v with
      | .none => nm ++ "=none:" ++ toString n
      | .num k => nm ++ "=" ++ toString k ++ ":" ++ toString n
      | .octets b => nm ++ "=" ++ hex b ++ ":" ++ toString n
      | .unit => nm ++ "=ok:" ++ toString n
      | .subreader b => nm ++ "=" ++ hex b ++ "/" ++ toString b.length ++ "/" ++ (if b.isEmpty then "1" else "0") ++ ":" ++ toString n
  let rec zip3 : List String → List NOp → List (RVal × Nat) → List String
    | nm :: nms, op :: ops, vn :: vns => one nm op vn :: zip3 nms ops vns
    | _, _, _ => []
  let shown := zip3 names ops vs
  let shown := match f with
    | none => shown
    | some _ => shown ++ [(names.getD vs.length "?") ++ "=fault"]
  ";".intercalate shown

def parseWOp (s : String) : Option WOp :=
  match s.splitOn ":" with
  | [name, arg] =>
    match name with
    | "w" => (unhex arg).map .bytes
    | "u8" => (u8? arg).map .u8
    | "u16" => (u16? arg).map .u16
    | "u32" => (u32? arg).map .u32
    | "u64" => (u64? arg).map .u64
    | _ =>
      match name.toList with
      | 'a' :: 't' :: n => do some (.at (← (String.ofList n).toNat?) (← unhex arg))
      | _ => none
  | _ => none

def wrText (ops : List WOp) : String :=
  let (rs, w) := runWOps [] ops
  ";".intercalate (rs.map fun (ok, n) => (if ok then "ok:" else "refused:") ++ toString n ++ ":" ++ (if n = 0 then "1" else "0"))
    ++ " data=" ++ hex w

def maskKind? : String → Option MaskKind
  | "FramingCapabilities" => some .framingCapabilities
  | "BearerCapabilities" => some .bearerCapabilities
  | "BearerType" => some .bearerType
  | "FramingType" => some .framingType
  | _ => none

def u16At (b : Bytes) (i : Nat) : Option Nat :=
  match b.drop i with
  | x :: y :: _ => some (x.toNat * 256 + y.toNat)
  | _ => none

/-- decode a one-record body and show `field:re-encoded code` -/
def codeVia (body : Bytes) (field : AVP → String) (at_ : Nat) : String :=
  match avps body with
  | .ok [r] _ =>
    (match r with
    | .ok a =>
      let re := match encodeAvp a with
        | .ok d => (match u16At d at_ with | some n => toString n | none => "panic")
        | .error _ => "panic"
      field a ++ ":" ++ re
    | .error e => "!" ++ renderErr e)
  | _ => "panic"

def zeroOnes : Bytes := (List.range 16).flatMap fun _ => [0, 1]

def allOpts : List Opts :=
  [false, true].flatMap fun r => [false, true].flatMap fun v => [false, true].map fun u =>
    { reserved := r, version := v, unused := u }

def utf8all (k : Nat) : String :=
  let total := 256 ^ k
  let rec go (fuel i : Nat) (count h : Nat) : Nat × Nat :=
    match fuel with
    | 0 => (count, h)
    | fuel + 1 =>
      let bs : Bytes := (List.range k).map fun j => UInt8.ofNat (i / 256 ^ (k - 1 - j) % 256)
      let ok := if Spec.Utf8.valid bs then 1 else 0
      go fuel (i + 1) (count + ok) ((h * 31 + ok + 1) % 1000000007)
  let (c, h) := go total 0 0 0
  toString c ++ ":" ++ toString h

def namedText : String :=
  let mt := MessageType.all.map fun (t, n) =>
    n ++ "=" ++ (match encodeAvp (.messageType t) with
      | .ok d => (match u16At d 6 with | some x => toString x | none => "?")
      | .error _ => "?")
  let et := ErrorType.all.map fun (t, n) => n ++ "=" ++ toString t.toCode.toNat
  let pt := ProxyAuthenType.all.map fun (t, n) => n ++ "=" ++ toString t.toCode.toNat
  let sc := (List.range 16).flatMap fun x =>
    (match StopCcnCode.ofCode (UInt16.ofNat x) with
      | some c => ["StopCcn." ++ nameOf StopCcnCode.all c ++ "=" ++ toString c.toCode.toNat]
      | none => []) ++
    (match CdnCode.ofCode (UInt16.ofNat x) with
      | some c => ["Cdn." ++ nameOf CdnCode.all c ++ "=" ++ toString c.toCode.toNat]
      | none => [])
  ",".intercalate (mt ++ et ++ pt ++ sc)

def run (f : List String) : Option String :=
  match f with
  | ["dec", o, b] => do some (showDec (dec (← parseOpts o) (← unhex b)))
  | ["decd", b] => do some (showDec (decodeDefault (← unhex b)))
  | ["avps", b] => do some (showAvps (avps (← unhex b)))
  | ["pay", t, b] => do
    let t ← u16? t
    let b ← unhex b
    some (match (decodeAvp t : M Bytes DErr AVP) b with
      | .ok a _ => renderAvp a
      | .err e _ => "!" ++ renderErr e
      | .fault f => renderFault f)
  | ["enc", p, m] => do some (encMsgText (← unhex p) (← parseMsg m))
  | ["enca", p, a] => do some (encAvpText (← unhex p) (← parseAvp a))
  | ["rt", m] => do
    let m ← parseMsg m
    some (match encode m with
      | .error _ => "enc=panic"
      | .ok d => "enc=" ++ hex d ++ " dec=" ++ showDec (strictDec d))
  | ["rtp", p, m] => do
    let p ← unhex p
    let m ← parseMsg m
    some (match runMsg p m with
      | .error _ => "enc=panic"
      | .ok full => let d := full.drop p.length; "enc=" ++ hex d ++ " dec=" ++ showDec (strictDec d))
  | ["rta", a] => do
    let a ← parseAvp a
    some (match encodeAvp a with
      | .error _ => "enc=panic"
      | .ok d => "enc=" ++ hex d ++ " dec=" ++ showAvps (avps d))
  | ["fix", o, b] => do
    let o ← parseOpts o
    let b ← unhex b
    let d1 := dec o b
    let dataWithOffset : Bool := match b with
      | x :: _ :: _ => x.toNat % 2 == 0 && x.toNat / 64 % 2 == 1
      | _ => false
    some (match d1 with
      | .ok m1 _ =>
        if dataWithOffset then "d1=" ++ showDec d1 else
        (match encode m1 with
          | .error _ => "d1=" ++ showDec d1 ++ " e1=panic"
          | .ok x1 =>
            let d2 := strictDec x1
            let e2 := match d2 with
              | .ok m2 [] => (match encode m2 with | .ok x2 => hex x2 | .error _ => "panic")
              | _ => "-"
            "d1=" ++ showDec d1 ++ " e1=" ++ hex x1 ++ " d2=" ++ showDec d2 ++ " e2=" ++ e2)
      | _ => "d1=" ++ showDec d1)
  | ["sfx", o, b, s] => do
    let o ← parseOpts o
    let b ← unhex b
    let s ← unhex s
    let a := dec o b
    some (match a with
      | .ok m r =>
        if hasDeclaredLen m then
          let consumed := b.length - r.length
          "a=" ++ showDec a ++ " b=" ++ showDec (dec o (b.take consumed ++ s))
        else "a=" ++ showDec a
      | _ => "a=" ++ showDec a)
  | ["encunw", m] => do
    let m ← parseMsg m
    some (match runMsgL [] m with
      | .error _ => "panic"
      | .ok (w, _) => "ok " ++ hex w)
  | ["encbig", _, m] => do
    -- what is appended does not depend on what the writer holds (C09.behind_zeros): the value alone
    let m ← parseMsg m
    some (match runMsgL [] m with
      | .error _ => "panic"
      | .ok (w, _) => "ok tail=" ++ hex w ++ " clean=1")
  | ["encabig", _, a] => do
    let a ← parseAvp a
    some (match writeAvpL [] a with
      | .error _ => "panic"
      | .ok (w, _) => "ok tail=" ++ hex w ++ " clean=1")
  | ["sfxbig", o, b, size] => do
    -- a declared length in front of `size - consumed` more octets: by C08.in_front_of_zeros the answer is the one
    -- for the image alone, with everything behind the declared end left over (the octets themselves are never built)
    let o ← parseOpts o
    let b ← unhex b
    let size ← size.toNat?
    let a := dec o b
    some (match a with
      | .ok m r =>
        if hasDeclaredLen m then
          let consumed := b.length - r.length
          "a=" ++ showDec a ++ " b=ok " ++ renderMsg m ++ " rem=" ++ toString (size - consumed)
        else "a=" ++ showDec a
      | _ => "a=" ++ showDec a)
  | ["paybig", b, size] => do
    -- a data message without Length field: the payload is all that follows the header
    let b ← unhex b
    let size ← size.toNat?
    some (match dec { reserved := false, version := true, unused := false } b with
      | .ok (.data d) _ =>
        (match d.length with
          | none =>
            let hdr := b.length - d.data.length
            "ok data p=" ++ (if d.prio then "1" else "0") ++ " len=- tid=" ++ toString d.tunnelId.toNat ++ " sid=" ++ toString d.sessionId.toNat ++
              " payload=" ++ toString (size - hdr) ++ " rem=0"
          | some _ => "n/a")
      | _ => "n/a")
  | ["rdbig", _, _] => some "n/a"
  | ["seqm", ms] => do
    let msgs ← (ms.splitOn "|").mapM parseMsg
    let all := msgs.foldl (fun (acc : Except Fault Bytes) m => match acc with
      | .ok w => runMsg w m
      | .error f => .error f) (.ok [])
    some (match all with
      | .error _ => "enc=panic"
      | .ok buf =>
        let rec go (fuel : Nat) (r : Bytes) : List String :=
          match fuel with
          | 0 => []
          | fuel + 1 =>
            if r.isEmpty then [] else
            match strictDec r with
            | .ok m r' => (renderMsg m ++ "@" ++ toString (r.length - r'.length)) :: go fuel r'
            | .err es _ => ["err" ++ renderErrs es]
            | .fault f => [renderFault f]
        "enc=" ++ hex buf ++ " dec=" ++ "|".intercalate (go 4096 buf))
  | ["cat", rs] => do
    let recs ← (rs.splitOn "|").mapM unhex
    some (showAvps (avps recs.flatten))
  | ["opts", b] => do
    let b ← unhex b
    some (" / ".intercalate ((allOpts.map fun o => showDec (dec o b)) ++ [showDec (decodeDefault b)]))
  | ["hide", a, s, rv, lp, ap] => do
    let a ← parseAvp a
    let ap ← unhex ap
    if ap.length ≠ 16 then none
    some (match hideIP md5 a (← unhex s) (← b4? rv) (← unhex lp) ap with
      | .ok h => renderAvp h
      | .error _ => "panic")
  | ["reveal", a, s, rv] => do
    some (revealText (revealIP md5 (← parseAvp a) (← unhex s) (← b4? rv)))
  | ["hr", a, s, rv, lp, ap] => do
    let a ← parseAvp a
    let s ← unhex s
    let rv ← b4? rv
    let lp ← unhex lp
    let ap ← unhex ap
    if ap.length ≠ 16 then none
    some (match hideIP md5 a s rv lp ap with
      | .error _ => "h=panic"
      | .ok h =>
        let r := revealText (revealIP md5 h s rv)
        let w :=
          if h.getLength ≤ 1017 then
            (match encodeAvp h with
              | .error _ => "enc-panic"
              | .ok d =>
                (match avps d with
                  | .ok [.ok h2] _ => revealText (revealIP md5 h2 s rv)
                  | _ => "undecodable"))
          else "na"
        "h=" ++ renderAvp h ++ " r=" ++ r ++ " w=" ++ w)
  | ["rd", d, ops] => do
    let d ← unhex d
    let names := if ops == "." then [] else ops.splitOn ","
    let ops ← names.mapM parseNOp
    some (rdText d names ops)
  | ["wr", ops] => do
    let names := if ops == "." then [] else ops.splitOn ","
    let ops ← names.mapM parseWOp
    some (wrText ops)
  | ["code", field, x] => do
    let x ← u16? x
    let hi := UInt8.ofNat (x.toNat / 256)
    let lo := UInt8.ofNat (x.toNat % 256)
    match field with
    | "mt" => some (codeVia [0, 8, 0, 0, 0, 0, hi, lo] (fun a => (avpArgs a).getD 0 "?") 6)
    | "et" => some (codeVia [0, 10, 0, 0, 0, 1, 0, 1, hi, lo] (fun a => (avpArgs a).getD 1 "?") 8)
    | "pat" => some (codeVia [0, 8, 0, 0, 0, 29, hi, lo] (fun a => (avpArgs a).getD 0 "?") 6)
    | "rc" => some (codeVia [0, 8, 0, 0, 0, 1, hi, lo] (fun a => (avpArgs a).getD 0 "?") 6)
    | "stop" => some (match StopCcnCode.ofCode x with
      | some c => nameOf StopCcnCode.all c ++ ":" ++ toString c.toCode.toNat
      | none => "-")
    | "cdn" => some (match CdnCode.ofCode x with
      | some c => nameOf CdnCode.all c ++ ":" ++ toString c.toCode.toNat
      | none => "-")
    | "attr" => some (codeVia ([0, 38, 0, 0, hi, lo] ++ zeroOnes) kindName 4)
    | _ => none
  | ["named"] => some namedText
  | ["bits", k, x, y] => do
    let k ← maskKind? k
    let b (s : String) : Option Bool := if s == "1" then some true else if s == "0" then some false else none
    let w := k.new (← b x) (← b y)
    some ("word=" ++ toString w.toNat ++ " a=" ++ (if k.first w then "1" else "0") ++ " b=" ++ (if k.second w then "1" else "0"))
  | ["word", k, w] => do
    let k ← maskKind? k
    let w ← u32? w
    some ("enc=" ++ hex ((k.toAvp w).value) ++ " a=" ++ (if k.first w then "1" else "0") ++ " b=" ++ (if k.second w then "1" else "0"))
  | ["name", n] => do
    let n ← u16? n
    some (underscore ("|".intercalate [display (.incompleteAVP n), display (.invalidUtf8 n), display (.avpReadError n)]))
  | ["render", e] => do some (underscore (display (← parseErr e)))
  | ["sf", o, b, _e] => do some (showDec (dec (← parseOpts o) (← unhex b)))
  | ["c15", b, _n, _f, _k] => do some (showDec (strictDec (← unhex b)))
  | ["md5", b] => do some (hex (md5 (← unhex b)))
  | ["utf8", b] => do some (if Spec.Utf8.valid (← unhex b) then "1" else "0")
  | ["utf8all", k] => do
    let k ← k.toNat?
    if k > 3 then none else some (utf8all k)
  | _ => none

def answer (line : String) : String :=
  match run (line.splitOn " ") with
  | some s => s
  | none => "bad-op"

end Rl2tp.Driver
