/-
  Proofs.Sim2: simulation for the dispatch table, the AVP framing, the greedy loop and the message
  decoders; the final statement for any conforming reader.
-/
import Rl2tp.Proofs.Sim
import Rl2tp.Proofs.Total
namespace Rl2tp

section
variable {ρ : Type} [Rdr ρ] {abs : ρ → Bytes} (hc : Conforms ρ abs)
include hc

theorem decodeAvp_sim (t : UInt16) : Sim abs (decodeAvp t : M ρ DErr AVP) (decodeAvp t) := by
  unfold decodeAvp
  split <;> first
    | exact leafU16_sim hc _ _ | exact leafU32_sim hc _ _ | exact leafU64_sim hc _ _ | exact leafB4_sim hc _ _
    | exact leafBytes_sim hc _ _ | exact leafStr_sim hc _ _ | exact readMessageType_sim hc
    | exact readResultCode_sim hc | exact readProtocolVersion_sim hc | exact readQ931_sim hc
    | exact readChallengeResponse_sim hc | exact readProxyAuthenType_sim hc | exact readProxyAuthenId_sim hc
    | exact readCallErrors_sim hc | exact readAccm_sim hc | exact Sim.pure _ | exact Sim.fail _

theorem readHeader_sim : Sim abs (readHeader : M ρ DErr _) readHeader := by
  unfold readHeader; sim hc

theorem greedyStep_sim (h : Header) : Sim abs (greedyStep h : M ρ DErr _) (greedyStep h) := by
  unfold greedyStep
  sim hc
  all_goals first
    | exact decodeAvp_sim hc _
    | skip

theorem greedyAux_sim (fuel : Nat) : Sim abs (greedyAux fuel : M ρ DErr _) (greedyAux fuel) := by
  induction fuel with
  | zero => exact ⟨fun r => trivial⟩
  | succ n ih =>
    unfold greedyAux
    apply Sim.bind (readHeader_sim hc)
    intro x
    split
    · exact Sim.pure _
    · exact Sim.pure _
    · apply Sim.bind (greedyStep_sim hc _)
      intro p
      split
      split
      · apply Sim.bind ih
        intro rest
        exact Sim.pure _
      · exact Sim.pure _

theorem greedy_sim : Sim abs (greedy : M ρ DErr (List Res)) greedy := by
  constructor
  intro r
  have := (greedyAux_sim hc (Rdr.len (abs r) + 1)).run r
  unfold greedy
  rw [hc.len r]
  exact this

theorem decodeControlCore_sim (w : UInt16) : Sim abs (decodeControlCore w : M ρ (List DErr) Msg) (decodeControlCore w) := by
  unfold decodeControlCore
  sim hc
  all_goals first
    | exact greedy_sim hc
    | skip

theorem decodeControl_sim (w : UInt16) (o : Opts) : Sim abs (decodeControl w o : M ρ (List DErr) Msg) (decodeControl w o) := by
  unfold decodeControl
  sim hc
  all_goals first
    | exact decodeControlCore_sim hc w
    | exact greedy_sim hc
    | skip

theorem readDataHeader_sim (w : UInt16) : Sim abs (readDataHeader w : M ρ DErr DataHdr) (readDataHeader w) := by
  unfold readDataHeader; sim hc

theorem skipOffset_sim (o : Option UInt16) : Sim abs (skipOffset o : M ρ DErr Unit) (skipOffset o) := by
  unfold skipOffset; sim hc

theorem readDataPayload_sim (initial : Nat) (w : UInt16) (h : DataHdr) :
    Sim abs (readDataPayload initial w h : M ρ DErr Msg) (readDataPayload initial w h) := by
  unfold readDataPayload; sim hc

theorem decodeData_sim (w : UInt16) : Sim abs (decodeData w : M ρ DErr Msg) (decodeData w) := by
  unfold decodeData
  apply Sim.bind (Sim.len hc)
  intro initial
  apply Sim.bind (readDataHeader_sim hc w)
  intro h
  apply Sim.bind (skipOffset_sim hc _)
  intro _
  exact readDataPayload_sim hc _ w h

theorem decode_sim (o : Opts) : Sim abs (decode o : M ρ (List DErr) Msg) (decode o) := by
  unfold decode
  sim hc
  all_goals first
    | exact decodeControl_sim hc _ o
    | exact Sim.liftE (decodeData_sim hc _)
    | exact greedy_sim hc
    | skip

/-- **Any conforming reader**: decoding through `R` returns exactly what decoding the abstracted octets
    with the reference cursor returns — the same message or the same error list — and leaves `R` in a
    state that abstracts to the cursor's. (The cursor run never faults: C01.) -/
theorem decode_any_reader (o : Opts) (r : ρ) :
    (∃ m r', (decode o : M ρ (List DErr) Msg) r = .ok m r' ∧
        (decode o : M Bytes (List DErr) Msg) (abs r) = .ok m (abs r')) ∨
    (∃ es r', (decode o : M ρ (List DErr) Msg) r = .err es r' ∧
        (decode o : M Bytes (List DErr) Msg) (abs r) = .err es (abs r')) := by
  have hs := (decode_sim hc o).run r
  have hg := decode_good o (abs r)
  cases hd : (decode o : M Bytes (List DErr) Msg) (abs r) with
  | fault f => rw [hd] at hg; exact absurd hg id
  | ok m c =>
    rw [hd] at hs
    obtain ⟨r', h1, h2⟩ := hs
    exact Or.inl ⟨m, r', h1, by rw [h2]⟩
  | err es c =>
    rw [hd] at hs
    obtain ⟨r', h1, h2⟩ := hs
    exact Or.inr ⟨es, r', h1, by rw [h2]⟩

/-- the same for a bare AVP list -/
theorem greedy_any_reader (r : ρ) :
    ∃ rs r', (greedy : M ρ DErr (List Res)) r = .ok rs r' ∧
      (greedy : M Bytes DErr (List Res)) (abs r) = .ok rs (abs r') := by
  have hs := (greedy_sim hc).run r
  obtain ⟨rs, c, hg, _⟩ := greedy_ok (abs r)
  rw [hg] at hs
  obtain ⟨r', h1, h2⟩ := hs
  exact ⟨rs, r', h1, by rw [hg, h2]⟩

/-- … and for each payload decoder called directly -/
theorem decodeAvp_any_reader (t : UInt16) (r : ρ) :
    (∃ a r', (decodeAvp t : M ρ DErr AVP) r = .ok a r' ∧ (decodeAvp t : M Bytes DErr AVP) (abs r) = .ok a (abs r')) ∨
    (∃ e r', (decodeAvp t : M ρ DErr AVP) r = .err e r' ∧ (decodeAvp t : M Bytes DErr AVP) (abs r) = .err e (abs r')) := by
  have hs := (decodeAvp_sim hc t).run r
  cases hd : (decodeAvp t : M Bytes DErr AVP) (abs r) with
  | fault f => exact absurd hd (decodeAvp_noFault t _ f)
  | ok a c => rw [hd] at hs; obtain ⟨r', h1, h2⟩ := hs; exact Or.inl ⟨a, r', h1, by rw [h2]⟩
  | err e c => rw [hd] at hs; obtain ⟨r', h1, h2⟩ := hs; exact Or.inr ⟨e, r', h1, by rw [h2]⟩

end
end Rl2tp
