/-
  Proofs.Control: the control-message image, `writeControl` appends exactly it (Length back-patched at the
  captured absolute position), and the decoder — under any options — reads it back.
-/
import Rl2tp.Proofs.Greedy
import Rl2tp.Proofs.Options
namespace Rl2tp

/-- the flag word the control encoder emits: T, L, S, version 2 -/
def controlFlags : UInt16 := mkFlags true true true false false

theorem controlFlags_val : controlFlags = 0x1320 := by decide

/-- octets of a control message on the wire -/
def controlImage (c : Control) : Bytes :=
  be16 controlFlags ++ be16 (UInt16.ofNat (12 + (avpsImage c.avps).length)) ++ be16 c.tunnelId ++ be16 c.sessionId
    ++ be16 c.ns ++ be16 c.nr ++ avpsImage c.avps

theorem controlImage_length (c : Control) : (controlImage c).length = 12 + (avpsImage c.avps).length := by
  simp [controlImage]; omega

/-- `ControlMessage::write` into a writer holding `w` -/
theorem writeControl_eq (w : Bytes) (c : Control) (ha : ∀ a ∈ c.avps, 6 + a.value.length ≤ 1023)
    (hl : 12 + (avpsImage c.avps).length ≤ 65535) :
    writeControl w c = .ok (w ++ controlImage c) := by
  unfold writeControl
  simp only []
  rw [writeAvps_eq _ _ ha]
  simp only []
  have hlen : (w ++ be16 (mkFlags true true true false false) ++ [0, 0] ++ be16 c.tunnelId ++ be16 c.sessionId ++ be16 c.ns
      ++ be16 c.nr ++ avpsImage c.avps).length - w.length = 12 + (avpsImage c.avps).length := by
    simp; omega
  rw [hlen, if_pos hl]
  have e : w ++ be16 (mkFlags true true true false false) ++ [0, 0] ++ be16 c.tunnelId ++ be16 c.sessionId ++ be16 c.ns
      ++ be16 c.nr ++ avpsImage c.avps =
      (w ++ be16 (mkFlags true true true false false)) ++ 0 :: 0 :: (be16 c.tunnelId ++ be16 c.sessionId ++ be16 c.ns
      ++ be16 c.nr ++ avpsImage c.avps) := by simp
  rw [e]
  have hb : be16 (UInt16.ofNat (12 + (avpsImage c.avps).length)) =
      [UInt8.ofNat ((UInt16.ofNat (12 + (avpsImage c.avps).length)).toNat / 256),
       UInt8.ofNat ((UInt16.ofNat (12 + (avpsImage c.avps).length)).toNat % 256)] := rfl
  rw [hb, writeAt_patch]
  simp [controlImage, controlFlags, be16]

/-- a message too large for the 16-bit Length field is refused -/
theorem writeControl_oversize (w : Bytes) (c : Control) (ha : ∀ a ∈ c.avps, 6 + a.value.length ≤ 1023)
    (hl : 12 + (avpsImage c.avps).length > 65535) :
    writeControl w c = .error .panic := by
  unfold writeControl
  simp only []
  rw [writeAvps_eq _ _ ha]
  simp only []
  have hlen : (w ++ be16 (mkFlags true true true false false) ++ [0, 0] ++ be16 c.tunnelId ++ be16 c.sessionId ++ be16 c.ns
      ++ be16 c.nr ++ avpsImage c.avps).length - w.length = 12 + (avpsImage c.avps).length := by
    simp; omega
  rw [hlen, if_neg (by omega)]

/-- an AVP that is too large makes the whole control encoding fail loudly -/
theorem writeAvps_oversize (w : Bytes) (as : List AVP) (h : ∃ a ∈ as, 6 + a.value.length > 1023) :
    writeAvps w as = .error .panic := by
  induction as generalizing w with
  | nil => obtain ⟨a, ha, _⟩ := h; simp at ha
  | cons a as ih =>
    simp only [writeAvps]
    by_cases hb : 6 + a.value.length ≤ 1023
    · rw [writeAvp_eq w a hb]
      simp only []
      apply ih
      obtain ⟨x, hx, hx2⟩ := h
      simp only [List.mem_cons] at hx
      rcases hx with rfl | hx
      · omega
      · exact ⟨x, hx, hx2⟩
    · rw [writeAvp_oversize w a (by omega)]

/-- the first-AVP rule on a list of values -/
def firstIsMessageType : List AVP → Bool
  | [] => true
  | .messageType _ :: _ => true
  | _ => false

theorem resErrors_map_ok (as : List AVP) : resErrors (as.map (Except.ok : AVP → Res)) = [] := by
  induction as with
  | nil => rfl
  | cons a as ih => simpa [resErrors] using ih

theorem resValues_map_ok (as : List AVP) : resValues (as.map (Except.ok : AVP → Res)) = as := by
  induction as with
  | nil => rfl
  | cons a as ih => simpa [resValues] using ih

theorem firstBad_map_ok (as : List AVP) (h : firstIsMessageType as = true) :
    firstBad (as.map (Except.ok : AVP → Res)) = false := by
  cases as with
  | nil => rfl
  | cons a as => cases a <;> simp_all [firstIsMessageType, firstBad, firstOk]

/-- the core of the control decoder on an image followed by anything -/
theorem decodeControlCore_image (c : Control) (rest : Bytes) (he : ∀ a ∈ c.avps, a.Encodable)
    (hf : firstIsMessageType c.avps = true) (hl : 12 + (avpsImage c.avps).length ≤ 65535) :
    (decodeControlCore controlFlags : M Bytes (List DErr) Msg) ((controlImage c).drop 2 ++ rest) =
      .ok (.control { c with length := UInt16.ofNat (12 + (avpsImage c.avps).length) }) rest := by
  have hlen : (UInt16.ofNat (12 + (avpsImage c.avps).length)).toNat = 12 + (avpsImage c.avps).length :=
    u16_small (by omega)
  have h1 : hasLength controlFlags = true := by decide
  have h2 : hasNsNr controlFlags = true := by decide
  simp only [controlImage, be16, List.cons_append, List.nil_append, List.append_assoc, List.drop_succ_cons, List.drop_zero]
  unfold decodeControlCore
  have h5 : ¬ ((avpsImage c.avps ++ rest).length + 1 + 1 + 1 + 1 + 1 + 1 + 1 + 1 + 1 + 1 < 10) := by omega
  simp only [bind_apply, len_apply, len_bytes, h1, h2, Bool.not_true, Bool.false_eq_true, if_false, List.length_cons,
    h5, readU16_cons, M.ite_apply, word16_be16, word16_of_nat (show 12 + (avpsImage c.avps).length < 65536 by omega), hlen]
  rw [if_neg (by omega), if_neg (by simp; omega), subM_ok (by omega)]
  simp only []
  have hsub := inSub_ok (ε' := List DErr) (s := avpsImage c.avps ++ rest) (greedy : M Bytes DErr (List Res))
    (n := 12 + (avpsImage c.avps).length - 12) (by simp)
  rw [hsub]
  have e12 : 12 + (avpsImage c.avps).length - 12 = (avpsImage c.avps).length := by omega
  rw [e12, List.take_left' rfl, List.drop_left' rfl]
  have hg := greedy_images c.avps [] he [] [] (greedy_short (by simp))
  rw [List.append_nil, List.append_nil] at hg
  rw [hg]
  simp only [subResult, firstBad_map_ok _ hf, Bool.false_eq_true, if_false, resErrors_map_ok, ne_eq, not_true_eq_false,
    resValues_map_ok, pure_apply]

end Rl2tp
