/-
  Proofs.Total: message decoding on the cursor never faults and never returns an empty error list.
-/
import Rl2tp.Proofs.Frame
import Rl2tp.Model.Message
namespace Rl2tp

/-- the two outcomes C01 allows: a value, or a non-empty list of errors -/
def Good (o : Out Bytes (List DErr) α) : Prop :=
  match o with
  | .ok _ _ => True
  | .err es _ => es ≠ []
  | .fault _ => False

theorem Good.ok {a : α} {r : Bytes} : Good (.ok a r : Out Bytes (List DErr) α) := trivial
theorem Good.err1 {e : DErr} {r : Bytes} : Good (.err [e] r : Out Bytes (List DErr) α) := by simp [Good]

theorem decodeControl_good (w : UInt16) (o : Opts) (s : Bytes) :
    Good ((decodeControl w o : M Bytes (List DErr) Msg) s) := by
  unfold decodeControl
  by_cases h1 : (o.unused && isPrioritized w) = true
  · simp [h1, Good]
  by_cases h2 : (o.unused && hasOffset w) = true
  · simp [h1, h2, Good]
  by_cases h3 : (!hasLength w) = true
  · simp [h1, h2, h3, Good]
  by_cases h4 : (!hasNsNr w) = true
  · simp [h1, h2, h3, h4, Good]
  by_cases h5 : s.length < 10
  · simp [h1, h2, h3, h4, h5, Good]
  obtain ⟨l1, l2, t1, t2, s1, s2, n1, n2, m1, m2, body, rfl⟩ := exists_cons10 (by omega : 10 ≤ s.length)
  have h5' : ¬ (body.length + 1 + 1 + 1 + 1 + 1 + 1 + 1 + 1 + 1 + 1 < 10) := by omega
  simp only [bind_apply, len_apply, len_bytes, h1, h2, h3, h4, List.length_cons, h5', if_false, readU16_cons,
    Bool.false_eq_true, M.ite_apply]
  by_cases h6 : (word16 l1 l2).toNat < 12
  · simp [h6, Good]
  by_cases h7 : (word16 l1 l2).toNat > body.length + 12
  · simp [h6, h7, Good]
  have hle : (word16 l1 l2).toNat - 12 ≤ body.length := by omega
  have hsub := inSub_ok (ε' := List DErr) (greedy : M Bytes DErr (List Res)) hle
  simp only [h6, h7, if_false, hsub]
  obtain ⟨rs, r, hg, _⟩ := greedy_ok (body.take ((word16 l1 l2).toNat - 12))
  simp only [hg, subResult]
  by_cases hf : firstBad rs = true
  · simp [hf, Good]
  by_cases he : resErrors rs ≠ []
  · simp [hf, he, Good]
  · simp [hf, he, Good]

theorem liftE_good {m : M Bytes DErr α} (h : NoFault m) (s : Bytes) : Good (liftE m s) := by
  unfold liftE
  cases hm : m s with
  | ok => simp [Good]
  | err => simp [Good]
  | fault f => exact absurd hm (h s f)

end Rl2tp

namespace Rl2tp

/-! ### length-guarded forms of the primitive reads (for straight-line header code) -/

theorem readU16_of_le {s : Bytes} (h : 2 ≤ s.length) :
    (readU16 : M Bytes ε UInt16) s = .ok (word16 (s.getD 0 0) (s.getD 1 0)) (s.drop 2) := by
  obtain ⟨a, b, r, rfl⟩ := exists_cons2 h
  simp

theorem NoFault.bind {m : M Bytes ε α} {f : α → M Bytes ε β} (hm : NoFault m) (hf : ∀ a, NoFault (f a)) :
    NoFault (m >>= f) := by
  intro s g
  rw [bind_apply]
  cases h : m s with
  | ok a r => exact hf a r g
  | err => simp
  | fault g' => exact absurd h (hm s g')

end Rl2tp
