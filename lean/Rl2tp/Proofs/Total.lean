/-
  Proofs.Total: message decoding on the cursor never faults and never returns an empty error list.
-/
import Rl2tp.Proofs.Frame
import Rl2tp.Model.Message
import Rl2tp.Proofs.Shrinks
namespace Rl2tp

/-- the two outcomes C01 allows: a value, or a non-empty list of errors -/
def Good (o : Out Bytes (List DErr) α) : Prop :=
  match o with
  | .ok _ _ => True
  | .err es _ => es ≠ []
  | .fault _ => False

theorem Good.ok {a : α} {r : Bytes} : Good (.ok a r : Out Bytes (List DErr) α) := trivial
theorem Good.err1 {e : DErr} {r : Bytes} : Good (.err [e] r : Out Bytes (List DErr) α) := by simp [Good]

theorem decodeControlCore_good (w : UInt16) (s : Bytes) :
    Good ((decodeControlCore w : M Bytes (List DErr) Msg) s) := by
  unfold decodeControlCore
  have h1 : True := trivial
  have h2 : True := trivial
  by_cases h3 : (!hasLength w) = true
  · simp [h1, h2, h3, Good]
  by_cases h4 : (!hasNsNr w) = true
  · simp [h1, h2, h3, h4, Good]
  by_cases h5 : s.length < 10
  · simp [h1, h2, h3, h4, h5, Good]
  obtain ⟨l1, l2, t1, t2, s1, s2, n1, n2, m1, m2, body, rfl⟩ := exists_cons10 (by omega : 10 ≤ s.length)
  have h5' : ¬ (body.length + 1 + 1 + 1 + 1 + 1 + 1 + 1 + 1 + 1 + 1 < 10) := by omega
  simp only [bind_apply, len_apply, len_bytes, h1, h2, h3, h4, List.length_cons, h5', if_false, readU16_cons,
    Bool.false_eq_true, M.ite_apply]
  by_cases h6 : (word16 l1 l2).toNat < 12
  · simp [h6, Good]
  by_cases h7 : (word16 l1 l2).toNat > body.length + 12
  · simp [h6, h7, Good]
  have hle : (word16 l1 l2).toNat - 12 ≤ body.length := by omega
  have hsub := inSub_ok (ε' := List DErr) (greedy : M Bytes DErr (List Res)) hle
  have hsb : (subM (word16 l1 l2).toNat 12 : M Bytes (List DErr) Nat) body = .ok ((word16 l1 l2).toNat - 12) body :=
    subM_ok (by omega) body
  simp only [h6, h7, if_false, hsb, hsub]
  obtain ⟨rs, r, hg, _⟩ := greedy_ok (body.take ((word16 l1 l2).toNat - 12))
  simp only [hg, subResult]
  by_cases hf : firstBad rs = true
  · simp [hf, Good]
  by_cases he : resErrors rs ≠ []
  · simp [hf, he, Good]
  · simp [hf, he, Good]

theorem decodeControl_good (w : UInt16) (o : Opts) (s : Bytes) :
    Good ((decodeControl w o : M Bytes (List DErr) Msg) s) := by
  unfold decodeControl
  by_cases h1 : (o.unused && isPrioritized w) = true
  · simp [h1, Good]
  by_cases h2 : (o.unused && hasOffset w) = true
  · simp [h1, h2, Good]
  simp only [h1, h2, Bool.false_eq_true, if_false, M.ite_apply]
  exact decodeControlCore_good w s

theorem liftE_good {m : M Bytes DErr α} (h : NoFault m) (s : Bytes) : Good (liftE m s) := by
  unfold liftE
  cases hm : m s with
  | ok => simp [Good]
  | err => simp [Good]
  | fault f => exact absurd hm (h s f)

end Rl2tp

namespace Rl2tp

/-! ### length-guarded forms of the primitive reads (for straight-line header code) -/

theorem readU16_of_le {s : Bytes} (h : 2 ≤ s.length) :
    (readU16 : M Bytes ε UInt16) s = .ok (word16 (s.getD 0 0) (s.getD 1 0)) (s.drop 2) := by
  obtain ⟨a, b, r, rfl⟩ := exists_cons2 h
  simp

theorem NoFault.bind {m : M Bytes ε α} {f : α → M Bytes ε β} (hm : NoFault m) (hf : ∀ a, NoFault (f a)) :
    NoFault (m >>= f) := by
  intro s g
  rw [bind_apply]
  cases h : m s with
  | ok a r => exact hf a r g
  | err => simp
  | fault g' => exact absurd h (hm s g')

theorem exists_cons12 {s : Bytes} (h : 12 ≤ s.length) :
    ∃ a b c d e f g i j k l m r, s = a :: b :: c :: d :: e :: f :: g :: i :: j :: k :: l :: m :: r := by
  obtain ⟨a, b, c, d, e, f, s1, rfl⟩ := exists_cons6 (by omega : 6 ≤ s.length)
  simp only [List.length_cons] at h
  obtain ⟨g, i, j, k, l, m, s2, rfl⟩ := exists_cons6 (by omega : 6 ≤ s1.length)
  exact ⟨a, b, c, d, e, f, g, i, j, k, l, m, s2, rfl⟩

theorem readDataHeader_noFault (w : UInt16) : NoFault (readDataHeader w : M Bytes DErr DataHdr) := by
  intro s f
  unfold readDataHeader
  by_cases hL : hasLength w <;> by_cases hS : hasNsNr w <;> by_cases hO : hasOffset w <;>
    simp only [hL, hS, hO, bind_apply, len_apply, len_bytes, pure_apply, if_true, if_false, Bool.false_eq_true,
      M.ite_apply] <;>
    split <;> try (simp; done)
  · obtain ⟨a, b, c, d, e, f, g, i, j, k, l, m, r, rfl⟩ := exists_cons12 (s := s) (by omega); simp
  · obtain ⟨x, y, a, b, c, d, e, f, g, i, r, rfl⟩ := exists_cons10 (s := s) (by omega); simp
  · obtain ⟨a, b, c, d, e, f, g, i, r, rfl⟩ := exists_cons8 (s := s) (by omega); simp
  · obtain ⟨a, b, c, d, e, f, r, rfl⟩ := exists_cons6 (s := s) (by omega); simp
  · obtain ⟨x, y, a, b, c, d, e, f, g, i, r, rfl⟩ := exists_cons10 (s := s) (by omega); simp
  · obtain ⟨a, b, c, d, e, f, g, i, r, rfl⟩ := exists_cons8 (s := s) (by omega); simp
  · obtain ⟨a, b, c, d, e, f, r, rfl⟩ := exists_cons6 (s := s) (by omega); simp
  · obtain ⟨a, b, c, d, r, rfl⟩ := exists_cons4 (s := s) (by omega); simp

theorem skipOffset_noFault (o : Option UInt16) : NoFault (skipOffset o : M Bytes DErr Unit) := by
  intro s f
  cases o with
  | none => simp [skipOffset]
  | some off =>
    simp only [skipOffset, bind_apply, len_apply, len_bytes, M.ite_apply]
    split
    · simp
    · rw [skip_ok (by omega)]; simp

theorem readBytes_noFault (n : Nat) (e : ε) : NoFault (readBytes n e : M Bytes ε Bytes) := by
  intro s f
  unfold readBytes
  split <;> simp

theorem readBytes_pure_ne_fault (n : Nat) (e : ε) (g : Bytes → α) (s : Bytes) (f : Fault) :
    ((readBytes n e >>= fun d => pure (g d)) : M Bytes ε α) s ≠ .fault f := by
  cases h : Rdr.bytes s n with
  | none => simp [readBytes, h]
  | some p => obtain ⟨b, r⟩ := p; simp [readBytes, h]

/-- the payload block never faults *provided the cursor has not grown since `initial` was taken* — the
    fact `initial_length - reader.len()` silently relies on -/
theorem readDataPayload_noFault (initial : Nat) (w : UInt16) (h : DataHdr) (s : Bytes) (hs : s.length ≤ initial)
    (f : Fault) : (readDataPayload initial w h : M Bytes DErr Msg) s ≠ .fault f := by
  unfold readDataPayload
  simp only [bind_apply, len_apply, len_bytes]
  rw [subM_ok hs]
  simp only []
  cases hm : h.mlen with
  | none =>
    simp only [bind_apply, len_apply, len_bytes, M.ite_apply, fail_apply]
    split
    · simp
    · exact readBytes_pure_ne_fault _ _ _ _ _
  | some l =>
    simp only [bind_apply, len_apply, len_bytes, M.ite_apply, fail_apply]
    split
    · simp
    · rw [subM_ok (by omega)]
      simp only []
      split
      · simp
      · split
        · simp
        · exact readBytes_pure_ne_fault _ _ _ _ _

theorem decodeData_noFault (w : UInt16) : NoFault (decodeData w : M Bytes DErr Msg) := by
  unfold decodeData
  intro s f
  simp only [bind_apply, len_apply]
  have h1 := readDataHeader_noFault w s
  cases hh : (readDataHeader w : M Bytes DErr DataHdr) s with
  | fault g => exact absurd hh (h1 g)
  | err => simp
  | ok h r =>
    simp only []
    have h2 := skipOffset_noFault h.off r
    cases hs : (skipOffset h.off : M Bytes DErr Unit) r with
    | fault g => exact absurd hs (h2 g)
    | err => simp
    | ok u r' =>
      have l1 := (readDataHeader_shrinks w).le s h r hh
      have l2 := (skipOffset_shrinks h.off).le r u r' hs
      exact readDataPayload_noFault _ w h r' (by simp only [len_bytes]; omega) f

/-- `Message::try_read_validate` on the cursor: a value or a non-empty error list, never a fault -/
theorem decode_good (o : Opts) (s : Bytes) : Good ((decode o : M Bytes (List DErr) Msg) s) := by
  unfold decode
  by_cases h0 : s.length < 2
  · simp [h0, Good]
  obtain ⟨a, b, r, rfl⟩ := exists_cons2 (by omega : 2 ≤ s.length)
  have h0' : ¬ (r.length + 1 + 1 < 2) := by omega
  simp only [bind_apply, len_apply, len_bytes, List.length_cons, h0', if_false, readU16_cons, M.ite_apply]
  split
  · simp [Good]
  · split
    · simp [Good]
    · split
      · exact decodeControl_good _ _ _
      · exact liftE_good (decodeData_noFault _) _

end Rl2tp
