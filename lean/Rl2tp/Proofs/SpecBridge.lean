/-
  Proofs.SpecBridge: the independent specification (`Spec.decode`: the two flag octets read by mask) equals the form
  the refinement proofs use (`Spec.decodeM`: the model's accessors on the flag word).  The seven flag facts are settled
  for all 65 536 flag words by kernel evaluation.
-/
import Rl2tp.Proofs.SpecM
import Rl2tp.Proofs.All256
namespace Rl2tp.Spec
open Rl2tp.Utf8Proof (all256 all256_spec)

set_option maxRecDepth 100000 in
theorem flags_all : all256 (fun x => all256 fun y =>
    (bitT x == isControl (word16 x y)) && (bitL x == hasLength (word16 x y)) && (bitS x == hasNsNr (word16 x y)) &&
    (bitO x == hasOffset (word16 x y)) && (bitP x == isPrioritized (word16 x y)) && (ver y == version (word16 x y)) &&
    (reservedClear x y == reservedOk (word16 x y))) = true := by decide +kernel

theorem flags_eq (x y : UInt8) :
    bitT x = isControl (word16 x y) ∧ bitL x = hasLength (word16 x y) ∧ bitS x = hasNsNr (word16 x y) ∧
    bitO x = hasOffset (word16 x y) ∧ bitP x = isPrioritized (word16 x y) ∧ ver y = version (word16 x y) ∧
    reservedClear x y = reservedOk (word16 x y) := by
  have h := all256_spec (all256_spec flags_all x) y
  simp only [Bool.and_eq_true, beq_iff_eq] at h
  obtain ⟨⟨⟨⟨⟨⟨h1, h2⟩, h3⟩, h4⟩, h5⟩, h6⟩, h7⟩ := h
  exact ⟨h1, h2, h3, h4, h5, h6, h7⟩

theorem headerSize_eq (x y : UInt8) : headerSize x = dataNeed (word16 x y) := by
  obtain ⟨_, h2, h3, h4, _⟩ := flags_eq x y
  simp only [headerSize, dataNeed, h2, h3, h4]

theorem dataMessage_eq (x y : UInt8) (s : Bytes) : dataMessage x s = decodeDataM (word16 x y) s := by
  obtain ⟨_, h2, h3, h4, h5, _⟩ := flags_eq x y
  simp only [dataMessage, decodeDataM, headerSize_eq x y, h2, h3, h4, h5]

theorem controlMessage_eq (x y : UInt8) (o : Opts) (s : Bytes) : controlMessage x o s = decodeControlM (word16 x y) o s := by
  obtain ⟨_, h2, h3, h4, h5, _⟩ := flags_eq x y
  simp only [controlMessage, decodeControlM, h2, h3, h4, h5]
  rfl

/-- the independent specification and the proofs' form of it are the same function -/
theorem decode_eq_decodeM (o : Opts) (b : Bytes) : Spec.decode o b = Spec.decodeM o b := by
  unfold Spec.decode Spec.decodeM
  by_cases hl : b.length < 2
  · simp [hl]
  · rw [if_neg hl, if_neg hl]
    have hw : u16At b 0 = word16 (u8At b 0) (u8At b 1) := rfl
    obtain ⟨h1, _, _, _, _, h6, h7⟩ := flags_eq (u8At b 0) (u8At b 1)
    simp only [hw, h1, h6, h7, dataMessage_eq (u8At b 0) (u8At b 1), controlMessage_eq (u8At b 0) (u8At b 1)]

end Rl2tp.Spec
