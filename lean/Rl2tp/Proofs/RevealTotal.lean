/-
  Proofs.RevealTotal: `reveal` never faults, whatever the hidden octets, secret and random vector.
-/
import Rl2tp.Proofs.HideReveal
import Rl2tp.Proofs.Shape
namespace Rl2tp

section
variable (md5 : Bytes → Bytes) (hmd5 : ∀ x, (md5 x).length = 16)

include hmd5 in
theorem decChain_each (secret key : Bytes) (hk : key.length = 16) (cs : List Bytes) (hc : ∀ c ∈ cs, c.length = 16) :
    ∀ p ∈ decChain md5 secret key cs, p.length = 16 := by
  induction cs generalizing key with
  | nil => intro p hp; simp [decChain] at hp
  | cons c cs ih =>
    intro p hp
    simp only [decChain, List.mem_cons] at hp
    rcases hp with rfl | hp
    · rw [xorB_length, hc c (by simp), hk]; rfl
    · exact ih _ (hmd5 _) (fun q hq => hc q (by simp [hq])) p hp

theorem decChain_length (secret key : Bytes) (cs : List Bytes) : (decChain md5 secret key cs).length = cs.length := by
  induction cs generalizing key with
  | nil => rfl
  | cons c cs ih => simp [decChain, ih]

/-- the decrypted buffer `reveal` parses -/
def revealPlain (t : UInt16) (v secret : Bytes) (rv : UInt32) : Bytes :=
  (decChain md5 secret (md5 (be16 t ++ secret ++ be32 rv)) (chunks (v.length / 16) v)).flatten

include hmd5 in
theorem revealPlain_length (t : UInt16) (v secret : Bytes) (rv : UInt32) (hal : v.length % 16 = 0) :
    (revealPlain md5 t v secret rv).length = v.length := by
  unfold revealPlain
  have hch := chunks_each (v.length / 16) v (by omega)
  have := flatten_length_16 _ (decChain_each md5 hmd5 secret (md5 (be16 t ++ secret ++ be32 rv)) (hmd5 _)
    (chunks (v.length / 16) v) hch)
  rw [this, decChain_length, chunks_length]
  omega

include hmd5 in
/-- `reveal` on a hidden AVP, as a cascade of checks over the decrypted buffer -/
theorem reveal_hidden_eq (t : UInt16) (v secret : Bytes) (rv : UInt32) :
    reveal md5 (.hidden t v) secret rv =
      if v.length = 0 then .ok (.error .emptyHiddenAVP)
      else if v.length % 16 ≠ 0 then .ok (.error .misalignedHiddenAVP)
      else
        let plain := revealPlain md5 t v secret rv
        let total := word16Of plain
        if total.toNat < 6 ∨ total.toNat > 1023 then .ok (.error (.invalidOriginalAVPLength total))
        else if total.toNat - 6 > v.length - 2 then .ok (.error (.invalidOriginalAVPLength total))
        else match (decodeAvp t : M Bytes DErr AVP) ((plain.drop 2).take (total.toNat - 6)) with
          | .ok a _ => .ok (.ok a)
          | .err e _ => .ok (.error e)
          | .fault f => .error f := by
  unfold reveal
  simp only []
  by_cases h0 : v.length = 0
  · simp [h0]
  by_cases hal : v.length % 16 ≠ 0
  · simp [h0, hal]
  rw [if_neg h0, if_neg hal, if_neg h0, if_neg hal]
  have hlen := revealPlain_length md5 hmd5 t v secret rv (by omega)
  obtain ⟨x, y, rest, hp⟩ := exists_cons2 (s := revealPlain md5 t v secret rv) (by omega)
  have hrest : rest.length = v.length - 2 := by
    have := congrArg List.length hp
    simp only [List.length_cons] at this
    omega
  unfold revealPlain at hp ⊢
  rw [hp]
  simp only [readU16_cons, word16Of, List.drop_succ_cons, List.drop_zero, hrest]
  by_cases c1 : (word16 x y).toNat < 6 ∨ (word16 x y).toNat > 1023
  · have : (decide ((word16 x y).toNat < 6) || decide ((word16 x y).toNat > 1023)) = true := by simpa using c1
    simp [this, c1]
  · have : (decide ((word16 x y).toNat < 6) || decide ((word16 x y).toNat > 1023)) = false := by simpa using c1
    rw [this]
    simp only [Bool.false_eq_true, if_false, c1]
    rw [subM_ok (by omega)]
    simp only [hrest]
    by_cases c2 : (word16 x y).toNat - 6 > v.length - 2
    · simp [c2]
    · rw [if_neg c2, if_neg c2, inSub_ok _ (by omega)]
      cases (decodeAvp t : M Bytes DErr AVP) (List.take ((word16 x y).toNat - 6) rest) <;> rfl

include hmd5 in
/-- revealing is total: never a fault, for any attribute type, value octets, secret and random vector -/
theorem reveal_noFault (a : AVP) (secret : Bytes) (rv : UInt32) (f : Fault) : reveal md5 a secret rv ≠ .error f := by
  cases a with
  | hidden t v =>
    rw [reveal_hidden_eq md5 hmd5]
    split
    · simp
    · split
      · simp
      · simp only []
        split
        · simp
        · split
          · simp
          · have := decodeAvp_noFault t (((revealPlain md5 t v secret rv).drop 2).take ((word16Of (revealPlain md5 t v secret rv)).toNat - 6))
            split
            · simp
            · simp
            · rename_i g hg; exact absurd hg (this g)
  | _ => simp [reveal]

include hmd5 in
/-- a successful reveal yields an AVP of the announced attribute type -/
theorem reveal_kind (t : UInt16) (v secret : Bytes) (rv : UInt32) (a : AVP)
    (h : reveal md5 (.hidden t v) secret rv = .ok (.ok a)) : a.attr = t := by
  rw [reveal_hidden_eq md5 hmd5] at h
  split at h
  · simp at h
  · split at h
    · simp at h
    · simp only [] at h
      split at h
      · simp at h
      · split at h
        · simp at h
        · split at h
          · rename_i a' r' hd
            simp only [Except.ok.injEq] at h
            subst h
            exact decodeAvp_attr t _ _ _ hd
          · simp at h
          · simp at h

end
end Rl2tp
