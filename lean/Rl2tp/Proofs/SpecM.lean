/-
  Proofs.SpecM: the message specification phrased with the *model's* flag accessors (`isControl`, `hasLength`, …,
  `reservedOk` of `Model/Message.lean`) on the flag word — an intermediate form used by the refinement proofs
  (`Proofs/SpecMsg`, `Locality`, `Consumed`, `Reencode`).  The independent specification is `Spec/Message.lean`, which
  reads the two flag octets by mask and shares nothing with the model; `Proofs/SpecBridge.lean` proves the two equal
  (`Spec.decode_eq_decodeM`), so every theorem about `decodeM` is a theorem about `Spec.decode`.
-/
import Rl2tp.Spec.Message
import Rl2tp.Model.Message
namespace Rl2tp.Spec

/-- octets of the fixed data-message fields after the flag word: ids, and Length / Ns,Nr / Offset Size
    when their bit is set -/
def dataNeed (w : UInt16) : Nat :=
  4 + (if hasLength w then 2 else 0) + (if hasNsNr w then 4 else 0) + (if hasOffset w then 2 else 0)

/-- a data message; `s` = the octets after the flag word, the count returned is relative to `s` -/
def decodeDataM (w : UInt16) (s : Bytes) : Option (Msg × Nat) :=
  let need := dataNeed w
  if s.length < need then none else
  let idPos := if hasLength w then 2 else 0
  let pad := if hasOffset w then (u16At s (need - 2)).toNat else 0
  if s.length - need < pad then none else
  let start := need + pad                        -- where the payload begins
  let nsnr := if hasNsNr w then some (u16At s (idPos + 4), u16At s (idPos + 6)) else none
  if hasLength w then
    let l := (u16At s 0).toNat                   -- counts from the first flag octet
    if l < 2 + start ∨ l - (2 + start) > s.length - start ∨ l = 2 + start then none
    else some (.data { prio := isPrioritized w, length := some (u16At s 0), tunnelId := u16At s idPos,
                       sessionId := u16At s (idPos + 2), nsnr := nsnr, offset := none,
                       data := (s.drop start).take (l - (2 + start)) }, l - 2)
  else
    if s.length = start then none
    else some (.data { prio := isPrioritized w, length := none, tunnelId := u16At s idPos,
                       sessionId := u16At s (idPos + 2), nsnr := nsnr, offset := none,
                       data := s.drop start }, s.length)

/-- a control message; `s` = the octets after the flag word -/
def decodeControlM (w : UInt16) (o : Opts) (s : Bytes) : Option (Msg × Nat) :=
  if o.unused ∧ (isPrioritized w ∨ hasOffset w) then none else
  if ¬ hasLength w ∨ ¬ hasNsNr w then none else
  if s.length < 10 then none else
  let l := (u16At s 0).toNat
  if l < 12 ∨ l > s.length + 2 then none else
  let body := (s.drop 10).take (l - 12)
  match acceptAvps (avps (body.length + 1) body) with
  | none => none
  | some as =>
    -- Length, Tunnel ID, Session ID, Ns, Nr: five big-endian u16 in this order
    some (.control (Control.mk (u16At s 0) (u16At s 2) (u16At s 4) (u16At s 6) (u16At s 8) as), l - 2)

/-- `some (message, octets consumed)` iff the input starts with a valid message under the options -/
def decodeM (o : Opts) (b : Bytes) : Option (Msg × Nat) :=
  if b.length < 2 then none else
  let w := u16At b 0
  if o.version ∧ version w ≠ 2 then none else
  if o.reserved ∧ ¬ reservedOk w then none else
  (if isControl w then decodeControlM w o (b.drop 2) else decodeDataM w (b.drop 2)).map fun p => (p.1, p.2 + 2)

end Rl2tp.Spec
