/-
  Proofs.Leaf2: the remaining irregular decoders (ResultCode, Q931CauseCode, CallErrors) in cons form,
  and `NoFault` for every payload decoder and for the dispatch table.
-/
import Rl2tp.Proofs.Leaf
namespace Rl2tp
open Spec.Utf8 (valid)

/-- what `Error::try_read` computes from the error-type word and the rest of the payload -/
def rcErrorSpec (c : UInt16) (r : Bytes) : Out Bytes DErr (ErrorType × Option Bytes) :=
  match ErrorType.ofCode c with
  | none => .err (.invalidResultCodeErrorType c) r
  | some et =>
    if r.length = 0 then .ok (et, none) r
    else if valid r then .ok (et, some r) [] else .err (.invalidUtf8 1) []

theorem readRcError_cons (a b : UInt8) (r : Bytes) :
    (readRcError : M Bytes DErr _) (a :: b :: r) = rcErrorSpec (word16 a b) r := by
  unfold rcErrorSpec
  cases hc : ErrorType.ofCode (word16 a b) with
  | none => simp [readRcError, hc]
  | some et =>
    by_cases h0 : r.length = 0
    · simp [readRcError, hc, h0]
    · by_cases hv : valid r <;> simp [readRcError, hc, h0, readBytes_all, hv]

theorem readResultCode_short {s : Bytes} (h : s.length < 2) :
    (readResultCode : M Bytes DErr AVP) s = .err (.incompleteAVP 1) s := by
  simp [readResultCode, h]

theorem readResultCode_cons_short (a b : UInt8) (r : Bytes) (h : r.length < 2) :
    (readResultCode : M Bytes DErr AVP) (a :: b :: r) = .ok (.resultCode (word16 a b) none) r := by
  have h1 : ¬ (r.length + 1 + 1 < 2) := by omega
  have h2 : ¬ (r.length ≥ 2) := by omega
  simp [readResultCode, h1, h2]

theorem readResultCode_cons_long (a b c d : UInt8) (r : Bytes) :
    (readResultCode : M Bytes DErr AVP) (a :: b :: c :: d :: r) =
      match rcErrorSpec (word16 c d) r with
      | .ok e r' => .ok (.resultCode (word16 a b) (some e)) r'
      | .err e r' => .err e r'
      | .fault f => .fault f := by
  have h1 : ¬ (r.length + 1 + 1 + 1 + 1 < 2) := by omega
  have h2 : r.length + 1 + 1 ≥ 2 := by omega
  simp only [readResultCode, bind_apply, len_apply, len_bytes, List.length_cons, h1, if_false, readU16_cons,
    h2, if_true, readRcError_cons]
  cases rcErrorSpec (word16 c d) r <;> simp

theorem readQ931_short {s : Bytes} (h : s.length < 3) :
    (readQ931 : M Bytes DErr AVP) s = .err (.incompleteAVP 12) s := by
  simp [readQ931, h]

theorem readQ931_cons (a b c : UInt8) (r : Bytes) :
    (readQ931 : M Bytes DErr AVP) (a :: b :: c :: r) =
      if r.length = 0 then .ok (.q931CauseCode (word16 a b) c none) r
      else if valid r then .ok (.q931CauseCode (word16 a b) c (some r)) [] else .err (.invalidUtf8 12) [] := by
  have h1 : ¬ (r.length + 1 + 1 + 1 < 3) := by omega
  by_cases h0 : r.length = 0
  · simp [readQ931, h1, h0]
  · by_cases hv : valid r <;> simp [readQ931, h1, h0, readBytes_all, hv]

@[simp] theorem readCallErrors_cons (x y a1 a2 a3 a4 b1 b2 b3 b4 c1 c2 c3 c4 d1 d2 d3 d4 e1 e2 e3 e4 f1 f2 f3 f4 : UInt8)
    (r : Bytes) :
    (readCallErrors : M Bytes DErr AVP)
      (x :: y :: a1 :: a2 :: a3 :: a4 :: b1 :: b2 :: b3 :: b4 :: c1 :: c2 :: c3 :: c4 :: d1 :: d2 :: d3 :: d4
        :: e1 :: e2 :: e3 :: e4 :: f1 :: f2 :: f3 :: f4 :: r) =
      .ok (.callErrors (word32 a1 a2 a3 a4) (word32 b1 b2 b3 b4) (word32 c1 c2 c3 c4) (word32 d1 d2 d3 d4)
        (word32 e1 e2 e3 e4) (word32 f1 f2 f3 f4)) r := by
  have h : ¬ (r.length + 26 < 26) := by omega
  have h2 : 2 ≤ (x :: y :: a1 :: a2 :: a3 :: a4 :: b1 :: b2 :: b3 :: b4 :: c1 :: c2 :: c3 :: c4 :: d1 :: d2 :: d3 :: d4
        :: e1 :: e2 :: e3 :: e4 :: f1 :: f2 :: f3 :: f4 :: r).length := by simp
  simp [readCallErrors, h, skip_ok h2]

theorem exists_cons26 {s : Bytes} (h : 26 ≤ s.length) :
    ∃ x y a1 a2 a3 a4 b1 b2 b3 b4 c1 c2 c3 c4 d1 d2 d3 d4 e1 e2 e3 e4 f1 f2 f3 f4 r,
      s = x :: y :: a1 :: a2 :: a3 :: a4 :: b1 :: b2 :: b3 :: b4 :: c1 :: c2 :: c3 :: c4 :: d1 :: d2 :: d3 :: d4
        :: e1 :: e2 :: e3 :: e4 :: f1 :: f2 :: f3 :: f4 :: r := by
  obtain ⟨x, y, s1, rfl⟩ := exists_cons2 (by omega : 2 ≤ s.length)
  simp only [List.length_cons] at h
  obtain ⟨a1, a2, a3, a4, b1, b2, b3, b4, s2, rfl⟩ := exists_cons8 (by omega : 8 ≤ s1.length)
  simp only [List.length_cons] at h
  obtain ⟨c1, c2, c3, c4, d1, d2, d3, d4, s3, rfl⟩ := exists_cons8 (by omega : 8 ≤ s2.length)
  simp only [List.length_cons] at h
  obtain ⟨e1, e2, e3, e4, f1, f2, f3, f4, s4, rfl⟩ := exists_cons8 (by omega : 8 ≤ s3.length)
  exact ⟨x, y, a1, a2, a3, a4, b1, b2, b3, b4, c1, c2, c3, c4, d1, d2, d3, d4, e1, e2, e3, e4, f1, f2, f3, f4, s4, rfl⟩

theorem exists_cons10 {s : Bytes} (h : 10 ≤ s.length) :
    ∃ x y a b c d e f g i r, s = x :: y :: a :: b :: c :: d :: e :: f :: g :: i :: r := by
  match s, h with
  | x :: y :: a :: b :: c :: d :: e :: f :: g :: i :: r, _ => exact ⟨x, y, a, b, c, d, e, f, g, i, r, rfl⟩

theorem exists_cons3 {s : Bytes} (h : 3 ≤ s.length) : ∃ a b c r, s = a :: b :: c :: r := by
  match s, h with
  | a :: b :: c :: r, _ => exact ⟨a, b, c, r, rfl⟩

/-! ### no payload decoder faults, on any input -/

theorem leafU16_noFault (attr mk) : NoFault (leafU16 attr mk) := by
  intro s f
  by_cases h : s.length < 2
  · rw [leafU16_short h]; simp
  · obtain ⟨a, b, r, rfl⟩ := exists_cons2 (by omega : 2 ≤ s.length); simp

theorem leafU32_noFault (attr mk) : NoFault (leafU32 attr mk) := by
  intro s f
  by_cases h : s.length < 4
  · rw [leafU32_short h]; simp
  · obtain ⟨a, b, c, d, r, rfl⟩ := exists_cons4 (by omega : 4 ≤ s.length); simp

theorem leafU64_noFault (attr mk) : NoFault (leafU64 attr mk) := by
  intro s f
  by_cases h : s.length < 8
  · rw [leafU64_short h]; simp
  · obtain ⟨a, b, c, d, e, g, i, j, r, rfl⟩ := exists_cons8 (by omega : 8 ≤ s.length); simp

theorem leafB4_noFault (attr mk) : NoFault (leafB4 attr mk) := by
  intro s f
  by_cases h : s.length < 4
  · rw [leafB4_short h]; simp
  · obtain ⟨a, b, c, d, r, rfl⟩ := exists_cons4 (by omega : 4 ≤ s.length); simp

theorem leafBytes_noFault (attr mk) : NoFault (leafBytes attr mk) := by
  intro s f
  by_cases h : s = []
  · subst h; rw [leafBytes_nil]; simp
  · rw [leafBytes_ne h]; simp

theorem leafStr_noFault (attr mk) : NoFault (leafStr attr mk) := by
  intro s f
  by_cases h : s = []
  · subst h; rw [leafStr_nil]; simp
  · rw [leafStr_ne h]; split <;> simp

theorem readMessageType_noFault : NoFault (readMessageType : M Bytes DErr AVP) := by
  intro s f
  by_cases h : s.length < 2
  · rw [readMessageType_short h]; simp
  · obtain ⟨a, b, r, rfl⟩ := exists_cons2 (by omega : 2 ≤ s.length)
    rw [readMessageType_cons]; split <;> simp

theorem readProxyAuthenType_noFault : NoFault (readProxyAuthenType : M Bytes DErr AVP) := by
  intro s f
  by_cases h : s.length < 2
  · rw [readProxyAuthenType_short h]; simp
  · obtain ⟨a, b, r, rfl⟩ := exists_cons2 (by omega : 2 ≤ s.length)
    rw [readProxyAuthenType_cons]; split <;> simp

theorem readProtocolVersion_noFault : NoFault (readProtocolVersion : M Bytes DErr AVP) := by
  intro s f
  by_cases h : s.length < 2
  · rw [readProtocolVersion_short h]; simp
  · obtain ⟨a, b, r, rfl⟩ := exists_cons2 (by omega : 2 ≤ s.length); simp

theorem readProxyAuthenId_noFault : NoFault (readProxyAuthenId : M Bytes DErr AVP) := by
  intro s f
  by_cases h : s.length < 2
  · rw [readProxyAuthenId_short h]; simp
  · obtain ⟨a, b, r, rfl⟩ := exists_cons2 (by omega : 2 ≤ s.length); simp

theorem readChallengeResponse_noFault : NoFault (readChallengeResponse : M Bytes DErr AVP) := by
  intro s f
  by_cases h : s.length < 16
  · rw [readChallengeResponse_short h]; simp
  · rw [readChallengeResponse_ok (by omega)]; simp

theorem rcErrorSpec_noFault (c : UInt16) (r : Bytes) (f : Fault) : rcErrorSpec c r ≠ .fault f := by
  unfold rcErrorSpec
  split
  · simp
  · split
    · simp
    · split <;> simp

theorem readResultCode_noFault : NoFault (readResultCode : M Bytes DErr AVP) := by
  intro s f
  by_cases h : s.length < 2
  · rw [readResultCode_short h]; simp
  · obtain ⟨a, b, r, rfl⟩ := exists_cons2 (by omega : 2 ≤ s.length)
    by_cases h2 : r.length < 2
    · rw [readResultCode_cons_short a b r h2]; simp
    · obtain ⟨c, d, r', rfl⟩ := exists_cons2 (by omega : 2 ≤ r.length)
      rw [readResultCode_cons_long]
      have := rcErrorSpec_noFault (word16 c d) r'
      cases h3 : rcErrorSpec (word16 c d) r' with
      | ok => simp
      | err => simp
      | fault g => exact absurd h3 (this g)

theorem readQ931_noFault : NoFault (readQ931 : M Bytes DErr AVP) := by
  intro s f
  by_cases h : s.length < 3
  · rw [readQ931_short h]; simp
  · obtain ⟨a, b, c, r, rfl⟩ := exists_cons3 (by omega : 3 ≤ s.length)
    rw [readQ931_cons]
    split
    · simp
    · split <;> simp

theorem readCallErrors_noFault : NoFault (readCallErrors : M Bytes DErr AVP) := by
  intro s f
  by_cases h : s.length < 26
  · rw [readCallErrors_short h]; simp
  · obtain ⟨x, y, a1, a2, a3, a4, b1, b2, b3, b4, c1, c2, c3, c4, d1, d2, d3, d4, e1, e2, e3, e4, f1, f2, f3, f4, r, rfl⟩ :=
      exists_cons26 (by omega : 26 ≤ s.length)
    simp

theorem readAccm_noFault : NoFault (readAccm : M Bytes DErr AVP) := by
  intro s f
  by_cases h : s.length < 10
  · rw [readAccm_short h]; simp
  · obtain ⟨x, y, a, b, c, d, e, g, i, j, r, rfl⟩ := exists_cons10 (by omega : 10 ≤ s.length)
    simp

/-- the dispatch table never faults, whatever the attribute type and the payload -/
theorem decodeAvp_noFault (t : UInt16) : NoFault (decodeAvp t : M Bytes DErr AVP) := by
  unfold decodeAvp
  split <;> first
    | exact leafU16_noFault _ _ | exact leafU32_noFault _ _ | exact leafU64_noFault _ _
    | exact leafB4_noFault _ _ | exact leafBytes_noFault _ _ | exact leafStr_noFault _ _
    | exact readMessageType_noFault | exact readResultCode_noFault | exact readProtocolVersion_noFault
    | exact readQ931_noFault | exact readChallengeResponse_noFault | exact readProxyAuthenType_noFault
    | exact readProxyAuthenId_noFault | exact readCallErrors_noFault | exact readAccm_noFault
    | exact NoFault.pure _ | exact NoFault.fail _

end Rl2tp
