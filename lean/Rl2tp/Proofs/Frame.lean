/-
  Proofs.Frame: the AVP header, one loop iteration, and the greedy loop on the cursor:
  exact results, no fault, progress (≥ 6 octets per iteration ⇒ the fuel is never exhausted).
-/
import Rl2tp.Proofs.Leaf2
namespace Rl2tp

theorem readHeader_lt {s : Bytes} (h : s.length < 6) :
    (readHeader : M Bytes DErr _) s = .ok none s := by
  simp [readHeader, h]

/-- the 10-bit length the two first octets carry -/
def hdrLen (a b : UInt8) : Nat := (a.toNat / 64) * 256 + b.toNat

theorem readHeader_cons (a b c d e f : UInt8) (r : Bytes) :
    (readHeader : M Bytes DErr _) (a :: b :: c :: d :: e :: f :: r) =
      if hdrLen a b < 6 then .ok (some (.error (.invalidAVPLength (UInt16.ofNat (hdrLen a b))))) r
      else .ok (some (.ok { flags := UInt8.ofNat (a.toNat % 64), payloadLength := UInt16.ofNat (hdrLen a b - 6),
                            vendorId := word16 c d, attributeType := word16 e f })) r := by
  have h : ¬ (r.length + 1 + 1 + 1 + 1 + 1 + 1 < 6) := by omega
  unfold hdrLen
  by_cases hl : a.toNat / 64 * 256 + b.toNat < 6
  · simp [readHeader, h, hl]
  · have hs : (subM (a.toNat / 64 * 256 + b.toNat) 6 : M Bytes DErr Nat) r = .ok (a.toNat / 64 * 256 + b.toNat - 6) r :=
      subM_ok (by omega) r
    simp [readHeader, h, hl, hs]

theorem hdrLen_lt (a b : UInt8) : hdrLen a b < 1024 := by
  unfold hdrLen
  have := a.toNat_lt; have := b.toNat_lt
  omega

theorem readHeader_noFault : NoFault (readHeader : M Bytes DErr _) := by
  intro s f
  by_cases hl : s.length < 6
  · rw [readHeader_lt hl]; simp
  · obtain ⟨a, b, c, d, e, g, r, rfl⟩ := exists_cons6 (by omega : 6 ≤ s.length)
    rw [readHeader_cons]; split <;> simp

theorem readHeader_noErr (s : Bytes) (e : DErr) (r : Bytes) : (readHeader : M Bytes DErr _) s ≠ .err e r := by
  by_cases hl : s.length < 6
  · rw [readHeader_lt hl]; simp
  · obtain ⟨a, b, c, d, e, g, r, rfl⟩ := exists_cons6 (by omega : 6 ≤ s.length)
    rw [readHeader_cons]; split <;> simp

/-- a header read consumes exactly six octets -/
theorem readHeader_some {s r : Bytes} {x} (h : (readHeader : M Bytes DErr _) s = .ok (some x) r) :
    r.length + 6 = s.length := by
  by_cases hl : s.length < 6
  · rw [readHeader_lt hl] at h; simp at h
  · obtain ⟨a, b, c, d, e, f, r', rfl⟩ := exists_cons6 (by omega : 6 ≤ s.length)
    rw [readHeader_cons] at h
    split at h <;> (simp only [Out.ok.injEq] at h; obtain ⟨_, rfl⟩ := h; simp)

theorem readHeader_none {s r : Bytes} (h : (readHeader : M Bytes DErr _) s = .ok none r) :
    r = s ∧ s.length < 6 := by
  by_cases hl : s.length < 6
  · rw [readHeader_lt hl] at h; simp at h; exact ⟨h.symm, hl⟩
  · obtain ⟨a, b, c, d, e, f, r', rfl⟩ := exists_cons6 (by omega : 6 ≤ s.length)
    rw [readHeader_cons] at h
    split at h <;> simp at h

/-! ### one iteration -/

/-- what one iteration yields on the cursor -/
theorem greedyStep_eq (h : Header) (s : Bytes) :
    (greedyStep h : M Bytes DErr _) s =
      if h.payloadLength.toNat > s.length then .ok (.error (.invalidAVPLength h.payloadLength), false) s
      else if h.vendorId ≠ 0 then .ok (.error (.unsupportedVendorId h.vendorId), true) (s.drop h.payloadLength.toNat)
      else if h.isHidden then .ok (.ok (.hidden h.attributeType (s.take h.payloadLength.toNat)), true) (s.drop h.payloadLength.toNat)
      else match (decodeAvp h.attributeType : M Bytes DErr AVP) (s.take h.payloadLength.toNat) with
        | .ok a _ => .ok (.ok a, true) (s.drop h.payloadLength.toNat)
        | .err e _ => .ok (.error e, true) (s.drop h.payloadLength.toNat)
        | .fault f => .fault f := by
  by_cases h1 : h.payloadLength.toNat > s.length
  · simp [greedyStep, h1]
  · have hle : h.payloadLength.toNat ≤ s.length := by omega
    by_cases h2 : h.vendorId ≠ 0
    · simp [greedyStep, h1, h2, skip_ok hle]
    · by_cases h3 : h.isHidden
      · simp [greedyStep, h1, h2, h3, readBytesOrEmpty_ok hle]
      · have hsub := inSub_ok (ε' := DErr) (decodeAvp h.attributeType : M Bytes DErr AVP) hle
        simp only [greedyStep, bind_apply, len_apply, len_bytes, h1, if_false, h2, h3, Bool.false_eq_true, hsub]
        cases hd : (decodeAvp h.attributeType : M Bytes DErr AVP) (s.take h.payloadLength.toNat) <;>
          simp [subResult]

theorem greedyStep_noFault (h : Header) : NoFault (greedyStep h : M Bytes DErr _) := by
  intro s f
  rw [greedyStep_eq]
  split
  · simp
  · split
    · simp
    · split
      · simp
      · have := decodeAvp_noFault h.attributeType (s.take h.payloadLength.toNat)
        cases hd : (decodeAvp h.attributeType : M Bytes DErr AVP) (s.take h.payloadLength.toNat) with
        | ok => simp
        | err => simp
        | fault g => exact absurd hd (this g)

theorem greedyStep_noErr (h : Header) (s : Bytes) (e : DErr) (r : Bytes) :
    (greedyStep h : M Bytes DErr _) s ≠ .err e r := by
  rw [greedyStep_eq]
  split
  · simp
  · split
    · simp
    · split
      · simp
      · cases (decodeAvp h.attributeType : M Bytes DErr AVP) (s.take h.payloadLength.toNat) <;> simp

theorem greedyStep_len {h : Header} {s r : Bytes} {x} (hs : (greedyStep h : M Bytes DErr _) s = .ok x r) :
    r.length ≤ s.length := by
  rw [greedyStep_eq] at hs
  split at hs
  · simp only [Out.ok.injEq] at hs; obtain ⟨_, rfl⟩ := hs; exact Nat.le_refl _
  · split at hs
    · simp only [Out.ok.injEq] at hs; obtain ⟨_, rfl⟩ := hs; simp
    · split at hs
      · simp only [Out.ok.injEq] at hs; obtain ⟨_, rfl⟩ := hs; simp
      · cases hd : (decodeAvp h.attributeType : M Bytes DErr AVP) (s.take h.payloadLength.toNat) with
        | ok a q => rw [hd] at hs; simp only [Out.ok.injEq] at hs; obtain ⟨_, rfl⟩ := hs; simp
        | err e q => rw [hd] at hs; simp only [Out.ok.injEq] at hs; obtain ⟨_, rfl⟩ := hs; simp
        | fault g => rw [hd] at hs; simp at hs

/-! ### the loop -/

/-- enough fuel ⇒ the loop neither faults nor returns an error, and ends with < 6 octets or at a bad length -/
theorem greedyAux_ok (fuel : Nat) (s : Bytes) (hf : s.length < fuel) :
    ∃ rs r, (greedyAux fuel : M Bytes DErr _) s = .ok rs r ∧ r.length ≤ s.length := by
  induction fuel generalizing s with
  | zero => omega
  | succ n ih =>
    simp only [greedyAux, bind_apply]
    cases hh : (readHeader : M Bytes DErr _) s with
    | fault f => exact absurd hh (readHeader_noFault s f)
    | err e r => exact absurd hh (readHeader_noErr s e r)
    | ok x r =>
      cases x with
      | none =>
        obtain ⟨rfl, _⟩ := readHeader_none hh
        exact ⟨[], r, by simp, Nat.le_refl _⟩
      | some y =>
        have hlen := readHeader_some hh
        cases y with
        | error e => exact ⟨[.error e], r, by simp, by omega⟩
        | ok h =>
          simp only []
          cases hs : (greedyStep h : M Bytes DErr _) r with
          | fault f => exact absurd hs (greedyStep_noFault h r f)
          | err e q => exact absurd hs (greedyStep_noErr h r e q)
          | ok p q =>
            obtain ⟨res, cont⟩ := p
            have hq := greedyStep_len hs
            cases cont with
            | false => exact ⟨[res], q, by simp only [bind_apply, hs]; simp, by omega⟩
            | true =>
              obtain ⟨rs, r', hr, hl⟩ := ih q (by omega)
              exact ⟨res :: rs, r', by simp only [bind_apply, hs]; simp [hr], by omega⟩

/-- `AVP::try_read_greedy` is total: a list of results for every input -/
theorem greedy_ok (s : Bytes) : ∃ rs r, (greedy : M Bytes DErr _) s = .ok rs r ∧ r.length ≤ s.length := by
  unfold greedy
  exact greedyAux_ok _ s (by simp)

theorem greedy_noFault : NoFault (greedy : M Bytes DErr (List Res)) := by
  intro s f
  obtain ⟨rs, r, h, _⟩ := greedy_ok s
  rw [h]; simp

end Rl2tp
