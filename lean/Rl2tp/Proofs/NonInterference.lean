/-
  Proofs.NonInterference: octets and bits the specification does not name have no influence on the result —
  the M bit and the reserved bits of an AVP's flag octet, surplus octets behind a fixed-width value (the reserved
  octets of AVPs 32 / 34 / 35 are inside the fixed width but not read: see `reserved_octets_ignored`), the value octets
  of a vendor-specific AVP, the pad octets of a data message's offset field.  Stated on the specification, which the
  decoder equals (`C05.decode_eq_spec`, `C05.decodeAvps_eq_spec`).
-/
import Rl2tp.Proofs.SpecAvps
import Rl2tp.Spec.Message
namespace Rl2tp
open Spec

theorem getD_append_left (p x : Bytes) (i : Nat) (h : i < p.length) : (p ++ x).getD i 0 = p.getD i 0 := by
  simp [List.getD_eq_getElem?_getD, List.getElem?_append_left h]

theorem u8At_append (p x : Bytes) (i : Nat) (h : i < p.length) : u8At (p ++ x) i = u8At p i := getD_append_left p x i h
theorem u16At_append (p x : Bytes) (i : Nat) (h : i + 2 ≤ p.length) : u16At (p ++ x) i = u16At p i := by
  simp only [u16At, getD_append_left p x i (by omega), getD_append_left p x (i + 1) (by omega)]
theorem u32At_append (p x : Bytes) (i : Nat) (h : i + 4 ≤ p.length) : u32At (p ++ x) i = u32At p i := by
  simp only [u32At, getD_append_left p x i (by omega), getD_append_left p x (i + 1) (by omega),
    getD_append_left p x (i + 2) (by omega), getD_append_left p x (i + 3) (by omega)]
theorem u64At_append (p x : Bytes) (i : Nat) (h : i + 8 ≤ p.length) : u64At (p ++ x) i = u64At p i := by
  simp only [u64At, getD_append_left p x i (by omega), getD_append_left p x (i + 1) (by omega),
    getD_append_left p x (i + 2) (by omega), getD_append_left p x (i + 3) (by omega),
    getD_append_left p x (i + 4) (by omega), getD_append_left p x (i + 5) (by omega),
    getD_append_left p x (i + 6) (by omega), getD_append_left p x (i + 7) (by omega)]

/-- the width of the kinds whose format is a fixed number of octets (surplus octets are not part of the value) -/
def fixedWidth : Nat → Option Nat
  | 0 | 2 | 6 | 9 | 10 | 14 | 29 | 32 => some 2
  | 3 | 4 | 15 | 16 | 17 | 18 | 19 | 24 | 25 | 36 | 38 => some 4
  | 5 => some 8
  | 13 => some 16
  | 34 => some 26
  | 35 => some 10
  | 39 => some 0
  | _ => none

theorem surplus_ignored (t : UInt16) (n : Nat) (hw : fixedWidth t.toNat = some n) (p x : Bytes) (hp : n ≤ p.length) :
    parsePayload t (p ++ x) = parsePayload t p := by
  have hk : t.toNat = 0 ∨ t.toNat = 2 ∨ t.toNat = 6 ∨ t.toNat = 9 ∨ t.toNat = 10 ∨ t.toNat = 14 ∨ t.toNat = 29 ∨ t.toNat = 32 ∨
      t.toNat = 3 ∨ t.toNat = 4 ∨ t.toNat = 15 ∨ t.toNat = 16 ∨ t.toNat = 17 ∨ t.toNat = 18 ∨ t.toNat = 19 ∨ t.toNat = 24 ∨
      t.toNat = 25 ∨ t.toNat = 36 ∨ t.toNat = 38 ∨ t.toNat = 5 ∨ t.toNat = 13 ∨ t.toNat = 34 ∨ t.toNat = 35 ∨ t.toNat = 39 := by
    unfold fixedWidth at hw
    split at hw <;> first | (cases hw; done) | omega
  rcases hk with hk | hk | hk | hk | hk | hk | hk | hk | hk | hk | hk | hk | hk | hk | hk | hk | hk | hk | hk | hk | hk | hk | hk | hk
  all_goals
    rw [hk] at hw
    simp only [fixedWidth, Option.some.injEq] at hw
    subst hw
    unfold parsePayload
    simp only [hk, fixed, List.length_append]
    try first
      | (split
         · omega
         · split
           · omega
           · simp (disch := omega) only [u8At_append, u16At_append, u32At_append, u64At_append])
      | rfl

/-- the M bit (0x01) and the four reserved bits (0x3C) of an AVP's first octet have no influence: two record lists that
    differ only there in their first octet are read alike -/
theorem avps_flag_bits_irrelevant (fuel : Nat) (a a' : UInt8) (t : Bytes)
    (h1 : a.toNat / 64 = a'.toNat / 64) (h2 : a.toNat / 2 % 2 = a'.toNat / 2 % 2) :
    Spec.avps fuel (a :: t) = Spec.avps fuel (a' :: t) := by
  cases fuel with
  | zero => rfl
  | succ n =>
    have hl : avpLen (a :: t) = avpLen (a' :: t) := by simp [avpLen, u8At, h1]
    simp only [Spec.avps, List.length_cons, hl]
    by_cases c1 : t.length + 1 < 6
    · simp [c1]
    simp only [if_neg c1]
    by_cases c2 : avpLen (a' :: t) < 6 ∨ avpLen (a' :: t) > t.length + 1
    · simp [c2]
    simp only [if_neg c2]
    have h6 : 6 ≤ avpLen (a' :: t) := by omega
    have hd : ∀ k, 1 ≤ k → (a :: t).drop k = (a' :: t).drop k := by
      intro k hk
      obtain ⟨j, rfl⟩ : ∃ j, k = j + 1 := ⟨k - 1, by omega⟩
      rfl
    have e1 : u16At (a :: t) 2 = u16At (a' :: t) 2 := rfl
    have e2 : u16At (a :: t) 4 = u16At (a' :: t) 4 := rfl
    have e3 : (u8At (a :: t) 0).toNat / 2 % 2 = (u8At (a' :: t) 0).toNat / 2 % 2 := h2
    rw [hd 6 (by omega), hd (avpLen (a' :: t)) (by omega), e1, e2, e3]

/-- a vendor-specific record is refused whatever its value octets: replacing them (same count) changes nothing, the
    list goes on behind the record in the same way -/
theorem avps_vendor_value_irrelevant (fuel : Nat) (a b c d e f : UInt8) (p p' rest : Bytes)
    (hv : word16 c d ≠ 0) (hl : p.length = p'.length)
    (hlen : avpLen (a :: b :: c :: d :: e :: f :: (p ++ rest)) = 6 + p.length) :
    Spec.avps fuel (a :: b :: c :: d :: e :: f :: (p ++ rest)) = Spec.avps fuel (a :: b :: c :: d :: e :: f :: (p' ++ rest)) := by
  cases fuel with
  | zero => rfl
  | succ n =>
    have hlen' : avpLen (a :: b :: c :: d :: e :: f :: (p' ++ rest)) = 6 + p'.length := by
      rw [← hl, ← hlen]; rfl
    have hvv : ∀ q : Bytes, u16At (a :: b :: c :: d :: e :: f :: q) 2 = word16 c d := fun _ => rfl
    simp only [Spec.avps, List.length_cons, List.length_append, hlen, hlen', hvv, hl]
    have hd1 : (a :: b :: c :: d :: e :: f :: (p ++ rest)).drop (6 + p.length) = rest := by
      have : (a :: b :: c :: d :: e :: f :: (p ++ rest)) = (a :: b :: c :: d :: e :: f :: p) ++ rest := by simp
      rw [this, List.drop_left' (by simp; omega)]
    have hd2 : (a :: b :: c :: d :: e :: f :: (p' ++ rest)).drop (6 + p'.length) = rest := by
      have : (a :: b :: c :: d :: e :: f :: (p' ++ rest)) = (a :: b :: c :: d :: e :: f :: p') ++ rest := by simp
      rw [this, List.drop_left' (by simp; omega)]
    rw [hd2] at *
    rw [← hl, hd1]
    simp only [if_pos hv]

/-- the reserved octets inside the fixed formats are not read: Proxy Authen ID (octet 0), Call Errors and ACCM
    (octets 0..1) -/
theorem reserved_octets_ignored (t : UInt16) (r r' s s' : UInt8) (q : Bytes) :
    (t.toNat = 32 → parsePayload t (r :: q) = parsePayload t (r' :: q)) ∧
    (t.toNat = 34 → parsePayload t (r :: s :: q) = parsePayload t (r' :: s' :: q)) ∧
    (t.toNat = 35 → parsePayload t (r :: s :: q) = parsePayload t (r' :: s' :: q)) := by
  refine ⟨fun ht => ?_, fun ht => ?_, fun ht => ?_⟩ <;>
    (unfold parsePayload
     simp only [ht, fixed, List.length_cons]
     split <;> rfl)

/-- the pad octets of a data message's offset field are skipped, not read: two inputs that differ only in them
    (`h` = the header fields after the flag word, `pad` / `pad'` = as many octets as the Offset Size says) are the same
    message, the same octets consumed -/
theorem offset_pad_irrelevant (x : UInt8) (h pad pad' rest : Bytes) (hO : bitO x = true)
    (hh : h.length = headerSize x) (hp : pad.length = (u16At h (headerSize x - 2)).toNat) (hp' : pad'.length = pad.length) :
    dataMessage x (h ++ pad ++ rest) = dataMessage x (h ++ pad' ++ rest) := by
  have hd : ∀ q : Bytes, q.length = pad.length → (h ++ q ++ rest).drop (headerSize x + pad.length) = rest := by
    intro q hq
    rw [List.drop_left' (by simp [hh, hq])]
  have key : ∀ q : Bytes, q.length = pad.length →
      dataMessage x (h ++ q ++ rest) = dataMessage x (h ++ pad ++ rest) := by
    intro q hq
    unfold dataMessage
    have hlen : (h ++ q ++ rest).length = (h ++ pad ++ rest).length := by simp [hq]
    cases hL : bitL x <;> cases hS : bitS x <;>
      simp only [headerSize, hL, hS, hO, if_true, Bool.false_eq_true, if_false, hlen] at hh ⊢ <;>
      (have e : ∀ (y : Bytes) (i : Nat), i + 2 ≤ h.length → u16At (h ++ y ++ rest) i = u16At h i := by
         intro y i hi; rw [List.append_assoc]; exact u16At_append h (y ++ rest) i hi
       simp (disch := omega) only [e]
       have hp2 := hp
       have hdq := hd q hq
       have hdp := hd pad rfl
       simp only [headerSize, hL, hS, hO, if_true, Bool.false_eq_true, if_false] at hp2 hdq hdp
       rw [hp2] at hdq hdp
       rw [hdq, hdp])
  rw [key pad' hp']

end Rl2tp
