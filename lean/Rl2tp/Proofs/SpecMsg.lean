/-
  Proofs.SpecMsg: `decode` refines `Spec.decodeM`: same accept set, same value, same number of octets
  consumed — for every byte string and every option set.
-/
import Rl2tp.Proofs.SpecAvps
import Rl2tp.Proofs.Options
import Rl2tp.Proofs.SpecM
namespace Rl2tp
open Spec

/-- forget which errors; keep the value and the remaining input -/
def viewR : Out Bytes ε Msg → Option (Msg × Bytes)
  | .ok m r => some (m, r)
  | _ => none

/-- a specification answer (value, octets consumed) as (value, remaining input) -/
def afterSpec (input : Bytes) (x : Option (Msg × Nat)) : Option (Msg × Bytes) :=
  x.map fun p => (p.1, input.drop p.2)

/-- where the ids start in a data message, after the flag word -/
def idPos (w : UInt16) : Nat := if hasLength w then 2 else 0

/-- the header block reads the fields at their positions -/
theorem readDataHeader_eq (w : UInt16) (s : Bytes) (h : dataNeed w ≤ s.length) :
    (readDataHeader w : M Bytes DErr DataHdr) s =
      .ok { mlen := if hasLength w then some (u16At s 0) else none,
            tid := u16At s (idPos w), sid := u16At s (idPos w + 2),
            nsnr := if hasNsNr w then some (u16At s (idPos w + 4), u16At s (idPos w + 6)) else none,
            off := if hasOffset w then some (u16At s (dataNeed w - 2)) else none }
        (s.drop (dataNeed w)) := by
  unfold readDataHeader dataNeed idPos at *
  by_cases hL : hasLength w <;> by_cases hS : hasNsNr w <;> by_cases hO : hasOffset w <;>
    simp only [hL, hS, hO, if_true, if_false, Bool.false_eq_true] at h ⊢
  · obtain ⟨a, b, c, d, e, f, g, i, j, k, l, m, r, rfl⟩ := exists_cons12 (s := s) (by omega)
    simp; rfl
  · obtain ⟨x, y, a, b, c, d, e, f, g, i, r, rfl⟩ := exists_cons10 (s := s) (by omega)
    simp; rfl
  · obtain ⟨a, b, c, d, e, f, g, i, r, rfl⟩ := exists_cons8 (s := s) (by omega)
    simp; rfl
  · obtain ⟨a, b, c, d, e, f, r, rfl⟩ := exists_cons6 (s := s) (by omega)
    simp; rfl
  · obtain ⟨x, y, a, b, c, d, e, f, g, i, r, rfl⟩ := exists_cons10 (s := s) (by omega)
    simp; rfl
  · obtain ⟨a, b, c, d, e, f, g, i, r, rfl⟩ := exists_cons8 (s := s) (by omega)
    simp; rfl
  · obtain ⟨a, b, c, d, e, f, r, rfl⟩ := exists_cons6 (s := s) (by omega)
    simp; rfl
  · obtain ⟨a, b, c, d, r, rfl⟩ := exists_cons4 (s := s) (by omega)
    simp; rfl

theorem readDataHeader_short (w : UInt16) (s : Bytes) (h : s.length < dataNeed w) :
    (readDataHeader w : M Bytes DErr DataHdr) s = .err .incompleteDataMessageHeader s := by
  unfold readDataHeader dataNeed at *
  simp [h]

/-- the offset pad, as a number of octets -/
def padOf (w : UInt16) (s : Bytes) : Nat := if hasOffset w then (u16At s (dataNeed w - 2)).toNat else 0

theorem skipOffset_eq (w : UInt16) (s : Bytes) (h : dataNeed w ≤ s.length) :
    (skipOffset (if hasOffset w then some (u16At s (dataNeed w - 2)) else none) : M Bytes DErr Unit) (s.drop (dataNeed w)) =
      if s.length - dataNeed w < padOf w s then .err (.invalidOffset (u16At s (dataNeed w - 2))) (s.drop (dataNeed w))
      else .ok () (s.drop (dataNeed w + padOf w s)) := by
  unfold padOf
  by_cases hO : hasOffset w
  · simp only [hO, if_true, skipOffset, bind_apply, len_apply, len_bytes, List.length_drop, M.ite_apply, fail_apply]
    by_cases hc : s.length - dataNeed w < (u16At s (dataNeed w - 2)).toNat
    · rw [if_pos hc, if_pos hc]
    · rw [if_neg hc, if_neg hc, skip_ok (by simp; omega), List.drop_drop]
  · simp [hO, skipOffset]

theorem readDataPayload_eq (w : UInt16) (h : DataHdr) (s : Bytes) (start : Nat) (hs : start ≤ s.length) :
    (readDataPayload s.length w h : M Bytes DErr Msg) (s.drop start) =
      match h.mlen with
      | some l =>
        if l.toNat < 2 + start ∨ l.toNat - (2 + start) > s.length - start then .err .incompleteDataMessagePayload (s.drop start)
        else if l.toNat - (2 + start) = 0 then .err .emptyDataMessagePayload (s.drop start)
        else .ok (.data { prio := isPrioritized w, length := h.mlen, tunnelId := h.tid, sessionId := h.sid, nsnr := h.nsnr,
                          offset := none, data := (s.drop start).take (l.toNat - (2 + start)) })
               (s.drop (start + (l.toNat - (2 + start))))
      | none =>
        if s.length - start = 0 then .err .emptyDataMessagePayload (s.drop start)
        else .ok (.data { prio := isPrioritized w, length := h.mlen, tunnelId := h.tid, sessionId := h.sid, nsnr := h.nsnr,
                          offset := none, data := s.drop start }) [] := by
  unfold readDataPayload
  have hrem : (s.drop start).length = s.length - start := by simp
  have hhl : 2 + (s.length - (s.length - start)) = 2 + start := by omega
  simp only [bind_apply, len_apply, len_bytes, hrem]
  rw [subM_ok (by omega)]
  simp only [hhl]
  cases hm : h.mlen with
  | none =>
    simp only [bind_apply, M.ite_apply, fail_apply, pure_apply]
    by_cases h0 : s.length - start = 0
    · rw [if_pos h0, if_pos h0]
    · rw [if_neg h0, if_neg h0, ← hrem, readBytes_all]
  | some l =>
    simp only [bind_apply, M.ite_apply, fail_apply, pure_apply]
    by_cases c0 : l.toNat < 2 + start
    · rw [if_pos c0, if_pos (Or.inl c0)]
    rw [if_neg c0, subM_ok (by omega)]
    simp only []
    by_cases c1 : l.toNat - (2 + start) > s.length - start
    · rw [if_pos c1, if_pos (Or.inr c1)]
    rw [if_neg c1, if_neg (show ¬ (l.toNat < 2 + start ∨ l.toNat - (2 + start) > s.length - start) by omega)]
    by_cases c2 : l.toNat - (2 + start) = 0
    · rw [if_pos c2, if_pos c2]
    · rw [if_neg c2, if_neg c2, readBytes_ok _ (by rw [hrem]; omega), List.drop_drop]

/-- data messages: the three blocks refine the positional reading -/
theorem decodeData_view (w : UInt16) (s : Bytes) :
    viewR ((decodeData w : M Bytes DErr Msg) s) = afterSpec s (Spec.decodeDataM w s) := by
  unfold Rl2tp.decodeData Spec.decodeDataM
  simp only [bind_apply, len_apply, len_bytes]
  by_cases hneed : s.length < dataNeed w
  · rw [readDataHeader_short w s hneed, if_pos hneed]; rfl
  · have hle : dataNeed w ≤ s.length := by omega
    rw [readDataHeader_eq w s hle, if_neg hneed]
    simp only []
    rw [skipOffset_eq w s hle]
    have hpad : (if hasOffset w = true then (u16At s (dataNeed w - 2)).toNat else 0) = padOf w s := rfl
    simp only [hpad]
    by_cases hp : s.length - dataNeed w < padOf w s
    · rw [if_pos hp, if_pos hp]; rfl
    · rw [if_neg hp, if_neg hp]
      simp only []
      rw [readDataPayload_eq w _ s (dataNeed w + padOf w s) (by omega)]
      generalize hst : dataNeed w + padOf w s = start at *
      have hstart : start ≤ s.length := by omega
      by_cases hL : hasLength w = true
      · simp only [hL, if_true]
        have hid : idPos w = 2 := by simp [idPos, hL]
        generalize hl : (u16At s 0).toNat = l at *
        by_cases c1 : l < 2 + start ∨ l - (2 + start) > s.length - start
        · have c1' : l < 2 + start ∨ l - (2 + start) > s.length - start ∨ l = 2 + start := by
            rcases c1 with h | h
            · exact Or.inl h
            · exact Or.inr (Or.inl h)
          rw [if_pos c1, if_pos c1']; rfl
        · rw [if_neg c1]
          by_cases c2 : l - (2 + start) = 0
          · have c2' : l < 2 + start ∨ l - (2 + start) > s.length - start ∨ l = 2 + start := by
              right; right; omega
            rw [if_pos c2, if_pos c2']; rfl
          · have c2' : ¬ (l < 2 + start ∨ l - (2 + start) > s.length - start ∨ l = 2 + start) := by
              intro hc
              rcases hc with h | h | h
              · exact c1 (Or.inl h)
              · exact c1 (Or.inr h)
              · omega
            rw [if_neg c2, if_neg c2']
            have hcount : start + (l - (2 + start)) = l - 2 := by omega
            simp only [viewR, afterSpec, Option.map, hid, hcount]
      · simp only [hL, Bool.false_eq_true, if_false]
        have hid : idPos w = 0 := by simp [idPos, hL]
        by_cases c0 : s.length - start = 0
        · have c0' : s.length = start := by omega
          rw [if_pos c0, if_pos c0']; rfl
        · have c0' : ¬ s.length = start := by omega
          rw [if_neg c0, if_neg c0']
          simp [viewR, afterSpec, hid]

/-! ### control messages -/

theorem any_isNone_iff (rs : List Res) : (rs.map viewRes).any (·.isNone) = true ↔ resErrors rs ≠ [] := by
  induction rs with
  | nil => simp [resErrors]
  | cons r rs ih =>
    cases r with
    | ok a => simpa [viewRes, resErrors] using ih
    | error e => simp [viewRes, resErrors]

theorem filterMap_view (rs : List Res) : (rs.map viewRes).filterMap id = resValues rs := by
  induction rs with
  | nil => rfl
  | cons r rs ih =>
    cases r with
    | ok a => simpa [viewRes, resValues] using ih
    | error e => simpa [viewRes, resValues] using ih

/-- the model's acceptance test over the result list is the specification's -/
theorem acceptAvps_view (rs : List Res) :
    acceptAvps (rs.map viewRes) = if firstBad rs = true ∨ resErrors rs ≠ [] then none else some (resValues rs) := by
  unfold acceptAvps
  by_cases he : resErrors rs ≠ []
  · rw [if_pos ((any_isNone_iff rs).mpr he), if_pos (Or.inr he)]
  · have hn : ¬ ((rs.map viewRes).any (·.isNone) = true) := fun h => he ((any_isNone_iff rs).mp h)
    rw [if_neg hn]
    cases rs with
    | nil => simp [firstBad, resErrors, resValues]
    | cons r rs =>
      cases r with
      | error e => simp [resErrors] at he
      | ok a =>
        have hfm := filterMap_view (.ok a :: rs)
        simp only [List.map_cons, viewRes] at hfm ⊢
        cases a <;> simp [firstBad, firstOk, he, hfm]

theorem decodeControlCore_view (w : UInt16) (s : Bytes) :
    viewR ((decodeControlCore w : M Bytes (List DErr) Msg) s) = afterSpec s (
      if ¬ hasLength w = true ∨ ¬ hasNsNr w = true then none else
      if s.length < 10 then none else
      if (u16At s 0).toNat < 12 ∨ (u16At s 0).toNat > s.length + 2 then none else
      match acceptAvps (avps (((s.drop 10).take ((u16At s 0).toNat - 12)).length + 1) ((s.drop 10).take ((u16At s 0).toNat - 12))) with
      | none => none
      | some as => some (.control (Control.mk (u16At s 0) (u16At s 2) (u16At s 4) (u16At s 6) (u16At s 8) as),
                         (u16At s 0).toNat - 2)) := by
  unfold decodeControlCore
  by_cases hL0 : ¬ hasLength w = true
  · simp [hL0, viewR, afterSpec]
  have hL : hasLength w = true := by simpa using hL0
  by_cases hS0 : ¬ hasNsNr w = true
  · simp [hL, hS0, viewR, afterSpec]
  have hS : hasNsNr w = true := by simpa using hS0
  by_cases h10 : s.length < 10
  · simp [hL, hS, h10, viewR, afterSpec]
  obtain ⟨l1, l2, t1, t2, s1, s2, n1, n2, m1, m2, body, rfl⟩ := exists_cons10 (by omega : 10 ≤ s.length)
  have h5' : ¬ (body.length + 1 + 1 + 1 + 1 + 1 + 1 + 1 + 1 + 1 + 1 < 10) := by omega
  have e0 : u16At (l1 :: l2 :: t1 :: t2 :: s1 :: s2 :: n1 :: n2 :: m1 :: m2 :: body) 0 = word16 l1 l2 := rfl
  have e2 : u16At (l1 :: l2 :: t1 :: t2 :: s1 :: s2 :: n1 :: n2 :: m1 :: m2 :: body) 2 = word16 t1 t2 := rfl
  have e4 : u16At (l1 :: l2 :: t1 :: t2 :: s1 :: s2 :: n1 :: n2 :: m1 :: m2 :: body) 4 = word16 s1 s2 := rfl
  have e6 : u16At (l1 :: l2 :: t1 :: t2 :: s1 :: s2 :: n1 :: n2 :: m1 :: m2 :: body) 6 = word16 n1 n2 := rfl
  have e8 : u16At (l1 :: l2 :: t1 :: t2 :: s1 :: s2 :: n1 :: n2 :: m1 :: m2 :: body) 8 = word16 m1 m2 := rfl
  have ed : (l1 :: l2 :: t1 :: t2 :: s1 :: s2 :: n1 :: n2 :: m1 :: m2 :: body).drop 10 = body := rfl
  have elen : (l1 :: l2 :: t1 :: t2 :: s1 :: s2 :: n1 :: n2 :: m1 :: m2 :: body).length = body.length + 10 := by simp
  rw [e0, e2, e4, e6, e8, ed, elen]
  simp only [bind_apply, len_apply, len_bytes, hL, hS, Bool.not_true, Bool.false_eq_true, if_false, List.length_cons, h5',
    readU16_cons, M.ite_apply, fail_apply, not_true_eq_false, or_self]
  generalize hl : (word16 l1 l2).toNat = l
  by_cases h6 : l < 12
  · rw [if_pos h6, if_pos (show l < 12 ∨ l > body.length + 10 + 2 from Or.inl h6)]; rfl
  rw [if_neg h6]
  by_cases h7 : l > body.length + 12
  · rw [if_pos h7, if_pos (show l < 12 ∨ l > body.length + 10 + 2 from Or.inr (by omega))]; rfl
  rw [if_neg h7, if_neg (show ¬ (l < 12 ∨ l > body.length + 10 + 2) by omega), subM_ok (by omega)]
  simp only []
  have hle : l - 12 ≤ body.length := by omega
  rw [inSub_ok (ε' := List DErr) (greedy : M Bytes DErr (List Res)) hle]
  obtain ⟨rs, r, hg, hv⟩ := greedy_view (body.take (l - 12))
  rw [hg, ← hv, acceptAvps_view]
  simp only [subResult]
  by_cases hf : firstBad rs = true
  · simp [hf, viewR, afterSpec]
  · by_cases he : resErrors rs ≠ []
    · simp [hf, he, viewR, afterSpec]
    · have hor : ¬ (firstBad rs = true ∨ resErrors rs ≠ []) := by
        intro h; rcases h with h | h
        · exact hf h
        · exact he h
      rw [if_neg hf, if_neg he, if_neg hor]
      simp only [pure_apply, viewR, afterSpec, Option.map]
      have hd : (l1 :: l2 :: t1 :: t2 :: s1 :: s2 :: n1 :: n2 :: m1 :: m2 :: body).drop (l - 2) = body.drop (l - 12) := by
        have : l - 2 = (l - 12) + 10 := by omega
        rw [this]; rfl
      rw [hd]

theorem viewR_liftE (m : M Bytes DErr Msg) (t : Bytes) : viewR (liftE m t) = viewR (m t) := by
  unfold liftE
  cases m t <;> rfl

theorem afterSpec_shift (x y : UInt8) (t : Bytes) (v : Option (Msg × Nat)) :
    afterSpec (x :: y :: t) (v.map fun p => (p.1, p.2 + 2)) = afterSpec t v := by
  cases v with
  | none => rfl
  | some p => simp [afterSpec]

theorem decodeControl_view (w : UInt16) (o : Opts) (s : Bytes) :
    viewR ((decodeControl w o : M Bytes (List DErr) Msg) s) = afterSpec s (Spec.decodeControlM w o s) := by
  rw [decodeControl_eq]
  unfold Spec.decodeControlM
  by_cases hu : o.unused = true
  · by_cases hp : isPrioritized w = true
    · simp [hu, hp, viewR, afterSpec]
    · by_cases ho : hasOffset w = true
      · simp [hu, hp, ho, viewR, afterSpec]
      · have c : ¬ (o.unused = true ∧ (isPrioritized w = true ∨ hasOffset w = true)) := by
          intro h; rcases h.2 with h | h
          · exact hp h
          · exact ho h
        rw [if_neg c]
        simp only [hu, Bool.true_and, hp, ho, Bool.false_eq_true, if_false]
        exact decodeControlCore_view w s
  · have c : ¬ (o.unused = true ∧ (isPrioritized w = true ∨ hasOffset w = true)) := fun h => hu h.1
    rw [if_neg c]
    have hu' : o.unused = false := by simpa using hu
    simp only [hu', Bool.false_and, Bool.false_eq_true, if_false]
    exact decodeControlCore_view w s

/-- **The decoder accepts exactly the specified language with the specified values**: for every byte
    string and every option set, `decode` returns a value iff `Spec.decodeM` does, the values are equal,
    and the reader is left exactly after the octets the specification says were consumed. -/
theorem decode_view (o : Opts) (b : Bytes) :
    viewR ((decode o : M Bytes (List DErr) Msg) b) = afterSpec b (Spec.decodeM o b) := by
  unfold Spec.decodeM
  by_cases hs : b.length < 2
  · rw [decode_short o hs, if_pos hs]; rfl
  obtain ⟨x, y, t, rfl⟩ := exists_cons2 (by omega : 2 ≤ b.length)
  rw [decode_cons, if_neg hs]
  have hw : u16At (x :: y :: t) 0 = word16 x y := rfl
  have hd : (x :: y :: t).drop 2 = t := rfl
  simp only [hw, hd]
  by_cases hv : (o.version && decide (version (word16 x y) ≠ 2)) = true
  · have hv' : o.version = true ∧ version (word16 x y) ≠ 2 := by simpa using hv
    rw [if_pos hv, if_pos hv']; rfl
  · have hv' : ¬ (o.version = true ∧ version (word16 x y) ≠ 2) := by simpa using hv
    rw [if_neg hv, if_neg hv']
    by_cases hr : (o.reserved && !reservedOk (word16 x y)) = true
    · have hr' : o.reserved = true ∧ ¬ reservedOk (word16 x y) = true := by simpa using hr
      rw [if_pos hr, if_pos hr']; rfl
    · have hr' : ¬ (o.reserved = true ∧ ¬ reservedOk (word16 x y) = true) := by simpa using hr
      rw [if_neg hr, if_neg hr', afterSpec_shift]
      by_cases hc : isControl (word16 x y) = true
      · rw [if_pos hc, if_pos hc]; exact decodeControl_view _ o t
      · rw [if_neg hc, if_neg hc, viewR_liftE]; exact decodeData_view _ t

end Rl2tp
