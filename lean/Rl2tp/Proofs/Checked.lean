/-
  Proofs.Checked: "every call issued to R has its precondition satisfied", for an arbitrary conforming reader R.

  `Checked ρ` wraps a reader and *polices the contract*: an unchecked request (fixed-width read, skip, sub-range) that
  asks for more than the wrapped reader says it has left is not passed on — it becomes a fault (`ub` / `panic`, as on the
  reference cursor).  Requests within the contract, and the one checked operation `bytes`, go through unchanged.  If
  the wrapped reader conforms, so does the wrapper; the decoder over the wrapper therefore simulates the decoder over
  the cursor, which never faults (C01) — hence the wrapper never faults either: not one request of the whole run was out
  of contract, whatever reader is underneath.
-/
import Rl2tp.Proofs.Sim2
namespace Rl2tp

structure Checked (ρ : Type) where
  inner : ρ

instance {ρ : Type} [Rdr ρ] : Rdr (Checked ρ) where
  len r := Rdr.len r.inner
  u8 r := if 1 ≤ Rdr.len r.inner then (Rdr.u8 r.inner).map fun p => (p.1, ⟨p.2⟩) else .error .ub
  u16 r := if 2 ≤ Rdr.len r.inner then (Rdr.u16 r.inner).map fun p => (p.1, ⟨p.2⟩) else .error .ub
  u32 r := if 4 ≤ Rdr.len r.inner then (Rdr.u32 r.inner).map fun p => (p.1, ⟨p.2⟩) else .error .ub
  u64 r := if 8 ≤ Rdr.len r.inner then (Rdr.u64 r.inner).map fun p => (p.1, ⟨p.2⟩) else .error .ub
  skip r n := if n ≤ Rdr.len r.inner then (Rdr.skip r.inner n).map Checked.mk else .error .panic
  sub r n := if n ≤ Rdr.len r.inner then (Rdr.sub r.inner n).map fun p => (⟨p.1⟩, ⟨p.2⟩) else .error .panic
  bytes r n := (Rdr.bytes r.inner n).map fun p => (p.1, ⟨p.2⟩)

section
variable {ρ : Type} [Rdr ρ] {abs : ρ → Bytes}

theorem cursor_u8_len {s : Bytes} {v c} (h : Rdr.u8 s = .ok (v, c)) : 1 ≤ s.length := by
  match s, h with
  | _ :: _, _ => simp
theorem cursor_u16_len {s : Bytes} {v c} (h : Rdr.u16 s = .ok (v, c)) : 2 ≤ s.length := by
  match s, h with
  | _ :: _ :: _, _ => simp
theorem cursor_u32_len {s : Bytes} {v c} (h : Rdr.u32 s = .ok (v, c)) : 4 ≤ s.length := by
  match s, h with
  | _ :: _ :: _ :: _ :: _, _ => simp
theorem cursor_u64_len {s : Bytes} {v c} (h : Rdr.u64 s = .ok (v, c)) : 8 ≤ s.length := by
  match s, h with
  | _ :: _ :: _ :: _ :: _ :: _ :: _ :: _ :: _, _ => simp
theorem cursor_skip_len {s : Bytes} {n c} (h : Rdr.skip s n = .ok c) : n ≤ s.length := by
  simp only [Rdr.skip] at h
  split at h
  · assumption
  · cases h
theorem cursor_sub_len {s : Bytes} {n a c} (h : Rdr.sub s n = .ok (a, c)) : n ≤ s.length := by
  simp only [Rdr.sub] at h
  split at h
  · assumption
  · cases h

/-- the contract-policing wrapper of a conforming reader conforms -/
theorem checked_conforms (hc : Conforms ρ abs) : Conforms (Checked ρ) (fun r => abs r.inner) where
  len r := hc.len r.inner
  u8 r v c h := by
    obtain ⟨r', h1, h2⟩ := hc.u8 r.inner v c h
    have hl : 1 ≤ Rdr.len r.inner := by rw [hc.len]; exact cursor_u8_len h
    exact ⟨⟨r'⟩, by show (if _ then _ else _) = _; rw [if_pos hl, h1]; rfl, h2⟩
  u16 r v c h := by
    obtain ⟨r', h1, h2⟩ := hc.u16 r.inner v c h
    have hl : 2 ≤ Rdr.len r.inner := by rw [hc.len]; exact cursor_u16_len h
    exact ⟨⟨r'⟩, by show (if _ then _ else _) = _; rw [if_pos hl, h1]; rfl, h2⟩
  u32 r v c h := by
    obtain ⟨r', h1, h2⟩ := hc.u32 r.inner v c h
    have hl : 4 ≤ Rdr.len r.inner := by rw [hc.len]; exact cursor_u32_len h
    exact ⟨⟨r'⟩, by show (if _ then _ else _) = _; rw [if_pos hl, h1]; rfl, h2⟩
  u64 r v c h := by
    obtain ⟨r', h1, h2⟩ := hc.u64 r.inner v c h
    have hl : 8 ≤ Rdr.len r.inner := by rw [hc.len]; exact cursor_u64_len h
    exact ⟨⟨r'⟩, by show (if _ then _ else _) = _; rw [if_pos hl, h1]; rfl, h2⟩
  skip r n c h := by
    obtain ⟨r', h1, h2⟩ := hc.skip r.inner n c h
    have hl : n ≤ Rdr.len r.inner := by rw [hc.len]; exact cursor_skip_len h
    exact ⟨⟨r'⟩, by show (if _ then _ else _) = _; rw [if_pos hl, h1]; rfl, h2⟩
  sub r n s c h := by
    obtain ⟨s', r', h1, h2, h3⟩ := hc.sub r.inner n s c h
    have hl : n ≤ Rdr.len r.inner := by rw [hc.len]; exact cursor_sub_len h
    exact ⟨⟨s'⟩, ⟨r'⟩, by show (if _ then _ else _) = _; rw [if_pos hl, h1]; rfl, h2, h3⟩
  bytesSome r n b c h := by
    obtain ⟨r', h1, h2⟩ := hc.bytesSome r.inner n b c h
    exact ⟨⟨r'⟩, by show Option.map _ _ = _; rw [h1]; rfl, h2⟩
  bytesNone r n h := by
    show Option.map _ _ = _
    rw [hc.bytesNone r.inner n h]; rfl

/-- a simulated run of a computation whose cursor run is fault-free is fault-free -/
theorem Sim.noFault {ρ' : Type} {abs' : ρ' → Bytes} {m₁ : M ρ' ε α} {m₂ : M Bytes ε α} (hs : Sim abs' m₁ m₂)
    (hn : ∀ s f, m₂ s ≠ .fault f) (r : ρ') (f : Fault) : m₁ r ≠ .fault f := by
  have h := hs.run r
  cases h2 : m₂ (abs' r) with
  | fault g => exact absurd h2 (hn _ g)
  | ok a c => rw [h2] at h; obtain ⟨r', h1, _⟩ := h; rw [h1]; intro hh; cases hh
  | err e c => rw [h2] at h; obtain ⟨r', h1, _⟩ := h; rw [h1]; intro hh; cases hh

end
end Rl2tp
