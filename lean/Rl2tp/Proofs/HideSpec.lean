/-
  Proofs.HideSpec: the model's chaining (`encChain` / `decChain` over `chunks`) is the RFC's
  index-by-index construction (`Spec.Hide.cipherBlock` / `plainBlock`).
-/
import Rl2tp.Proofs.RevealTotal
import Rl2tp.Spec.Hide
namespace Rl2tp
open Spec.Hide

theorem xorB_eq_xor (a k : Bytes) : xorB a k = Spec.Hide.xor a k := rfl

theorem block_drop16 (buf : Bytes) (i : Nat) : block (buf.drop 16) i = block buf (i + 1) := by
  simp only [block, List.drop_drop]
  congr 2
  omega

theorem range_succ_map {α : Type} (n : Nat) (f : Nat → α) :
    (List.range (n + 1)).map f = f 0 :: (List.range n).map (fun i => f (i + 1)) := by
  rw [List.range_succ_eq_map]
  simp [List.map_map, Function.comp_def]

section
variable (md5 : Bytes → Bytes) (s : Bytes)

/-- c(i) with an arbitrary first key -/
def cipherFrom (key buf : Bytes) : Nat → Bytes
  | 0 => xorB (block buf 0) key
  | i + 1 => xorB (block buf (i + 1)) (md5 (s ++ cipherFrom key buf i))

theorem cipherFrom_shift (key buf : Bytes) (i : Nat) :
    cipherFrom md5 s (md5 (s ++ cipherFrom md5 s key buf 0)) (buf.drop 16) i = cipherFrom md5 s key buf (i + 1) := by
  induction i with
  | zero => simp [cipherFrom, block_drop16]
  | succ i ih =>
    show xorB (block (buf.drop 16) (i + 1)) (md5 (s ++ cipherFrom md5 s _ (buf.drop 16) i)) = _
    rw [ih, block_drop16]
    rfl

theorem encChain_eq_range (key buf : Bytes) (n : Nat) :
    encChain md5 s key (chunks n buf) = (List.range n).map (cipherFrom md5 s key buf) := by
  induction n generalizing key buf with
  | zero => rfl
  | succ n ih =>
    rw [range_succ_map]
    simp only [chunks, encChain]
    have h0 : xorB (buf.take 16) key = cipherFrom md5 s key buf 0 := by simp [cipherFrom, block]
    rw [h0, ih]
    congr 1
    apply List.map_congr_left
    intro i _
    exact cipherFrom_shift md5 s key buf i

/-- p(i) with an arbitrary first key -/
def plainFrom (key buf : Bytes) : Nat → Bytes
  | 0 => xorB (block buf 0) key
  | i + 1 => xorB (block buf (i + 1)) (md5 (s ++ block buf i))

theorem decChain_eq_range (key buf : Bytes) (n : Nat) :
    decChain md5 s key (chunks n buf) = (List.range n).map (plainFrom md5 s key buf) := by
  induction n generalizing key buf with
  | zero => rfl
  | succ n ih =>
    rw [range_succ_map]
    simp only [chunks, decChain]
    have h0 : xorB (buf.take 16) key = plainFrom md5 s key buf 0 := by simp [plainFrom, block]
    rw [h0, ih]
    congr 1
    apply List.map_congr_left
    intro i _
    cases i with
    | zero => simp [plainFrom, block_drop16, block]
    | succ i => simp only [plainFrom, block_drop16]

theorem cipherFrom_eq_spec (t : UInt16) (rv : UInt32) (buf : Bytes) (i : Nat) :
    cipherFrom md5 s (md5 (be16 t ++ s ++ be32 rv)) buf i = cipherBlock md5 t s rv buf i := by
  induction i with
  | zero => rfl
  | succ i ih => simp only [cipherFrom, cipherBlock, ih]; rfl

theorem plainFrom_eq_spec (t : UInt16) (rv : UInt32) (buf : Bytes) (i : Nat) :
    plainFrom md5 s (md5 (be16 t ++ s ++ be32 rv)) buf i = plainBlock md5 t s rv buf i := by
  cases i <;> rfl

end

theorem hidePlain_eq_spec (a : AVP) (lp ap : Bytes) : hidePlain a lp ap = plaintext a.value lp ap := by
  simp only [hidePlain, plaintext, List.length_append, be16_length]
  first | done | (congr 3; omega)

/-- the hidden value `hide` stores is the RFC's c(0) ‖ c(1) ‖ … -/
theorem hide_value_eq_spec (md5 : Bytes → Bytes) (a : AVP) (secret : Bytes) (rv : UInt32) (lp ap : Bytes)
    (hh : a.isHidden = false) (hl : 6 + a.value.length ≤ 1023) :
    hide md5 a secret rv lp ap = .ok (.hidden a.attr (hiddenValue md5 a.attr secret rv a.value lp ap)) := by
  rw [hide_eq md5 a secret rv lp ap hh hl, hidePlain_eq_spec]
  unfold key1 hiddenValue
  rw [encChain_eq_range]
  simp only []
  have : List.map (cipherFrom md5 secret (md5 (be16 a.attr ++ secret ++ be32 rv)) (plaintext a.value lp ap))
      (List.range ((plaintext a.value lp ap).length / 16)) =
      List.map (cipherBlock md5 a.attr secret rv (plaintext a.value lp ap))
      (List.range ((plaintext a.value lp ap).length / 16)) := by
    apply List.map_congr_left
    intro i _
    exact cipherFrom_eq_spec md5 secret a.attr rv _ i
  rw [this]

/-- the buffer `reveal` parses is the RFC's p(0) ‖ p(1) ‖ … -/
theorem revealPlain_eq_spec (md5 : Bytes → Bytes) (t : UInt16) (v secret : Bytes) (rv : UInt32) :
    revealPlain md5 t v secret rv = decrypted md5 t secret rv v := by
  unfold revealPlain decrypted
  rw [decChain_eq_range]
  have : List.map (plainFrom md5 secret (md5 (be16 t ++ secret ++ be32 rv)) v) (List.range (v.length / 16)) =
      List.map (plainBlock md5 t secret rv v) (List.range (v.length / 16)) := by
    apply List.map_congr_left
    intro i _
    exact plainFrom_eq_spec md5 secret t rv v i
  rw [this]

end Rl2tp
