/-
  Proofs.Greedy: the loop's fuel does not matter once it exceeds the input length; the loop peels one
  record at a time; a sequence of images decodes to the sequence of values.
-/
import Rl2tp.Proofs.Image
import Rl2tp.Model.Message
namespace Rl2tp

/-- what one more record in front does to the loop's answer -/
def consRes (res : Res) : Out Bytes DErr (List Res) → Out Bytes DErr (List Res)
  | .ok rs r => .ok (res :: rs) r
  | .err e r => .err e r
  | .fault f => .fault f

/-- unfolding one iteration -/
theorem greedyAux_succ (n : Nat) (s : Bytes) :
    (greedyAux (n + 1) : M Bytes DErr _) s =
      match (readHeader : M Bytes DErr _) s with
      | .ok none r => .ok [] r
      | .ok (some (.error e)) r => .ok [.error e] r
      | .ok (some (.ok h)) r =>
        (match (greedyStep h : M Bytes DErr _) r with
          | .ok (res, true) q => consRes res ((greedyAux n : M Bytes DErr _) q)
          | .ok (res, false) q => .ok [res] q
          | .err e q => .err e q
          | .fault f => .fault f)
      | .err e r => .err e r
      | .fault f => .fault f := by
  simp only [greedyAux, bind_apply]
  cases hh : (readHeader : M Bytes DErr _) s with
  | fault f => rfl
  | err e r => rfl
  | ok x r =>
    cases x with
    | none => rfl
    | some y =>
      cases y with
      | error e => rfl
      | ok h =>
        simp only []
        cases hs : (greedyStep h : M Bytes DErr _) r with
        | fault f => simp only [bind_apply, hs]
        | err e q => simp only [bind_apply, hs]
        | ok p q =>
          obtain ⟨res, cont⟩ := p
          cases cont with
          | false => simp [hs]
          | true =>
            simp only [bind_apply, hs, if_true, pure_apply, consRes]
            cases (greedyAux n : M Bytes DErr _) q <;> rfl

theorem greedyAux_fuel (f1 f2 : Nat) (s : Bytes) (h1 : s.length < f1) (h2 : s.length < f2) :
    (greedyAux f1 : M Bytes DErr _) s = greedyAux f2 s := by
  induction f1 generalizing f2 s with
  | zero => omega
  | succ n ih =>
    cases f2 with
    | zero => omega
    | succ m =>
      rw [greedyAux_succ, greedyAux_succ]
      cases hh : (readHeader : M Bytes DErr _) s with
      | fault f => rfl
      | err e r => rfl
      | ok x r =>
        cases x with
        | none => rfl
        | some y =>
          have hlen := readHeader_some hh
          cases y with
          | error e => rfl
          | ok h =>
            simp only []
            cases hs : (greedyStep h : M Bytes DErr _) r with
            | fault f => rfl
            | err e q => rfl
            | ok p q =>
              obtain ⟨res, cont⟩ := p
              have hq := greedyStep_len hs
              cases cont with
              | false => rfl
              | true =>
                simp only []
                rw [ih m q (by omega) (by omega)]

theorem greedy_eq_aux (s : Bytes) (f : Nat) (h : s.length < f) :
    (greedy : M Bytes DErr _) s = greedyAux f s := by
  unfold greedy
  exact greedyAux_fuel _ _ s (by simp) h

/-- a record in front whose header reads as `h` and whose iteration continues -/
theorem greedy_step {s r q : Bytes} {h : Header} {res : Res}
    (hh : (readHeader : M Bytes DErr _) s = .ok (some (.ok h)) r)
    (hs : (greedyStep h : M Bytes DErr _) r = .ok (res, true) q) :
    (greedy : M Bytes DErr _) s = consRes res (greedy q) := by
  have hlen := readHeader_some hh
  have hq := greedyStep_len hs
  rw [greedy_eq_aux s (s.length + 1) (by omega), greedyAux_succ, hh]
  simp only [hs]
  rw [greedy_eq_aux q s.length (by omega)]

/-- a record in front whose iteration stops the loop -/
theorem greedy_stop {s r q : Bytes} {h : Header} {res : Res}
    (hh : (readHeader : M Bytes DErr _) s = .ok (some (.ok h)) r)
    (hs : (greedyStep h : M Bytes DErr _) r = .ok (res, false) q) :
    (greedy : M Bytes DErr _) s = .ok [res] q := by
  rw [greedy_eq_aux s (s.length + 1) (by omega), greedyAux_succ, hh]
  simp only [hs]

theorem greedy_short {s : Bytes} (h : s.length < 6) : (greedy : M Bytes DErr _) s = .ok [] s := by
  rw [greedy_eq_aux s (s.length + 1) (by omega), greedyAux_succ, readHeader_lt h]

/-- the greedy reader peels exactly one encodable AVP off the front, whatever follows -/
theorem greedy_image (a : AVP) (rest : Bytes) (he : a.Encodable) :
    (greedy : M Bytes DErr _) (avpImage a ++ rest) = consRes (.ok a) (greedy rest) :=
  greedy_step (readHeader_image a rest he.2) (greedyStep_image a rest he)

/-- the images of a list of AVPs, one after another -/
def avpsImage (as : List AVP) : Bytes := as.flatMap avpImage

theorem greedy_images (as : List AVP) (rest : Bytes) (he : ∀ a ∈ as, a.Encodable) (rs : List Res) (r : Bytes)
    (hr : (greedy : M Bytes DErr _) rest = .ok rs r) :
    (greedy : M Bytes DErr _) (avpsImage as ++ rest) = .ok (as.map .ok ++ rs) r := by
  induction as with
  | nil => simpa [avpsImage] using hr
  | cons a as ih =>
    have ih' := ih (fun x hx => he x (by simp [hx]))
    simp only [avpsImage, List.flatMap_cons, List.append_assoc] at ih' ⊢
    rw [greedy_image a _ (he a (by simp)), ih']
    simp [consRes]

/-- `AVP::try_read_greedy (encode a) = [Ok a]` -/
theorem avp_roundtrip (a : AVP) (he : a.Encodable) :
    (greedy : M Bytes DErr _) (avpImage a) = .ok [.ok a] [] := by
  have := greedy_image a [] he
  rw [List.append_nil] at this
  rw [this, greedy_short (by simp)]
  rfl

/-- the AVP loop of the control encoder appends the images -/
theorem writeAvps_eq (w : Bytes) (as : List AVP) (h : ∀ a ∈ as, 6 + a.value.length ≤ 1023) :
    writeAvps w as = .ok (w ++ avpsImage as) := by
  induction as generalizing w with
  | nil => simp [writeAvps, avpsImage]
  | cons a as ih =>
    simp only [writeAvps]
    rw [writeAvp_eq w a (h a (by simp))]
    simp only []
    rw [ih _ (fun x hx => h x (by simp [hx]))]
    simp [avpsImage]

end Rl2tp
