/-
  Proofs.GenKinds: the per-kind `ATTRIBUTE_TYPE` constants of src/message/avp/types/*.rs, as `bin/gentables` has just read
  them (Gen.typeConstants, first two columns), against the model: the number a kind's writer emits is the number the
  dispatch decodes that kind under, and it is the number the model's writer emits for that kind.
-/
import Rl2tp.Gen.Tables
import Rl2tp.Driver.Text
import Rl2tp.Model.Avp
namespace Rl2tp.GenKinds
open Rl2tp.Text

/-- a payload every kind's decoder accepts: (00 01) × 16 -/
def sample : Bytes := (List.range 16).flatMap fun _ => [0, 1]

/-- the AVP the model decodes from the sample under attribute number `t` -/
def sampleAvp (t : Nat) : Option AVP :=
  match (decodeAvp (UInt16.ofNat t) : M Bytes DErr AVP) sample with
  | .ok a _ => some a
  | _ => none

/-- each kind's own ATTRIBUTE_TYPE constant (what its writer emits, what its errors carry) is the number the dispatch
    decodes it under -/
theorem type_constants_match_dispatch :
    Gen.typeConstants.map (fun r => (r.1, r.2.1)) = Gen.dispatch := by decide

/-- the number the model's writer puts in front of a value of a kind is the source's constant for that kind -/
theorem writer_attr_is_model :
    ∀ r ∈ Gen.typeConstants, (sampleAvp r.1).map (fun a => (kindName a, a.attr.toNat)) = some (r.2.1, r.1) := by decide

/-- the number the model's first guard reports is the source's constant for that kind (no kind but the empty one
    accepts an empty payload) -/
theorem guard_reports_own_number :
    ∀ r ∈ Gen.typeConstants, r.2.2.1 = 0 ∨
      (decodeAvp (UInt16.ofNat r.1) : M Bytes DErr AVP) [] = .err (.incompleteAVP (UInt16.ofNat r.1)) [] := by decide

/-- where the source's `get_length` returns a constant, the model's `getLength` of a value of that kind is that constant -/
theorem fixed_lengths_is_model :
    ∀ r ∈ Gen.typeConstants, ∀ l, r.2.2.2.2 = some l → (sampleAvp r.1).map AVP.getLength = some l := by decide

end Rl2tp.GenKinds
