/-
  Proofs.GenGuards: the first guard of every per-kind decoder of src/message/avp/types/*.rs (`reader.len() < Self::LENGTH`,
  `reader.is_empty()`, or none), as `bin/gentables` has just read it (Gen.typeConstants, third column), against the
  model's decoder for the kind of that name: below the least length the model refuses the payload as incomplete, at it
  it does not.  The unchecked reads that follow a guard are covered by it only if the constant is what the model has.
-/
import Rl2tp.Gen.Tables
import Rl2tp.Model.Avp
namespace Rl2tp.GenGuards

def zeros (n : Nat) : Bytes := List.replicate n 0

/-- the attribute number the source's dispatch decodes the kind called `name` under -/
def numberOf (name : String) : Nat := (Gen.dispatch.find? (·.2 == name)).map (·.1) |>.getD 65535

/-- the model's decoder for attribute number `t` refuses `n` zero octets as an incomplete AVP -/
def refusedAsIncomplete (t n : Nat) : Bool :=
  match (decodeAvp (UInt16.ofNat t) : M Bytes DErr AVP) (zeros n) with
  | .err (.incompleteAVP _) _ => true
  | _ => false

/-- for the kinds whose guard stands in front of unchecked reads (what totality and the reader contract need): below the
    least length the guard lets through the model refuses the payload as incomplete, at it it does not -/
theorem unchecked_guards_is_model :
    ∀ r ∈ Gen.typeConstants, r.2.2.2.1 = true →
      (∀ n ∈ List.range r.2.2.1, refusedAsIncomplete (numberOf r.2.1) n = true) ∧
      refusedAsIncomplete (numberOf r.2.1) r.2.2.1 = false := by decide

end Rl2tp.GenGuards
