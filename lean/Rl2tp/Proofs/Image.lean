/-
  Proofs.Image: the wire image of an AVP; `writeAvp` appends exactly it (absolute back-patch included);
  the header reader and the greedy loop peel exactly it off the front of any input.
-/
import Rl2tp.Proofs.Roundtrip
import Rl2tp.Proofs.Frame
namespace Rl2tp

/-- first header octet: length bits 8..9 in bits 6..7, M = bit 0 (always set by the encoder), H = bit 1 -/
def flagOctet (hidden : Bool) (n : Nat) : UInt8 :=
  UInt8.ofNat ((n / 256 % 4) * 64 + 1 + (if hidden then 2 else 0))

/-- the octets of one AVP on the wire -/
def avpImage (a : AVP) : Bytes :=
  [flagOctet a.isHidden (6 + a.value.length), UInt8.ofNat ((6 + a.value.length) % 256), 0, 0] ++ be16 a.attr ++ a.value

theorem avpImage_length (a : AVP) : (avpImage a).length = 6 + a.value.length := by
  simp [avpImage]; omega

theorem payload_length (a : AVP) : a.payload.length = 2 + a.value.length := by
  simp [AVP.payload]

/-- the back-patch: two octets at the captured absolute offset, nothing else moves -/
theorem writeAt_patch (w : Bytes) (x y p q : UInt8) (tail : Bytes) :
    writeAt (w ++ p :: q :: tail) w.length [x, y] = .ok (w ++ x :: y :: tail) := by
  unfold writeAt
  rw [if_pos (by simp)]
  simp [List.take_append, List.drop_append]

/-- `AVP::write` into a writer holding `w`: appends the image, touches nothing before it -/
theorem writeAvp_eq (w : Bytes) (a : AVP) (h : 6 + a.value.length ≤ 1023) :
    writeAvp w a = .ok (w ++ avpImage a) := by
  unfold writeAvp
  have hl : (w ++ [0, 0] ++ be16 0 ++ a.payload).length - w.length = 6 + a.value.length := by
    simp [payload_length]; omega
  simp only [hl, makeFlagsAndLength, if_pos h]
  have e : w ++ [0, 0] ++ be16 0 ++ a.payload = w ++ 0 :: 0 :: (be16 0 ++ a.payload) := by simp
  rw [e, writeAt_patch]
  simp [avpImage, flagOctet, AVP.payload, be16]

/-- a value too large for the 10-bit length field makes the encoder fail loudly -/
theorem writeAvp_oversize (w : Bytes) (a : AVP) (h : 6 + a.value.length > 1023) :
    writeAvp w a = .error .panic := by
  unfold writeAvp
  have hl : (w ++ [0, 0] ++ be16 0 ++ a.payload).length - w.length = 6 + a.value.length := by
    simp [payload_length]; omega
  simp only [hl, makeFlagsAndLength]
  rw [if_neg (by omega)]

theorem flagOctet_toNat (hd : Bool) (n : Nat) : (flagOctet hd n).toNat = (n / 256 % 4) * 64 + 1 + (if hd then 2 else 0) := by
  unfold flagOctet
  apply u8_small
  split <;> omega

/-- the header reader recovers length, flags, vendor and attribute type from an image -/
theorem readHeader_image (a : AVP) (rest : Bytes) (h : 6 + a.value.length ≤ 1023) :
    (readHeader : M Bytes DErr _) (avpImage a ++ rest) =
      .ok (some (.ok { flags := UInt8.ofNat (1 + (if a.isHidden then 2 else 0)),
                       payloadLength := UInt16.ofNat a.value.length, vendorId := 0, attributeType := a.attr }))
        (a.value ++ rest) := by
  simp only [avpImage, be16, List.cons_append, List.nil_append, List.append_assoc]
  rw [readHeader_cons]
  have e2 : (UInt8.ofNat ((6 + a.value.length) % 256)).toNat = (6 + a.value.length) % 256 := u8_small (by omega)
  have hlen : hdrLen (flagOctet a.isHidden (6 + a.value.length)) (UInt8.ofNat ((6 + a.value.length) % 256)) = 6 + a.value.length := by
    unfold hdrLen
    rw [flagOctet_toNat, e2]
    split <;> omega
  rw [hlen, if_neg (by omega)]
  have hfl : (flagOctet a.isHidden (6 + a.value.length)).toNat % 64 = 1 + (if a.isHidden then 2 else 0) := by
    rw [flagOctet_toNat]; split <;> omega
  have h0 : word16 0 0 = 0 := by decide
  simp [hfl, h0]

theorem header_isHidden (hd : Bool) :
    Header.isHidden { flags := UInt8.ofNat (1 + (if hd then 2 else 0)), payloadLength := p, vendorId := v, attributeType := t } = hd := by
  cases hd <;> simp [Header.isHidden]

/-- one loop iteration on an image: the AVP itself, and the loop goes on with what follows -/
theorem greedyStep_image (a : AVP) (rest : Bytes) (he : a.Encodable) :
    (greedyStep { flags := UInt8.ofNat (1 + (if a.isHidden then 2 else 0)),
                  payloadLength := UInt16.ofNat a.value.length, vendorId := 0, attributeType := a.attr }
        : M Bytes DErr _) (a.value ++ rest) = .ok (.ok a, true) rest := by
  obtain ⟨hw, hl⟩ := he
  have hpl : (UInt16.ofNat a.value.length).toNat = a.value.length := u16_small (by omega)
  rw [greedyStep_eq]
  simp only [hpl, List.length_append]
  rw [if_neg (by omega)]
  simp only [ne_eq, not_true_eq_false, if_false, header_isHidden]
  cases hh : a.isHidden
  · simp only [Bool.false_eq_true, if_false]
    rw [List.take_left' rfl, List.drop_left' rfl, payload_roundtrip a hw hh]
  · simp only [if_true]
    rw [List.take_left' rfl, List.drop_left' rfl]
    cases a <;> simp [AVP.isHidden] at hh
    simp [AVP.value, AVP.attr]

end Rl2tp
