/-
  Proofs.SpecAvps: the greedy AVP reader refines `Spec.avps`, element for element (value or not).
-/
import Rl2tp.Proofs.SpecAvp
import Rl2tp.Proofs.Greedy
namespace Rl2tp
open Spec

def viewRes : Res → Option AVP
  | .ok a => some a
  | .error _ => none

theorem u8_mod64_half (a : UInt8) : (UInt8.ofNat (a.toNat % 64)).toNat / 2 % 2 = a.toNat / 2 % 2 := by
  have := a.toNat_lt
  rw [u8_small (by omega)]
  omega

/-- one record at the head of `s` (≥ 6 octets), as the model's header reader and loop body see it -/
theorem greedyAux_view (fuel : Nat) (s : Bytes) (hf : s.length < fuel) :
    ∃ rs r, (greedyAux fuel : M Bytes DErr _) s = .ok rs r ∧ rs.map viewRes = avps fuel s := by
  induction fuel generalizing s with
  | zero => omega
  | succ n ih =>
    rw [greedyAux_succ]
    by_cases hl : s.length < 6
    · rw [readHeader_lt hl]
      exact ⟨[], s, rfl, by simp [avps, hl]⟩
    · obtain ⟨a, b, c, d, e, f, r, rfl⟩ := exists_cons6 (by omega : 6 ≤ s.length)
      have hal : avpLen (a :: b :: c :: d :: e :: f :: r) = hdrLen a b := rfl
      have hlt := hdrLen_lt a b
      rw [readHeader_cons]
      simp only [avps, hl, if_false, hal]
      by_cases h6 : hdrLen a b < 6
      · rw [if_pos h6, if_pos (Or.inl h6)]
        exact ⟨_, _, rfl, rfl⟩
      · rw [if_neg h6]
        simp only []
        have hpl : (UInt16.ofNat (hdrLen a b - 6)).toNat = hdrLen a b - 6 := u16_small (by omega)
        rw [greedyStep_eq]
        simp only [hpl]
        by_cases hbig : hdrLen a b - 6 > r.length
        · rw [if_pos hbig, if_pos (Or.inr (by simp; omega))]
          exact ⟨_, _, rfl, rfl⟩
        · have hnb : ¬ (hdrLen a b < 6 ∨ hdrLen a b > (a :: b :: c :: d :: e :: f :: r).length) := by
            simp; omega
          rw [if_neg hbig, if_neg hnb]
          have hdrop : (a :: b :: c :: d :: e :: f :: r).drop (hdrLen a b) = r.drop (hdrLen a b - 6) := by
            have : hdrLen a b = (hdrLen a b - 6) + 6 := by omega
            rw [this]; simp
          have hd6 : (a :: b :: c :: d :: e :: f :: r).drop 6 = r := rfl
          have hv : u16At (a :: b :: c :: d :: e :: f :: r) 2 = word16 c d := rfl
          have ht : u16At (a :: b :: c :: d :: e :: f :: r) 4 = word16 e f := rfl
          have h0 : u8At (a :: b :: c :: d :: e :: f :: r) 0 = a := rfl
          rw [hdrop, hd6, hv, ht, h0]
          obtain ⟨rs, q, hq, hrs⟩ := ih (r.drop (hdrLen a b - 6)) (by simp at hf ⊢; omega)
          by_cases hven : word16 c d ≠ 0
          · rw [if_pos hven, if_pos hven]
            simp only [hq, consRes]
            exact ⟨_, _, rfl, by simp [viewRes, hrs]⟩
          · rw [if_neg hven, if_neg hven]
            simp only [Header.isHidden, u8_mod64_half]
            by_cases hhid : a.toNat / 2 % 2 = 1
            · simp only [hhid, decide_true, if_true, hq, consRes]
              exact ⟨_, _, rfl, by simp [viewRes, hrs]⟩
            · simp only [hhid, decide_false, Bool.false_eq_true, if_false]
              have hview := decodeAvp_view (word16 e f) (r.take (hdrLen a b - 6))
              cases hdec : (decodeAvp (word16 e f) : M Bytes DErr AVP) (r.take (hdrLen a b - 6)) with
              | ok x y =>
                rw [hdec] at hview
                simp only [hq, consRes]
                exact ⟨_, _, rfl, by simp [viewRes, hrs, ← hview, viewAvp]⟩
              | err x y =>
                rw [hdec] at hview
                simp only [hq, consRes]
                exact ⟨_, _, rfl, by simp [viewRes, hrs, ← hview, viewAvp]⟩
              | fault g => exact absurd hdec (decodeAvp_noFault _ _ g)

/-- `AVP::try_read_greedy` refines `Spec.avps`: the same records, each a value or not -/
theorem greedy_view (s : Bytes) :
    ∃ rs r, (greedy : M Bytes DErr _) s = .ok rs r ∧ rs.map viewRes = avps (s.length + 1) s := by
  unfold greedy
  exact greedyAux_view (s.length + 1) s (by simp)

end Rl2tp
