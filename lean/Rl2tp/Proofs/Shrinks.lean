/-
  Proofs.Shrinks: on the cursor, no decoder step ever makes the remaining input longer.  (What the data
  decoder's `initial_length - reader.len()` silently relies on.)
-/
import Rl2tp.Model.Message
namespace Rl2tp

structure Shrinks (m : M Bytes ε α) : Prop where
  le : ∀ s a r, m s = .ok a r → r.length ≤ s.length

theorem Shrinks.pure (a : α) : Shrinks (pure a : M Bytes ε α) := ⟨fun s a' r h => by
  simp only [pure_apply, Out.ok.injEq] at h; rw [← h.2]; exact Nat.le_refl _⟩

theorem Shrinks.fail (e : ε) : Shrinks (fail e : M Bytes ε α) := ⟨fun s a r h => by simp at h⟩

theorem Shrinks.bind {m : M Bytes ε α} {f : α → M Bytes ε β} (hm : Shrinks m) (hf : ∀ a, Shrinks (f a)) :
    Shrinks (m >>= f) := by
  constructor
  intro s b r h
  rw [bind_apply] at h
  cases hms : m s with
  | ok a q => rw [hms] at h; exact Nat.le_trans ((hf a).le q b r h) (hm.le s a q hms)
  | err e q => rw [hms] at h; cases h
  | fault g => rw [hms] at h; cases h

theorem Shrinks.ite {c : Prop} [Decidable c] {a b : M Bytes ε α} (ha : Shrinks a) (hb : Shrinks b) :
    Shrinks (if c then a else b) := by
  split <;> assumption

theorem Shrinks.len : Shrinks (len : M Bytes ε Nat) := ⟨fun s a r h => by
  simp only [len_apply, Out.ok.injEq] at h; rw [← h.2]; exact Nat.le_refl _⟩

theorem Shrinks.readU8 : Shrinks (readU8 : M Bytes ε UInt8) := ⟨fun s a r h => by
  cases s with
  | nil => cases h
  | cons x t =>
    have e : (Rl2tp.readU8 : M Bytes ε UInt8) (x :: t) = .ok x t := rfl
    rw [e] at h
    simp only [Out.ok.injEq] at h
    rw [← h.2]; exact Nat.le_succ _⟩

theorem Shrinks.readU16 : Shrinks (readU16 : M Bytes ε UInt16) := ⟨fun s a r h => by
  match s, h with
  | [], h => cases h
  | [_], h => cases h
  | x :: y :: t, h =>
    rw [readU16_cons] at h
    simp only [Out.ok.injEq] at h
    rw [← h.2]; simp only [List.length_cons]; omega⟩

theorem Shrinks.readU32 : Shrinks (readU32 : M Bytes ε UInt32) := ⟨fun s a r h => by
  match s, h with
  | [], h => cases h
  | [_], h => cases h
  | [_, _], h => cases h
  | [_, _, _], h => cases h
  | x :: y :: z :: w :: t, h =>
    rw [readU32_cons] at h
    simp only [Out.ok.injEq] at h
    rw [← h.2]; simp only [List.length_cons]; omega⟩

theorem Shrinks.skip (n : Nat) : Shrinks (skip n : M Bytes ε Unit) := ⟨fun s a r h => by
  by_cases hn : n ≤ s.length
  · rw [skip_ok hn] at h
    simp only [Out.ok.injEq] at h; rw [← h.2]; simp only [List.length_drop]; omega
  · have e : (Rl2tp.skip n : M Bytes ε Unit) s = .fault .panic := by simp [Rl2tp.skip, Rdr.skip, hn]
    rw [e] at h; cases h⟩

theorem Shrinks.subM (a b : Nat) : Shrinks (subM a b : M Bytes ε Nat) := ⟨fun s x r h => by
  unfold Rl2tp.subM at h
  split at h
  · simp only [Out.ok.injEq] at h; rw [← h.2]; exact Nat.le_refl _
  · cases h⟩

macro "shrinks" : tactic => `(tactic|
  repeat' (first
    | apply Shrinks.bind | apply Shrinks.len | apply Shrinks.readU8 | apply Shrinks.readU16 | apply Shrinks.readU32
    | apply Shrinks.skip | apply Shrinks.subM | apply Shrinks.ite | apply Shrinks.pure | apply Shrinks.fail
    | intro _ | split))

theorem readDataHeader_shrinks (w : UInt16) : Shrinks (readDataHeader w : M Bytes DErr DataHdr) := by
  unfold readDataHeader; shrinks

theorem skipOffset_shrinks (o : Option UInt16) : Shrinks (skipOffset o : M Bytes DErr Unit) := by
  unfold skipOffset; shrinks

end Rl2tp
