/-
  Proofs.Reencode: whatever the decoder accepts is encodable, and never needs more octets than it was
  read from.
-/
import Rl2tp.Proofs.SpecSound
import Rl2tp.Proofs.Consumed
import Rl2tp.Proofs.Control
namespace Rl2tp
open Spec

theorem avpLen_lt (s : Bytes) : avpLen s < 1024 := by
  unfold avpLen
  have := (u8At s 0).toNat_lt; have := (u8At s 1).toNat_lt
  omega

/-- the values among the records of a body are encodable and their images fit in the body -/
theorem avps_sound (fuel : Nat) (s : Bytes) :
    (∀ a ∈ (avps fuel s).filterMap id, a.Encodable) ∧
    (avpsImage ((avps fuel s).filterMap id)).length ≤ s.length := by
  induction fuel generalizing s with
  | zero => simp [avps, avpsImage]
  | succ n ih =>
    unfold avps
    split
    · simp [avpsImage]
    · rename_i h6
      split
      · simp [avpsImage]
      · rename_i hbad
        have hlt := avpLen_lt s
        have hl6 : 6 ≤ avpLen s := by omega
        have hls : avpLen s ≤ s.length := by omega
        obtain ⟨ih1, ih2⟩ := ih (s.drop (avpLen s))
        have hdrop : (s.drop (avpLen s)).length = s.length - avpLen s := by simp
        have hpay : ((s.drop 6).take (avpLen s - 6)).length = avpLen s - 6 := by simp; omega
        simp only []
        generalize hr : (if u16At s 2 ≠ 0 then none
          else if (u8At s 0).toNat / 2 % 2 = 1 then some (AVP.hidden (u16At s 4) ((s.drop 6).take (avpLen s - 6)))
          else parsePayload (u16At s 4) ((s.drop 6).take (avpLen s - 6))) = r
        cases r with
        | none =>
          simp only [List.filterMap_cons, id]
          exact ⟨ih1, by omega⟩
        | some a =>
          have ha : a.Encodable ∧ 6 + a.value.length ≤ avpLen s := by
            split at hr
            · cases hr
            · split at hr
              · simp only [Option.some.injEq] at hr
                subst hr
                exact ⟨⟨rfl, by simp only [AVP.value, hpay]; omega⟩, by simp only [AVP.value, hpay]; omega⟩
              · obtain ⟨hw, _, hv⟩ := parsePayload_sound _ _ _ hr
                rw [hpay] at hv
                exact ⟨⟨hw, by omega⟩, by omega⟩
          simp only [List.filterMap_cons, id]
          constructor
          · intro x hx
            simp only [List.mem_cons] at hx
            rcases hx with rfl | hx
            · exact ha.1
            · exact ih1 x hx
          · simp only [avpsImage, List.flatMap_cons, List.length_append, avpImage_length] at ih2 ⊢
            omega

/-- accepted record lists: every record is a value, and the first one is a Message Type -/
theorem acceptAvps_some {rs : List (Option AVP)} {as : List AVP} (h : acceptAvps rs = some as) :
    as = rs.filterMap id ∧ firstIsMessageType as = true := by
  unfold acceptAvps at h
  split at h
  · cases h
  · split at h
    · simp only [Option.some.injEq] at h; subst h; exact ⟨rfl, rfl⟩
    · simp only [Option.some.injEq] at h; subst h
      exact ⟨rfl, by simp [firstIsMessageType]⟩
    · cases h

/-- what the specification accepts as a control message: its AVPs are encodable, the first is a Message
    Type, and the re-encoding is no longer than the Length it was read with -/
theorem specControl_sound (w : UInt16) (o : Opts) (s : Bytes) (m : Msg) (k : Nat)
    (h : Spec.decodeControlM w o s = some (m, k)) :
    ∃ c, m = .control c ∧ (∀ a ∈ c.avps, a.Encodable) ∧ firstIsMessageType c.avps = true ∧
      12 + (avpsImage c.avps).length ≤ 65535 := by
  unfold Spec.decodeControlM at h
  split at h
  · cases h
  split at h
  · cases h
  split at h
  · cases h
  simp only [] at h
  split at h
  · cases h
  rename_i c4
  split at h
  · cases h
  · rename_i as hacc
    simp only [Option.some.injEq, Prod.mk.injEq] at h
    obtain ⟨rfl, rfl⟩ := h
    obtain ⟨rfl, hfirst⟩ := acceptAvps_some hacc
    obtain ⟨henc, hsize⟩ := avps_sound (((s.drop 10).take ((u16At s 0).toNat - 12)).length + 1)
      ((s.drop 10).take ((u16At s 0).toNat - 12))
    refine ⟨_, rfl, henc, hfirst, ?_⟩
    have hl := (u16At s 0).toNat_lt
    have : ((s.drop 10).take ((u16At s 0).toNat - 12)).length ≤ (u16At s 0).toNat - 12 := by
      simp only [List.length_take]; omega
    simp only [] at hsize ⊢
    omega

end Rl2tp
