/-
  Proofs.Shape: a successful payload decode yields a value of the kind the dispatch row names.
-/
import Rl2tp.Proofs.Leaf2
namespace Rl2tp

theorem leafU16_shape {attr mk} {s r : Bytes} {a : AVP} (h : leafU16 attr mk s = .ok a r) : ∃ v, a = mk v := by
  by_cases hs : s.length < 2
  · rw [leafU16_short hs] at h; simp at h
  · obtain ⟨x, y, q, rfl⟩ := exists_cons2 (by omega : 2 ≤ s.length)
    rw [leafU16_cons] at h; simp only [Out.ok.injEq] at h; exact ⟨_, h.1.symm⟩

theorem leafU32_shape {attr mk} {s r : Bytes} {a : AVP} (h : leafU32 attr mk s = .ok a r) : ∃ v, a = mk v := by
  by_cases hs : s.length < 4
  · rw [leafU32_short hs] at h; simp at h
  · obtain ⟨x, y, z, w, q, rfl⟩ := exists_cons4 (by omega : 4 ≤ s.length)
    rw [leafU32_cons] at h; simp only [Out.ok.injEq] at h; exact ⟨_, h.1.symm⟩

theorem leafU64_shape {attr mk} {s r : Bytes} {a : AVP} (h : leafU64 attr mk s = .ok a r) : ∃ v, a = mk v := by
  by_cases hs : s.length < 8
  · rw [leafU64_short hs] at h; simp at h
  · obtain ⟨a1, a2, a3, a4, a5, a6, a7, a8, q, rfl⟩ := exists_cons8 (by omega : 8 ≤ s.length)
    rw [leafU64_cons] at h; simp only [Out.ok.injEq] at h; exact ⟨_, h.1.symm⟩

theorem leafB4_shape {attr mk} {s r : Bytes} {a : AVP} (h : leafB4 attr mk s = .ok a r) : ∃ v, a = mk v := by
  by_cases hs : s.length < 4
  · rw [leafB4_short hs] at h; simp at h
  · obtain ⟨x, y, z, w, q, rfl⟩ := exists_cons4 (by omega : 4 ≤ s.length)
    rw [leafB4_cons] at h; simp only [Out.ok.injEq] at h; exact ⟨_, h.1.symm⟩

theorem leafBytes_shape {attr mk} {s r : Bytes} {a : AVP} (h : leafBytes attr mk s = .ok a r) :
    ∃ v, v ≠ [] ∧ a = mk v := by
  by_cases hs : s = []
  · subst hs; rw [leafBytes_nil] at h; simp at h
  · rw [leafBytes_ne hs] at h; simp only [Out.ok.injEq] at h; exact ⟨s, hs, h.1.symm⟩

theorem leafStr_shape {attr mk} {s r : Bytes} {a : AVP} (h : leafStr attr mk s = .ok a r) :
    ∃ v, v ≠ [] ∧ Spec.Utf8.valid v = true ∧ a = mk v := by
  by_cases hs : s = []
  · subst hs; rw [leafStr_nil] at h; simp at h
  · rw [leafStr_ne hs] at h
    split at h
    · simp only [Out.ok.injEq] at h; exact ⟨s, hs, ‹_›, h.1.symm⟩
    · simp at h

theorem readMessageType_shape {s r : Bytes} {a : AVP} (h : (readMessageType : M Bytes DErr AVP) s = .ok a r) :
    ∃ t, a = .messageType t := by
  by_cases hs : s.length < 2
  · rw [readMessageType_short hs] at h; simp at h
  · obtain ⟨x, y, q, rfl⟩ := exists_cons2 (by omega : 2 ≤ s.length)
    rw [readMessageType_cons] at h
    split at h
    · simp only [Out.ok.injEq] at h; exact ⟨_, h.1.symm⟩
    · simp at h

theorem readProxyAuthenType_shape {s r : Bytes} {a : AVP} (h : (readProxyAuthenType : M Bytes DErr AVP) s = .ok a r) :
    ∃ t, a = .proxyAuthenType t := by
  by_cases hs : s.length < 2
  · rw [readProxyAuthenType_short hs] at h; simp at h
  · obtain ⟨x, y, q, rfl⟩ := exists_cons2 (by omega : 2 ≤ s.length)
    rw [readProxyAuthenType_cons] at h
    split at h
    · simp only [Out.ok.injEq] at h; exact ⟨_, h.1.symm⟩
    · simp at h

theorem readProtocolVersion_shape {s r : Bytes} {a : AVP} (h : (readProtocolVersion : M Bytes DErr AVP) s = .ok a r) :
    ∃ v w, a = .protocolVersion v w := by
  by_cases hs : s.length < 2
  · rw [readProtocolVersion_short hs] at h; simp at h
  · obtain ⟨x, y, q, rfl⟩ := exists_cons2 (by omega : 2 ≤ s.length)
    rw [readProtocolVersion_cons] at h; simp only [Out.ok.injEq] at h; exact ⟨_, _, h.1.symm⟩

theorem readProxyAuthenId_shape {s r : Bytes} {a : AVP} (h : (readProxyAuthenId : M Bytes DErr AVP) s = .ok a r) :
    ∃ v, a = .proxyAuthenId v := by
  by_cases hs : s.length < 2
  · rw [readProxyAuthenId_short hs] at h; simp at h
  · obtain ⟨x, y, q, rfl⟩ := exists_cons2 (by omega : 2 ≤ s.length)
    rw [readProxyAuthenId_cons] at h; simp only [Out.ok.injEq] at h; exact ⟨_, h.1.symm⟩

theorem readChallengeResponse_shape {s r : Bytes} {a : AVP}
    (h : (readChallengeResponse : M Bytes DErr AVP) s = .ok a r) : ∃ hi lo, a = .challengeResponse hi lo := by
  by_cases hs : s.length < 16
  · rw [readChallengeResponse_short hs] at h; simp at h
  · rw [readChallengeResponse_ok (by omega)] at h; simp only [Out.ok.injEq] at h; exact ⟨_, _, h.1.symm⟩

theorem readResultCode_shape {s r : Bytes} {a : AVP} (h : (readResultCode : M Bytes DErr AVP) s = .ok a r) :
    ∃ c e, a = .resultCode c e := by
  by_cases hs : s.length < 2
  · rw [readResultCode_short hs] at h; simp at h
  · obtain ⟨x, y, q, rfl⟩ := exists_cons2 (by omega : 2 ≤ s.length)
    by_cases h2 : q.length < 2
    · rw [readResultCode_cons_short _ _ _ h2] at h; simp only [Out.ok.injEq] at h; exact ⟨_, _, h.1.symm⟩
    · obtain ⟨c, d, q', rfl⟩ := exists_cons2 (by omega : 2 ≤ q.length)
      rw [readResultCode_cons_long] at h
      split at h
      · simp only [Out.ok.injEq] at h; exact ⟨_, _, h.1.symm⟩
      · simp at h
      · simp at h

theorem readQ931_shape {s r : Bytes} {a : AVP} (h : (readQ931 : M Bytes DErr AVP) s = .ok a r) :
    ∃ c m adv, a = .q931CauseCode c m adv := by
  by_cases hs : s.length < 3
  · rw [readQ931_short hs] at h; simp at h
  · obtain ⟨x, y, z, q, rfl⟩ := exists_cons3 (by omega : 3 ≤ s.length)
    rw [readQ931_cons] at h
    split at h
    · simp only [Out.ok.injEq] at h; exact ⟨_, _, _, h.1.symm⟩
    · split at h
      · simp only [Out.ok.injEq] at h; exact ⟨_, _, _, h.1.symm⟩
      · simp at h

theorem readCallErrors_shape {s r : Bytes} {a : AVP} (h : (readCallErrors : M Bytes DErr AVP) s = .ok a r) :
    ∃ a1 a2 a3 a4 a5 a6, a = .callErrors a1 a2 a3 a4 a5 a6 := by
  by_cases hs : s.length < 26
  · rw [readCallErrors_short hs] at h; simp at h
  · obtain ⟨x, y, a1, a2, a3, a4, b1, b2, b3, b4, c1, c2, c3, c4, d1, d2, d3, d4, e1, e2, e3, e4, f1, f2, f3, f4, q, rfl⟩ :=
      exists_cons26 (by omega : 26 ≤ s.length)
    rw [readCallErrors_cons] at h; simp only [Out.ok.injEq] at h; exact ⟨_, _, _, _, _, _, h.1.symm⟩

theorem readAccm_shape {s r : Bytes} {a : AVP} (h : (readAccm : M Bytes DErr AVP) s = .ok a r) :
    ∃ x y, a = .accm x y := by
  by_cases hs : s.length < 10
  · rw [readAccm_short hs] at h; simp at h
  · obtain ⟨x, y, a1, a2, a3, a4, b1, b2, b3, b4, q, rfl⟩ := exists_cons10 (by omega : 10 ≤ s.length)
    rw [readAccm_cons] at h; simp only [Out.ok.injEq] at h; exact ⟨_, _, h.1.symm⟩

theorem decodeAvp_unknown (t : UInt16) (h : t.toNat = 20 ∨ 40 ≤ t.toNat) :
    (decodeAvp t : M Bytes DErr AVP) = fail (.unknownAvp t) := by
  unfold decodeAvp
  split <;> first | rfl | omega

/-- whatever the dispatch table decodes for attribute type `t` is a value of attribute type `t` -/
theorem decodeAvp_attr (t : UInt16) (p r : Bytes) (a : AVP)
    (h : (decodeAvp t : M Bytes DErr AVP) p = .ok a r) : a.attr = t := by
  have hk : t.toNat = 0 ∨ t.toNat = 1 ∨ t.toNat = 2 ∨ t.toNat = 3 ∨ t.toNat = 4 ∨ t.toNat = 5 ∨ t.toNat = 6 ∨ t.toNat = 7 ∨ t.toNat = 8 ∨ t.toNat = 9 ∨ t.toNat = 10 ∨ t.toNat = 11 ∨ t.toNat = 12 ∨ t.toNat = 13 ∨ t.toNat = 14 ∨ t.toNat = 15 ∨ t.toNat = 16 ∨ t.toNat = 17 ∨ t.toNat = 18 ∨ t.toNat = 19 ∨ t.toNat = 21 ∨ t.toNat = 22 ∨ t.toNat = 23 ∨ t.toNat = 24 ∨ t.toNat = 25 ∨ t.toNat = 26 ∨ t.toNat = 27 ∨ t.toNat = 28 ∨ t.toNat = 29 ∨ t.toNat = 30 ∨ t.toNat = 31 ∨ t.toNat = 32 ∨ t.toNat = 33 ∨ t.toNat = 34 ∨ t.toNat = 35 ∨ t.toNat = 36 ∨ t.toNat = 37 ∨ t.toNat = 38 ∨ t.toNat = 39 ∨ (t.toNat = 20 ∨ 40 ≤ t.toNat) := by omega
  rcases hk with hk | hk | hk | hk | hk | hk | hk | hk | hk | hk | hk | hk | hk | hk | hk | hk | hk | hk | hk | hk | hk | hk | hk | hk | hk | hk | hk | hk | hk | hk | hk | hk | hk | hk | hk | hk | hk | hk | hk | hk
  all_goals first
    | (rw [decodeAvp_unknown t hk] at h; simp at h; done)
    | (have ht : t = UInt16.ofNat t.toNat := by simp
       rw [hk] at ht
       unfold decodeAvp at h; simp only [hk] at h
       first
        | (obtain ⟨v, rfl⟩ := leafU16_shape h; rw [ht]; rfl)
        | (obtain ⟨v, rfl⟩ := leafU32_shape h; rw [ht]; rfl)
        | (obtain ⟨v, rfl⟩ := leafU64_shape h; rw [ht]; rfl)
        | (obtain ⟨v, rfl⟩ := leafB4_shape h; rw [ht]; rfl)
        | (obtain ⟨v, _, rfl⟩ := leafBytes_shape h; rw [ht]; rfl)
        | (obtain ⟨v, _, _, rfl⟩ := leafStr_shape h; rw [ht]; rfl)
        | (obtain ⟨v, rfl⟩ := readMessageType_shape h; rw [ht]; rfl)
        | (obtain ⟨v, rfl⟩ := readProxyAuthenType_shape h; rw [ht]; rfl)
        | (obtain ⟨v, w, rfl⟩ := readProtocolVersion_shape h; rw [ht]; rfl)
        | (obtain ⟨v, rfl⟩ := readProxyAuthenId_shape h; rw [ht]; rfl)
        | (obtain ⟨v, w, rfl⟩ := readChallengeResponse_shape h; rw [ht]; rfl)
        | (obtain ⟨v, w, rfl⟩ := readResultCode_shape h; rw [ht]; rfl)
        | (obtain ⟨v, w, x, rfl⟩ := readQ931_shape h; rw [ht]; rfl)
        | (obtain ⟨a1, a2, a3, a4, a5, a6, rfl⟩ := readCallErrors_shape h; rw [ht]; rfl)
        | (obtain ⟨v, w, rfl⟩ := readAccm_shape h; rw [ht]; rfl)
        | (simp only [pure_apply, Out.ok.injEq] at h; rw [← h.1, ht]; rfl))

/-- the payload decoders never produce a `Hidden` value (only the framing layer does) -/
theorem decodeAvp_not_hidden (t : UInt16) (p r : Bytes) (a : AVP)
    (h : (decodeAvp t : M Bytes DErr AVP) p = .ok a r) : a.isHidden = false := by
  have hk : t.toNat = 0 ∨ t.toNat = 1 ∨ t.toNat = 2 ∨ t.toNat = 3 ∨ t.toNat = 4 ∨ t.toNat = 5 ∨ t.toNat = 6 ∨ t.toNat = 7 ∨ t.toNat = 8 ∨ t.toNat = 9 ∨ t.toNat = 10 ∨ t.toNat = 11 ∨ t.toNat = 12 ∨ t.toNat = 13 ∨ t.toNat = 14 ∨ t.toNat = 15 ∨ t.toNat = 16 ∨ t.toNat = 17 ∨ t.toNat = 18 ∨ t.toNat = 19 ∨ t.toNat = 21 ∨ t.toNat = 22 ∨ t.toNat = 23 ∨ t.toNat = 24 ∨ t.toNat = 25 ∨ t.toNat = 26 ∨ t.toNat = 27 ∨ t.toNat = 28 ∨ t.toNat = 29 ∨ t.toNat = 30 ∨ t.toNat = 31 ∨ t.toNat = 32 ∨ t.toNat = 33 ∨ t.toNat = 34 ∨ t.toNat = 35 ∨ t.toNat = 36 ∨ t.toNat = 37 ∨ t.toNat = 38 ∨ t.toNat = 39 ∨ (t.toNat = 20 ∨ 40 ≤ t.toNat) := by omega
  rcases hk with hk | hk | hk | hk | hk | hk | hk | hk | hk | hk | hk | hk | hk | hk | hk | hk | hk | hk | hk | hk | hk | hk | hk | hk | hk | hk | hk | hk | hk | hk | hk | hk | hk | hk | hk | hk | hk | hk | hk | hk
  all_goals first
    | (rw [decodeAvp_unknown t hk] at h; simp at h; done)
    | (unfold decodeAvp at h; simp only [hk] at h
       first
        | (obtain ⟨v, rfl⟩ := leafU16_shape h; rfl)
        | (obtain ⟨v, rfl⟩ := leafU32_shape h; rfl)
        | (obtain ⟨v, rfl⟩ := leafU64_shape h; rfl)
        | (obtain ⟨v, rfl⟩ := leafB4_shape h; rfl)
        | (obtain ⟨v, _, rfl⟩ := leafBytes_shape h; rfl)
        | (obtain ⟨v, _, _, rfl⟩ := leafStr_shape h; rfl)
        | (obtain ⟨v, rfl⟩ := readMessageType_shape h; rfl)
        | (obtain ⟨v, rfl⟩ := readProxyAuthenType_shape h; rfl)
        | (obtain ⟨v, w, rfl⟩ := readProtocolVersion_shape h; rfl)
        | (obtain ⟨v, rfl⟩ := readProxyAuthenId_shape h; rfl)
        | (obtain ⟨v, w, rfl⟩ := readChallengeResponse_shape h; rfl)
        | (obtain ⟨v, w, rfl⟩ := readResultCode_shape h; rfl)
        | (obtain ⟨v, w, x, rfl⟩ := readQ931_shape h; rfl)
        | (obtain ⟨a1, a2, a3, a4, a5, a6, rfl⟩ := readCallErrors_shape h; rfl)
        | (obtain ⟨v, w, rfl⟩ := readAccm_shape h; rfl)
        | (simp only [pure_apply, Out.ok.injEq] at h; rw [← h.1]; rfl))

end Rl2tp
