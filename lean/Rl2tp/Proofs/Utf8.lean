/-
  Proofs.Utf8: the specification's UTF-8 predicate (`Spec.Utf8.valid`, transcribed from Unicode table 3-7) is
  proved equal to "is the UTF-8 encoding of a sequence of Unicode scalar values" as Lean's core library defines it
  (`String.utf8EncodeChar`, `ByteArray.IsValidUTF8`), by way of core's verified decoder `ByteArray.utf8DecodeChar?`.

  Bit-level facts about one to two octets are settled by kernel evaluation over all 256 / 65 536 values
  (`decide +kernel` on `all256`, no `native_decide`); the third and fourth octet enter only through "or of disjoint
  bit ranges is addition" (`or_low`) and linear arithmetic.
-/
import Rl2tp.Spec.Utf8
import Rl2tp.Proofs.All256
namespace Rl2tp.Utf8Proof
open Rl2tp Rl2tp.Spec.Utf8 ByteArray.utf8DecodeChar?

def t1 (p : UInt8 → Bool) (rest : Bytes) : Bool := match rest with | b :: r => p b && valid r | _ => false
def t2 (p q : UInt8 → Bool) (rest : Bytes) : Bool := match rest with | b :: c :: r => p b && q c && valid r | _ => false
def t3 (p q s : UInt8 → Bool) (rest : Bytes) : Bool := match rest with | b :: c :: d :: r => p b && q c && s d && valid r | _ => false

theorem valid_cons (a : UInt8) (rest : Bytes) : valid (a :: rest) =
    (if a ≤ 0x7F then valid rest
    else if inRange 0xC2 0xDF a then t1 cont rest
    else if a == 0xE0 then t2 (inRange 0xA0 0xBF) cont rest
    else if inRange 0xE1 0xEC a || inRange 0xEE 0xEF a then t2 cont cont rest
    else if a == 0xED then t2 (inRange 0x80 0x9F) cont rest
    else if a == 0xF0 then t3 (inRange 0x90 0xBF) cont cont rest
    else if inRange 0xF1 0xF3 a then t3 cont cont cont rest
    else if a == 0xF4 then t3 (inRange 0x80 0x8F) cont cont rest
    else false) := by
  rcases rest with _ | ⟨b, _ | ⟨c, _ | ⟨d, r⟩⟩⟩ <;> simp only [valid, t1, t2, t3]


def fbCode : FirstByte → Nat
  | .invalid => 0 | .done => 1 | .oneMore => 2 | .twoMore => 3 | .threeMore => 4

def no1 (a : UInt8) : Bool := !decide (a ≤ 0x7F)
def no2 (a : UInt8) : Bool := !inRange 0xC2 0xDF a
def no3 (a : UInt8) : Bool := !(a == 0xE0) && !(inRange 0xE1 0xEC a || inRange 0xEE 0xEF a) && !(a == 0xED)
def no4 (a : UInt8) : Bool := !(a == 0xF0) && !inRange 0xF1 0xF3 a && !(a == 0xF4)

/-- which lead-octet tests of `valid` can hold in each class of `parseFirstByte` -/
def classOk (a : UInt8) : Bool :=
  match fbCode (parseFirstByte a) with
  | 0 => no1 a && no2 a && no3 a && no4 a
  | 1 => decide (a ≤ 0x7F)
  | 2 => no1 a && no3 a && no4 a
  | 3 => no1 a && no2 a && no4 a
  | _ => no1 a && no2 a && no3 a

theorem classOk_all : all256 classOk = true := by decide +kernel

theorem lead_facts (a : UInt8) : classOk a = true := all256_spec classOk_all a

macro "lead_simp" : tactic => `(tactic| simp only [classOk, fbCode, no1, no2, no3, no4, Bool.and_eq_true, Bool.not_eq_true',
  decide_eq_false_iff_not, decide_eq_true_eq, Bool.or_eq_false_iff] at *)

theorem valid_invalid (a : UInt8) (r : Bytes) (h : parseFirstByte a = .invalid) : valid (a :: r) = false := by
  have := lead_facts a
  unfold classOk at this
  rw [h] at this
  lead_simp
  obtain ⟨⟨⟨h1, h2⟩, ⟨h3, h4, h4'⟩, h5⟩, ⟨h6, h7⟩, h8⟩ := this
  rw [valid_cons]
  simp [h1, h2, h3, h4, h4', h5, h6, h7, h8]

theorem valid_done (a : UInt8) (r : Bytes) (h : parseFirstByte a = .done) : valid (a :: r) = valid r := by
  have := lead_facts a
  unfold classOk at this
  rw [h] at this
  lead_simp
  rw [valid_cons]; simp [this]

set_option maxRecDepth 100000 in
theorem T2 : all256 (fun a => !(fbCode (parseFirstByte a) == 2) ||
    all256 fun b => (inRange 0xC2 0xDF a && cont b) == (assemble₂ a b).isSome) = true := by decide +kernel

theorem valid_two (a : UInt8) (rest : Bytes) (h : parseFirstByte a = .oneMore) :
    valid (a :: rest) = match rest with | b :: r => ((assemble₂ a b).isSome && valid r) | [] => false := by
  have := lead_facts a
  have e := all256_spec T2 a
  unfold classOk at this
  rw [h] at this e
  simp only [fbCode, beq_self_eq_true, Bool.not_true, Bool.false_or] at e
  lead_simp
  obtain ⟨⟨h1, ⟨h3, h4, h4'⟩, h5⟩, ⟨h6, h7⟩, h8⟩ := this
  rw [valid_cons]
  rcases rest with _ | ⟨b, r⟩
  · simp [h1, h3, h4, h4', h5, h6, h7, h8, t1]
  · have e := all256_spec e b
    simp only [beq_iff_eq] at e
    simp only [← e]
    simp [h1, h3, h4, h4', h5, h6, h7, h8, t1]
    cases inRange 0xC2 0xDF a <;> simp

/-! three-octet forms -/

theorem or_low (q z k : Nat) (hq : q % 2 ^ k = 0) (hz : z < 2 ^ k) : q ||| z = q + z := by
  obtain ⟨m, rfl⟩ : ∃ m, q = 2 ^ k * m := ⟨q / 2 ^ k, by have := Nat.div_add_mod q (2 ^ k); omega⟩
  exact (Nat.two_pow_add_eq_or_of_lt hz m).symm

def q3 (a b : UInt8) : UInt32 := ((a &&& 0x0f).toUInt32 <<< 12) ||| ((b &&& 0x3f).toUInt32 <<< 6)
def z6 (c : UInt8) : UInt32 := (c &&& 0x3f).toUInt32
def g3 (a b : UInt8) : Bool := !decide (q3 a b < 0x800) && !(decide (0xd800 ≤ q3 a b) && decide (q3 a b ≤ 0xdfff))
def tbl3 (a b : UInt8) : Bool :=
  if a == 0xE0 then inRange 0xA0 0xBF b
  else if inRange 0xE1 0xEC a || inRange 0xEE 0xEF a then cont b
  else if a == 0xED then inRange 0x80 0x9F b else false

theorem z6_lt : all256 (fun c => decide ((z6 c).toNat < 64) && (cont c == !isInvalidContinuationByte c)) = true := by decide +kernel
set_option maxRecDepth 100000 in
theorem T3 : all256 (fun a => !(fbCode (parseFirstByte a) == 3) ||
    all256 fun b => decide ((q3 a b).toNat % 64 = 0) && (tbl3 a b == (!isInvalidContinuationByte b && g3 a b))) = true := by
  decide +kernel

theorem isSome_assemble₃ (a b c : UInt8) : (assemble₃ a b c).isSome =
    ((!isInvalidContinuationByte b && !isInvalidContinuationByte c) &&
      (!decide (q3 a b ||| z6 c < 0x800) && !(decide (0xd800 ≤ q3 a b ||| z6 c) && decide (q3 a b ||| z6 c ≤ 0xdfff)))) := by
  have hr : assemble₃Unchecked a b c = q3 a b ||| z6 c := rfl
  unfold assemble₃
  simp only [hr]
  cases isInvalidContinuationByte b <;> cases isInvalidContinuationByte c <;> simp
  split
  · simp [*]
  · split
    · rename_i h1 h2; simp [h2.1, h2.2]
    · rename_i h1 h2
      simp only [Option.isSome_some, h1, decide_false, Bool.not_false, Bool.true_and]
      by_cases h3 : 55296 ≤ q3 a b ||| z6 c <;> by_cases h4 : q3 a b ||| z6 c ≤ 57343 <;> simp_all


theorem valid_three (a : UInt8) (rest : Bytes) (h : parseFirstByte a = .twoMore) :
    valid (a :: rest) = match rest with | b :: c :: r => ((assemble₃ a b c).isSome && valid r) | _ => false := by
  have := lead_facts a
  have e := all256_spec T3 a
  unfold classOk at this
  rw [h] at this e
  simp only [fbCode, beq_self_eq_true, Bool.not_true, Bool.false_or] at e
  lead_simp
  obtain ⟨⟨h1, h2⟩, ⟨h6, h7⟩, h8⟩ := this
  rw [valid_cons]
  rcases rest with _ | ⟨b, _ | ⟨c, r⟩⟩
  · simp [h1, h2, h6, h7, h8, t2]; repeat' split <;> rfl
  · simp [h1, h2, h6, h7, h8, t2]; repeat' split <;> rfl
  · have e := all256_spec e b
    have zc := all256_spec z6_lt c
    simp only [Bool.and_eq_true, decide_eq_true_eq, beq_iff_eq] at e zc
    obtain ⟨hq, et⟩ := e
    obtain ⟨hz, hc⟩ := zc
    have hor : (q3 a b ||| z6 c).toNat = (q3 a b).toNat + (z6 c).toNat := by
      rw [UInt32.toNat_or]; exact or_low _ _ 6 hq hz
    have hg : (!decide (q3 a b ||| z6 c < 0x800) && !(decide (0xd800 ≤ q3 a b ||| z6 c) && decide (q3 a b ||| z6 c ≤ 0xdfff))) = g3 a b := by
      unfold g3
      rw [Bool.eq_iff_iff]
      simp only [Bool.and_eq_true, Bool.not_eq_true', decide_eq_false_iff_not, Bool.and_eq_false_iff,
        UInt32.lt_iff_toNat_lt, UInt32.le_iff_toNat_le, hor, UInt32.reduceToNat]
      omega
    show _ = ((assemble₃ a b c).isSome && valid r)
    rw [isSome_assemble₃, hg]
    have : (tbl3 a b && cont c) = ((!isInvalidContinuationByte b && !isInvalidContinuationByte c) && g3 a b) := by
      rw [et, hc]; cases isInvalidContinuationByte b <;> cases isInvalidContinuationByte c <;> cases g3 a b <;> rfl
    rw [← this]
    simp only [h1, h2, h6, h7, h8, t2, tbl3]
    simp
    repeat' split
    all_goals simp_all [Bool.and_assoc]

/-! four-octet forms -/

def p4 (a b : UInt8) : UInt32 := ((a &&& 0x07).toUInt32 <<< 18) ||| ((b &&& 0x3f).toUInt32 <<< 12)
def m6 (c : UInt8) : UInt32 := (c &&& 0x3f).toUInt32 <<< 6
def g4 (a b : UInt8) : Bool := !decide (p4 a b < 0x10000) && !decide (0x10ffff < p4 a b)
def tbl4 (a b : UInt8) : Bool :=
  if a == 0xF0 then inRange 0x90 0xBF b
  else if inRange 0xF1 0xF3 a then cont b
  else if a == 0xF4 then inRange 0x80 0x8F b else false

theorem m6_facts : all256 (fun c => decide ((m6 c).toNat % 64 = 0) && decide ((m6 c).toNat < 4096)) = true := by decide +kernel
set_option maxRecDepth 100000 in
theorem T4 : all256 (fun a => !(fbCode (parseFirstByte a) == 4) ||
    all256 fun b => decide ((p4 a b).toNat % 4096 = 0) && (tbl4 a b == (!isInvalidContinuationByte b && g4 a b))) = true := by
  decide +kernel

theorem isSome_assemble₄ (a b c d : UInt8) : (assemble₄ a b c d).isSome =
    ((!isInvalidContinuationByte b && !isInvalidContinuationByte c && !isInvalidContinuationByte d) &&
      (!decide (p4 a b ||| m6 c ||| z6 d < 0x10000) && !decide (0x10ffff < p4 a b ||| m6 c ||| z6 d))) := by
  have hr : assemble₄Unchecked a b c d = p4 a b ||| m6 c ||| z6 d := rfl
  unfold assemble₄
  simp only [hr]
  cases isInvalidContinuationByte b <;> cases isInvalidContinuationByte c <;> cases isInvalidContinuationByte d <;> simp
  split
  · simp [*]
  · split
    · rename_i h1 h2; simp [h2]
    · rename_i h1 h2; simp [h1, h2]

theorem valid_four (a : UInt8) (rest : Bytes) (h : parseFirstByte a = .threeMore) :
    valid (a :: rest) = match rest with | b :: c :: d :: r => ((assemble₄ a b c d).isSome && valid r) | _ => false := by
  have := lead_facts a
  have e := all256_spec T4 a
  unfold classOk at this
  rw [h] at this e
  simp only [fbCode, beq_self_eq_true, Bool.not_true, Bool.false_or] at e
  lead_simp
  have hl := this
  rw [valid_cons]
  rcases rest with _ | ⟨b, _ | ⟨c, _ | ⟨d, r⟩⟩⟩
  · simp [hl, t3]; repeat' split <;> rfl
  · simp [hl, t3]; repeat' split <;> rfl
  · simp [hl, t3]; repeat' split <;> rfl
  · have e := all256_spec e b
    have mc := all256_spec m6_facts c
    have zd := all256_spec z6_lt d
    have zc := all256_spec z6_lt c
    simp only [Bool.and_eq_true, decide_eq_true_eq, beq_iff_eq] at e zc zd mc
    obtain ⟨hp, et⟩ := e
    obtain ⟨hm, hm'⟩ := mc
    have hor1 : (p4 a b ||| m6 c).toNat = (p4 a b).toNat + (m6 c).toNat := by
      rw [UInt32.toNat_or]; exact or_low _ _ 12 hp hm'
    have hor : (p4 a b ||| m6 c ||| z6 d).toNat = (p4 a b).toNat + (m6 c).toNat + (z6 d).toNat := by
      rw [UInt32.toNat_or, hor1]; exact or_low _ _ 6 (by omega) zd.1
    have hg : (!decide (p4 a b ||| m6 c ||| z6 d < 0x10000) && !decide (0x10ffff < p4 a b ||| m6 c ||| z6 d)) = g4 a b := by
      unfold g4
      rw [Bool.eq_iff_iff]
      simp only [Bool.and_eq_true, Bool.not_eq_true', decide_eq_false_iff_not,
        UInt32.lt_iff_toNat_lt, hor, UInt32.reduceToNat]
      omega
    show _ = ((assemble₄ a b c d).isSome && valid r)
    rw [isSome_assemble₄, hg]
    have : (tbl4 a b && cont c && cont d) =
        ((!isInvalidContinuationByte b && !isInvalidContinuationByte c && !isInvalidContinuationByte d) && g4 a b) := by
      rw [et, zc.2, zd.2]
      cases isInvalidContinuationByte b <;> cases isInvalidContinuationByte c <;> cases isInvalidContinuationByte d <;>
        cases g4 a b <;> rfl
    rw [← this]
    simp [hl, t3, tbl4]
    repeat' split
    all_goals simp_all [Bool.and_assoc]

/-! the decoder of Lean's core library, on a list -/

instance : DecidableEq FirstByte := fun a b => by
  cases a <;> cases b <;> first | exact isTrue rfl | exact isFalse (by intro h; cases h)

def decodeHead : Bytes → Option Char
  | [] => none
  | a :: rest =>
    if h : parseFirstByte a = .done then assemble₁ a h
    else match parseFirstByte a, rest with
      | .oneMore, b :: _ => assemble₂ a b
      | .twoMore, b :: c :: _ => assemble₃ a b c
      | .threeMore, b :: c :: d :: _ => assemble₄ a b c d
      | _, _ => none

theorem decodeHead_eq (bs : Bytes) : bs.toByteArray.utf8DecodeChar? 0 = decodeHead bs := by
  rcases bs with _ | ⟨a, rest⟩
  · rfl
  have e : ∀ h, (a :: rest).toByteArray[0]'h = a := by intro h; simp [List.getElem_toByteArray]
  have e1 : ∀ b r h, (a :: b :: r).toByteArray[0 + 1]'h = b := by intro b r h; simp [List.getElem_toByteArray]
  have e2 : ∀ b c r h, (a :: b :: c :: r).toByteArray[0 + 2]'h = c := by intro b c r h; simp [List.getElem_toByteArray]
  have e3 : ∀ b c d r h, (a :: b :: c :: d :: r).toByteArray[0 + 3]'h = d := by intro b c d r h; simp [List.getElem_toByteArray]
  unfold ByteArray.utf8DecodeChar?
  simp only [List.size_toByteArray, List.length_cons, Nat.zero_lt_succ, ↓reduceDIte, decodeHead]
  split
  · rename_i h1; simp only [e] at h1; simp [h1]
  · rename_i h1; simp only [e] at h1; simp [h1, e]
  · rename_i h1; simp only [e] at h1
    rcases rest with _ | ⟨b, r⟩ <;> simp [h1, e, e1]
  · rename_i h1; simp only [e] at h1
    rcases rest with _ | ⟨b, _ | ⟨c, r⟩⟩ <;> simp [h1, e, e1, e2]
  · rename_i h1; simp only [e] at h1
    rcases rest with _ | ⟨b, _ | ⟨c, _ | ⟨d, r⟩⟩⟩ <;> simp [h1, e, e1, e2, e3]

theorem valid_step (a : UInt8) (rest : Bytes) :
    valid (a :: rest) = ((decodeHead (a :: rest)).isSome && valid ((a :: rest).drop (fbCode (parseFirstByte a)))) := by
  cases hp : parseFirstByte a
  · rw [valid_invalid a rest hp]; simp [decodeHead, hp]
  · rw [valid_done a rest hp]; simp [decodeHead, hp, assemble₁, fbCode]
  · rw [valid_two a rest hp]
    rcases rest with _ | ⟨b, r⟩ <;> simp [decodeHead, hp, fbCode]
  · rw [valid_three a rest hp]
    rcases rest with _ | ⟨b, _ | ⟨c, r⟩⟩ <;> simp [decodeHead, hp, fbCode]
  · rw [valid_four a rest hp]
    rcases rest with _ | ⟨b, _ | ⟨c, _ | ⟨d, r⟩⟩⟩ <;> simp [decodeHead, hp, fbCode]

/-- the size the first octet announces (core's `utf8ByteSize`) is the class number -/
theorem byteSize_all : all256 (fun a => if h : a.IsUTF8FirstByte then a.utf8ByteSize h == fbCode (parseFirstByte a) else true) = true := by
  decide +kernel

theorem size_of_decodeHead (a : UInt8) (rest : Bytes) (c : Char) (h : decodeHead (a :: rest) = some c) :
    c.utf8Size = fbCode (parseFirstByte a) := by
  have hd : (a :: rest).toByteArray.utf8DecodeChar? 0 = some c := by rw [decodeHead_eq, h]
  have hs : ((a :: rest).toByteArray.utf8DecodeChar? 0).isSome := by rw [hd]; rfl
  have h1 := ByteArray.utf8Size_utf8DecodeChar (b := (a :: rest).toByteArray) (i := 0) (h := hs)
  have hc : (a :: rest).toByteArray.utf8DecodeChar 0 hs = c := by simp [ByteArray.utf8DecodeChar, hd]
  rw [hc] at h1
  have e : ∀ h, (a :: rest).toByteArray[0]'h = a := by intro h; simp [List.getElem_toByteArray]
  have hf := ByteArray.isUTF8FirstByte_of_isSome_utf8DecodeChar? hs
  simp only [e] at h1 hf
  have := all256_spec byteSize_all a
  simp only [hf, ↓reduceDIte, beq_iff_eq] at this
  rw [h1]; exact this

theorem drop_enc (c : Char) (l : Bytes) : (String.utf8EncodeChar c ++ l).drop c.utf8Size = l := by
  have : (String.utf8EncodeChar c).length = c.utf8Size := String.length_utf8EncodeChar c
  rw [← this]; simp

/-- only if: a well-formed octet string is the encoding of a sequence of scalar values -/
theorem valid_sound : ∀ (n : Nat) (bs : Bytes), bs.length ≤ n → valid bs = true →
    ∃ cs : List Char, bs = cs.flatMap String.utf8EncodeChar := by
  intro n
  induction n with
  | zero =>
    intro bs hl _
    have : bs = [] := List.eq_nil_of_length_eq_zero (by omega)
    exact ⟨[], by simp [this]⟩
  | succ n ih =>
    intro bs hl hv
    rcases bs with _ | ⟨a, rest⟩
    · exact ⟨[], rfl⟩
    rw [valid_step, Bool.and_eq_true] at hv
    obtain ⟨hs, hv⟩ := hv
    obtain ⟨c, hc⟩ := Option.isSome_iff_exists.mp hs
    have hn := size_of_decodeHead a rest c hc
    have hd : (a :: rest).toByteArray.utf8DecodeChar? 0 = some c := by rw [decodeHead_eq, hc]
    obtain ⟨l, hl'⟩ := ByteArray.exists_of_utf8DecodeChar?_eq_some hd
    have hlist : a :: rest = String.utf8EncodeChar c ++ l.data.toList := by
      have := congrArg (fun b => b.data.toList) hl'
      simpa using this
    rw [← hn, hlist, drop_enc] at hv
    have hlen : l.data.toList.length ≤ n := by
      have h1 := congrArg List.length hlist
      have h2 := c.utf8Size_pos
      simp only [List.length_cons, List.length_append, String.length_utf8EncodeChar] at h1
      simp only [List.length_cons] at hl
      omega
    obtain ⟨cs, hcs⟩ := ih _ hlen hv
    exact ⟨c :: cs, by rw [hlist, hcs]; simp⟩

/-- if: every encoding of a sequence of scalar values is accepted -/
theorem valid_complete (cs : List Char) : valid (cs.flatMap String.utf8EncodeChar) = true := by
  induction cs with
  | nil => simp [valid]
  | cons c cs ih =>
    simp only [List.flatMap_cons]
    generalize hr : cs.flatMap String.utf8EncodeChar = rest at ih
    have hne : String.utf8EncodeChar c ≠ [] := String.utf8EncodeChar_ne_nil
    obtain ⟨a, t, hat⟩ : ∃ a t, String.utf8EncodeChar c = a :: t := by
      cases h : String.utf8EncodeChar c with
      | nil => exact absurd h hne
      | cons a t => exact ⟨a, t, rfl⟩
    have hd : (String.utf8EncodeChar c ++ rest).toByteArray.utf8DecodeChar? 0 = some c := by
      rw [List.toByteArray_append]; exact ByteArray.utf8DecodeChar?_utf8EncodeChar_append
    rw [decodeHead_eq] at hd
    have hcons : String.utf8EncodeChar c ++ rest = a :: (t ++ rest) := by rw [hat]; rfl
    rw [hcons] at hd
    have hn := size_of_decodeHead a (t ++ rest) c hd
    rw [hcons, valid_step, hd, ← hn, ← hcons, drop_enc, ih]; rfl

end Rl2tp.Utf8Proof

namespace Rl2tp.Spec.Utf8
open Rl2tp.Utf8Proof

/-- The specification's UTF-8 predicate (transcribed from Unicode table 3-7) accepts exactly the octet strings that
    are the UTF-8 encoding — as defined by Lean's core library, `String.utf8EncodeChar` — of a sequence of Unicode
    scalar values. -/
theorem valid_iff_encoding (bs : Bytes) : valid bs = true ↔ ∃ cs : List Char, bs = cs.flatMap String.utf8EncodeChar :=
  ⟨valid_sound bs.length bs (Nat.le_refl _), fun ⟨cs, h⟩ => h ▸ valid_complete cs⟩

/-- … equivalently, exactly the byte arrays Lean's `String` type is built on -/
theorem valid_iff_isValidUTF8 (bs : Bytes) : valid bs = true ↔ bs.toByteArray.IsValidUTF8 := by
  rw [valid_iff_encoding]
  constructor
  · rintro ⟨cs, rfl⟩; exact ⟨cs, rfl⟩
  · rintro ⟨cs, h⟩; exact ⟨cs, List.toByteArray_inj.mp h⟩

end Rl2tp.Spec.Utf8
