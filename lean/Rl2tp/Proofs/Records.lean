/-
  Proofs.Records: what one well-delimited AVP record contributes to the result list, as a function of
  its own octets; a control message assembled from records.
-/
import Rl2tp.Proofs.Greedy
import Rl2tp.Proofs.Options
namespace Rl2tp

/-- the header the reader builds from six octets -/
def hdrOf (a b c d e f : UInt8) : Header :=
  ⟨UInt8.ofNat (a.toNat % 64), UInt16.ofNat (hdrLen a b - 6), word16 c d, word16 e f⟩

/-- the result a record with first octet `a`, this vendor id and attribute type, and payload `p` yields -/
def recordResult (a : UInt8) (vendor attr : UInt16) (p : Bytes) : Res :=
  if vendor ≠ 0 then .error (.unsupportedVendorId vendor)
  else if a.toNat / 2 % 2 = 1 then .ok (.hidden attr p)
  else match (decodeAvp attr : M Bytes DErr AVP) p with
    | .ok x _ => .ok x
    | .err e _ => .error e
    | .fault _ => .error (.unknownAvp 0)

theorem hdrOf_isHidden (a b c d e f : UInt8) : (hdrOf a b c d e f).isHidden = decide (a.toNat / 2 % 2 = 1) := by
  have := a.toNat_lt
  have e : (UInt8.ofNat (a.toNat % 64)).toNat / 2 % 2 = a.toNat / 2 % 2 := by
    rw [u8_small (by omega)]; omega
  simp only [hdrOf, Header.isHidden, e]

/-- a record whose 10-bit length is its own size, followed by anything -/
theorem greedy_record_cons (a b c d e f : UInt8) (p rest : Bytes) (hl : hdrLen a b = 6 + p.length) :
    (greedy : M Bytes DErr (List Res)) (a :: b :: c :: d :: e :: f :: (p ++ rest)) =
      consRes (recordResult a (word16 c d) (word16 e f) p) (greedy rest) := by
  have hlt := hdrLen_lt a b
  have hpl : (hdrOf a b c d e f).payloadLength.toNat = p.length := by
    show (UInt16.ofNat (hdrLen a b - 6)).toNat = p.length
    rw [u16_small (by omega)]; omega
  have hh : (readHeader : M Bytes DErr _) (a :: b :: c :: d :: e :: f :: (p ++ rest)) =
      .ok (some (.ok (hdrOf a b c d e f))) (p ++ rest) := by
    rw [readHeader_cons, if_neg (by omega)]; rfl
  have hs : (greedyStep (hdrOf a b c d e f) : M Bytes DErr _) (p ++ rest) =
      .ok (recordResult a (word16 c d) (word16 e f) p, true) rest := by
    rw [greedyStep_eq]
    simp only [hpl, List.length_append]
    rw [if_neg (by omega), List.take_left' rfl, List.drop_left' rfl]
    have hv' : (hdrOf a b c d e f).vendorId = word16 c d := rfl
    have ht' : (hdrOf a b c d e f).attributeType = word16 e f := rfl
    rw [hv', ht', hdrOf_isHidden]
    unfold recordResult
    by_cases hv : word16 c d ≠ 0
    · rw [if_pos hv, if_pos hv]
    · rw [if_neg hv, if_neg hv]
      by_cases hhid : a.toNat / 2 % 2 = 1
      · simp only [hhid, decide_true, if_true]
      · simp only [hhid, decide_false, Bool.false_eq_true, if_false]
        cases hdec : (decodeAvp (word16 e f) : M Bytes DErr AVP) p with
        | ok x y => rfl
        | err x y => rfl
        | fault g => exact absurd hdec (decodeAvp_noFault _ _ g)
  exact greedy_step hh hs

/-- a record whose length field is unusable (below 6, or beyond what follows): one error, and the list ends -/
theorem greedy_bad_length (a b c d e f : UInt8) (rest : Bytes)
    (h : hdrLen a b < 6 ∨ hdrLen a b - 6 > rest.length) :
    ∃ l, (greedy : M Bytes DErr (List Res)) (a :: b :: c :: d :: e :: f :: rest) = .ok [.error (.invalidAVPLength l)] rest := by
  have hlt := hdrLen_lt a b
  by_cases h6 : hdrLen a b < 6
  · refine ⟨UInt16.ofNat (hdrLen a b), ?_⟩
    rw [greedy_eq_aux _ ((a :: b :: c :: d :: e :: f :: rest).length + 1) (by omega), greedyAux_succ, readHeader_cons,
      if_pos h6]
  · have hbig : hdrLen a b - 6 > rest.length := by rcases h with h | h; exact absurd h h6; exact h
    refine ⟨UInt16.ofNat (hdrLen a b - 6), ?_⟩
    have hh : (readHeader : M Bytes DErr _) (a :: b :: c :: d :: e :: f :: rest) =
        .ok (some (.ok (hdrOf a b c d e f))) rest := by
      rw [readHeader_cons, if_neg h6]; rfl
    have hpl : (hdrOf a b c d e f).payloadLength.toNat = hdrLen a b - 6 := u16_small (by omega)
    have hs : (greedyStep (hdrOf a b c d e f) : M Bytes DErr _) rest =
        .ok (.error (.invalidAVPLength (UInt16.ofNat (hdrLen a b - 6))), false) rest := by
      rw [greedyStep_eq, hpl, if_pos hbig]; rfl
    exact greedy_stop hh hs

/-- the length the `InvalidAVPLength` error of an unusable record carries: the whole field when it is below the
    6-octet header, the payload part of it when the payload does not fit -/
def badLen (a b : UInt8) : UInt16 :=
  if hdrLen a b < 6 then UInt16.ofNat (hdrLen a b) else UInt16.ofNat (hdrLen a b - 6)

/-- `greedy_bad_length` with the carried value spelled out -/
theorem greedy_bad_length_eq (a b c d e f : UInt8) (rest : Bytes)
    (h : hdrLen a b < 6 ∨ hdrLen a b - 6 > rest.length) :
    (greedy : M Bytes DErr (List Res)) (a :: b :: c :: d :: e :: f :: rest) =
      .ok [.error (.invalidAVPLength (badLen a b))] rest := by
  have hlt := hdrLen_lt a b
  unfold badLen
  by_cases h6 : hdrLen a b < 6
  · rw [if_pos h6, greedy_eq_aux _ ((a :: b :: c :: d :: e :: f :: rest).length + 1) (by omega), greedyAux_succ,
      readHeader_cons, if_pos h6]
  · rw [if_neg h6]
    have hbig : hdrLen a b - 6 > rest.length := by rcases h with h | h; exact absurd h h6; exact h
    have hh : (readHeader : M Bytes DErr _) (a :: b :: c :: d :: e :: f :: rest) =
        .ok (some (.ok (hdrOf a b c d e f))) rest := by
      rw [readHeader_cons, if_neg h6]; rfl
    have hpl : (hdrOf a b c d e f).payloadLength.toNat = hdrLen a b - 6 := u16_small (by omega)
    have hs : (greedyStep (hdrOf a b c d e f) : M Bytes DErr _) rest =
        .ok (.error (.invalidAVPLength (UInt16.ofNat (hdrLen a b - 6))), false) rest := by
      rw [greedyStep_eq, hpl, if_pos hbig]; rfl
    exact greedy_stop hh hs

/-! ### a control message assembled from a body -/

/-- what `ControlMessage::try_read` does once the body's result list is known -/
def finishControl (len tid sid ns nr : UInt16) (rs : List Res) (rest : Bytes) : Out Bytes (List DErr) Msg :=
  if firstBad rs = true then .err [.controlMessageTypeNotFirst] rest
  else if resErrors rs ≠ [] then .err (resErrors rs) rest
  else .ok (.control { length := len, tunnelId := tid, sessionId := sid, ns := ns, nr := nr, avps := resValues rs }) rest

/-- ten header octets (Length, ids, Ns, Nr) followed by exactly the body the Length announces -/
theorem decodeControlCore_body (w : UInt16) (hL : hasLength w = true) (hS : hasNsNr w = true)
    (len tid sid ns nr : UInt16) (body rest : Bytes) (hlen : len.toNat = 12 + body.length)
    (rs : List Res) (q : Bytes) (hg : (greedy : M Bytes DErr (List Res)) body = .ok rs q) :
    (decodeControlCore w : M Bytes (List DErr) Msg)
        (be16 len ++ be16 tid ++ be16 sid ++ be16 ns ++ be16 nr ++ (body ++ rest)) =
      finishControl len tid sid ns nr rs rest := by
  simp only [be16, List.cons_append, List.nil_append]
  unfold decodeControlCore
  have h5 : ¬ ((body ++ rest).length + 1 + 1 + 1 + 1 + 1 + 1 + 1 + 1 + 1 + 1 < 10) := by omega
  simp only [bind_apply, len_apply, len_bytes, hL, hS, Bool.not_true, Bool.false_eq_true, if_false, List.length_cons,
    h5, readU16_cons, M.ite_apply, word16_be16, fail_apply]
  rw [hlen, if_neg (by omega), if_neg (by simp; omega), subM_ok (by omega)]
  simp only []
  have hsub := inSub_ok (ε' := List DErr) (s := body ++ rest) (greedy : M Bytes DErr (List Res))
    (n := 12 + body.length - 12) (by simp)
  rw [hsub]
  have e12 : 12 + body.length - 12 = body.length := by omega
  rw [e12, List.take_left' rfl, List.drop_left' rfl, hg]
  simp only [subResult, finishControl]
  by_cases hf : firstBad rs = true
  · simp [hf]
  · by_cases he : resErrors rs ≠ []
    · simp [hf, he]
    · simp [hf, he]

/-- the whole decoder on a control message with flag word `w` (T, L, S set; version and reserved bits
    acceptable to the options; P and O clear or unchecked) -/
theorem decode_control_body (o : Opts) (x y : UInt8) (len tid sid ns nr : UInt16) (body rest : Bytes)
    (hT : isControl (word16 x y) = true) (hL : hasLength (word16 x y) = true) (hS : hasNsNr (word16 x y) = true)
    (hV : o.version = true → version (word16 x y) = 2) (hR : o.reserved = true → reservedOk (word16 x y) = true)
    (hP : o.unused = true → isPrioritized (word16 x y) = false) (hO : o.unused = true → hasOffset (word16 x y) = false)
    (hlen : len.toNat = 12 + body.length) (rs : List Res) (q : Bytes)
    (hg : (greedy : M Bytes DErr (List Res)) body = .ok rs q) :
    (decode o : M Bytes (List DErr) Msg)
        (x :: y :: (be16 len ++ be16 tid ++ be16 sid ++ be16 ns ++ be16 nr ++ (body ++ rest))) =
      finishControl len tid sid ns nr rs rest := by
  rw [decode_cons]
  have c1 : ¬ ((o.version && decide (version (word16 x y) ≠ 2)) = true) := by
    intro h; simp only [Bool.and_eq_true, decide_eq_true_eq] at h; exact h.2 (hV h.1)
  have c2 : ¬ ((o.reserved && !reservedOk (word16 x y)) = true) := by
    intro h; simp only [Bool.and_eq_true, Bool.not_eq_true'] at h; rw [hR h.1] at h; simp at h
  rw [if_neg c1, if_neg c2, if_pos hT, decodeControl_eq]
  have c3 : ¬ ((o.unused && isPrioritized (word16 x y)) = true) := by
    intro h; simp only [Bool.and_eq_true] at h; rw [hP h.1] at h; simp at h
  have c4 : ¬ ((o.unused && hasOffset (word16 x y)) = true) := by
    intro h; simp only [Bool.and_eq_true] at h; rw [hO h.1] at h; simp at h
  rw [if_neg c3, if_neg c4]
  exact decodeControlCore_body _ hL hS len tid sid ns nr body rest hlen rs q hg

end Rl2tp
