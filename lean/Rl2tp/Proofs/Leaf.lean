/-
  Proofs.Leaf: what each payload decoder returns on the cursor, in cons / short form,
  and the facts derived from that: no fault on any input, the error it can return.
-/
import Rl2tp.Model.Avp
namespace Rl2tp

def NoFault (m : M Bytes ε α) : Prop := ∀ s f, m s ≠ .fault f

/-- a decoder's errors all satisfy `P` -/
def ErrsIn (m : M Bytes ε α) (P : ε → Prop) : Prop := ∀ s e r, m s = .err e r → P e

theorem NoFault.pure (a : α) : NoFault (pure a : M Bytes ε α) := by intro s f; simp
theorem NoFault.fail (e : ε) : NoFault (fail e : M Bytes ε α) := by intro s f; simp

/-! ### u16 / u32 / u64 -/

theorem leafU16_short {attr mk} {s : Bytes} (h : s.length < 2) :
    leafU16 attr mk s = .err (.incompleteAVP attr) s := by
  simp [leafU16, h]

@[simp] theorem leafU16_cons (attr mk) (a b : UInt8) (r : Bytes) :
    leafU16 attr mk (a :: b :: r) = .ok (mk (word16 a b)) r := by
  have h : ¬ (r.length + 1 + 1 < 2) := by omega
  simp [leafU16, h]

theorem leafU32_short {attr mk} {s : Bytes} (h : s.length < 4) :
    leafU32 attr mk s = .err (.incompleteAVP attr) s := by
  simp [leafU32, h]

@[simp] theorem leafU32_cons (attr mk) (a b c d : UInt8) (r : Bytes) :
    leafU32 attr mk (a :: b :: c :: d :: r) = .ok (mk (word32 a b c d)) r := by
  have h : ¬ (r.length + 1 + 1 + 1 + 1 < 4) := by omega
  simp [leafU32, h]

theorem leafU64_short {attr mk} {s : Bytes} (h : s.length < 8) :
    leafU64 attr mk s = .err (.incompleteAVP attr) s := by
  simp [leafU64, h]

@[simp] theorem leafU64_cons (attr mk) (a b c d e f g i : UInt8) (r : Bytes) :
    leafU64 attr mk (a :: b :: c :: d :: e :: f :: g :: i :: r) = .ok (mk (word64 a b c d e f g i)) r := by
  have h : ¬ (r.length + 1 + 1 + 1 + 1 + 1 + 1 + 1 + 1 < 8) := by omega
  simp [leafU64, h]

theorem leafB4_short {attr mk} {s : Bytes} (h : s.length < 4) :
    leafB4 attr mk s = .err (.incompleteAVP attr) s := by
  simp [leafB4, h]

@[simp] theorem leafB4_cons (attr mk) (a b c d : UInt8) (r : Bytes) :
    leafB4 attr mk (a :: b :: c :: d :: r) = .ok (mk (word32 a b c d)) r := by
  have h : ¬ (r.length + 1 + 1 + 1 + 1 < 4) := by omega
  have h4 : 4 ≤ (a :: b :: c :: d :: r).length := by simp
  simp [leafB4, h, readBytes_ok _ h4, word32Of]

/-! ### rest-of-reader kinds -/

theorem leafBytes_nil (attr mk) : leafBytes attr mk ([] : Bytes) = .err (.incompleteAVP attr) [] := by
  simp [leafBytes]

theorem leafBytes_ne {attr mk} {s : Bytes} (h : s ≠ []) : leafBytes attr mk s = .ok (mk s) [] := by
  have h0 : s.length ≠ 0 := by simpa using h
  simp [leafBytes, h0, readBytes_all]

theorem leafStr_nil (attr mk) : leafStr attr mk ([] : Bytes) = .err (.incompleteAVP attr) [] := by
  simp [leafStr]

theorem leafStr_ne {attr mk} {s : Bytes} (h : s ≠ []) :
    leafStr attr mk s = if Spec.Utf8.valid s then .ok (mk s) [] else .err (.invalidUtf8 attr) [] := by
  have h0 : s.length ≠ 0 := by simpa using h
  simp only [leafStr, bind_apply, len_apply, len_bytes, h0, if_false, readBytes_all]
  split <;> simp

/-! ### the irregular ones -/

theorem readMessageType_short {s : Bytes} (h : s.length < 2) :
    (readMessageType : M Bytes DErr AVP) s = .err (.incompleteAVP 0) s := by
  simp [readMessageType, h]

theorem readMessageType_cons (a b : UInt8) (r : Bytes) :
    (readMessageType : M Bytes DErr AVP) (a :: b :: r) =
      match MessageType.ofCode (word16 a b) with
      | some t => .ok (.messageType t) r
      | none => .err (.unknownMessageType (word16 a b)) r := by
  have h : ¬ (r.length + 1 + 1 < 2) := by omega
  cases hc : MessageType.ofCode (word16 a b) <;> simp [readMessageType, h, hc]

theorem readProxyAuthenType_short {s : Bytes} (h : s.length < 2) :
    (readProxyAuthenType : M Bytes DErr AVP) s = .err (.incompleteAVP 29) s := by
  simp [readProxyAuthenType, h]

theorem readProxyAuthenType_cons (a b : UInt8) (r : Bytes) :
    (readProxyAuthenType : M Bytes DErr AVP) (a :: b :: r) =
      match ProxyAuthenType.ofCode (word16 a b) with
      | some t => .ok (.proxyAuthenType t) r
      | none => .err (.incompleteAVP 29) r := by
  have h : ¬ (r.length + 1 + 1 < 2) := by omega
  cases hc : ProxyAuthenType.ofCode (word16 a b) <;> simp [readProxyAuthenType, h, hc]

theorem readProtocolVersion_short {s : Bytes} (h : s.length < 2) :
    (readProtocolVersion : M Bytes DErr AVP) s = .err (.incompleteAVP 2) s := by
  simp [readProtocolVersion, h]

@[simp] theorem readProtocolVersion_cons (a b : UInt8) (r : Bytes) :
    (readProtocolVersion : M Bytes DErr AVP) (a :: b :: r) = .ok (.protocolVersion a b) r := by
  have h : ¬ (r.length + 1 + 1 < 2) := by omega
  simp [readProtocolVersion, h]

theorem readProxyAuthenId_short {s : Bytes} (h : s.length < 2) :
    (readProxyAuthenId : M Bytes DErr AVP) s = .err (.incompleteAVP 32) s := by
  simp [readProxyAuthenId, h]

@[simp] theorem readProxyAuthenId_cons (a b : UInt8) (r : Bytes) :
    (readProxyAuthenId : M Bytes DErr AVP) (a :: b :: r) = .ok (.proxyAuthenId b) r := by
  have h : ¬ (r.length + 1 + 1 < 2) := by omega
  have h1 : 1 ≤ (a :: b :: r).length := by simp
  simp [readProxyAuthenId, h, skip_ok h1]

theorem readChallengeResponse_short {s : Bytes} (h : s.length < 16) :
    (readChallengeResponse : M Bytes DErr AVP) s = .err (.incompleteAVP 13) s := by
  simp [readChallengeResponse, h]

theorem readChallengeResponse_ok {s : Bytes} (h : 16 ≤ s.length) :
    (readChallengeResponse : M Bytes DErr AVP) s =
      .ok (.challengeResponse (word64Of (s.take 16)) (word64Of ((s.take 16).drop 8))) (s.drop 16) := by
  have h' : ¬ (s.length < 16) := by omega
  simp [readChallengeResponse, h', readBytes_ok _ h]

theorem readCallErrors_short {s : Bytes} (h : s.length < 26) :
    (readCallErrors : M Bytes DErr AVP) s = .err (.incompleteAVP 34) s := by
  simp [readCallErrors, h]

theorem readAccm_short {s : Bytes} (h : s.length < 10) :
    (readAccm : M Bytes DErr AVP) s = .err (.incompleteAVP 35) s := by
  simp [readAccm, h]

@[simp] theorem readAccm_cons (x y a b c d e f g i : UInt8) (r : Bytes) :
    (readAccm : M Bytes DErr AVP) (x :: y :: a :: b :: c :: d :: e :: f :: g :: i :: r) =
      .ok (.accm (word32 a b c d) (word32 e f g i)) r := by
  have h : ¬ (r.length + 1 + 1 + 1 + 1 + 1 + 1 + 1 + 1 + 1 + 1 < 10) := by omega
  have h2 : 2 ≤ (x :: y :: a :: b :: c :: d :: e :: f :: g :: i :: r).length := by simp
  have h4 : 4 ≤ (a :: b :: c :: d :: e :: f :: g :: i :: r).length := by simp
  have h4' : 4 ≤ (e :: f :: g :: i :: r).length := by simp
  simp [readAccm, h, skip_ok h2, readBytes_ok _ h4, readBytes_ok _ h4', word32Of]

end Rl2tp
