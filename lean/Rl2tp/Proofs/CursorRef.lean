/-
  Proofs.CursorRef: an *independent* reference for C18 — a cursor that keeps the original buffer with an
  absolute position and limit and never re-slices (`RefCur`), and a byte vector whose positional overwrite is
  defined octet by octet (`splice`) — and the simulation of the model's `SliceReader` / `VecWriter` renderings
  (`ROp.run`, `runOps`, `runNested`, `WOp.run`, `runWOps`: remaining-slice with take/drop, append and `writeAt`)
  by them, for every operation sequence.
-/
import Rl2tp.Model.Cursor
namespace Rl2tp

/-- big-endian value of an octet string -/
def beVal (c : Bytes) : Nat := c.foldl (fun a b => a * 256 + b.toNat) 0

structure RefCur where
  buf : Bytes
  pos : Nat
  lim : Nat
  deriving Repr, DecidableEq

namespace RefCur

def wf (c : RefCur) : Prop := c.pos ≤ c.lim ∧ c.lim ≤ c.buf.length
/-- what is left to read -/
def remaining (c : RefCur) : Nat := c.lim - c.pos
/-- octets `pos .. pos+n` of the original buffer -/
def octets (c : RefCur) (n : Nat) : Bytes := (c.buf.drop c.pos).take n
def adv (c : RefCur) (n : Nat) : RefCur := { c with pos := c.pos + n }
/-- the window `pos .. pos+n` as a cursor of its own -/
def window (c : RefCur) (n : Nat) : RefCur := { c with lim := c.pos + n }
/-- the remaining octets as the model's cursor holds them -/
def view (c : RefCur) : Bytes := (c.buf.take c.lim).drop c.pos

/-- one operation: `none` = precondition violated (the implementation's behaviour is then undefined / a panic).
    The position advances by exactly the amount requested; a refused `bytes` leaves it alone. -/
def step (c : RefCur) : ROp → Option (RVal × RefCur)
  | .u8 => if c.pos + 1 ≤ c.lim then some (.num (beVal (c.octets 1)), c.adv 1) else none
  | .u16 => if c.pos + 2 ≤ c.lim then some (.num (beVal (c.octets 2)), c.adv 2) else none
  | .u32 => if c.pos + 4 ≤ c.lim then some (.num (beVal (c.octets 4)), c.adv 4) else none
  | .u64 => if c.pos + 8 ≤ c.lim then some (.num (beVal (c.octets 8)), c.adv 8) else none
  | .bytes n => if c.pos + n ≤ c.lim then some (.octets (c.octets n), c.adv n) else some (.none, c)
  | .skip n => if c.pos + n ≤ c.lim then some (.unit, c.adv n) else none
  | .sub n => if c.pos + n ≤ c.lim then some (.subreader (c.octets n), c.adv n) else none

theorem view_length (c : RefCur) (h : c.wf) : c.view.length = c.remaining := by
  unfold view remaining
  rw [List.length_drop, List.length_take]
  have := h.2
  omega

theorem view_take (c : RefCur) (h : c.wf) (n : Nat) (hn : c.pos + n ≤ c.lim) : c.view.take n = c.octets n := by
  unfold view octets
  rw [List.drop_take, List.take_take]
  congr 1
  omega

theorem view_drop (c : RefCur) (n : Nat) : c.view.drop n = (c.adv n).view := by
  unfold view adv
  rw [List.drop_drop]

theorem view_window (c : RefCur) (n : Nat) : (c.window n).view = c.octets n := by
  unfold view window octets
  simp only []
  rw [List.drop_take]
  congr 1
  omega

theorem adv_wf (c : RefCur) (h : c.wf) (n : Nat) (hn : c.pos + n ≤ c.lim) : (c.adv n).wf :=
  ⟨hn, h.2⟩

theorem window_wf (c : RefCur) (h : c.wf) (n : Nat) (hn : c.pos + n ≤ c.lim) : (c.window n).wf :=
  ⟨by simp [window], by simp only [window]; have := h.2; omega⟩

end RefCur

/-! ### the model's operations, spelled out -/

theorem run_u8 (a : UInt8) (r : Bytes) : ROp.u8.run (a :: r) = .ok (.num (beVal [a]), r) := by
  simp [ROp.run, Rdr.u8, Except.map, beVal]
theorem run_u16 (a b : UInt8) (r : Bytes) : ROp.u16.run (a :: b :: r) = .ok (.num (beVal [a, b]), r) := by
  simp [ROp.run, Rdr.u16, Except.map, beVal, word16_toNat]
theorem run_u32 (a b c d : UInt8) (r : Bytes) : ROp.u32.run (a :: b :: c :: d :: r) = .ok (.num (beVal [a, b, c, d]), r) := by
  simp [ROp.run, Rdr.u32, Except.map, beVal, word32_toNat]
theorem run_u64 (a b c d e f g h : UInt8) (r : Bytes) :
    ROp.u64.run (a :: b :: c :: d :: e :: f :: g :: h :: r) = .ok (.num (beVal [a, b, c, d, e, f, g, h]), r) := by
  simp [ROp.run, Rdr.u64, Except.map, beVal, word64_toNat]

/-- what an operation must answer on remaining octets `s` when its precondition holds -/
def ROp.expected (s : Bytes) : ROp → RVal × Bytes
  | .u8 => (.num (beVal (s.take 1)), s.drop 1)
  | .u16 => (.num (beVal (s.take 2)), s.drop 2)
  | .u32 => (.num (beVal (s.take 4)), s.drop 4)
  | .u64 => (.num (beVal (s.take 8)), s.drop 8)
  | .bytes n => if n ≤ s.length then (.octets (s.take n), s.drop n) else (.none, s)
  | .skip n => (.unit, s.drop n)
  | .sub n => (.subreader (s.take n), s.drop n)

/-- how many octets an operation asks for -/
def ROp.width : ROp → Nat
  | .u8 => 1 | .u16 => 2 | .u32 => 4 | .u64 => 8
  | .bytes n => n | .skip n => n | .sub n => n

/-- the precondition of an operation: enough octets remain (`bytes` has none: it answers `None`) -/
def ROp.pre (op : ROp) (s : Bytes) : Prop :=
  match op with
  | .bytes _ => True
  | _ => ROp.width op ≤ s.length

theorem run_eq (op : ROp) (s : Bytes) (h : ROp.pre op s) : op.run s = .ok (ROp.expected s op) := by
  cases op with
  | u8 =>
    obtain ⟨a, r, rfl⟩ := exists_cons_of_le (s := s) h
    rw [run_u8]; rfl
  | u16 =>
    obtain ⟨a, b, r, rfl⟩ := exists_cons2 (s := s) h
    rw [run_u16]; rfl
  | u32 =>
    obtain ⟨a, b, c, d, r, rfl⟩ := exists_cons4 (s := s) h
    rw [run_u32]; rfl
  | u64 =>
    obtain ⟨a, b, c, d, e, f, g, i, r, rfl⟩ := exists_cons8 (s := s) h
    rw [run_u64]; rfl
  | bytes n =>
    by_cases hn : n ≤ s.length <;> simp [ROp.run, Rdr.bytes, ROp.expected, hn]
  | skip n =>
    have hn : n ≤ s.length := h
    simp [ROp.run, Rdr.skip, hn, Except.map, ROp.expected]
  | sub n =>
    have hn : n ≤ s.length := h
    simp [ROp.run, Rdr.sub, hn, Except.map, ROp.expected]

theorem run_fault (op : ROp) (s : Bytes) (h : ¬ ROp.pre op s) : ∃ f, op.run s = .error f := by
  cases op with
  | u8 => match s, h with
    | [], _ => exact ⟨_, rfl⟩
    | _ :: _, h => exact absurd (by simp [ROp.pre, ROp.width]) h
  | u16 => match s, h with
    | [], _ => exact ⟨_, rfl⟩
    | [_], _ => exact ⟨_, rfl⟩
    | _ :: _ :: _, h => exact absurd (by simp [ROp.pre, ROp.width]) h
  | u32 => match s, h with
    | [], _ => exact ⟨_, rfl⟩
    | [_], _ => exact ⟨_, rfl⟩
    | [_, _], _ => exact ⟨_, rfl⟩
    | [_, _, _], _ => exact ⟨_, rfl⟩
    | _ :: _ :: _ :: _ :: _, h => exact absurd (by simp [ROp.pre, ROp.width]) h
  | u64 =>
    have hl : s.length < 8 := by simpa [ROp.pre, ROp.width] using h
    match s, hl with
    | [], _ => exact ⟨_, rfl⟩
    | [_], _ => exact ⟨_, rfl⟩
    | [_, _], _ => exact ⟨_, rfl⟩
    | [_, _, _], _ => exact ⟨_, rfl⟩
    | [_, _, _, _], _ => exact ⟨_, rfl⟩
    | [_, _, _, _, _], _ => exact ⟨_, rfl⟩
    | [_, _, _, _, _, _], _ => exact ⟨_, rfl⟩
    | [_, _, _, _, _, _, _], _ => exact ⟨_, rfl⟩
  | bytes n => exact absurd trivial h
  | skip n =>
    have hn : ¬ n ≤ s.length := h
    exact ⟨.panic, by simp [ROp.run, Rdr.skip, hn, Except.map]⟩
  | sub n =>
    have hn : ¬ n ≤ s.length := h
    exact ⟨.panic, by simp [ROp.run, Rdr.sub, hn, Except.map]⟩

/-! ### one step of the model = one step of the reference -/

theorem step_refines (c : RefCur) (hwf : c.wf) (op : ROp) :
    match c.step op with
    | some (v, c') => op.run c.view = .ok (v, c'.view) ∧ c'.wf
    | none => ∃ f, op.run c.view = .error f := by
  have hlen := c.view_length hwf
  have hrem : c.remaining = c.lim - c.pos := rfl
  have h1 := hwf.1
  cases op with
  | u8 =>
    simp only [RefCur.step]
    by_cases hn : c.pos + 1 ≤ c.lim
    · rw [if_pos hn]
      refine ⟨?_, c.adv_wf hwf 1 hn⟩
      rw [run_eq _ _ (by show 1 ≤ c.view.length; omega)]
      simp only [ROp.expected, c.view_take hwf 1 hn, c.view_drop]
    · rw [if_neg hn]; exact run_fault _ _ (by show ¬ (1 ≤ c.view.length); omega)
  | u16 =>
    simp only [RefCur.step]
    by_cases hn : c.pos + 2 ≤ c.lim
    · rw [if_pos hn]
      refine ⟨?_, c.adv_wf hwf 2 hn⟩
      rw [run_eq _ _ (by show 2 ≤ c.view.length; omega)]
      simp only [ROp.expected, c.view_take hwf 2 hn, c.view_drop]
    · rw [if_neg hn]; exact run_fault _ _ (by show ¬ (2 ≤ c.view.length); omega)
  | u32 =>
    simp only [RefCur.step]
    by_cases hn : c.pos + 4 ≤ c.lim
    · rw [if_pos hn]
      refine ⟨?_, c.adv_wf hwf 4 hn⟩
      rw [run_eq _ _ (by show 4 ≤ c.view.length; omega)]
      simp only [ROp.expected, c.view_take hwf 4 hn, c.view_drop]
    · rw [if_neg hn]; exact run_fault _ _ (by show ¬ (4 ≤ c.view.length); omega)
  | u64 =>
    simp only [RefCur.step]
    by_cases hn : c.pos + 8 ≤ c.lim
    · rw [if_pos hn]
      refine ⟨?_, c.adv_wf hwf 8 hn⟩
      rw [run_eq _ _ (by show 8 ≤ c.view.length; omega)]
      simp only [ROp.expected, c.view_take hwf 8 hn, c.view_drop]
    · rw [if_neg hn]; exact run_fault _ _ (by show ¬ (8 ≤ c.view.length); omega)
  | bytes n =>
    simp only [RefCur.step]
    by_cases hn : c.pos + n ≤ c.lim
    · rw [if_pos hn]
      refine ⟨?_, c.adv_wf hwf n hn⟩
      rw [run_eq (.bytes n) c.view trivial]
      have : n ≤ c.view.length := by omega
      simp only [ROp.expected, this, if_true, c.view_take hwf n hn, c.view_drop]
    · rw [if_neg hn]
      refine ⟨?_, hwf⟩
      rw [run_eq (.bytes n) c.view trivial]
      have : ¬ n ≤ c.view.length := by omega
      simp only [ROp.expected, this, if_false]
  | skip n =>
    simp only [RefCur.step]
    by_cases hn : c.pos + n ≤ c.lim
    · rw [if_pos hn]
      refine ⟨?_, c.adv_wf hwf n hn⟩
      rw [run_eq _ _ (by show n ≤ c.view.length; omega)]
      simp only [ROp.expected, c.view_drop]
    · rw [if_neg hn]; exact run_fault _ _ (by show ¬ (n ≤ c.view.length); omega)
  | sub n =>
    simp only [RefCur.step]
    by_cases hn : c.pos + n ≤ c.lim
    · rw [if_pos hn]
      refine ⟨?_, c.adv_wf hwf n hn⟩
      rw [run_eq _ _ (by show n ≤ c.view.length; omega)]
      simp only [ROp.expected, c.view_take hwf n hn, c.view_drop]
    · rw [if_neg hn]; exact run_fault _ _ (by show ¬ (n ≤ c.view.length); omega)

/-! ### every operation sequence -/

/-- the reference run: the value and the octets left after each step; `true` = it stopped at an operation whose
    precondition does not hold -/
def refRun : RefCur → List ROp → List (RVal × Nat) × Bool
  | _, [] => ([], false)
  | c, op :: ops =>
    match c.step op with
    | none => ([], true)
    | some (v, c') =>
      let (vs, f) := refRun c' ops
      ((v, c'.remaining) :: vs, f)

theorem runOps_refines (c : RefCur) (hwf : c.wf) (ops : List ROp) :
    (runOps c.view ops).1 = (refRun c ops).1 ∧ (runOps c.view ops).2.isSome = (refRun c ops).2 := by
  induction ops generalizing c with
  | nil => simp [runOps, refRun]
  | cons op ops ih =>
    have hs := step_refines c hwf op
    simp only [runOps, refRun]
    cases hst : c.step op with
    | none =>
      rw [hst] at hs
      obtain ⟨f, hf⟩ := hs
      simp [hf]
    | some p =>
      obtain ⟨v, c'⟩ := p
      rw [hst] at hs
      obtain ⟨hrun, hwf'⟩ := hs
      simp only [hrun]
      have := ih c' hwf'
      rw [c'.view_length hwf']
      exact ⟨by rw [this.1], this.2⟩

/-- … with sub-readers that are used -/
def refRunNested : RefCur → List RefCur → List NOp → List (RVal × Nat) × Bool
  | _, _, [] => ([], false)
  | c, st, .op o :: ops =>
    match c.step o with
    | none => ([], true)
    | some (v, c') =>
      let (vs, f) := refRunNested c' st ops
      ((v, c'.remaining) :: vs, f)
  | c, st, .push n :: ops =>
    if c.pos + n ≤ c.lim then
      let (vs, f) := refRunNested (c.window n) (c.adv n :: st) ops
      ((.unit, n) :: vs, f)
    else ([], true)
  | _, p :: st, .pop :: ops =>
    let (vs, f) := refRunNested p st ops
    ((.unit, p.remaining) :: vs, f)
  | c, [], .pop :: ops =>
    let (vs, f) := refRunNested c [] ops
    ((.unit, c.remaining) :: vs, f)

theorem runNested_refines (c : RefCur) (st : List RefCur) (hwf : c.wf) (hst : ∀ p ∈ st, p.wf) (ops : List NOp) :
    (runNested c.view (st.map RefCur.view) ops).1 = (refRunNested c st ops).1 ∧
      (runNested c.view (st.map RefCur.view) ops).2.isSome = (refRunNested c st ops).2 := by
  induction ops generalizing c st with
  | nil => simp [runNested, refRunNested]
  | cons op ops ih =>
    cases op with
    | op o =>
      have hs := step_refines c hwf o
      simp only [runNested, refRunNested]
      cases hstep : c.step o with
      | none =>
        rw [hstep] at hs
        obtain ⟨f, hf⟩ := hs
        simp [hf]
      | some p =>
        obtain ⟨v, c'⟩ := p
        rw [hstep] at hs
        obtain ⟨hrun, hwf'⟩ := hs
        simp only [hrun]
        have := ih c' st hwf' hst
        rw [c'.view_length hwf']
        exact ⟨by rw [this.1], this.2⟩
    | push n =>
      simp only [runNested, refRunNested]
      have hlen := c.view_length hwf
      have hrem : c.remaining = c.lim - c.pos := rfl
      have h1 := hwf.1
      by_cases hn : c.pos + n ≤ c.lim
      · have hn' : n ≤ c.view.length := by omega
        rw [if_pos hn]
        simp only [Rdr.sub, hn', if_true]
        have hw := c.window_wf hwf n hn
        have ha := c.adv_wf hwf n hn
        have := ih (c.window n) (c.adv n :: st) hw (by
          intro p hp
          simp only [List.mem_cons] at hp
          rcases hp with rfl | hp
          · exact ha
          · exact hst p hp)
        rw [c.view_take hwf n hn, c.view_drop, ← c.view_window n]
        simp only [List.map_cons] at this
        rw [(c.window n).view_length hw]
        have hr : (c.window n).remaining = n := by simp [RefCur.remaining, RefCur.window]
        rw [hr]
        exact ⟨by rw [this.1], this.2⟩
      · have hn' : ¬ n ≤ c.view.length := by omega
        rw [if_neg hn]
        simp [Rdr.sub, hn']
    | pop =>
      cases st with
      | nil =>
        simp only [List.map_nil, runNested, refRunNested]
        have := ih c [] hwf hst
        simp only [List.map_nil] at this
        rw [c.view_length hwf]
        exact ⟨by rw [this.1], this.2⟩
      | cons p st =>
        simp only [List.map_cons, runNested, refRunNested]
        have hp := hst p (by simp)
        have := ih p st hp (fun q hq => hst q (by simp [hq]))
        rw [p.view_length hp]
        exact ⟨by rw [this.1], this.2⟩

/-! ### the writer: a byte vector whose overwrite is defined octet by octet -/

/-- `w` with the octets at `off .. off+|b|` replaced by `b`, position by position -/
def splice (w : Bytes) (off : Nat) (b : Bytes) : Bytes :=
  (List.range w.length).map fun i => if off ≤ i ∧ i < off + b.length then b.getD (i - off) 0 else w.getD i 0

theorem writeAt_eq_splice (w : Bytes) (off : Nat) (b : Bytes) (h : off + b.length ≤ w.length) :
    writeAt w off b = .ok (splice w off b) := by
  unfold writeAt splice
  rw [if_pos h]
  congr 1
  have hoff : off ≤ w.length := by omega
  have hmin : min off w.length = off := Nat.min_eq_left hoff
  apply List.ext_getElem?
  intro i
  by_cases hiw : i < w.length
  · -- inside the buffer: three ranges
    have hr : ((List.range w.length).map fun i => if off ≤ i ∧ i < off + b.length then b.getD (i - off) 0 else w.getD i 0)[i]? =
        some (if off ≤ i ∧ i < off + b.length then b.getD (i - off) 0 else w.getD i 0) := by
      simp [List.getElem?_range, hiw]
    rw [hr]
    by_cases h1 : i < off
    · have hc : ¬ (off ≤ i ∧ i < off + b.length) := by omega
      rw [if_neg hc, List.append_assoc, List.getElem?_append_left (by simp [hmin]; exact h1)]
      simp [List.getElem?_take, h1, hiw, List.getD_eq_getElem?_getD]
    · by_cases h2 : i < off + b.length
      · have hc : off ≤ i ∧ i < off + b.length := ⟨by omega, h2⟩
        rw [if_pos hc, List.append_assoc, List.getElem?_append_right (by simp [hmin]; omega)]
        simp only [List.length_take, hmin]
        rw [List.getElem?_append_left (by omega)]
        have : i - off < b.length := by omega
        simp [List.getD_eq_getElem?_getD, this]
      · have hc : ¬ (off ≤ i ∧ i < off + b.length) := by omega
        rw [if_neg hc, List.getElem?_append_right (by simp [hmin]; omega)]
        simp only [List.length_append, List.length_take, hmin, List.getElem?_drop]
        have e : off + b.length + (i - (off + b.length)) = i := by omega
        rw [e]
        simp [List.getD_eq_getElem?_getD, hiw]
  · -- beyond the buffer: both sides end
    have hl : (w.take off ++ b ++ w.drop (off + b.length)).length = w.length := by
      simp [hmin]; omega
    rw [List.getElem?_eq_none (by rw [hl]; omega), List.getElem?_eq_none (by simp; omega)]

/-- the reference writer: append, or splice in place when the range lies inside what has been written -/
def refW (w : Bytes) : WOp → Bytes × Bool
  | .bytes b => (w ++ b, true)
  | .u8 v => (w ++ [v], true)
  | .u16 v => (w ++ be16 v, true)
  | .u32 v => (w ++ be32 v, true)
  | .u64 v => (w ++ be64 v, true)
  | .at off b => if off + b.length ≤ w.length then (splice w off b, true) else (w, false)

theorem wop_run_eq_ref (w : Bytes) (op : WOp) : op.run w = refW w op := by
  cases op with
  | «at» off b =>
    simp only [WOp.run, refW]
    by_cases h : off + b.length ≤ w.length
    · rw [writeAt_eq_splice w off b h, if_pos h]
    · rw [if_neg h]
      simp [writeAt, h]
  | _ => rfl

/-- the reference over a sequence: the log (accepted?, length after the step) and the final buffer -/
def refWRun : Bytes → List WOp → List (Bool × Nat) × Bytes
  | w, [] => ([], w)
  | w, op :: ops =>
    let (w', ok) := refW w op
    let (rs, wf) := refWRun w' ops
    ((ok, w'.length) :: rs, wf)

theorem runWOps_eq_ref (w : Bytes) (ops : List WOp) : runWOps w ops = refWRun w ops := by
  induction ops generalizing w with
  | nil => rfl
  | cons op ops ih =>
    simp only [runWOps, refWRun, wop_run_eq_ref, ih]

/-- octets an operation appends -/
def WOp.appended : WOp → Nat
  | .bytes b => b.length | .u8 _ => 1 | .u16 _ => 2 | .u32 _ => 4 | .u64 _ => 8 | .at _ _ => 0

theorem splice_length (w : Bytes) (off : Nat) (b : Bytes) : (splice w off b).length = w.length := by
  simp [splice]

theorem refW_length (w : Bytes) (op : WOp) : (refW w op).1.length = w.length + op.appended := by
  cases op with
  | «at» off b =>
    simp only [refW, WOp.appended]
    by_cases h : off + b.length ≤ w.length
    · rw [if_pos h]; simp [splice_length]
    · rw [if_neg h]; simp
  | _ => simp [refW, WOp.appended, be16, be32, be64]

theorem refWRun_length (w : Bytes) (ops : List WOp) :
    (refWRun w ops).2.length = w.length + (ops.map WOp.appended).sum := by
  induction ops generalizing w with
  | nil => simp [refWRun]
  | cons op ops ih =>
    simp only [refWRun, List.map_cons, List.sum_cons]
    rw [ih, refW_length]
    omega

theorem beVal_be16 (v : UInt16) : beVal (be16 v) = v.toNat := by
  have := v.toNat_lt
  simp [beVal, be16]
  omega

end Rl2tp
