/-
  Proofs.GenTables: the tables `bin/gentables` has just read out of /repo's sources (`Rl2tp/Gen/Tables.lean`, regenerated
  on every run) are the tables the hand-written model uses.  Each theorem compares a generated table with a function of
  the model, evaluated by the kernel; a table edited in the Rust source makes the corresponding theorem fail to check.
-/
import Rl2tp.Gen.Tables
import Rl2tp.Driver.Text
import Rl2tp.Model.Errors
import Rl2tp.Model.Message
namespace Rl2tp.GenTables
open Rl2tp.Text

/-- the attribute numbers RFC 2661 assigns -/
def assigned : List Nat := (List.range 40).filter (· ≠ 20)

/-- a payload every kind's decoder accepts: (00 01) × 16 -/
def sample : Bytes := (List.range 16).flatMap fun _ => [0, 1]

/-- the kind the model's dispatch decodes attribute number `t` to -/
def dispatchKind (t : Nat) : String :=
  match (decodeAvp (UInt16.ofNat t) : M Bytes DErr AVP) sample with
  | .ok a _ => kindName a
  | _ => "?"

/-- the error value of the variant called `v`, carrying `n` where the variant carries a number -/
def errOf (v : String) (n : Nat) : Option DErr :=
  let k := UInt16.ofNat n
  match v with
  | "IncompleteAVP" => some (.incompleteAVP k)
  | "UnknownMessageType" => some (.unknownMessageType k)
  | "InvalidUtf8" => some (.invalidUtf8 k)
  | "InvalidResultCodeErrorType" => some (.invalidResultCodeErrorType k)
  | "AVPReadError" => some (.avpReadError k)
  | "InvalidAVPLength" => some (.invalidAVPLength k)
  | "UnknownAvp" => some (.unknownAvp k)
  | "EmptyHiddenAVP" => some .emptyHiddenAVP
  | "MisalignedHiddenAVP" => some .misalignedHiddenAVP
  | "InvalidOriginalAVPLength" => some (.invalidOriginalAVPLength k)
  | "UnsupportedVendorId" => some (.unsupportedVendorId k)
  | "InvalidVersion" => some (.invalidVersion (UInt8.ofNat n))
  | "InvalidReservedBits" => some .invalidReservedBits
  | "IncompleteFlags" => some .incompleteFlags
  | "InvalidOffset" => some (.invalidOffset k)
  | "IncompleteDataMessageHeader" => some .incompleteDataMessageHeader
  | "IncompleteDataMessagePayload" => some .incompleteDataMessagePayload
  | "EmptyDataMessagePayload" => some .emptyDataMessagePayload
  | "MessageReadError" => some .messageReadError
  | "ForbiddenControlMessagePriority" => some .forbiddenControlMessagePriority
  | "ForbiddenControlMessageOffset" => some .forbiddenControlMessageOffset
  | "ControlMessageWithoutLength" => some .controlMessageWithoutLength
  | "ControlMessageWithoutNsNr" => some .controlMessageWithoutNsNr
  | "IncompleteControlMessageHeader" => some .incompleteControlMessageHeader
  | "IncompleteControlMessagePayload" => some .incompleteControlMessagePayload
  | "ControlMessageTypeNotFirst" => some .controlMessageTypeNotFirst
  | _ => none

/-- the source's text for a row of the Display table, with the number `n` -/
def sourceText (row : String × String × String × String) (n : Nat) : String :=
  let (_, kind, pre, post) := row
  if kind == "n" then pre ++ toString n ++ post
  else if kind == "name" then pre ++ avpName (UInt16.ofNat n) ++ post
  else pre ++ post

/-! ### C16 -/

theorem message_map_is_model :
    Gen.messageCodeToType = (Text.MessageType.all).map fun p => (p.1.toCode.toNat, p.2) := by decide

theorem message_get_code_is_model :
    Gen.messageTypeGetCode = (Text.MessageType.all).map fun p => (p.1.toCode.toNat, p.2) := by decide

theorem message_map_is_ofCode :
    ∀ p ∈ Gen.messageCodeToType, (MessageType.ofCode (UInt16.ofNat p.1)).map (nameOf Text.MessageType.all) = some p.2 := by decide

theorem stop_ccn_is_model : Gen.stopCcnCodes = (Text.StopCcnCode.all).map fun p => (p.1.toCode.toNat, p.2) := by decide
theorem cdn_is_model : Gen.cdnCodes = (Text.CdnCode.all).map fun p => (p.1.toCode.toNat, p.2) := by decide
theorem error_types_is_model : Gen.errorTypes = (Text.ErrorType.all).map fun p => (p.1.toCode.toNat, p.2) := by decide
theorem proxy_types_is_model : Gen.proxyAuthenTypes = (Text.ProxyAuthenType.all).map fun p => (p.1.toCode.toNat, p.2) := by decide

theorem dispatch_is_model : Gen.dispatch = assigned.map fun t => (t, dispatchKind t) := by decide

/-! ### C20 -/

theorem avp_names_is_model : Gen.avpNames = assigned.map fun t => (t, avpName (UInt16.ofNat t)) := by decide

/-- the name table and the dispatch table of the source agree with each other (number by number) -/
theorem names_match_dispatch : Gen.avpNames = Gen.dispatch := by decide

/-- every Display text of the source, with an assigned and an unassigned number spliced in, is the model's -/
theorem error_texts_is_model :
    ∀ row ∈ Gen.errorTexts, ∀ n ∈ [12, 20, 200],
      (errOf row.1 n).map display = some (sourceText row n) := by decide

theorem error_texts_complete : Gen.errorTexts.length = 26 := by decide

/-! ### C14 (and every property that reads a flag) -/

def bitOf (k : String) : Nat := (Gen.flagBitNumbers.find? (·.1 == k)).map (·.2) |>.getD 99

theorem flag_bits_is_model (w : UInt16) :
    isControl w = fbit w (bitOf "T") ∧ hasLength w = fbit w (bitOf "L") ∧ hasNsNr w = fbit w (bitOf "S") ∧
    hasOffset w = fbit w (bitOf "O") ∧ isPrioritized w = fbit w (bitOf "P") := by
  have e : bitOf "T" = 8 ∧ bitOf "L" = 9 ∧ bitOf "S" = 12 ∧ bitOf "O" = 14 ∧ bitOf "P" = 15 := by decide
  obtain ⟨e1, e2, e3, e4, e5⟩ := e
  rw [e1, e2, e3, e4, e5]
  exact ⟨rfl, rfl, rfl, rfl, rfl⟩

theorem reserved_bits_is_model (w : UInt16) : reservedOk w = Gen.reservedBits.all fun i => !fbit w i := by
  have e : Gen.reservedBits = [0, 1, 2, 3, 10, 11, 13] := by decide
  rw [e]
  simp [reservedOk, List.all, Bool.and_assoc]

theorem version_field_is_model (w : UInt16) :
    version w = UInt8.ofNat (w.toNat / 2 ^ Gen.versionShift % (Gen.versionMask + 1)) := by
  have e : Gen.versionShift = 4 ∧ Gen.versionMask = 15 := by decide
  rw [e.1, e.2]
  rfl

end Rl2tp.GenTables
