/-
  Proofs.DataWriter: the setter-by-setter flag constructor is `mkFlags`, the write-by-write data encoder is
  `writeMsg … (.data d)` = prefix ++ `dataImage d`; the version assert never fires for the constant 2.
-/
import Rl2tp.Model.DataWriter
namespace Rl2tp

theorem flagsNew_eq (c l s o p : Bool) : flagsNew c l s o p 2 = .ok (mkFlags c l s o p) := by
  cases c <;> cases l <;> cases s <;> cases o <;> cases p <;> decide

theorem writeDataSteps_eq (w : Bytes) (d : Data) : writeDataSteps w d = writeMsg w (.data d) := by
  unfold writeDataSteps writeMsg dataImage
  rw [flagsNew_eq]
  rcases d with ⟨prio, len, tid, sid, nsnr, off, data⟩
  cases len <;> cases nsnr <;> cases off <;> simp [List.append_assoc]

end Rl2tp
