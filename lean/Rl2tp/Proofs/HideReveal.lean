/-
  Proofs.HideReveal: what `hide` produces, and `reveal ∘ hide = id` for any 16-octet hash.
-/
import Rl2tp.Proofs.Chain
import Rl2tp.Proofs.Roundtrip
namespace Rl2tp

/-- the plaintext of RFC 2661 §4.3 as the code lays it out: original length, value, length padding,
    then just enough alignment padding to reach a multiple of 16 -/
def hidePlain (a : AVP) (lp ap : Bytes) : Bytes :=
  let input0 := be16 (UInt16.ofNat (6 + a.value.length)) ++ a.value ++ lp
  input0 ++ ap.take ((16 - input0.length % 16) % 16)

theorem hidePlain_length_mod (a : AVP) (lp ap : Bytes) (hap : ap.length = 16) :
    (hidePlain a lp ap).length % 16 = 0 := by
  simp only [hidePlain, List.length_append, List.length_take, be16_length, hap]
  omega

theorem hidePlain_length (a : AVP) (lp ap : Bytes) (hap : ap.length = 16) :
    (hidePlain a lp ap).length = 16 * ((2 + a.value.length + lp.length + 15) / 16) := by
  simp only [hidePlain, List.length_append, List.length_take, be16_length, hap]
  omega

theorem payload_take2 (a : AVP) : a.payload.take 2 = be16 a.attr := by simp [AVP.payload, be16]
theorem payload_drop2 (a : AVP) : a.payload.drop 2 = a.value := by simp [AVP.payload, be16]
theorem word16Of_be16 (x : UInt16) : word16Of (be16 x) = x := by simp [word16Of, be16]

section
variable (md5 : Bytes → Bytes)

/-- the first-block key: MD5(attribute type ‖ secret ‖ random vector) -/
def key1 (t : UInt16) (secret : Bytes) (rv : UInt32) : Bytes := md5 (be16 t ++ secret ++ be32 rv)

/-- what `hide` returns for a non-hidden AVP that fits -/
theorem hide_eq (a : AVP) (secret : Bytes) (rv : UInt32) (lp ap : Bytes)
    (hh : a.isHidden = false) (hl : 6 + a.value.length ≤ 1023) :
    hide md5 a secret rv lp ap =
      .ok (.hidden a.attr (encChain md5 secret (key1 md5 a.attr secret rv)
        (chunks ((hidePlain a lp ap).length / 16) (hidePlain a lp ap))).flatten) := by
  unfold hide
  have hp : ¬ (a.payload.length + 6 - 2 > 1023) := by rw [AVP.payload]; simp; omega
  have hlen : a.payload.length + 6 - 2 = 6 + a.value.length := by rw [AVP.payload]; simp; omega
  rw [if_neg (by simp [hh]), if_neg hp]
  simp only [payload_take2, payload_drop2, word16Of_be16, hlen, hidePlain, key1]

variable (hmd5 : ∀ x, (md5 x).length = 16)

/-- what the decoder makes of an AVP's own value octets, as `reveal` reports it -/
def ownDecode (a : AVP) : Except Fault (Except DErr AVP) :=
  match (decodeAvp a.attr : M Bytes DErr AVP) a.value with
  | .ok r _ => .ok (.ok r)
  | .err e _ => .ok (.error e)
  | .fault f => .error f

include hmd5 in
/-- revealing what `hide` produced, with the same secret and random vector, yields exactly what the decoder makes of
    the AVP's own value octets — for **every** non-hidden AVP within the size limit, well-formed or not, every secret,
    random vector, length padding and alignment padding -/
theorem reveal_hide_general (a : AVP) (secret : Bytes) (rv : UInt32) (lp ap : Bytes)
    (hh : a.isHidden = false) (hl : 6 + a.value.length ≤ 1023) (hap : ap.length = 16) :
    ∃ h, hide md5 a secret rv lp ap = .ok h ∧ reveal md5 h secret rv = ownDecode a := by
  refine ⟨_, hide_eq md5 a secret rv lp ap hh hl, ?_⟩
  have hmod := hidePlain_length_mod a lp ap hap
  have hplen : (hidePlain a lp ap).length = 16 * ((hidePlain a lp ap).length / 16) := by omega
  have hpos : 2 ≤ (hidePlain a lp ap).length := by simp [hidePlain]
  have hchunks := chunks_each ((hidePlain a lp ap).length / 16) (hidePlain a lp ap) (by omega)
  have hk : (key1 md5 a.attr secret rv).length = 16 := hmd5 _
  have henc := encChain_each md5 hmd5 secret _ hk _ hchunks
  have hflen := flatten_length_16 _ henc
  rw [encChain_length, chunks_length] at hflen
  unfold reveal
  simp only []
  rw [if_neg (by omega), if_neg (by omega)]
  have hn : (encChain md5 secret (key1 md5 a.attr secret rv)
      (chunks ((hidePlain a lp ap).length / 16) (hidePlain a lp ap))).flatten.length / 16 =
      (encChain md5 secret (key1 md5 a.attr secret rv)
      (chunks ((hidePlain a lp ap).length / 16) (hidePlain a lp ap))).length := by
    rw [hflen, encChain_length, chunks_length]; omega
  rw [hn, chunks_flatten _ henc]
  have hdec := dec_enc md5 hmd5 secret (key1 md5 a.attr secret rv) hk _ hchunks
  have hkey : md5 (be16 a.attr ++ secret ++ be32 rv) = key1 md5 a.attr secret rv := rfl
  rw [hkey, hdec, flatten_chunks _ _ hplen]
  -- the decrypted buffer: length field, value, padding
  have hplain : hidePlain a lp ap = UInt8.ofNat ((UInt16.ofNat (6 + a.value.length)).toNat / 256) ::
      UInt8.ofNat ((UInt16.ofNat (6 + a.value.length)).toNat % 256) ::
      (a.value ++ (lp ++ ap.take ((16 - (2 + a.value.length + lp.length) % 16) % 16))) := by
    simp [hidePlain, be16]
    omega
  rw [hplain, readU16_cons, word16_be16]
  have htot : (UInt16.ofNat (6 + a.value.length)).toNat = 6 + a.value.length := u16_small (by omega)
  simp only [htot]
  have c1 : (decide (6 + a.value.length < 6) || decide (6 + a.value.length > 1023)) = false := by
    simp; omega
  rw [c1]
  simp only [Bool.false_eq_true, if_false]
  rw [subM_ok (by omega)]
  simp only []
  rw [if_neg (by simp)]
  have e6 : 6 + a.value.length - 6 = a.value.length := by omega
  rw [e6, inSub_ok _ (by simp), List.take_left' rfl]
  unfold ownDecode
  cases (decodeAvp a.attr : M Bytes DErr AVP) a.value <;> rfl


include hmd5 in
/-- revealing what `hide` produced, with the same secret and random vector, returns the AVP — for every
    secret (the empty one included), random vector, length padding and alignment padding -/
theorem reveal_hide (a : AVP) (secret : Bytes) (rv : UInt32) (lp ap : Bytes)
    (hw : a.wf = true) (hh : a.isHidden = false) (hl : 6 + a.value.length ≤ 1023) (hap : ap.length = 16) :
    ∃ h, hide md5 a secret rv lp ap = .ok h ∧ reveal md5 h secret rv = .ok (.ok a) := by
  obtain ⟨h, h1, h2⟩ := reveal_hide_general md5 hmd5 a secret rv lp ap hh hl hap
  refine ⟨h, h1, ?_⟩
  rw [h2, ownDecode, payload_roundtrip a hw hh]

end
end Rl2tp
