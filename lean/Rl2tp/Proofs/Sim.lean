/-
  Proofs.Sim: the decoder over *any* reader that honours the contract simulates the decoder over the
  reference cursor, wherever the cursor run does not fault (and it never does: C01).
  `Conforms R abs`: each operation of `R`, when the cursor's precondition holds on the abstracted state,
  returns what the cursor returns and a state that abstracts to the cursor's; nothing is required
  otherwise.
-/
import Rl2tp.Model.Message
namespace Rl2tp

structure Conforms (ρ : Type) [Rdr ρ] (abs : ρ → Bytes) : Prop where
  len : ∀ r : ρ, Rdr.len r = (abs r).length
  u8 : ∀ (r : ρ) v c, Rdr.u8 (abs r) = .ok (v, c) → ∃ r', Rdr.u8 r = .ok (v, r') ∧ abs r' = c
  u16 : ∀ (r : ρ) v c, Rdr.u16 (abs r) = .ok (v, c) → ∃ r', Rdr.u16 r = .ok (v, r') ∧ abs r' = c
  u32 : ∀ (r : ρ) v c, Rdr.u32 (abs r) = .ok (v, c) → ∃ r', Rdr.u32 r = .ok (v, r') ∧ abs r' = c
  u64 : ∀ (r : ρ) v c, Rdr.u64 (abs r) = .ok (v, c) → ∃ r', Rdr.u64 r = .ok (v, r') ∧ abs r' = c
  skip : ∀ (r : ρ) n c, Rdr.skip (abs r) n = .ok c → ∃ r', Rdr.skip r n = .ok r' ∧ abs r' = c
  sub : ∀ (r : ρ) n s c, Rdr.sub (abs r) n = .ok (s, c) →
          ∃ s' r', Rdr.sub r n = .ok (s', r') ∧ abs s' = s ∧ abs r' = c
  bytesSome : ∀ (r : ρ) n b c, Rdr.bytes (abs r) n = some (b, c) → ∃ r', Rdr.bytes r n = some (b, r') ∧ abs r' = c
  bytesNone : ∀ (r : ρ) n, Rdr.bytes (abs r) n = none → Rdr.bytes r n = none

/-- `m₁` (over ρ) simulates `m₂` (over the cursor) wherever the cursor run does not fault -/
structure Sim {ρ : Type} (abs : ρ → Bytes) (m₁ : M ρ ε α) (m₂ : M Bytes ε α) : Prop where
  run : ∀ r, match m₂ (abs r) with
    | .fault _ => True
    | .ok a c => ∃ r', m₁ r = .ok a r' ∧ abs r' = c
    | .err e c => ∃ r', m₁ r = .err e r' ∧ abs r' = c

section
variable {ρ : Type} [Rdr ρ] {abs : ρ → Bytes}

theorem Sim.pure (a : α) : Sim abs (pure a : M ρ ε α) (pure a) := ⟨fun r => ⟨r, rfl, rfl⟩⟩
theorem Sim.fail (e : ε) : Sim abs (fail e : M ρ ε α) (fail e) := ⟨fun r => ⟨r, rfl, rfl⟩⟩

theorem Sim.bind {m₁ : M ρ ε α} {m₂ : M Bytes ε α} {f₁ : α → M ρ ε β} {f₂ : α → M Bytes ε β}
    (hm : Sim abs m₁ m₂) (hf : ∀ a, Sim abs (f₁ a) (f₂ a)) : Sim abs (m₁ >>= f₁) (m₂ >>= f₂) := by
  constructor
  intro r
  have h := hm.run r
  rw [bind_apply, bind_apply]
  cases h2 : m₂ (abs r) with
  | fault f => trivial
  | err e c =>
    rw [h2] at h; obtain ⟨r', h1, h3⟩ := h
    rw [h1]; exact ⟨r', rfl, h3⟩
  | ok a c =>
    rw [h2] at h; obtain ⟨r', h1, h3⟩ := h
    rw [h1]
    have := (hf a).run r'
    rw [h3] at this
    exact this

theorem Sim.ite {c : Prop} [Decidable c] {a₁ b₁ : M ρ ε α} {a₂ b₂ : M Bytes ε α}
    (ha : Sim abs a₁ a₂) (hb : Sim abs b₁ b₂) : Sim abs (if c then a₁ else b₁) (if c then a₂ else b₂) := by
  split <;> assumption

theorem Sim.len (hc : Conforms ρ abs) : Sim abs (len : M ρ ε Nat) len := by
  constructor
  intro r
  refine ⟨r, ?_, rfl⟩
  show Out.ok (Rdr.len r) r = Out.ok (Rdr.len (abs r)) r
  rw [hc.len r]; rfl

theorem Sim.readU8 (hc : Conforms ρ abs) : Sim abs (readU8 : M ρ ε UInt8) readU8 := by
  constructor
  intro r
  unfold Rl2tp.readU8
  cases h : Rdr.u8 (abs r) with
  | error f => trivial
  | ok p =>
    obtain ⟨v, c⟩ := p
    obtain ⟨r', h1, h2⟩ := hc.u8 r v c h
    simp only [h1]
    exact ⟨r', rfl, h2⟩

theorem Sim.readU16 (hc : Conforms ρ abs) : Sim abs (readU16 : M ρ ε UInt16) readU16 := by
  constructor
  intro r
  unfold Rl2tp.readU16
  cases h : Rdr.u16 (abs r) with
  | error f => trivial
  | ok p =>
    obtain ⟨v, c⟩ := p
    obtain ⟨r', h1, h2⟩ := hc.u16 r v c h
    simp only [h1]
    exact ⟨r', rfl, h2⟩

theorem Sim.readU32 (hc : Conforms ρ abs) : Sim abs (readU32 : M ρ ε UInt32) readU32 := by
  constructor
  intro r
  unfold Rl2tp.readU32
  cases h : Rdr.u32 (abs r) with
  | error f => trivial
  | ok p =>
    obtain ⟨v, c⟩ := p
    obtain ⟨r', h1, h2⟩ := hc.u32 r v c h
    simp only [h1]
    exact ⟨r', rfl, h2⟩

theorem Sim.readU64 (hc : Conforms ρ abs) : Sim abs (readU64 : M ρ ε UInt64) readU64 := by
  constructor
  intro r
  unfold Rl2tp.readU64
  cases h : Rdr.u64 (abs r) with
  | error f => trivial
  | ok p =>
    obtain ⟨v, c⟩ := p
    obtain ⟨r', h1, h2⟩ := hc.u64 r v c h
    simp only [h1]
    exact ⟨r', rfl, h2⟩

theorem Sim.skip (hc : Conforms ρ abs) (n : Nat) : Sim abs (skip n : M ρ ε Unit) (skip n) := by
  constructor
  intro r
  unfold Rl2tp.skip
  cases h : Rdr.skip (abs r) n with
  | error f => trivial
  | ok c =>
    obtain ⟨r', h1, h2⟩ := hc.skip r n c h
    simp only [h1]
    exact ⟨r', rfl, h2⟩

theorem Sim.subM (a b : Nat) : Sim abs (subM a b : M ρ ε Nat) (subM a b) := by
  constructor
  intro r
  unfold Rl2tp.subM
  by_cases h : b ≤ a
  · simp only [h, if_true]; exact ⟨r, rfl, rfl⟩
  · simp only [h, if_false]

theorem Sim.readBytes (hc : Conforms ρ abs) (n : Nat) (e : ε) : Sim abs (readBytes n e : M ρ ε Bytes) (readBytes n e) := by
  constructor
  intro r
  unfold Rl2tp.readBytes
  cases h : Rdr.bytes (abs r) n with
  | none =>
    simp only [hc.bytesNone r n h]
    exact ⟨r, rfl, rfl⟩
  | some p =>
    obtain ⟨b, c⟩ := p
    obtain ⟨r', h1, h2⟩ := hc.bytesSome r n b c h
    simp only [h1]
    exact ⟨r', rfl, h2⟩

theorem Sim.readBytesOrEmpty (hc : Conforms ρ abs) (n : Nat) :
    Sim abs (readBytesOrEmpty n : M ρ ε Bytes) (readBytesOrEmpty n) := by
  constructor
  intro r
  unfold Rl2tp.readBytesOrEmpty
  cases h : Rdr.bytes (abs r) n with
  | none =>
    simp only [hc.bytesNone r n h]
    exact ⟨r, rfl, rfl⟩
  | some p =>
    obtain ⟨b, c⟩ := p
    obtain ⟨r', h1, h2⟩ := hc.bytesSome r n b c h
    simp only [h1]
    exact ⟨r', rfl, h2⟩

theorem Sim.inSub {ε' : Type} (hc : Conforms ρ abs) (n : Nat) {m₁ : M ρ ε α} {m₂ : M Bytes ε α} (hm : Sim abs m₁ m₂) :
    Sim abs (inSub n m₁ : M ρ ε' (Except ε α)) (inSub n m₂) := by
  constructor
  intro r
  unfold Rl2tp.inSub
  cases h : Rdr.sub (abs r) n with
  | error f => trivial
  | ok p =>
    obtain ⟨s, c⟩ := p
    obtain ⟨s', r', h1, h2, h3⟩ := hc.sub r n s c h
    simp only [h1]
    have := hm.run s'
    rw [h2] at this
    cases h4 : m₂ s with
    | fault f => simp [subResult]
    | ok a c2 => rw [h4] at this; obtain ⟨r2, e1, _⟩ := this; simp only [e1, subResult]; exact ⟨r', rfl, h3⟩
    | err e c2 => rw [h4] at this; obtain ⟨r2, e1, _⟩ := this; simp only [e1, subResult]; exact ⟨r', rfl, h3⟩

theorem Sim.liftE {m₁ : M ρ DErr α} {m₂ : M Bytes DErr α} (hm : Sim abs m₁ m₂) : Sim abs (liftE m₁) (liftE m₂) := by
  constructor
  intro r
  have := hm.run r
  unfold Rl2tp.liftE
  cases h : m₂ (abs r) with
  | fault f => trivial
  | ok a c => rw [h] at this; obtain ⟨r', e1, e2⟩ := this; simp only [e1]; exact ⟨r', rfl, e2⟩
  | err e c => rw [h] at this; obtain ⟨r', e1, e2⟩ := this; simp only [e1]; exact ⟨r', rfl, e2⟩

end

/-- compositional proof script: peel binds, conditionals and matches, close leaves with the rules -/
macro "sim" hc:ident : tactic => `(tactic|
  repeat' (first
    | apply Sim.bind | apply Sim.len $hc | apply Sim.readU8 $hc | apply Sim.readU16 $hc | apply Sim.readU32 $hc
    | apply Sim.readU64 $hc | apply Sim.skip $hc | apply Sim.readBytes $hc | apply Sim.readBytesOrEmpty $hc
    | apply Sim.inSub $hc | apply Sim.subM | apply Sim.ite | apply Sim.pure | apply Sim.fail | intro _ | split))

section
variable {ρ : Type} [Rdr ρ] {abs : ρ → Bytes} (hc : Conforms ρ abs)

include hc
theorem leafU16_sim (attr mk) : Sim abs (leafU16 attr mk : M ρ DErr AVP) (leafU16 attr mk) := by
  unfold leafU16; sim hc
theorem leafU32_sim (attr mk) : Sim abs (leafU32 attr mk : M ρ DErr AVP) (leafU32 attr mk) := by
  unfold leafU32; sim hc
theorem leafU64_sim (attr mk) : Sim abs (leafU64 attr mk : M ρ DErr AVP) (leafU64 attr mk) := by
  unfold leafU64; sim hc
theorem leafB4_sim (attr mk) : Sim abs (leafB4 attr mk : M ρ DErr AVP) (leafB4 attr mk) := by
  unfold leafB4; sim hc
theorem leafBytes_sim (attr mk) : Sim abs (leafBytes attr mk : M ρ DErr AVP) (leafBytes attr mk) := by
  unfold leafBytes; sim hc
theorem leafStr_sim (attr mk) : Sim abs (leafStr attr mk : M ρ DErr AVP) (leafStr attr mk) := by
  unfold leafStr; sim hc
theorem readMessageType_sim : Sim abs (readMessageType : M ρ DErr AVP) readMessageType := by
  unfold readMessageType; sim hc
theorem readRcError_sim : Sim abs (readRcError : M ρ DErr _) readRcError := by
  unfold readRcError; sim hc
theorem readResultCode_sim : Sim abs (readResultCode : M ρ DErr AVP) readResultCode := by
  unfold readResultCode; sim hc
  all_goals first | exact readRcError_sim hc | skip
theorem readProtocolVersion_sim : Sim abs (readProtocolVersion : M ρ DErr AVP) readProtocolVersion := by
  unfold readProtocolVersion; sim hc
theorem readQ931_sim : Sim abs (readQ931 : M ρ DErr AVP) readQ931 := by
  unfold readQ931; sim hc
theorem readChallengeResponse_sim : Sim abs (readChallengeResponse : M ρ DErr AVP) readChallengeResponse := by
  unfold readChallengeResponse; sim hc
theorem readProxyAuthenType_sim : Sim abs (readProxyAuthenType : M ρ DErr AVP) readProxyAuthenType := by
  unfold readProxyAuthenType; sim hc
theorem readProxyAuthenId_sim : Sim abs (readProxyAuthenId : M ρ DErr AVP) readProxyAuthenId := by
  unfold readProxyAuthenId; sim hc
theorem readCallErrors_sim : Sim abs (readCallErrors : M ρ DErr AVP) readCallErrors := by
  unfold readCallErrors; sim hc
theorem readAccm_sim : Sim abs (readAccm : M ρ DErr AVP) readAccm := by
  unfold readAccm; sim hc

end
end Rl2tp
