/-
  Proofs.Roundtrip: every well-formed value decodes back from its own value octets; the AVP header
  round-trips; `writeAvp` appends the image; the greedy reader peels one image off the front.
-/
import Rl2tp.Proofs.Shape
namespace Rl2tp
open Spec.Utf8 (valid)

/-- constraints a value must meet to be representable on the wire as itself: variable parts non-empty,
    strings well-formed UTF-8 (Rust's `String` invariant), optional tails not `Some("")` -/
def AVP.wf : AVP → Bool
  | .hostName v | .challenge v | .privateGroupId v | .initialReceivedLcpConfReq v | .lastSentLcpConfReq v
  | .lastReceivedLcpConfReq v | .proxyAuthenName v | .proxyAuthenChallenge v | .proxyAuthenResponse v => !v.isEmpty
  | .vendorName v | .calledNumber v | .callingNumber v | .subAddress v => !v.isEmpty && valid v
  | .resultCode _ (some (_, some m)) => !m.isEmpty && valid m
  | .q931CauseCode _ _ (some a) => !a.isEmpty && valid a
  | _ => true

/-- the encodable domain of C03: well-formed and at most 1023 octets on the wire -/
def AVP.Encodable (a : AVP) : Prop := a.wf = true ∧ 6 + a.value.length ≤ 1023

instance (a : AVP) : Decidable a.Encodable := by unfold AVP.Encodable; infer_instance

theorem ne_nil_of_not_isEmpty {v : Bytes} (h : (!v.isEmpty) = true) : v ≠ [] := by
  cases v <;> simp_all

/-- the payload decoder inverts the payload writer on every well-formed non-hidden value -/
theorem payload_roundtrip (a : AVP) (hw : a.wf = true) (hh : a.isHidden = false) :
    (decodeAvp a.attr : M Bytes DErr AVP) a.value = .ok a [] := by
  cases a with
  | hidden t v => simp [AVP.isHidden] at hh
  | messageType t =>
    simp only [AVP.attr, AVP.value, decodeAvp, be16]
    show (readMessageType : M Bytes DErr AVP) _ = _
    rw [readMessageType_cons, word16_be16]
    cases t <;> rfl
  | proxyAuthenType t =>
    simp only [AVP.attr, AVP.value, decodeAvp, be16]
    show (readProxyAuthenType : M Bytes DErr AVP) _ = _
    rw [readProxyAuthenType_cons, word16_be16]
    cases t <;> rfl
  | resultCode c e =>
    simp only [AVP.attr, decodeAvp]
    show (readResultCode : M Bytes DErr AVP) _ = _
    match e, hw with
    | none, _ => simp [AVP.value, be16, readResultCode_cons_short]
    | some (et, none), _ =>
      simp only [AVP.value, be16, List.cons_append, List.nil_append]
      rw [readResultCode_cons_long, word16_be16, word16_be16]
      have : ErrorType.ofCode et.toCode = some et := by cases et <;> rfl
      simp [rcErrorSpec, this]
    | some (et, some m), hw =>
      simp only [AVP.wf, Bool.and_eq_true] at hw
      have hne := ne_nil_of_not_isEmpty hw.1
      have hl : m.length ≠ 0 := by simpa using hne
      simp only [AVP.value, be16, List.cons_append, List.nil_append]
      rw [readResultCode_cons_long, word16_be16, word16_be16]
      have : ErrorType.ofCode et.toCode = some et := by cases et <;> rfl
      simp [rcErrorSpec, this, hl, hw.2]
  | q931CauseCode c m adv =>
    simp only [AVP.attr, decodeAvp]
    show (readQ931 : M Bytes DErr AVP) _ = _
    match adv, hw with
    | none, _ => simp [AVP.value, be16, readQ931_cons]
    | some a, hw =>
      simp only [AVP.wf, Bool.and_eq_true] at hw
      have hne := ne_nil_of_not_isEmpty hw.1
      have hl : a.length ≠ 0 := by simpa using hne
      simp [AVP.value, be16, readQ931_cons, hl, hw.2]
  | challengeResponse hi lo =>
    simp only [AVP.attr, AVP.value, decodeAvp]
    show (readChallengeResponse : M Bytes DErr AVP) _ = _
    rw [readChallengeResponse_ok (by simp)]
    simp [be64, word64Of]
  | callErrors a b c d e f => simp [AVP.attr, AVP.value, decodeAvp, be32]
  | accm s r => simp [AVP.attr, AVP.value, decodeAvp, be32]
  | sequencingRequired => simp [AVP.attr, AVP.value, decodeAvp]
  | protocolVersion v r => simp [AVP.attr, AVP.value, decodeAvp]
  | proxyAuthenId v => simp [AVP.attr, AVP.value, decodeAvp]
  | randomVector v => simp [AVP.attr, AVP.value, decodeAvp, be32]
  | physicalChannelId v => simp [AVP.attr, AVP.value, decodeAvp, be32]
  | tieBreaker v => simp [AVP.attr, AVP.value, decodeAvp, be64]
  | framingCapabilities w => simp [AVP.attr, AVP.value, decodeAvp, be32]
  | bearerCapabilities w => simp [AVP.attr, AVP.value, decodeAvp, be32]
  | bearerType w => simp [AVP.attr, AVP.value, decodeAvp, be32]
  | framingType w => simp [AVP.attr, AVP.value, decodeAvp, be32]
  | callSerialNumber v => simp [AVP.attr, AVP.value, decodeAvp, be32]
  | minimumBps v => simp [AVP.attr, AVP.value, decodeAvp, be32]
  | maximumBps v => simp [AVP.attr, AVP.value, decodeAvp, be32]
  | txConnectSpeed v => simp [AVP.attr, AVP.value, decodeAvp, be32]
  | rxConnectSpeed v => simp [AVP.attr, AVP.value, decodeAvp, be32]
  | firmwareRevision v => simp [AVP.attr, AVP.value, decodeAvp, be16]
  | assignedTunnelId v => simp [AVP.attr, AVP.value, decodeAvp, be16]
  | receiveWindowSize v => simp [AVP.attr, AVP.value, decodeAvp, be16]
  | assignedSessionId v => simp [AVP.attr, AVP.value, decodeAvp, be16]
  | hostName v => simp [AVP.attr, AVP.value, decodeAvp, leafBytes_ne (ne_nil_of_not_isEmpty hw)]
  | challenge v => simp [AVP.attr, AVP.value, decodeAvp, leafBytes_ne (ne_nil_of_not_isEmpty hw)]
  | privateGroupId v => simp [AVP.attr, AVP.value, decodeAvp, leafBytes_ne (ne_nil_of_not_isEmpty hw)]
  | initialReceivedLcpConfReq v => simp [AVP.attr, AVP.value, decodeAvp, leafBytes_ne (ne_nil_of_not_isEmpty hw)]
  | lastSentLcpConfReq v => simp [AVP.attr, AVP.value, decodeAvp, leafBytes_ne (ne_nil_of_not_isEmpty hw)]
  | lastReceivedLcpConfReq v => simp [AVP.attr, AVP.value, decodeAvp, leafBytes_ne (ne_nil_of_not_isEmpty hw)]
  | proxyAuthenName v => simp [AVP.attr, AVP.value, decodeAvp, leafBytes_ne (ne_nil_of_not_isEmpty hw)]
  | proxyAuthenChallenge v => simp [AVP.attr, AVP.value, decodeAvp, leafBytes_ne (ne_nil_of_not_isEmpty hw)]
  | proxyAuthenResponse v => simp [AVP.attr, AVP.value, decodeAvp, leafBytes_ne (ne_nil_of_not_isEmpty hw)]
  | vendorName v =>
    simp only [AVP.wf, Bool.and_eq_true] at hw
    simp [AVP.attr, AVP.value, decodeAvp, leafStr_ne (ne_nil_of_not_isEmpty hw.1), hw.2]
  | calledNumber v =>
    simp only [AVP.wf, Bool.and_eq_true] at hw
    simp [AVP.attr, AVP.value, decodeAvp, leafStr_ne (ne_nil_of_not_isEmpty hw.1), hw.2]
  | callingNumber v =>
    simp only [AVP.wf, Bool.and_eq_true] at hw
    simp [AVP.attr, AVP.value, decodeAvp, leafStr_ne (ne_nil_of_not_isEmpty hw.1), hw.2]
  | subAddress v =>
    simp only [AVP.wf, Bool.and_eq_true] at hw
    simp [AVP.attr, AVP.value, decodeAvp, leafStr_ne (ne_nil_of_not_isEmpty hw.1), hw.2]

end Rl2tp
