/-
  Proofs.GenBoundaries: the first guard of *every* per-kind decoder (Gen.typeConstants, third column), checked reads
  behind it or not: which payload lengths are reported as IncompleteAVP rather than by a later error is the model's.
-/
import Rl2tp.Proofs.GenGuards
namespace Rl2tp.GenBoundaries
open Rl2tp.GenGuards

theorem min_lengths_is_model :
    ∀ r ∈ Gen.typeConstants,
      (∀ n ∈ List.range r.2.2.1, refusedAsIncomplete (numberOf r.2.1) n = true) ∧
      refusedAsIncomplete (numberOf r.2.1) r.2.2.1 = false := by decide

/-- all 39 kinds are there -/
theorem min_lengths_complete : Gen.typeConstants.length = 39 := by decide

end Rl2tp.GenBoundaries
