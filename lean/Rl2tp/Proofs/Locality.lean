/-
  Proofs.Locality: the specification reads only the octets of the message it returns: replacing what
  follows the declared end changes nothing (control messages, data messages with a Length field).
-/
import Rl2tp.Proofs.SpecMsg
namespace Rl2tp
open Spec

theorem getD_take_append (s x : Bytes) (k i : Nat) (d : UInt8) (hi : i < k) (hk : k ≤ s.length) :
    (s.take k ++ x).getD i d = s.getD i d := by
  simp only [List.getD_eq_getElem?_getD]
  rw [List.getElem?_append_left (by simp; omega), List.getElem?_take_of_lt hi]

theorem u16At_take_append (s x : Bytes) (k i : Nat) (hi : i + 2 ≤ k) (hk : k ≤ s.length) :
    u16At (s.take k ++ x) i = u16At s i := by
  unfold u16At
  rw [getD_take_append s x k i 0 (by omega) hk, getD_take_append s x k (i + 1) 0 (by omega) hk]

theorem drop_take_append (s x : Bytes) (k a : Nat) (ha : a ≤ k) (hk : k ≤ s.length) :
    ((s.take k ++ x).drop a).take (k - a) = (s.drop a).take (k - a) := by
  rw [List.drop_append_of_le_length (by simp; omega)]
  rw [List.take_append_of_le_length (by simp; omega)]
  rw [List.drop_take]
  rw [List.take_take]
  congr 1
  omega

/-- control: the answer depends only on the first `Length − 2` octets after the flag word -/
theorem specControl_local (w : UInt16) (o : Opts) (s x : Bytes) (m : Msg) (k : Nat)
    (h : Spec.decodeControlM w o s = some (m, k)) :
    k ≤ s.length ∧ Spec.decodeControlM w o (s.take k ++ x) = some (m, k) := by
  unfold Spec.decodeControlM at h ⊢
  split at h
  · cases h
  rename_i c1
  split at h
  · cases h
  rename_i c2
  split at h
  · cases h
  rename_i c3
  simp only [] at h
  split at h
  · cases h
  rename_i c4
  generalize hl : (u16At s 0).toNat = l at *
  cases hacc : acceptAvps (avps (((s.drop 10).take (l - 12)).length + 1) ((s.drop 10).take (l - 12))) with
  | none => rw [hacc] at h; cases h
  | some as =>
    rw [hacc] at h
    simp only [Option.some.injEq, Prod.mk.injEq] at h
    obtain ⟨rfl, rfl⟩ := h
    have hk : l - 2 ≤ s.length := by omega
    refine ⟨hk, ?_⟩
    have hlen' : (s.take (l - 2) ++ x).length = (l - 2) + x.length := by simp; omega
    have e0 : u16At (s.take (l - 2) ++ x) 0 = u16At s 0 := u16At_take_append s x _ 0 (by omega) hk
    have e2 : u16At (s.take (l - 2) ++ x) 2 = u16At s 2 := u16At_take_append s x _ 2 (by omega) hk
    have e4 : u16At (s.take (l - 2) ++ x) 4 = u16At s 4 := u16At_take_append s x _ 4 (by omega) hk
    have e6 : u16At (s.take (l - 2) ++ x) 6 = u16At s 6 := u16At_take_append s x _ 6 (by omega) hk
    have e8 : u16At (s.take (l - 2) ++ x) 8 = u16At s 8 := u16At_take_append s x _ 8 (by omega) hk
    rw [if_neg c1, if_neg c2, if_neg (by rw [hlen']; omega)]
    simp only [e0, e2, e4, e6, e8, hl]
    rw [if_neg (by rw [hlen']; omega)]
    have hbody : ((s.take (l - 2) ++ x).drop 10).take (l - 12) = (s.drop 10).take (l - 12) := by
      have := drop_take_append s x (l - 2) 10 (by omega) hk
      have e : l - 2 - 10 = l - 12 := by omega
      rw [e] at this
      exact this
    rw [hbody, hacc]

/-- data with a Length field: the answer depends only on the first `Length − 2` octets after the flag word -/
theorem specData_local (w : UInt16) (s x : Bytes) (m : Msg) (k : Nat) (hL : hasLength w = true)
    (h : Spec.decodeDataM w s = some (m, k)) :
    k ≤ s.length ∧ Spec.decodeDataM w (s.take k ++ x) = some (m, k) := by
  unfold Spec.decodeDataM at h ⊢
  simp only [hL, if_true] at h ⊢
  generalize hpad : (if hasOffset w = true then (u16At s (dataNeed w - 2)).toNat else 0) = pad at h
  generalize hl : (u16At s 0).toNat = l at h
  by_cases c1 : s.length < dataNeed w
  · rw [if_pos c1] at h; cases h
  rw [if_neg c1] at h
  by_cases c2 : s.length - dataNeed w < pad
  · rw [if_pos c2] at h; cases h
  rw [if_neg c2] at h
  by_cases c3 : l < 2 + (dataNeed w + pad) ∨ l - (2 + (dataNeed w + pad)) > s.length - (dataNeed w + pad) ∨ l = 2 + (dataNeed w + pad)
  · rw [if_pos c3] at h; cases h
  rw [if_neg c3] at h
  simp only [Option.some.injEq, Prod.mk.injEq] at h
  obtain ⟨rfl, rfl⟩ := h
  have hneed2 : 6 ≤ dataNeed w := by unfold dataNeed; simp [hL]; omega
  have hk : l - 2 ≤ s.length := by omega
  have hkn : dataNeed w ≤ l - 2 := by omega
  refine ⟨hk, ?_⟩
  have hlen' : (s.take (l - 2) ++ x).length = (l - 2) + x.length := by simp; omega
  have eAt : ∀ i, i + 2 ≤ dataNeed w → u16At (s.take (l - 2) ++ x) i = u16At s i :=
    fun i hi => u16At_take_append s x _ i (by omega) hk
  have hpad' : (if hasOffset w = true then (u16At (s.take (l - 2) ++ x) (dataNeed w - 2)).toNat else 0) = pad := by
    rw [eAt (dataNeed w - 2) (by omega)]; exact hpad
  rw [if_neg (by rw [hlen']; omega)]
  simp only [hpad', eAt 0 (by omega), hl]
  rw [if_neg (by rw [hlen']; omega)]
  rw [if_neg (by
    intro hc
    apply c3
    rcases hc with hc | hc | hc
    · exact Or.inl hc
    · rw [hlen'] at hc; omega
    · exact Or.inr (Or.inr hc))]
  have hdata : ((s.take (l - 2) ++ x).drop (dataNeed w + pad)).take (l - (2 + (dataNeed w + pad))) =
      (s.drop (dataNeed w + pad)).take (l - (2 + (dataNeed w + pad))) := by
    have := drop_take_append s x (l - 2) (dataNeed w + pad) (by omega) hk
    have e : l - 2 - (dataNeed w + pad) = l - (2 + (dataNeed w + pad)) := by omega
    rw [e] at this
    exact this
  have hS : (if hasNsNr w = true then some (u16At (s.take (l - 2) ++ x) (2 + 4), u16At (s.take (l - 2) ++ x) (2 + 6)) else none) =
      (if hasNsNr w = true then some (u16At s (2 + 4), u16At s (2 + 6)) else none) := by
    by_cases hs : hasNsNr w = true
    · have : 10 ≤ dataNeed w := by unfold dataNeed; simp [hL, hs]
      simp only [hs, if_true]
      rw [eAt 6 (by omega), eAt 8 (by omega)]
    · simp [hs]
  simp only [hdata, hS, eAt 2 (by omega), eAt 4 (by omega)]

/-- control messages, and data messages that carry a Length field -/
def Msg.hasDeclared : Msg → Bool
  | .control _ => true
  | .data d => d.length.isSome

/-- whole messages: replacing everything after the declared end leaves the answer unchanged -/
theorem spec_local (o : Opts) (b x : Bytes) (m : Msg) (n : Nat) (h : Spec.decodeM o b = some (m, n))
    (hdecl : m.hasDeclared = true) :
    n ≤ b.length ∧ Spec.decodeM o (b.take n ++ x) = some (m, n) := by
  unfold Spec.decodeM at h
  split at h
  · cases h
  rename_i hlen
  obtain ⟨p, q, t, rfl⟩ := exists_cons2 (by omega : 2 ≤ b.length)
  have hw : u16At (p :: q :: t) 0 = word16 p q := rfl
  have hd : (p :: q :: t).drop 2 = t := rfl
  simp only [hw, hd] at h
  split at h
  · cases h
  rename_i cv
  split at h
  · cases h
  rename_i cr
  -- the inner answer
  cases hin : (if isControl (word16 p q) = true then Spec.decodeControlM (word16 p q) o t else Spec.decodeDataM (word16 p q) t) with
  | none => rw [hin] at h; cases h
  | some pr =>
    obtain ⟨m', k⟩ := pr
    rw [hin] at h
    simp only [Option.map, Option.some.injEq, Prod.mk.injEq] at h
    obtain ⟨rfl, rfl⟩ := h
    have key : k ≤ t.length ∧ (if isControl (word16 p q) = true then Spec.decodeControlM (word16 p q) o (t.take k ++ x)
        else Spec.decodeDataM (word16 p q) (t.take k ++ x)) = some (m', k) := by
      by_cases hc : isControl (word16 p q) = true
      · rw [if_pos hc] at hin ⊢
        exact specControl_local _ o t x m' k hin
      · rw [if_neg hc] at hin ⊢
        -- a data message: it carries a Length field by hypothesis
        have hL : hasLength (word16 p q) = true := by
          unfold Spec.decodeDataM at hin
          by_cases hL : hasLength (word16 p q) = true
          · exact hL
          · exfalso
            simp only [hL, Bool.false_eq_true, if_false] at hin
            generalize (if hasOffset (word16 p q) = true then (u16At t (dataNeed (word16 p q) - 2)).toNat else 0) = pad at hin
            by_cases d1 : t.length < dataNeed (word16 p q)
            · rw [if_pos d1] at hin; cases hin
            rw [if_neg d1] at hin
            by_cases d2 : t.length - dataNeed (word16 p q) < pad
            · rw [if_pos d2] at hin; cases hin
            rw [if_neg d2] at hin
            by_cases d3 : t.length = dataNeed (word16 p q) + pad
            · rw [if_pos d3] at hin; cases hin
            rw [if_neg d3] at hin
            simp only [Option.some.injEq, Prod.mk.injEq] at hin
            obtain ⟨rfl, _⟩ := hin
            simp [Msg.hasDeclared] at hdecl
        exact specData_local _ t x m' k hL hin
    obtain ⟨hk, hkey⟩ := key
    refine ⟨by simp; omega, ?_⟩
    have ht : (p :: q :: t).take (k + 2) ++ x = p :: q :: (t.take k ++ x) := by simp
    rw [ht]
    unfold Spec.decodeM
    rw [if_neg (by simp)]
    have hw' : u16At (p :: q :: (t.take k ++ x)) 0 = word16 p q := rfl
    have hd' : (p :: q :: (t.take k ++ x)).drop 2 = t.take k ++ x := rfl
    simp only [hw', hd']
    rw [if_neg cv, if_neg cr, hkey]
    rfl

end Rl2tp
