/-
  Proofs.ControlInv: what an *accepted* control message looked like, for an arbitrary input — by inverting the
  specification, which the decoder equals (`decode_view`).
-/
import Rl2tp.Proofs.Consumed
import Rl2tp.Proofs.Records
namespace Rl2tp
open Spec

theorem acceptAvps_some (rs : List (Option AVP)) (as : List AVP) (h : Spec.acceptAvps rs = some as) :
    (∀ x ∈ rs, x.isSome = true) ∧ (rs = [] ∨ ∃ t tl, rs = some (.messageType t) :: tl) ∧ as = rs.filterMap id := by
  unfold Spec.acceptAvps at h
  split at h
  · cases h
  · rename_i hany
    have hall : ∀ x ∈ rs, x.isSome = true := by
      intro x hx
      cases x with
      | some a => rfl
      | none => exact absurd (List.any_eq_true.mpr ⟨none, hx, rfl⟩) hany
    refine ⟨hall, ?_⟩
    split at h
    · cases h; exact ⟨.inl rfl, rfl⟩
    · cases h; exact ⟨.inr ⟨_, _, rfl⟩, rfl⟩
    · cases h

theorem specData_isData (w : UInt16) (s : Bytes) (m : Msg) (k : Nat) (h : Spec.decodeDataM w s = some (m, k)) :
    ∃ d, m = .data d := by
  unfold Spec.decodeDataM at h
  simp only [] at h
  repeat' split at h
  all_goals first
    | (simp only [Option.some.injEq, Prod.mk.injEq] at h; exact ⟨_, h.1.symm⟩)
    | cases h

theorem specControl_inv (w : UInt16) (o : Opts) (s : Bytes) (c : Control) (k : Nat)
    (h : Spec.decodeControlM w o s = some (.control c, k)) :
    let body := (s.drop 10).take (c.length.toNat - 12)
    12 ≤ c.length.toNat ∧ c.length.toNat ≤ s.length + 2 ∧ k = c.length.toNat - 2 ∧
      Spec.acceptAvps (Spec.avps (body.length + 1) body) = some c.avps := by
  unfold Spec.decodeControlM at h
  split at h
  · cases h
  split at h
  · cases h
  split at h
  · cases h
  simp only [] at h
  split at h
  · cases h
  rename_i hl
  split at h
  · cases h
  · rename_i as has
    simp only [Option.some.injEq, Prod.mk.injEq, Msg.control.injEq] at h
    obtain ⟨hc, hk⟩ := h
    subst hc
    simp only []
    refine ⟨by omega, by omega, hk.symm, has⟩

/-- Any input the decoder accepts as a control message: its Length field `L` is between 12 and the input's size, the
    reader is left at octet `L`, and the `L - 12` octets after the header are a list of AVP records every one of which
    is a value (none vendor-specific, none undecodable, no unusable length), the first — when there is one — a Message
    Type AVP; the message's AVPs are exactly those values, in wire order. -/
theorem control_accepted_inv (o : Opts) (b : Bytes) (c : Control) (r : Bytes)
    (h : (decode o : M Bytes (List DErr) Msg) b = .ok (.control c) r) :
    12 ≤ c.length.toNat ∧ c.length.toNat ≤ b.length ∧ r = b.drop c.length.toNat ∧
      Spec.acceptAvps (Spec.avps (((b.drop 12).take (c.length.toNat - 12)).length + 1)
        ((b.drop 12).take (c.length.toNat - 12))) = some c.avps := by
  obtain ⟨n, hs, hr⟩ := decode_ok_spec o b _ r h
  unfold Spec.decodeM at hs
  split at hs
  · cases hs
  rename_i hlen
  simp only [] at hs
  split at hs
  · cases hs
  split at hs
  · cases hs
  by_cases hc : isControl (u16At b 0) = true
  · rw [if_pos hc] at hs
    cases hp : Spec.decodeControlM (u16At b 0) o (b.drop 2) with
    | none => rw [hp] at hs; cases hs
    | some p =>
      rw [hp] at hs
      simp only [Option.map, Option.some.injEq, Prod.mk.injEq] at hs
      obtain ⟨h1, h2⟩ := hs
      have hp' : Spec.decodeControlM (u16At b 0) o (b.drop 2) = some (.control c, p.2) := by rw [hp, ← h1]
      have := specControl_inv _ o _ c p.2 hp'
      simp only [List.drop_drop, List.length_drop] at this
      obtain ⟨a1, a2, a3, a4⟩ := this
      refine ⟨a1, by omega, ?_, ?_⟩
      · rw [hr, ← h2, a3]; congr 1; omega
      · have e : 10 + 2 = 12 := rfl
        rw [e] at a4
        exact a4
  · rw [if_neg hc] at hs
    cases hp : Spec.decodeDataM (u16At b 0) (b.drop 2) with
    | none => rw [hp] at hs; cases hs
    | some p =>
      rw [hp] at hs
      simp only [Option.map, Option.some.injEq, Prod.mk.injEq] at hs
      obtain ⟨d, hd⟩ := specData_isData _ _ p.1 p.2 hp
      rw [hd] at hs
      cases hs.1

end Rl2tp
