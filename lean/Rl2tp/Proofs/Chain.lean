/-
  Proofs.Chain: XOR chaining over 16-octet chunks is inverted by `decChain`, for any hash with
  16-octet output; chunking and flattening are mutually inverse on aligned buffers.
-/
import Rl2tp.Model.Hide
namespace Rl2tp

theorem xorB_length (a k : Bytes) : (xorB a k).length = min a.length k.length := by simp [xorB]

theorem xorB_xorB (a k : Bytes) (h : a.length ≤ k.length) : xorB (xorB a k) k = a := by
  induction a generalizing k with
  | nil => simp [xorB]
  | cons x xs ih =>
    cases k with
    | nil => simp at h
    | cons y ys =>
      simp only [xorB, List.zipWith_cons_cons, List.cons.injEq]
      constructor
      · rw [UInt8.xor_assoc, UInt8.xor_self, UInt8.xor_zero]
      · exact ih ys (by simpa using h)

/-! ### chunks -/

theorem chunks_length (n : Nat) (bs : Bytes) : (chunks n bs).length = n := by
  induction n generalizing bs with
  | zero => rfl
  | succ n ih => simp [chunks, ih]

theorem chunks_each (n : Nat) (bs : Bytes) (h : 16 * n ≤ bs.length) : ∀ c ∈ chunks n bs, c.length = 16 := by
  induction n generalizing bs with
  | zero => intro c hc; simp [chunks] at hc
  | succ n ih =>
    intro c hc
    simp only [chunks, List.mem_cons] at hc
    rcases hc with rfl | hc
    · simp; omega
    · exact ih (bs.drop 16) (by simp; omega) c hc

theorem flatten_chunks (n : Nat) (bs : Bytes) (h : bs.length = 16 * n) : (chunks n bs).flatten = bs := by
  induction n generalizing bs with
  | zero => simp [chunks]; exact List.eq_nil_of_length_eq_zero (by omega)
  | succ n ih =>
    simp only [chunks, List.flatten_cons]
    rw [ih (bs.drop 16) (by simp; omega)]
    simp

theorem chunks_flatten (cs : List Bytes) (h : ∀ c ∈ cs, c.length = 16) : chunks cs.length cs.flatten = cs := by
  induction cs with
  | nil => rfl
  | cons c cs ih =>
    have hc := h c (by simp)
    simp only [List.length_cons, chunks, List.flatten_cons]
    rw [List.take_left' hc, List.drop_left' hc, ih (fun x hx => h x (by simp [hx]))]

theorem flatten_length_16 (cs : List Bytes) (h : ∀ c ∈ cs, c.length = 16) : cs.flatten.length = 16 * cs.length := by
  induction cs with
  | nil => rfl
  | cons c cs ih =>
    simp only [List.flatten_cons, List.length_append, List.length_cons]
    rw [h c (by simp), ih (fun x hx => h x (by simp [hx]))]
    omega

section
variable (md5 : Bytes → Bytes) (hmd5 : ∀ x, (md5 x).length = 16)

theorem encChain_length (secret key : Bytes) (ps : List Bytes) : (encChain md5 secret key ps).length = ps.length := by
  induction ps generalizing key with
  | nil => rfl
  | cons p ps ih => simp [encChain, ih]

include hmd5 in
theorem encChain_each (secret key : Bytes) (hk : key.length = 16) (ps : List Bytes) (hp : ∀ p ∈ ps, p.length = 16) :
    ∀ c ∈ encChain md5 secret key ps, c.length = 16 := by
  induction ps generalizing key with
  | nil => intro c hc; simp [encChain] at hc
  | cons p ps ih =>
    intro c hc
    simp only [encChain, List.mem_cons] at hc
    rcases hc with rfl | hc
    · rw [xorB_length, hp p (by simp), hk]; rfl
    · exact ih _ (hmd5 _) (fun q hq => hp q (by simp [hq])) c hc

include hmd5 in
/-- decrypting the chain gives back the plaintext chunks, whatever their number -/
theorem dec_enc (secret key : Bytes) (hk : key.length = 16) (ps : List Bytes) (hp : ∀ p ∈ ps, p.length = 16) :
    decChain md5 secret key (encChain md5 secret key ps) = ps := by
  induction ps generalizing key with
  | nil => simp [encChain, decChain]
  | cons p ps ih =>
    simp only [encChain, decChain, List.cons.injEq]
    constructor
    · exact xorB_xorB p key (by have := hp p (by simp); omega)
    · exact ih _ (hmd5 _) (fun q hq => hp q (by simp [hq]))

end
end Rl2tp
