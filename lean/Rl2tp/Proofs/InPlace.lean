/-
  Proofs.InPlace: the in-place loops of hide / reveal never index out of range on an aligned buffer and compute
  `encChain` / `decChain`.
-/
import Rl2tp.Model.InPlace
import Rl2tp.Proofs.Chain
namespace Rl2tp

theorem sliceAt_mid (a p t : Bytes) (hp : p.length = 16) :
    sliceAt (a ++ p ++ t) a.length (a.length + 16) = .ok p := by
  unfold sliceAt
  rw [if_pos (by simp; omega)]
  congr 1
  rw [List.append_assoc, List.drop_left' rfl]
  have : a.length + 16 - a.length = 16 := by omega
  rw [this, List.take_left' hp]

theorem xorChunkAt_mid (a c t key : Bytes) (hc : c.length = 16) (hk : key.length = 16) :
    xorChunkAt (a ++ c ++ t) a.length key = .ok (a ++ xorB c key ++ t) := by
  unfold xorChunkAt
  rw [if_pos (by simp; omega)]
  congr 1
  have h1 : (a ++ c ++ t).take a.length = a := by rw [List.append_assoc, List.take_left' rfl]
  have h2 : ((a ++ c ++ t).drop a.length).take 16 = c := by
    rw [List.append_assoc, List.drop_left' rfl, List.take_left' hc]
  have h3 : (a ++ c ++ t).drop (a.length + 16) = t := by
    have : (a ++ c).length = a.length + 16 := by simp [hc]
    rw [← this, List.drop_left' rfl]
  have h4 : key.take 16 = key := by rw [← hk, List.take_length]
  rw [h1, h2, h3, h4]

section
variable (md5 : Bytes → Bytes) (hmd5 : ∀ x, (md5 x).length = 16)

include hmd5 in
/-- the forward loop from chunk `i`: with `a ++ p` already ciphertext (`p` = chunk i-1) and `todo` still plaintext -/
theorem fwdLoop_eq (secret : Bytes) (todo : List Bytes) (a p t : Bytes) (i : Nat) (hi1 : 1 ≤ i)
    (hi : a.length = (i - 1) * 16) (hp : p.length = 16) (hc : ∀ c ∈ todo, c.length = 16) :
    fwdLoop md5 secret i todo.length (a ++ p ++ todo.flatten ++ t) =
      .ok (a ++ p ++ (encChain md5 secret (md5 (secret ++ p)) todo).flatten ++ t) := by
  induction todo generalizing a p i with
  | nil => simp [fwdLoop, encChain]
  | cons c cs ih =>
    have hcl := hc c (by simp)
    simp only [List.length_cons, fwdLoop, List.flatten_cons, encChain]
    have e1 : a ++ p ++ (c ++ cs.flatten) ++ t = a ++ p ++ (c ++ cs.flatten ++ t) := by simp [List.append_assoc]
    rw [e1, ← hi, sliceAt_mid a p _ hp]
    simp only []
    have hi2 : i * 16 = (a ++ p).length := by
      rw [List.length_append, hp, hi]
      have : i = (i - 1) + 1 := by omega
      omega
    have e2 : a ++ p ++ (c ++ cs.flatten ++ t) = (a ++ p) ++ c ++ (cs.flatten ++ t) := by simp [List.append_assoc]
    rw [e2, hi2, xorChunkAt_mid (a ++ p) c (cs.flatten ++ t) _ hcl (hmd5 _)]
    simp only []
    have hx : (xorB c (md5 (secret ++ p))).length = 16 := by rw [xorB_length, hcl, hmd5]; rfl
    have e3 : a ++ p ++ xorB c (md5 (secret ++ p)) ++ (cs.flatten ++ t) =
        (a ++ p) ++ xorB c (md5 (secret ++ p)) ++ cs.flatten ++ t := by simp [List.append_assoc]
    rw [e3, ih (a ++ p) (xorB c (md5 (secret ++ p))) (i + 1) (by omega) (by rw [← hi2]; simp) hx
      (fun x hx' => hc x (by simp [hx']))]
    simp [List.append_assoc]

/-- key used for the chunk that follows `xs` when the chain starts with `key` -/
def keyAfter (secret : Bytes) : Bytes → List Bytes → Bytes
  | key, [] => key
  | _, c :: cs => keyAfter secret (md5 (secret ++ c)) cs

theorem decChain_snoc (secret key : Bytes) (xs : List Bytes) (c : Bytes) :
    decChain md5 secret key (xs ++ [c]) = decChain md5 secret key xs ++ [xorB c (keyAfter md5 secret key xs)] := by
  induction xs generalizing key with
  | nil => simp [decChain, keyAfter]
  | cons x xs ih => simp [decChain, keyAfter, ih]

theorem keyAfter_snoc (secret key : Bytes) (xs : List Bytes) (p : Bytes) :
    keyAfter md5 secret key (xs ++ [p]) = md5 (secret ++ p) := by
  induction xs generalizing key with
  | nil => simp [keyAfter]
  | cons x xs ih => simp [keyAfter, ih]

include hmd5 in
theorem revLoop_eq_aux (secret : Bytes) (n : Nat) : ∀ (xs : List Bytes) (c0 t : Bytes), xs.length = n → c0.length = 16 →
    (∀ c ∈ xs, c.length = 16) →
    revLoop md5 secret xs.length ((c0 :: xs).flatten ++ t) =
      .ok ((c0 :: decChain md5 secret (md5 (secret ++ c0)) xs).flatten ++ t) := by
  induction n with
  | zero =>
    intro xs c0 t hn h0 hc
    have : xs = [] := List.eq_nil_of_length_eq_zero hn
    subst this
    simp [revLoop, decChain]
  | succ n ih =>
    intro xs c0 t hn h0 hc
    rcases List.eq_nil_or_concat xs with rfl | ⟨ys, c, rfl⟩
    · simp at hn
    rw [List.concat_eq_append] at hn hc ⊢
    have hyn : ys.length = n := by simpa using hn
    have hcl : c.length = 16 := hc c (by simp)
    have hys : ∀ y ∈ ys, y.length = 16 := fun y hy => hc y (by simp [hy])
    -- the chunk in front of `c`: the last of `c0 :: ys`
    obtain ⟨front, p, hfp, hpl, hfl, hkey⟩ : ∃ front p, (c0 :: ys).flatten = front ++ p ∧ p.length = 16 ∧
        front.length = ys.length * 16 ∧ keyAfter md5 secret (md5 (secret ++ c0)) ys = md5 (secret ++ p) := by
      rcases List.eq_nil_or_concat ys with rfl | ⟨zs, z, rfl⟩
      · exact ⟨[], c0, by simp, h0, by simp, rfl⟩
      · refine ⟨(c0 :: zs).flatten, z, by simp [List.concat_eq_append], hys z (by simp [List.concat_eq_append]), ?_, ?_⟩
        · have := flatten_length_16 (c0 :: zs) (by
            intro x hx
            simp only [List.mem_cons] at hx
            rcases hx with rfl | hx
            · exact h0
            · exact hys x (by simp [List.concat_eq_append, hx]))
          rw [this]; simp [List.concat_eq_append]; omega
        · rw [List.concat_eq_append, keyAfter_snoc]
    simp only [List.length_append, List.length_cons, List.length_nil, Nat.zero_add, revLoop]
    have e1 : (c0 :: (ys ++ [c])).flatten ++ t = front ++ p ++ (c ++ t) := by
      have : (c0 :: (ys ++ [c])).flatten = (c0 :: ys).flatten ++ c := by simp
      rw [this, hfp]; simp [List.append_assoc]
    rw [e1, ← hfl, sliceAt_mid front p _ hpl]
    simp only []
    have e2 : front ++ p ++ (c ++ t) = (front ++ p) ++ c ++ t := by simp [List.append_assoc]
    have e3 : (ys.length + 1) * 16 = (front ++ p).length := by
      simp only [List.length_append, hpl, hfl]; omega
    rw [e2, e3, xorChunkAt_mid (front ++ p) c t _ hcl (hmd5 _)]
    simp only []
    have e4 : front ++ p ++ xorB c (md5 (secret ++ p)) ++ t = (c0 :: ys).flatten ++ (xorB c (md5 (secret ++ p)) ++ t) := by
      rw [hfp]; simp [List.append_assoc]
    rw [e4, ih ys c0 _ hyn h0 hys, decChain_snoc, hkey]
    simp [List.append_assoc]

include hmd5 in
/-- the reverse loop: the first `xs.length + 1` chunks `c0 :: xs` still ciphertext, `t` (already processed) behind them -/
theorem revLoop_eq (secret : Bytes) (xs : List Bytes) (c0 t : Bytes) (h0 : c0.length = 16)
    (hc : ∀ c ∈ xs, c.length = 16) :
    revLoop md5 secret xs.length ((c0 :: xs).flatten ++ t) =
      .ok ((c0 :: decChain md5 secret (md5 (secret ++ c0)) xs).flatten ++ t) :=
  revLoop_eq_aux md5 hmd5 secret xs.length xs c0 t rfl h0 hc

include hmd5 in
/-- `reveal`'s in-place decryption of an aligned, non-empty value: no index out of range, and the result is the chain
    decryption `decChain` of `Model.Hide` -/
theorem revealInPlace_eq (t : UInt16) (secret : Bytes) (rv : UInt32) (v : Bytes) (n : Nat) (hv : v.length = 16 * n)
    (hn : 0 < n) :
    revealInPlace md5 t secret rv v =
      .ok (decChain md5 secret (md5 (be16 t ++ secret ++ be32 rv)) (chunks n v)).flatten := by
  have hfl := flatten_chunks n v hv
  have heach := chunks_each n v (by omega)
  have hlen := chunks_length n v
  obtain ⟨c0, xs, hcs⟩ : ∃ c0 xs, chunks n v = c0 :: xs := by
    cases h : chunks n v with
    | nil => rw [h] at hlen; simp at hlen; omega
    | cons c0 xs => exact ⟨c0, xs, rfl⟩
  have h0 : c0.length = 16 := heach c0 (by rw [hcs]; simp)
  have hxs : ∀ c ∈ xs, c.length = 16 := fun c hc => heach c (by rw [hcs]; simp [hc])
  have hxl : xs.length = n - 1 := by rw [hcs] at hlen; simp at hlen; omega
  have hdiv : v.length / 16 = n := by rw [hv]; omega
  unfold revealInPlace
  simp only [hdiv]
  have hloop : (if n > 1 then revLoop md5 secret (n - 1) v else .ok v) =
      .ok ((c0 :: decChain md5 secret (md5 (secret ++ c0)) xs).flatten) := by
    have := revLoop_eq md5 hmd5 secret xs c0 [] h0 hxs
    rw [List.append_nil, List.append_nil, ← hcs, hfl, hxl] at this
    by_cases h1 : n > 1
    · rw [if_pos h1, this]
    · rw [if_neg h1]
      have hn1 : n = 1 := by omega
      have hx0 : xs = [] := List.eq_nil_of_length_eq_zero (by rw [hxl, hn1])
      rw [hn1] at this
      have e : 1 - 1 = 0 := rfl
      rw [e] at this
      simp only [revLoop] at this
      exact this
  rw [hloop]
  simp only [hcs, decChain, List.flatten_cons]
  have := xorChunkAt_mid [] c0 (decChain md5 secret (md5 (secret ++ c0)) xs).flatten
    (md5 (be16 t ++ secret ++ be32 rv)) h0 (hmd5 _)
  simpa using this

include hmd5 in
/-- `hide`'s in-place encryption of an aligned, non-empty buffer: no index out of range, result = `encChain` -/
theorem hideInPlace_eq (attrOctets secret : Bytes) (rv : UInt32) (input : Bytes) (n : Nat) (hv : input.length = 16 * n)
    (hn : 0 < n) :
    hideInPlace md5 attrOctets secret rv input =
      .ok (encChain md5 secret (md5 (attrOctets ++ secret ++ be32 rv)) (chunks n input)).flatten := by
  have hfl := flatten_chunks n input hv
  have heach := chunks_each n input (by omega)
  have hlen := chunks_length n input
  obtain ⟨c0, xs, hcs⟩ : ∃ c0 xs, chunks n input = c0 :: xs := by
    cases h : chunks n input with
    | nil => rw [h] at hlen; simp at hlen; omega
    | cons c0 xs => exact ⟨c0, xs, rfl⟩
  have h0 : c0.length = 16 := heach c0 (by rw [hcs]; simp)
  have hxs : ∀ c ∈ xs, c.length = 16 := fun c hc => heach c (by rw [hcs]; simp [hc])
  have hxl : xs.length = n - 1 := by rw [hcs] at hlen; simp at hlen; omega
  have hdiv : input.length / 16 = n := by rw [hv]; omega
  unfold hideInPlace
  simp only [hdiv]
  have hin : input = [] ++ c0 ++ xs.flatten := by rw [← hfl, hcs]; simp
  have hfirst := xorChunkAt_mid [] c0 xs.flatten (md5 (attrOctets ++ secret ++ be32 rv)) h0 (hmd5 _)
  rw [← hin] at hfirst
  simp only [List.length_nil] at hfirst
  rw [hfirst]
  simp only [hcs, encChain, List.flatten_cons, List.nil_append]
  have hpl : (xorB c0 (md5 (attrOctets ++ secret ++ be32 rv))).length = 16 := by rw [xorB_length, h0, hmd5]; rfl
  have hloop := fwdLoop_eq md5 hmd5 secret xs [] (xorB c0 (md5 (attrOctets ++ secret ++ be32 rv))) [] 1 (Nat.le_refl 1)
    (by simp) hpl hxs
  simp only [List.nil_append, List.append_nil] at hloop
  by_cases h1 : n > 1
  · rw [if_pos h1, ← hxl, hloop]
  · rw [if_neg h1]
    have hx0 : xs = [] := List.eq_nil_of_length_eq_zero (by rw [hxl]; omega)
    subst hx0
    simp [encChain]

include hmd5 in
/-- the in-place `reveal` is `reveal`: same answers, same faults (none) -/
theorem revealIP_eq (a : AVP) (secret : Bytes) (rv : UInt32) : revealIP md5 a secret rv = reveal md5 a secret rv := by
  cases a with
  | hidden t v =>
    simp only [revealIP, reveal]
    by_cases h0 : v.length = 0
    · simp [h0]
    by_cases h1 : v.length % 16 ≠ 0
    · simp [h0, h1]
    rw [if_neg h0, if_neg h1, if_neg h0, if_neg h1]
    have hv : v.length = 16 * (v.length / 16) := by omega
    rw [revealInPlace_eq md5 hmd5 t secret rv v (v.length / 16) hv (by omega)]
    rfl
  | _ => rfl

include hmd5 in
/-- the in-place `hide` is `hide` (the alignment padding supplied is the 16 octets the Rust type demands) -/
theorem hideIP_eq (a : AVP) (secret : Bytes) (rv : UInt32) (lp ap : Bytes) (hap : ap.length = 16) :
    hideIP md5 a secret rv lp ap = hide md5 a secret rv lp ap := by
  unfold hideIP hide
  by_cases hh : a.isHidden = true
  · simp [hh]
  rw [if_neg hh, if_neg hh]
  simp only []
  by_cases hl : a.payload.length + 6 - 2 > 1023
  · rw [if_pos hl, if_pos hl]
  rw [if_neg hl, if_neg hl]
  generalize hin : be16 (UInt16.ofNat (a.payload.length + 6 - 2)) ++ a.payload.drop 2 ++ lp = input
  have h2 : 2 ≤ input.length := by rw [← hin]; simp [be16]
  generalize hpad : input ++ ap.take ((16 - input.length % 16) % 16) = padded
  have hlen : padded.length = input.length + (16 - input.length % 16) % 16 := by
    rw [← hpad, List.length_append, List.length_take, hap]; omega
  have hpl : padded.length = 16 * (padded.length / 16) := by omega
  have hpos : 0 < padded.length / 16 := by omega
  rw [hideInPlace_eq md5 hmd5 _ secret rv padded (padded.length / 16) hpl hpos]

end
end Rl2tp
