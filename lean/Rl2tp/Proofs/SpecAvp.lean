/-
  Proofs.SpecAvp: the payload decoders refine the format table (`Spec.parsePayload`):
  same accept set, same value, for every attribute type and every payload.
-/
import Rl2tp.Proofs.Shape
import Rl2tp.Spec.Avp
namespace Rl2tp
open Spec

/-- forget which error, and where the cursor stopped -/
def viewAvp : Out Bytes DErr AVP → Option AVP
  | .ok a _ => some a
  | _ => none

@[simp] theorem u16At_cons0 (a b : UInt8) (r : Bytes) : u16At (a :: b :: r) 0 = word16 a b := rfl
@[simp] theorem u8At_cons0 (a : UInt8) (r : Bytes) : u8At (a :: r) 0 = a := rfl
@[simp] theorem u8At_cons1 (a b : UInt8) (r : Bytes) : u8At (a :: b :: r) 1 = b := rfl
@[simp] theorem u8At_cons2 (a b c : UInt8) (r : Bytes) : u8At (a :: b :: c :: r) 2 = c := rfl
@[simp] theorem u32At_cons0 (a b c d : UInt8) (r : Bytes) : u32At (a :: b :: c :: d :: r) 0 = word32 a b c d := rfl
@[simp] theorem u64At_cons0 (a b c d e f g h : UInt8) (r : Bytes) :
    u64At (a :: b :: c :: d :: e :: f :: g :: h :: r) 0 = word64 a b c d e f g h := rfl
theorem u16At_succ (a : UInt8) (r : Bytes) (i : Nat) : u16At (a :: r) (i + 1) = u16At r i := rfl
theorem u32At_succ (a : UInt8) (r : Bytes) (i : Nat) : u32At (a :: r) (i + 1) = u32At r i := rfl
theorem u64At_succ (a : UInt8) (r : Bytes) (i : Nat) : u64At (a :: r) (i + 1) = u64At r i := rfl

theorem leafU16_view (attr mk) (p : Bytes) :
    viewAvp (leafU16 attr mk p) = fixed 2 p fun p => mk (u16At p 0) := by
  unfold fixed
  by_cases h : p.length < 2
  · rw [leafU16_short h, if_pos h]; rfl
  · obtain ⟨a, b, r, rfl⟩ := exists_cons2 (by omega : 2 ≤ p.length)
    rw [leafU16_cons, if_neg h]; rfl

theorem leafU32_view (attr mk) (p : Bytes) :
    viewAvp (leafU32 attr mk p) = fixed 4 p fun p => mk (u32At p 0) := by
  unfold fixed
  by_cases h : p.length < 4
  · rw [leafU32_short h, if_pos h]; rfl
  · obtain ⟨a, b, c, d, r, rfl⟩ := exists_cons4 (by omega : 4 ≤ p.length)
    rw [leafU32_cons, if_neg h]; rfl

theorem leafB4_view (attr mk) (p : Bytes) :
    viewAvp (leafB4 attr mk p) = fixed 4 p fun p => mk (u32At p 0) := by
  unfold fixed
  by_cases h : p.length < 4
  · rw [leafB4_short h, if_pos h]; rfl
  · obtain ⟨a, b, c, d, r, rfl⟩ := exists_cons4 (by omega : 4 ≤ p.length)
    rw [leafB4_cons, if_neg h]; rfl

theorem leafU64_view (attr mk) (p : Bytes) :
    viewAvp (leafU64 attr mk p) = fixed 8 p fun p => mk (u64At p 0) := by
  unfold fixed
  by_cases h : p.length < 8
  · rw [leafU64_short h, if_pos h]; rfl
  · obtain ⟨a, b, c, d, e, f, g, i, r, rfl⟩ := exists_cons8 (by omega : 8 ≤ p.length)
    rw [leafU64_cons, if_neg h]; rfl

theorem leafBytes_view (attr mk) (p : Bytes) : viewAvp (leafBytes attr mk p) = restBytes p mk := by
  unfold restBytes
  by_cases h : p = []
  · subst h; rw [leafBytes_nil]; rfl
  · rw [leafBytes_ne h, if_neg (by simpa using h)]; rfl

theorem leafStr_view (attr mk) (p : Bytes) : viewAvp (leafStr attr mk p) = restText p mk := by
  unfold restText
  by_cases h : p = []
  · subst h; rw [leafStr_nil]; rfl
  · have h0 : ¬ p.length = 0 := by simpa using h
    rw [leafStr_ne h, if_neg h0]
    by_cases hv : Utf8.valid p = true
    · rw [if_pos hv, if_pos hv]; rfl
    · rw [if_neg hv, if_neg hv]; rfl

theorem readMessageType_view (p : Bytes) :
    viewAvp ((readMessageType : M Bytes DErr AVP) p) =
      if p.length < 2 then none else (MessageType.ofCode (u16At p 0)).map .messageType := by
  by_cases h : p.length < 2
  · rw [readMessageType_short h, if_pos h]; rfl
  · obtain ⟨a, b, r, rfl⟩ := exists_cons2 (by omega : 2 ≤ p.length)
    rw [readMessageType_cons, if_neg h, u16At_cons0]
    cases MessageType.ofCode (word16 a b) <;> rfl

theorem readProxyAuthenType_view (p : Bytes) :
    viewAvp ((readProxyAuthenType : M Bytes DErr AVP) p) =
      if p.length < 2 then none else (ProxyAuthenType.ofCode (u16At p 0)).map .proxyAuthenType := by
  by_cases h : p.length < 2
  · rw [readProxyAuthenType_short h, if_pos h]; rfl
  · obtain ⟨a, b, r, rfl⟩ := exists_cons2 (by omega : 2 ≤ p.length)
    rw [readProxyAuthenType_cons, if_neg h, u16At_cons0]
    cases ProxyAuthenType.ofCode (word16 a b) <;> rfl

theorem readProtocolVersion_view (p : Bytes) :
    viewAvp ((readProtocolVersion : M Bytes DErr AVP) p) = fixed 2 p fun p => .protocolVersion (u8At p 0) (u8At p 1) := by
  unfold fixed
  by_cases h : p.length < 2
  · rw [readProtocolVersion_short h, if_pos h]; rfl
  · obtain ⟨a, b, r, rfl⟩ := exists_cons2 (by omega : 2 ≤ p.length)
    rw [readProtocolVersion_cons, if_neg h]; rfl

theorem readProxyAuthenId_view (p : Bytes) :
    viewAvp ((readProxyAuthenId : M Bytes DErr AVP) p) = fixed 2 p fun p => .proxyAuthenId (u8At p 1) := by
  unfold fixed
  by_cases h : p.length < 2
  · rw [readProxyAuthenId_short h, if_pos h]; rfl
  · obtain ⟨a, b, r, rfl⟩ := exists_cons2 (by omega : 2 ≤ p.length)
    rw [readProxyAuthenId_cons, if_neg h]; rfl

theorem readAccm_view (p : Bytes) :
    viewAvp ((readAccm : M Bytes DErr AVP) p) = fixed 10 p fun p => .accm (u32At p 2) (u32At p 6) := by
  unfold fixed
  by_cases h : p.length < 10
  · rw [readAccm_short h, if_pos h]; rfl
  · obtain ⟨x, y, a, b, c, d, e, f, g, i, r, rfl⟩ := exists_cons10 (by omega : 10 ≤ p.length)
    rw [readAccm_cons, if_neg h]; rfl

theorem readCallErrors_view (p : Bytes) :
    viewAvp ((readCallErrors : M Bytes DErr AVP) p) = fixed 26 p fun p =>
      .callErrors (u32At p 2) (u32At p 6) (u32At p 10) (u32At p 14) (u32At p 18) (u32At p 22) := by
  unfold fixed
  by_cases h : p.length < 26
  · rw [readCallErrors_short h, if_pos h]; rfl
  · obtain ⟨x, y, a1, a2, a3, a4, b1, b2, b3, b4, c1, c2, c3, c4, d1, d2, d3, d4, e1, e2, e3, e4, f1, f2, f3, f4, r, rfl⟩ :=
      exists_cons26 (by omega : 26 ≤ p.length)
    rw [readCallErrors_cons, if_neg h]; rfl

theorem readChallengeResponse_view (p : Bytes) :
    viewAvp ((readChallengeResponse : M Bytes DErr AVP) p) = fixed 16 p fun p => .challengeResponse (u64At p 0) (u64At p 8) := by
  unfold fixed
  by_cases h : p.length < 16
  · rw [readChallengeResponse_short h, if_pos h]; rfl
  · obtain ⟨a1, a2, a3, a4, a5, a6, a7, a8, q, rfl⟩ := exists_cons8 (by omega : 8 ≤ p.length)
    simp only [List.length_cons] at h
    obtain ⟨b1, b2, b3, b4, b5, b6, b7, b8, r, rfl⟩ := exists_cons8 (by omega : 8 ≤ q.length)
    rw [readChallengeResponse_ok (by simp), if_neg (by simp)]
    rfl

theorem readQ931_view (p : Bytes) :
    viewAvp ((readQ931 : M Bytes DErr AVP) p) =
      if p.length < 3 then none
      else if p.length = 3 then some (.q931CauseCode (u16At p 0) (u8At p 2) none)
      else if Utf8.valid (p.drop 3) then some (.q931CauseCode (u16At p 0) (u8At p 2) (some (p.drop 3))) else none := by
  by_cases h : p.length < 3
  · rw [readQ931_short h, if_pos h]; rfl
  · obtain ⟨a, b, c, r, rfl⟩ := exists_cons3 (by omega : 3 ≤ p.length)
    rw [readQ931_cons, if_neg h]
    have e3 : ((a :: b :: c :: r).length = 3) = (r.length = 0) := by simp
    simp only [e3, List.drop_succ_cons, List.drop_zero]
    by_cases h0 : r.length = 0
    · simp only [h0, if_true]; rfl
    · simp only [h0, if_false]
      cases hv : Utf8.valid r <;> simp [viewAvp]

theorem readResultCode_view (p : Bytes) :
    viewAvp ((readResultCode : M Bytes DErr AVP) p) =
      if p.length < 2 then none
      else if p.length < 4 then some (.resultCode (u16At p 0) none)
      else match ErrorType.ofCode (u16At p 2) with
        | none => none
        | some et =>
          if p.length = 4 then some (.resultCode (u16At p 0) (some (et, none)))
          else if Utf8.valid (p.drop 4) then some (.resultCode (u16At p 0) (some (et, some (p.drop 4)))) else none := by
  by_cases h : p.length < 2
  · rw [readResultCode_short h, if_pos h]; rfl
  · obtain ⟨a, b, q, rfl⟩ := exists_cons2 (by omega : 2 ≤ p.length)
    rw [if_neg h]
    by_cases h2 : q.length < 2
    · rw [readResultCode_cons_short a b q h2, if_pos (by simp; omega)]; rfl
    · obtain ⟨c, d, r, rfl⟩ := exists_cons2 (by omega : 2 ≤ q.length)
      rw [readResultCode_cons_long, if_neg (by simp)]
      have e2 : u16At (a :: b :: c :: d :: r) 2 = word16 c d := rfl
      rw [e2]
      unfold rcErrorSpec
      cases ErrorType.ofCode (word16 c d) with
      | none => rfl
      | some et =>
        have e4 : ((a :: b :: c :: d :: r).length = 4) = (r.length = 0) := by simp
        simp only [e4, List.drop_succ_cons, List.drop_zero]
        by_cases h0 : r.length = 0
        · simp only [h0, if_true]; rfl
        · simp only [h0, if_false]
          cases hv : Utf8.valid r <;> simp [viewAvp]

theorem parsePayload_unknown (t : UInt16) (p : Bytes) (h : t.toNat = 20 ∨ 40 ≤ t.toNat) : parsePayload t p = none := by
  unfold parsePayload
  split <;> first | rfl | omega

/-- the dispatch table with its 39 decoders refines the format table, for every attribute type (all
    65 536) and every payload -/
theorem decodeAvp_view (t : UInt16) (p : Bytes) :
    viewAvp ((decodeAvp t : M Bytes DErr AVP) p) = parsePayload t p := by
  have hk : t.toNat = 0 ∨ t.toNat = 1 ∨ t.toNat = 2 ∨ t.toNat = 3 ∨ t.toNat = 4 ∨ t.toNat = 5 ∨ t.toNat = 6 ∨ t.toNat = 7 ∨ t.toNat = 8 ∨ t.toNat = 9 ∨ t.toNat = 10 ∨ t.toNat = 11 ∨ t.toNat = 12 ∨ t.toNat = 13 ∨ t.toNat = 14 ∨ t.toNat = 15 ∨ t.toNat = 16 ∨ t.toNat = 17 ∨ t.toNat = 18 ∨ t.toNat = 19 ∨ t.toNat = 21 ∨ t.toNat = 22 ∨ t.toNat = 23 ∨ t.toNat = 24 ∨ t.toNat = 25 ∨ t.toNat = 26 ∨ t.toNat = 27 ∨ t.toNat = 28 ∨ t.toNat = 29 ∨ t.toNat = 30 ∨ t.toNat = 31 ∨ t.toNat = 32 ∨ t.toNat = 33 ∨ t.toNat = 34 ∨ t.toNat = 35 ∨ t.toNat = 36 ∨ t.toNat = 37 ∨ t.toNat = 38 ∨ t.toNat = 39 ∨ (t.toNat = 20 ∨ 40 ≤ t.toNat) := by omega
  rcases hk with hk | hk | hk | hk | hk | hk | hk | hk | hk | hk | hk | hk | hk | hk | hk | hk | hk | hk | hk | hk | hk | hk | hk | hk | hk | hk | hk | hk | hk | hk | hk | hk | hk | hk | hk | hk | hk | hk | hk | hk
  · unfold decodeAvp parsePayload; simp only [hk]; exact readMessageType_view p
  · unfold decodeAvp parsePayload; simp only [hk]; exact readResultCode_view p
  · unfold decodeAvp parsePayload; simp only [hk]; exact readProtocolVersion_view p
  · unfold decodeAvp parsePayload; simp only [hk]; exact leafU32_view _ _ p
  · unfold decodeAvp parsePayload; simp only [hk]; exact leafU32_view _ _ p
  · unfold decodeAvp parsePayload; simp only [hk]; exact leafU64_view _ _ p
  · unfold decodeAvp parsePayload; simp only [hk]; exact leafU16_view _ _ p
  · unfold decodeAvp parsePayload; simp only [hk]; exact leafBytes_view _ _ p
  · unfold decodeAvp parsePayload; simp only [hk]; exact leafStr_view _ _ p
  · unfold decodeAvp parsePayload; simp only [hk]; exact leafU16_view _ _ p
  · unfold decodeAvp parsePayload; simp only [hk]; exact leafU16_view _ _ p
  · unfold decodeAvp parsePayload; simp only [hk]; exact leafBytes_view _ _ p
  · unfold decodeAvp parsePayload; simp only [hk]; exact readQ931_view p
  · unfold decodeAvp parsePayload; simp only [hk]; exact readChallengeResponse_view p
  · unfold decodeAvp parsePayload; simp only [hk]; exact leafU16_view _ _ p
  · unfold decodeAvp parsePayload; simp only [hk]; exact leafU32_view _ _ p
  · unfold decodeAvp parsePayload; simp only [hk]; exact leafU32_view _ _ p
  · unfold decodeAvp parsePayload; simp only [hk]; exact leafU32_view _ _ p
  · unfold decodeAvp parsePayload; simp only [hk]; exact leafU32_view _ _ p
  · unfold decodeAvp parsePayload; simp only [hk]; exact leafU32_view _ _ p
  · unfold decodeAvp parsePayload; simp only [hk]; exact leafStr_view _ _ p
  · unfold decodeAvp parsePayload; simp only [hk]; exact leafStr_view _ _ p
  · unfold decodeAvp parsePayload; simp only [hk]; exact leafStr_view _ _ p
  · unfold decodeAvp parsePayload; simp only [hk]; exact leafU32_view _ _ p
  · unfold decodeAvp parsePayload; simp only [hk]; exact leafB4_view _ _ p
  · unfold decodeAvp parsePayload; simp only [hk]; exact leafBytes_view _ _ p
  · unfold decodeAvp parsePayload; simp only [hk]; exact leafBytes_view _ _ p
  · unfold decodeAvp parsePayload; simp only [hk]; exact leafBytes_view _ _ p
  · unfold decodeAvp parsePayload; simp only [hk]; exact readProxyAuthenType_view p
  · unfold decodeAvp parsePayload; simp only [hk]; exact leafBytes_view _ _ p
  · unfold decodeAvp parsePayload; simp only [hk]; exact leafBytes_view _ _ p
  · unfold decodeAvp parsePayload; simp only [hk]; exact readProxyAuthenId_view p
  · unfold decodeAvp parsePayload; simp only [hk]; exact leafBytes_view _ _ p
  · unfold decodeAvp parsePayload; simp only [hk]; exact readCallErrors_view p
  · unfold decodeAvp parsePayload; simp only [hk]; exact readAccm_view p
  · unfold decodeAvp parsePayload; simp only [hk]; exact leafB4_view _ _ p
  · unfold decodeAvp parsePayload; simp only [hk]; exact leafBytes_view _ _ p
  · unfold decodeAvp parsePayload; simp only [hk]; exact leafU32_view _ _ p
  · unfold decodeAvp parsePayload; simp only [hk]; rfl
  · rw [decodeAvp_unknown t hk, parsePayload_unknown t p hk]
    rfl

end Rl2tp
