/-
  Proofs.GenSizes: the sizes the codec is built on (named constants of avp.rs, avp/header.rs, control_message.rs,
  data_message.rs, message.rs), as `bin/gentables` has just read them (Gen.codecConstants), against the model.
-/
import Rl2tp.Gen.Tables
import Rl2tp.Model.Message
namespace Rl2tp.GenSizes

def zeros (n : Nat) : Bytes := List.replicate n 0

def cc (k : String) : Nat := (Gen.codecConstants.find? (·.1 == k)).map (·.2) |>.getD 0

/-- the sizes the model was written with -/
theorem codec_constants_pinned :
    cc "CRYPTO_CHUNK_SIZE" = 16 ∧ cc "ATTRIBUTE_TYPE_SIZE" = 2 ∧ cc "LENGTH_BITS" = 10 ∧ cc "VENDOR_ID" = 0 ∧
    cc "HEADER_LENGTH" = 6 ∧ cc "CONTROL_FIXED_LENGTH_MINUS_FLAGS" = 10 ∧ cc "CONTROL_FIXED_LENGTH" = 12 ∧
    cc "DATA_FLAGS_LENGTH" = 2 ∧ cc "PROTOCOL_VERSION" = 2 ∧ 2 ^ cc "LENGTH_BITS" - 1 = 1023 := by decide

/-- fewer octets than an AVP header give no record; exactly a header's worth gives one -/
theorem header_length_is_model :
    (∀ n ∈ List.range (cc "HEADER_LENGTH"), (greedy : M Bytes DErr (List Res)) (zeros n) = .ok [] (zeros n)) ∧
    (match (greedy : M Bytes DErr (List Res)) (zeros (cc "HEADER_LENGTH")) with | .ok [_] _ => true | _ => false) = true := by
  decide

/-- a control message whose Length field is below the fixed header size is refused; at it (no AVPs) accepted -/
theorem control_fixed_length_is_model :
    (∀ l ∈ List.range (cc "CONTROL_FIXED_LENGTH"),
      (decode Opts.strict : M Bytes (List DErr) Msg) ([0x13, 0x20, 0, UInt8.ofNat l] ++ zeros 8)
        = .err [.incompleteControlMessageHeader] []) ∧
    (match (decode Opts.strict : M Bytes (List DErr) Msg) ([0x13, 0x20, 0, UInt8.ofNat (cc "CONTROL_FIXED_LENGTH")] ++ zeros 8) with
      | .ok (.control c) [] => c.avps.isEmpty | _ => false) = true := by
  decide

/-- the version the decoder insists on by default, and the one the encoder writes -/
theorem protocol_version_is_model :
    (∀ v ∈ List.range 16, v ≠ cc "PROTOCOL_VERSION" →
      (decodeDefault : M Bytes (List DErr) Msg) ([0x13, UInt8.ofNat (16 * v), 0, 12] ++ zeros 8) = .err [.invalidVersion (UInt8.ofNat v)] ([0, 12] ++ zeros 8)) ∧
    version (word16 (be16 (mkFlags true true true false false))[0]! (be16 (mkFlags true true true false false))[1]!) = UInt8.ofNat (cc "PROTOCOL_VERSION") := by
  decide

end Rl2tp.GenSizes
