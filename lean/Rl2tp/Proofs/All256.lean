/-
  Proofs.All256: a predicate on octets holds for all 256 of them — decided by kernel evaluation, then used as a lemma.
-/
import Rl2tp.Prim
namespace Rl2tp.Utf8Proof

def all256 (p : UInt8 → Bool) : Bool := (List.range 256).all fun n => p (UInt8.ofNat n)
theorem all256_spec {p : UInt8 → Bool} (h : all256 p = true) (a : UInt8) : p a = true := by
  have := List.all_eq_true.mp h a.toNat (by simp [List.mem_range]; exact a.toNat_lt)
  simpa using this

end Rl2tp.Utf8Proof
