/-
  Proofs.SpecSound: every value the format table yields is well-formed, not hidden, and re-encodes to
  at most as many octets as it was read from (so a decoded message is always encodable).
-/
import Rl2tp.Proofs.Roundtrip
import Rl2tp.Spec.Avp
namespace Rl2tp
open Spec

theorem fixed_some {n : Nat} {p : Bytes} {mk : Bytes → AVP} {a : AVP} (h : fixed n p mk = some a) :
    n ≤ p.length ∧ a = mk p := by
  unfold fixed at h
  split at h
  · cases h
  · simp only [Option.some.injEq] at h; exact ⟨by omega, h.symm⟩

theorem restBytes_some {p : Bytes} {mk : Bytes → AVP} {a : AVP} (h : restBytes p mk = some a) :
    p ≠ [] ∧ a = mk p := by
  unfold restBytes at h
  split at h
  · cases h
  · rename_i hne
    simp only [Option.some.injEq] at h
    exact ⟨fun hp => hne (by simp [hp]), h.symm⟩

theorem restText_some {p : Bytes} {mk : Bytes → AVP} {a : AVP} (h : restText p mk = some a) :
    p ≠ [] ∧ Utf8.valid p = true ∧ a = mk p := by
  unfold restText at h
  split at h
  · cases h
  · rename_i hne
    split at h
    · rename_i hv
      simp only [Option.some.injEq] at h
      exact ⟨fun hp => hne (by simp [hp]), hv, h.symm⟩
    · cases h

theorem isEmpty_false_of_ne {p : Bytes} (h : p ≠ []) : (!p.isEmpty) = true := by
  cases p <;> simp_all

/-- soundness of the table, row by row -/
theorem parsePayload_sound (t : UInt16) (p : Bytes) (a : AVP) (h : parsePayload t p = some a) :
    a.wf = true ∧ a.isHidden = false ∧ a.value.length ≤ p.length := by
  unfold parsePayload at h
  split at h
  -- 0: Message Type
  · split at h
    · cases h
    · cases hc : MessageType.ofCode (u16At p 0) with
      | none => rw [hc] at h; cases h
      | some mt => rw [hc] at h; simp only [Option.map, Option.some.injEq] at h; subst h; exact ⟨rfl, rfl, by simp [AVP.value]; omega⟩
  -- 1: Result Code
  · split at h
    · cases h
    · split at h
      · simp only [Option.some.injEq] at h; subst h; exact ⟨rfl, rfl, by simp [AVP.value]; omega⟩
      · split at h
        · cases h
        · split at h
          · simp only [Option.some.injEq] at h; subst h; exact ⟨rfl, rfl, by simp [AVP.value]; omega⟩
          · split at h
            · rename_i hv
              simp only [Option.some.injEq] at h; subst h
              refine ⟨?_, rfl, by simp [AVP.value]; omega⟩
              simp only [AVP.wf, Bool.and_eq_true]
              exact ⟨isEmpty_false_of_ne (fun hp => by have := congrArg List.length hp; simp at this; omega), hv⟩
            · cases h
  all_goals first
    | (obtain ⟨hn, rfl⟩ := fixed_some h; exact ⟨rfl, rfl, by simp [AVP.value]; omega⟩)
    | (obtain ⟨hne, rfl⟩ := restBytes_some h; exact ⟨isEmpty_false_of_ne hne, rfl, by simp [AVP.value]⟩)
    | (obtain ⟨hne, hv, rfl⟩ := restText_some h
       exact ⟨by simp only [AVP.wf, Bool.and_eq_true]; exact ⟨isEmpty_false_of_ne hne, hv⟩, rfl, by simp [AVP.value]⟩)
    | (-- 12: Q.931 cause code
       split at h
       · cases h
       · split at h
         · simp only [Option.some.injEq] at h; subst h; exact ⟨rfl, rfl, by simp [AVP.value]; omega⟩
         · split at h
           · rename_i hv
             simp only [Option.some.injEq] at h; subst h
             refine ⟨?_, rfl, by simp [AVP.value]; omega⟩
             simp only [AVP.wf, Bool.and_eq_true]
             exact ⟨isEmpty_false_of_ne (fun hp => by have := congrArg List.length hp; simp at this; omega), hv⟩
           · cases h)
    | (-- 29: Proxy Authen Type
       split at h
       · cases h
       · cases hc : ProxyAuthenType.ofCode (u16At p 0) with
         | none => rw [hc] at h; cases h
         | some mt => rw [hc] at h; simp only [Option.map, Option.some.injEq] at h; subst h; exact ⟨rfl, rfl, by simp [AVP.value]; omega⟩)
    | (simp only [Option.some.injEq] at h; subst h; exact ⟨rfl, rfl, by simp [AVP.value]⟩)
    | (cases h)

end Rl2tp
