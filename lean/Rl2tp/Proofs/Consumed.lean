/-
  Proofs.Consumed: the number of octets consumed is the declared length; records concatenate.
-/
import Rl2tp.Proofs.Locality
namespace Rl2tp
open Spec

/-- the declared length of a message, if it has one -/
def Msg.declared : Msg → Option Nat
  | .control c => some c.length.toNat
  | .data d => d.length.map (·.toNat)

theorem specControl_consumed (w : UInt16) (o : Opts) (s : Bytes) (m : Msg) (k : Nat)
    (h : Spec.decodeControlM w o s = some (m, k)) : m.declared = some (k + 2) := by
  unfold Spec.decodeControlM at h
  split at h
  · cases h
  split at h
  · cases h
  split at h
  · cases h
  simp only [] at h
  split at h
  · cases h
  rename_i c4
  split at h
  · cases h
  · simp only [Option.some.injEq, Prod.mk.injEq] at h
    obtain ⟨rfl, rfl⟩ := h
    simp only [Msg.declared, Option.some.injEq]
    omega

theorem specData_consumed (w : UInt16) (s : Bytes) (m : Msg) (k : Nat) (hL : hasLength w = true)
    (h : Spec.decodeDataM w s = some (m, k)) : m.declared = some (k + 2) := by
  unfold Spec.decodeDataM at h
  simp only [hL, if_true] at h
  generalize (if hasOffset w = true then (u16At s (dataNeed w - 2)).toNat else 0) = pad at h
  by_cases c1 : s.length < dataNeed w
  · rw [if_pos c1] at h; cases h
  rw [if_neg c1] at h
  by_cases c2 : s.length - dataNeed w < pad
  · rw [if_pos c2] at h; cases h
  rw [if_neg c2] at h
  split at h
  · cases h
  · rename_i c3
    simp only [Option.some.injEq, Prod.mk.injEq] at h
    obtain ⟨rfl, rfl⟩ := h
    simp only [Msg.declared, Option.map, Option.some.injEq]
    omega

/-- what the model's success means in terms of the specification -/
theorem decode_ok_spec (o : Opts) (b : Bytes) (m : Msg) (r : Bytes)
    (h : (decode o : M Bytes (List DErr) Msg) b = .ok m r) :
    ∃ n, Spec.decodeM o b = some (m, n) ∧ r = b.drop n := by
  have hv := decode_view o b
  rw [h] at hv
  cases hs : Spec.decodeM o b with
  | none => rw [hs] at hv; simp [viewR, afterSpec] at hv
  | some p =>
    rw [hs] at hv
    simp only [viewR, afterSpec, Option.map, Option.some.injEq, Prod.mk.injEq] at hv
    exact ⟨p.2, by rw [hv.1], hv.2⟩

theorem spec_ok_decode (o : Opts) (b : Bytes) (m : Msg) (n : Nat) (h : Spec.decodeM o b = some (m, n)) :
    (decode o : M Bytes (List DErr) Msg) b = .ok m (b.drop n) := by
  have hv := decode_view o b
  rw [h] at hv
  cases hd : (decode o : M Bytes (List DErr) Msg) b with
  | ok m' r =>
    rw [hd] at hv
    simp only [viewR, afterSpec, Option.map, Option.some.injEq, Prod.mk.injEq] at hv
    rw [hv.1, hv.2]
  | err es r => rw [hd] at hv; simp [viewR, afterSpec] at hv
  | fault f => rw [hd] at hv; simp [viewR, afterSpec] at hv

end Rl2tp
