/-
  Proofs.DataMsg: the data-message image decodes back (C04).
-/
import Rl2tp.Proofs.Options
namespace Rl2tp

theorem mkFlags_isControl (c l s o p : Bool) : isControl (mkFlags c l s o p) = c := by
  cases c <;> cases l <;> cases s <;> cases o <;> cases p <;> decide
theorem mkFlags_hasLength (c l s o p : Bool) : hasLength (mkFlags c l s o p) = l := by
  cases c <;> cases l <;> cases s <;> cases o <;> cases p <;> decide
theorem mkFlags_hasNsNr (c l s o p : Bool) : hasNsNr (mkFlags c l s o p) = s := by
  cases c <;> cases l <;> cases s <;> cases o <;> cases p <;> decide
theorem mkFlags_hasOffset (c l s o p : Bool) : hasOffset (mkFlags c l s o p) = o := by
  cases c <;> cases l <;> cases s <;> cases o <;> cases p <;> decide
theorem mkFlags_isPrioritized (c l s o p : Bool) : isPrioritized (mkFlags c l s o p) = p := by
  cases c <;> cases l <;> cases s <;> cases o <;> cases p <;> decide
theorem mkFlags_version (c l s o p : Bool) : version (mkFlags c l s o p) = 2 := by
  cases c <;> cases l <;> cases s <;> cases o <;> cases p <;> decide
theorem mkFlags_reservedOk (c l s o p : Bool) : reservedOk (mkFlags c l s o p) = true := by
  cases c <;> cases l <;> cases s <;> cases o <;> cases p <;> decide

/-- octets of a data message after the flag word -/
def dataTail (d : Data) : Bytes :=
  (match d.length with | some l => be16 l | none => [])
    ++ be16 d.tunnelId ++ be16 d.sessionId
    ++ (match d.nsnr with | some (a, b) => be16 a ++ be16 b | none => [])
    ++ (match d.offset with | some o => be16 o | none => [])
    ++ d.data

theorem dataImage_eq (d : Data) :
    dataImage d = be16 (mkFlags false d.length.isSome d.nsnr.isSome d.offset.isSome d.prio) ++ dataTail d := by
  rcases d with ⟨prio, len, tid, sid, nsnr, off, data⟩
  cases len <;> cases nsnr <;> cases off <;> simp [dataImage, dataTail]

theorem dataTail_length (d : Data) :
    (dataTail d).length = (if d.length.isSome then 2 else 0) + 4 + (if d.nsnr.isSome then 4 else 0)
      + (if d.offset.isSome then 2 else 0) + d.data.length := by
  rcases d with ⟨prio, len, tid, sid, nsnr, off, data⟩
  cases len <;> cases nsnr <;> cases off <;> simp [dataTail] <;> omega

/-- the header block reads back the fixed fields and leaves the payload (and whatever follows) -/
theorem readDataHeader_image (d : Data) (rest : Bytes) :
    (readDataHeader (mkFlags false d.length.isSome d.nsnr.isSome d.offset.isSome d.prio) : M Bytes DErr DataHdr)
        (dataTail d ++ rest) =
      .ok { mlen := d.length, tid := d.tunnelId, sid := d.sessionId, nsnr := d.nsnr, off := d.offset } (d.data ++ rest) := by
  unfold readDataHeader
  simp only [mkFlags_hasLength, mkFlags_hasNsNr, mkFlags_hasOffset]
  have hl := dataTail_length d
  rcases d with ⟨prio, len, tid, sid, nsnr, off, data⟩
  cases len <;> cases nsnr <;> cases off <;>
    simp only [dataTail, Option.isSome_none, Option.isSome_some, Bool.false_eq_true, if_false, if_true, be16,
      List.cons_append, List.nil_append, List.append_assoc, bind_apply, len_apply, len_bytes, List.length_cons,
      List.length_append, M.ite_apply, pure_apply, readU16_cons, word16_be16] <;>
    (first
      | (rw [if_neg (by omega)])
      | skip) <;>
    simp

/-- the offset size written, as a number of octets to skip -/
def Data.skipN (d : Data) : Nat := match d.offset with | some o => o.toNat | none => 0

theorem skipOffset_image (d : Data) (rest : Bytes) (hn : d.skipN < d.data.length) :
    (skipOffset d.offset : M Bytes DErr Unit) (d.data ++ rest) = .ok () (d.data.drop d.skipN ++ rest) := by
  unfold Data.skipN at hn ⊢
  cases ho : d.offset with
  | none => simp [skipOffset]
  | some o =>
    rw [ho] at hn
    simp only [] at hn
    simp only [skipOffset, bind_apply, len_apply, len_bytes, M.ite_apply, List.length_append]
    rw [if_neg (by omega), skip_ok (by simp; omega)]
    rw [List.drop_append_of_le_length (by omega)]

/-- `DataMessage::try_read` on an image (flag word already consumed), followed by anything -/
theorem decodeData_image (d : Data) (rest : Bytes) (hn : d.skipN < d.data.length)
    (hlen : d.length = none ∨ (d.length = some (UInt16.ofNat (2 + (dataTail d).length)) ∧ 2 + (dataTail d).length ≤ 65535)) :
    (decodeData (mkFlags false d.length.isSome d.nsnr.isSome d.offset.isSome d.prio) : M Bytes DErr Msg)
        (dataTail d ++ rest) =
      match d.length with
      | some _ => .ok (.data { d with offset := none, data := d.data.drop d.skipN }) rest
      | none => .ok (.data { d with offset := none, data := d.data.drop d.skipN ++ rest }) [] := by
  unfold decodeData
  simp only [bind_apply, len_apply, len_bytes, readDataHeader_image, skipOffset_image d rest hn]
  unfold readDataPayload
  simp only [bind_apply, len_apply, len_bytes, mkFlags_isPrioritized]
  have htl := dataTail_length d
  have hsk : d.skipN ≤ d.data.length := by omega
  have hrem : (d.data.drop d.skipN ++ rest).length = d.data.length - d.skipN + rest.length := by simp
  have hoffn : (if d.offset.isSome then 2 else 0) = 2 ∨ d.skipN = 0 := by
    unfold Data.skipN; cases d.offset <;> simp
  have hge : (d.data.drop d.skipN ++ rest).length ≤ (dataTail d ++ rest).length := by
    rw [List.length_append (as := dataTail d), hrem, htl]; omega
  rw [subM_ok hge]
  simp only []
  have hhdr : 2 + ((dataTail d ++ rest).length - (d.data.drop d.skipN ++ rest).length) =
      2 + (dataTail d).length - (d.data.length - d.skipN) := by
    rw [List.length_append (as := dataTail d), hrem, htl]; rcases hoffn with h | h <;> omega
  rw [hhdr]
  rcases hlen with hl | ⟨hl, hmax⟩
  · rw [hl]
    simp only [M.ite_apply, fail_apply, bind_apply, pure_apply]
    rw [if_neg (by rw [hrem]; omega), readBytes_all]
  · rw [hl]
    have hu : (UInt16.ofNat (2 + (dataTail d).length)).toNat = 2 + (dataTail d).length := u16_small (by omega)
    simp only [hu, M.ite_apply, fail_apply, bind_apply, pure_apply]
    have hpl : 2 + (dataTail d).length - (2 + (dataTail d).length - (d.data.length - d.skipN)) = d.data.length - d.skipN := by
      rw [htl]; omega
    rw [if_neg (by omega), subM_ok (by omega)]
    simp only []
    rw [hpl, if_neg (by rw [hrem]; omega), if_neg (by omega), readBytes_ok _ (by rw [hrem]; omega)]
    have ht : (d.data.drop d.skipN ++ rest).take (d.data.length - d.skipN) = d.data.drop d.skipN :=
      List.take_left' (by simp)
    have hd : (d.data.drop d.skipN ++ rest).drop (d.data.length - d.skipN) = rest :=
      List.drop_left' (by simp)
    rw [ht, hd]

end Rl2tp
