/-
  Proofs.Options: `decode` as a cascade of option-gated checks over the flag word.
-/
import Rl2tp.Proofs.Total
namespace Rl2tp

theorem decode_short (o : Opts) {s : Bytes} (h : s.length < 2) :
    (decode o : M Bytes (List DErr) Msg) s = .err [.incompleteFlags] s := by
  simp [decode, h]

/-- the cascade, for an input that has a flag word -/
theorem decode_cons (o : Opts) (a b : UInt8) (r : Bytes) :
    (decode o : M Bytes (List DErr) Msg) (a :: b :: r) =
      if (o.version && version (word16 a b) ≠ 2) = true then .err [.invalidVersion (version (word16 a b))] r
      else if (o.reserved && !reservedOk (word16 a b)) = true then .err [.invalidReservedBits] r
      else if isControl (word16 a b) = true then (decodeControl (word16 a b) o : M Bytes _ _) r
      else liftE (decodeData (word16 a b)) r := by
  have h0 : ¬ (r.length + 1 + 1 < 2) := by omega
  simp only [decode, bind_apply, len_apply, len_bytes, List.length_cons, h0, if_false, readU16_cons, M.ite_apply,
    fail_apply]

theorem decodeControl_eq (w : UInt16) (o : Opts) (r : Bytes) :
    (decodeControl w o : M Bytes (List DErr) Msg) r =
      if (o.unused && isPrioritized w) = true then .err [.forbiddenControlMessagePriority] r
      else if (o.unused && hasOffset w) = true then .err [.forbiddenControlMessageOffset] r
      else (decodeControlCore w : M Bytes _ _) r := by
  simp only [decodeControl, M.ite_apply, fail_apply]

/-- pointwise order on option sets: `o ≤ o'` when every check enabled in `o` is enabled in `o'` -/
def Opts.le (o o' : Opts) : Prop :=
  (o.reserved = true → o'.reserved = true) ∧ (o.version = true → o'.version = true) ∧
  (o.unused = true → o'.unused = true)

def Rejected (x : Out Bytes (List DErr) Msg) : Prop := ∃ es r, x = .err es r

end Rl2tp
