/-
  C08 — decoding consumes exactly the declared length; bytes beyond it have no influence.
-/
import Rl2tp.Proofs.Consumed
import Rl2tp.Proofs.Control
import Rl2tp.Proofs.DataMsg
import Rl2tp.Props.C03
namespace Rl2tp.C08
open Spec

theorem spec_consumed (o : Opts) (b : Bytes) (m : Msg) (n L : Nat) (h : Spec.decodeM o b = some (m, n))
    (hd : m.declared = some L) : n = L := by
  unfold Spec.decodeM at h
  split at h
  · cases h
  simp only [] at h
  split at h
  · cases h
  split at h
  · cases h
  generalize hw : u16At b 0 = w at h
  by_cases hc : isControl w = true
  · rw [if_pos hc] at h
    cases hin : Spec.decodeControlM w o (b.drop 2) with
    | none => rw [hin] at h; cases h
    | some p =>
      rw [hin] at h
      simp only [Option.map, Option.some.injEq, Prod.mk.injEq] at h
      obtain ⟨rfl, rfl⟩ := h
      have := specControl_consumed w o _ p.1 p.2 hin
      rw [this] at hd
      simp only [Option.some.injEq] at hd
      omega
  · rw [if_neg hc] at h
    cases hin : Spec.decodeDataM w (b.drop 2) with
    | none => rw [hin] at h; cases h
    | some p =>
      rw [hin] at h
      simp only [Option.map, Option.some.injEq, Prod.mk.injEq] at h
      obtain ⟨rfl, rfl⟩ := h
      by_cases hL : hasLength w = true
      · have := specData_consumed w _ p.1 p.2 hL hin
        rw [this] at hd
        simp only [Option.some.injEq] at hd
        omega
      · -- without the L bit the decoded message declares no length
        exfalso
        unfold Spec.decodeDataM at hin
        simp only [hL, Bool.false_eq_true, if_false] at hin
        generalize (if hasOffset w = true then (u16At (b.drop 2) (dataNeed w - 2)).toNat else 0) = pad at hin
        by_cases d1 : (b.drop 2).length < dataNeed w
        · rw [if_pos d1] at hin; cases hin
        rw [if_neg d1] at hin
        by_cases d2 : (b.drop 2).length - dataNeed w < pad
        · rw [if_pos d2] at hin; cases hin
        rw [if_neg d2] at hin
        split at hin
        · cases hin
        · simp only [Option.some.injEq] at hin
          rw [← hin] at hd
          simp [Msg.declared] at hd

/-- A control message, or a data message carrying a Length field, consumes exactly the octets its length
    field declares and leaves the reader at the next octet. -/
theorem consumes_declared (o : Opts) (b : Bytes) (m : Msg) (r : Bytes) (L : Nat)
    (h : (decode o : M Bytes (List DErr) Msg) b = .ok m r) (hd : m.declared = some L) :
    L ≤ b.length ∧ r = b.drop L ∧ b.length - r.length = L := by
  obtain ⟨n, hs, hr⟩ := decode_ok_spec o b m r h
  have hn := spec_consumed o b m n L hs hd
  subst hn
  have hdecl : m.hasDeclared = true := by
    cases m with
    | control c => rfl
    | data d =>
      simp only [Msg.declared] at hd
      cases hl : d.length with
      | none => rw [hl] at hd; simp at hd
      | some l => simp [Msg.hasDeclared, hl]
  obtain ⟨hle, _⟩ := spec_local o b [] m n hs hdecl
  refine ⟨hle, hr, ?_⟩
  rw [hr, List.length_drop]; omega

/-- Octets after the declared end never change the result: replace them by anything, the same message
    comes out and the reader is left exactly at the replacement. -/
theorem suffix_irrelevant (o : Opts) (b : Bytes) (m : Msg) (r : Bytes) (L : Nat)
    (h : (decode o : M Bytes (List DErr) Msg) b = .ok m r) (hd : m.declared = some L) (s : Bytes) :
    (decode o : M Bytes (List DErr) Msg) (b.take L ++ s) = .ok m s := by
  obtain ⟨n, hs, hr⟩ := decode_ok_spec o b m r h
  have hn := spec_consumed o b m n L hs hd
  subst hn
  have hdecl : m.hasDeclared = true := by
    cases m with
    | control c => rfl
    | data d =>
      simp only [Msg.declared] at hd
      cases hl : d.length with
      | none => rw [hl] at hd; simp at hd
      | some l => simp [Msg.hasDeclared, hl]
  obtain ⟨hle, hloc⟩ := spec_local o b s m n hs hdecl
  have := spec_ok_decode o _ m n hloc
  rw [this]
  congr 1
  rw [List.drop_left' (by simp; omega)]

/-! ### AVP records inside a control message -/

/-- a record is well delimited when it has a header and its 10-bit length is its own size -/
def WellDelimited (r : Bytes) : Prop :=
  ∃ a b c d e f p, r = a :: b :: c :: d :: e :: f :: p ∧ hdrLen a b = 6 + p.length

/-- the header the reader builds from six octets -/
def hdrOf (a b c d e f : UInt8) : Header :=
  ⟨UInt8.ofNat (a.toNat % 64), UInt16.ofNat (hdrLen a b - 6), word16 c d, word16 e f⟩

/-- one well-delimited record in front of anything: its result is decoded from its own octets only, and
    the loop continues with what follows -/
theorem greedy_record (r rest : Bytes) (h : WellDelimited r) :
    ∃ res, (greedy : M Bytes DErr (List Res)) r = .ok [res] [] ∧
      ∀ rs q, (greedy : M Bytes DErr (List Res)) rest = .ok rs q →
        (greedy : M Bytes DErr (List Res)) (r ++ rest) = .ok (res :: rs) q := by
  obtain ⟨a, b, c, d, e, f, p, rfl, hl⟩ := h
  have hlt := hdrLen_lt a b
  have hpl : (UInt16.ofNat (hdrLen a b - 6)).toNat = p.length := by rw [u16_small (by omega)]; omega
  -- the iteration on `p ++ tail`, for any tail
  have hpl' : (hdrOf a b c d e f).payloadLength.toNat = p.length := hpl
  have step : ∀ tail : Bytes, ∃ res, (greedyStep (hdrOf a b c d e f) : M Bytes DErr _) (p ++ tail) = .ok (res, true) tail ∧
      res = (if word16 c d ≠ 0 then .error (.unsupportedVendorId (word16 c d))
        else if (hdrOf a b c d e f).isHidden then .ok (.hidden (word16 e f) p)
        else match (decodeAvp (word16 e f) : M Bytes DErr AVP) p with
          | .ok x _ => .ok x
          | .err x _ => .error x
          | .fault _ => .error (.unknownAvp 0)) := by
    intro tail
    rw [greedyStep_eq]
    simp only [hpl', List.length_append]
    rw [if_neg (by omega), List.take_left' rfl, List.drop_left' rfl]
    have hv' : (hdrOf a b c d e f).vendorId = word16 c d := rfl
    have ht' : (hdrOf a b c d e f).attributeType = word16 e f := rfl
    rw [hv', ht']
    by_cases hv : word16 c d ≠ 0
    · simp only [hv, ne_eq, not_false_eq_true, if_true]; exact ⟨_, rfl, rfl⟩
    · simp only [hv, if_false]
      split
      · exact ⟨_, rfl, rfl⟩
      · cases hdec : (decodeAvp (word16 e f) : M Bytes DErr AVP) p with
        | ok x y => exact ⟨_, rfl, rfl⟩
        | err x y => exact ⟨_, rfl, rfl⟩
        | fault g => exact absurd hdec (decodeAvp_noFault _ _ g)
  have hh : ∀ tail : Bytes, (readHeader : M Bytes DErr _) (a :: b :: c :: d :: e :: f :: (p ++ tail)) =
      .ok (some (.ok (hdrOf a b c d e f))) (p ++ tail) := by
    intro tail
    rw [readHeader_cons, if_neg (by omega)]
    rfl
  obtain ⟨res0, hs0, hr0⟩ := step []
  obtain ⟨res1, hs1, hr1⟩ := step rest
  have hres : res1 = res0 := by rw [hr0, hr1]
  refine ⟨res0, ?_, ?_⟩
  · have := greedy_step (hh []) hs0
    simp only [List.append_nil] at this
    rw [this, greedy_short (by simp)]
    rfl
  · intro rs q hq
    have := greedy_step (hh rest) hs1
    rw [List.cons_append, List.cons_append, List.cons_append, List.cons_append, List.cons_append, List.cons_append,
      this, hq, hres]
    rfl

/-- decoding a concatenation of well-delimited AVP records equals the concatenation of decoding each alone -/
theorem avps_concat (recs : List Bytes) (h : ∀ r ∈ recs, WellDelimited r) :
    ∃ ress : List Res, ress.length = recs.length ∧
      (greedy : M Bytes DErr (List Res)) recs.flatten = .ok ress [] ∧
      ∀ i (hi : i < recs.length) (hj : i < ress.length),
        (greedy : M Bytes DErr (List Res)) (recs[i]) = .ok [ress[i]] [] := by
  induction recs with
  | nil => exact ⟨[], rfl, by simp [greedy_short], fun i hi => by simp at hi⟩
  | cons r recs ih =>
    obtain ⟨ress, hlen, hg, hall⟩ := ih (fun x hx => h x (by simp [hx]))
    obtain ⟨res, hone, hcons⟩ := greedy_record r recs.flatten (h r (by simp))
    refine ⟨res :: ress, by simp [hlen], ?_, ?_⟩
    · simp only [List.flatten_cons]
      exact hcons ress [] hg
    · intro i hi hj
      cases i with
      | zero => simpa using hone
      | succ i =>
        simp only [List.getElem_cons_succ]
        exact hall i (by simpa using hi) (by simpa using hj)

/-- messages packed back to back decode one after another: after the first message the reader stands
    at the first octet of the second -/
theorem back_to_back (o : Opts) (b1 b2 : Bytes) (m : Msg) (L : Nat)
    (h : (decode o : M Bytes (List DErr) Msg) b1 = .ok m []) (hd : m.declared = some L) :
    (decode o : M Bytes (List DErr) Msg) (b1 ++ b2) = .ok m b2 := by
  obtain ⟨hle, hr, hlen⟩ := consumes_declared o b1 m [] L h hd
  have hL : L = b1.length := by simpa using hlen.symm
  have := suffix_irrelevant o b1 m [] L h hd b2
  rw [hL, List.take_length] at this
  exact this

/-! non-vacuity -/
/-! ### a whole buffer of messages packed back to back -/

/-- what a receiver does with a buffer: decode a message, go on behind it, until the buffer is empty or something is
    not accepted.  Returns the messages and what was left; `fuel` bounds the count. -/
def decodeMany (o : Opts) : Nat → Bytes → List Msg × Bytes
  | 0, b => ([], b)
  | fuel + 1, b =>
    if b = [] then ([], [])
    else
      match (decode o : M Bytes (List DErr) Msg) b with
      | .ok m r =>
        let (ms, q) := decodeMany o fuel r
        (m :: ms, q)
      | _ => ([], b)

/-- **k messages**: if each octet string `bᵢ`, alone, decodes to `mᵢ` (a control message, or a data message that
    carries a Length), then the concatenation `b₁ ++ … ++ bₖ` decodes, message after message, to exactly `m₁ … mₖ`
    and nothing is left — for every `k`, every mix of control and data messages, every option set. -/
theorem decode_many (o : Opts) (ps : List (Bytes × Msg)) (fuel : Nat) (hfuel : ps.length < fuel)
    (h : ∀ p ∈ ps, (decode o : M Bytes (List DErr) Msg) p.1 = .ok p.2 [] ∧ p.2.declared.isSome = true) :
    decodeMany o fuel (ps.map (·.1)).flatten = (ps.map (·.2), []) := by
  induction ps generalizing fuel with
  | nil =>
    cases fuel with
    | zero => simp at hfuel
    | succ n => simp [decodeMany]
  | cons p ps ih =>
    cases fuel with
    | zero => simp at hfuel
    | succ n =>
      obtain ⟨hd, hdecl⟩ := h p (by simp)
      obtain ⟨L, hL⟩ := Option.isSome_iff_exists.mp hdecl
      have hne : p.1 ≠ [] := by
        intro he
        rw [he, decode_short o (by simp)] at hd
        cases hd
      have hb := back_to_back o p.1 (ps.map (·.1)).flatten p.2 L hd hL
      simp only [List.map_cons, List.flatten_cons, decodeMany]
      rw [if_neg (by simp [hne]), hb]
      simp only []
      rw [ih n (by simpa using hfuel) (fun q hq => h q (by simp [hq]))]

/-- the encoder's side of it: control messages (encodable AVPs, a Message Type AVP first, at most 65535 octets each)
    written one after another into one buffer are read back, in order, each with its Length set to its encoded size -/
theorem encode_many_decode_many (o : Opts) (cs : List Control) (fuel : Nat) (hfuel : cs.length < fuel)
    (h : ∀ c ∈ cs, (∀ a ∈ c.avps, a.Encodable) ∧ firstIsMessageType c.avps = true ∧
      12 + (avpsImage c.avps).length ≤ 65535) :
    decodeMany o fuel (cs.map controlImage).flatten =
      (cs.map fun c => .control { c with length := UInt16.ofNat (controlImage c).length }, []) := by
  have := decode_many o (cs.map fun c => (controlImage c, Msg.control { c with length := UInt16.ofNat (controlImage c).length }))
    fuel (by simpa using hfuel) (by
      intro p hp
      obtain ⟨c, hc, rfl⟩ := List.mem_map.mp hp
      obtain ⟨he, hf, hl⟩ := h c hc
      obtain ⟨img, himg, hdec⟩ := C03.control_roundtrip c o he hf hl
      have himg' : img = controlImage c := by
        have := writeControl_eq [] c (fun a ha => (he a ha).2) hl
        simp only [encode, writeMsg, List.nil_append] at himg this
        rw [this] at himg
        cases himg; rfl
      subst himg'
      exact ⟨hdec, rfl⟩)
  simp only [List.map_map] at this
  exact this

example : WellDelimited [1, 8, 0, 0, 0, 0, 0, 6] := ⟨1, 8, 0, 0, 0, 0, [0, 6], rfl, by decide⟩
example : (decode Opts.strict : M Bytes _ Msg) ([0x13, 0x20, 0, 12, 0, 1, 0, 2, 0, 3, 0, 4] ++ [0xFF, 0xFF]) =
    .ok (.control { length := 12, tunnelId := 1, sessionId := 2, ns := 3, nr := 4, avps := [] }) [0xFF, 0xFF] := by decide

/-- two messages and a data message with a Length in one buffer: three messages out, nothing left -/
example : decodeMany Opts.strict 10
      ([0x13, 0x20, 0, 12, 0, 1, 0, 2, 0, 3, 0, 4] ++ [0x02, 0x20, 0, 9, 0, 7, 0, 9, 0xAA] ++
        [0x13, 0x20, 0, 20, 0, 1, 0, 2, 0, 3, 0, 4, 1, 8, 0, 0, 0, 0, 0, 6]) =
    ([.control ⟨12, 1, 2, 3, 4, []⟩, .data ⟨false, some 9, 7, 9, none, none, [0xAA]⟩,
      .control ⟨20, 1, 2, 3, 4, [.messageType .hello]⟩], []) := by decide

/-- … in particular in front of `n` zero octets for any `n` — 2^32 and more included: this is the model's side of the
    `sfxbig` cases, where the implementation is run on a lazily mapped input of that size and the driver answers from the
    image alone (it never builds the list) -/
theorem in_front_of_zeros (o : Opts) (b : Bytes) (m : Msg) (r : Bytes) (L : Nat) (n : Nat)
    (h : (decode o : M Bytes (List DErr) Msg) b = .ok m r) (hd : m.declared = some L) :
    (decode o : M Bytes (List DErr) Msg) (b.take L ++ List.replicate n 0) = .ok m (List.replicate n 0) ∧
    (List.replicate n (0 : UInt8)).length = n :=
  ⟨suffix_irrelevant o b m r L h hd _, List.length_replicate⟩

/-- the hypotheses of `in_front_of_zeros` are met: a twelve-octet control message declares (and has) length 12, and in
    front of five zero octets it decodes to the same message with the five left over -/
example :
    (decode Opts.strict : M Bytes (List DErr) Msg) [0x13, 0x20, 0, 12, 0, 1, 0, 2, 0, 3, 0, 4]
      = .ok (.control { length := 12, tunnelId := 1, sessionId := 2, ns := 3, nr := 4, avps := [] }) [] ∧
    (Msg.control { length := 12, tunnelId := 1, sessionId := 2, ns := 3, nr := 4, avps := [] }).declared = some 12 ∧
    (decode Opts.strict : M Bytes (List DErr) Msg) ([0x13, 0x20, 0, 12, 0, 1, 0, 2, 0, 3, 0, 4] ++ List.replicate 5 0)
      = .ok (.control { length := 12, tunnelId := 1, sessionId := 2, ns := 3, nr := 4, avps := [] }) (List.replicate 5 0) := by
  decide

end Rl2tp.C08
