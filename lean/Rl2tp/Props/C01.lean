/-
  C01 — decoding is total: any bytes, any options give Ok or Err(non-empty), never a fault.
  Statements over the model at the reference cursor; every input, every option set, no size bound.
-/
import Rl2tp.Proofs.Total
import Rl2tp.Proofs.GenGuards
import Rl2tp.Proofs.GenSizes
namespace Rl2tp.C01

/-- `Message::try_read_validate`: for every byte string and every option set the result is a value
    or a non-empty list of errors; the `fault` outcome (panic, UB, loop fuel exhausted) is unreachable. -/
theorem decode_total (o : Opts) (b : Bytes) :
    (∃ m r, (decode o : M Bytes (List DErr) Msg) b = .ok m r) ∨
    (∃ es r, (decode o : M Bytes (List DErr) Msg) b = .err es r ∧ es ≠ []) := by
  have h := decode_good o b
  cases hd : (decode o : M Bytes (List DErr) Msg) b with
  | ok m r => exact Or.inl ⟨m, r, rfl⟩
  | err es r => rw [hd] at h; exact Or.inr ⟨es, r, rfl, h⟩
  | fault f => rw [hd] at h; exact absurd h id

/-- the default entry point `Message::try_read` -/
theorem decodeDefault_total (b : Bytes) :
    (∃ m r, (decodeDefault : M Bytes (List DErr) Msg) b = .ok m r) ∨
    (∃ es r, (decodeDefault : M Bytes (List DErr) Msg) b = .err es r ∧ es ≠ []) :=
  decode_total Opts.default b

/-- `AVP::try_read_greedy` returns a list for every input, and never reads backwards -/
theorem decodeAvps_total (b : Bytes) :
    ∃ l r, (greedy : M Bytes DErr (List Res)) b = .ok l r ∧ r.length ≤ b.length :=
  greedy_ok b

/-- termination of the greedy loop: `len + 1` iterations always suffice (the loop is defined by
    recursion on that fuel and running out of it would be `Fault.fuel`) -/
theorem greedy_terminates (b : Bytes) (f : Fault) : (greedy : M Bytes DErr (List Res)) b ≠ .fault f :=
  greedy_noFault b f

/-- every payload decoder, for every attribute type and payload: no fault -/
theorem decodePayload_noFault (t : UInt16) (p : Bytes) (f : Fault) :
    (decodeAvp t : M Bytes DErr AVP) p ≠ .fault f :=
  decodeAvp_noFault t p f

/-! ### arithmetic
  Every unsigned subtraction on the decode path (`length - Header::LENGTH`, `length - FIXED_LENGTH`,
  `initial_length - reader.len()`, `length - header_length`, `total_length - Header::LENGTH` in reveal) is the
  checked step `subM a b` of the model, which is `Fault.panic` when `b > a`.  `decode_total` therefore also says
  that none of them underflows.  Three are discharged by the comparison just before them; the fourth,
  `initial_length - reader.len()`, by the fact that no decoder step makes the remaining input longer: -/

theorem header_shrinks (w : UInt16) (s r : Bytes) (h : DataHdr)
    (hr : (readDataHeader w : M Bytes DErr DataHdr) s = .ok h r) : r.length ≤ s.length :=
  (readDataHeader_shrinks w).le s h r hr

theorem offset_shrinks (o : Option UInt16) (s r : Bytes)
    (hr : (skipOffset o : M Bytes DErr Unit) s = .ok () r) : r.length ≤ s.length :=
  (skipOffset_shrinks o).le s () r hr

/-- the checked subtraction is not decoration: started from a smaller `initial` than what remains it faults -/
example : (readDataPayload 0 0 ⟨none, 0, 0, none, none⟩ : M Bytes DErr Msg) [1] = .fault .panic := by decide
/-- and a checked subtraction in the AVP header is what a length below 6 would hit without its guard -/
example : (subM 3 6 : M Bytes DErr Nat) [] = .fault .panic := by decide

/-! non-vacuity: both outcomes occur; the three pinned-tree crashers are ordinary errors now -/
example : (decode Opts.strict : M Bytes _ _) [0x13, 0x20, 0, 12, 0, 1, 0, 2, 0, 3, 0, 4]
    = .ok (.control { length := 12, tunnelId := 1, sessionId := 2, ns := 3, nr := 4, avps := [] }) [] := by decide
example : (decode Opts.strict : M Bytes _ Msg) [0x13, 0x20, 0, 4, 0, 1, 0, 2, 0, 3, 0, 4]
    = .err [.incompleteControlMessageHeader] [] := by decide
example : (greedy : M Bytes DErr _) [0, 3, 0, 0, 0, 7] = .ok [.error (.invalidAVPLength 3)] [] := by decide

/-! ### guards and sizes as the source has them now (re-read by bin/gentables on every run) -/

/-- for each kind whose first guard (`reader.len() < Self::LENGTH`) stands in front of unchecked reads in the *source as it
    is now*, the least payload length that guard lets through is the model's: below it the model's decoder of the kind of
    that name refuses the payload as incomplete, at it it does not — so the unchecked reads behind each guard are the
    ones the model's theorem is about -/
theorem source_unchecked_guards :
    ∀ r ∈ Gen.typeConstants, r.2.2.2.1 = true →
      (∀ n ∈ List.range r.2.2.1, GenGuards.refusedAsIncomplete (GenGuards.numberOf r.2.1) n = true) ∧
      GenGuards.refusedAsIncomplete (GenGuards.numberOf r.2.1) r.2.2.1 = false :=
  GenGuards.unchecked_guards_is_model

/-- the source's AVP header size and fixed control header size are the model's: fewer octets than `Header::LENGTH` give
    no record and exactly that many give one; a Length field below `FIXED_LENGTH` is refused and one equal to it accepted -/
theorem source_header_sizes :
    ((∀ n ∈ List.range (GenSizes.cc "HEADER_LENGTH"), (greedy : M Bytes DErr (List Res)) (GenSizes.zeros n) = .ok [] (GenSizes.zeros n)) ∧
     (match (greedy : M Bytes DErr (List Res)) (GenSizes.zeros (GenSizes.cc "HEADER_LENGTH")) with | .ok [_] _ => true | _ => false) = true) ∧
    ((∀ l ∈ List.range (GenSizes.cc "CONTROL_FIXED_LENGTH"),
      (decode Opts.strict : M Bytes (List DErr) Msg) ([0x13, 0x20, 0, UInt8.ofNat l] ++ GenSizes.zeros 8)
        = .err [.incompleteControlMessageHeader] []) ∧
     (match (decode Opts.strict : M Bytes (List DErr) Msg) ([0x13, 0x20, 0, UInt8.ofNat (GenSizes.cc "CONTROL_FIXED_LENGTH")] ++ GenSizes.zeros 8) with
      | .ok (.control c) [] => c.avps.isEmpty | _ => false) = true) :=
  ⟨GenSizes.header_length_is_model, GenSizes.control_fixed_length_is_model⟩

end Rl2tp.C01
