/-
  C12 — hidden values equal the RFC 2661 §4.3 construction computed independently.
  `Spec.Hide` states the construction block by index from the RFC's formulas; the theorems say the
  model's `hide` / `reveal` compute exactly that, for every input and every number of blocks, for any
  hash.  That the hash the driver plugs in is MD5 rests on the RFC 1321 vectors (kernel-checked in
  `Spec.Md5`) and on the differential `md5` stream.
-/
import Rl2tp.Proofs.HideSpec
import Rl2tp.Proofs.SpecAvp
import Rl2tp.Proofs.RevealTotal
import Rl2tp.Proofs.Image
import Rl2tp.Spec.Md5
import Rl2tp.Proofs.InPlace
import Rl2tp.Proofs.GenSizes
namespace Rl2tp.C12
open Spec.Hide

variable (md5 : Bytes → Bytes)

/-- the value `hide` stores is c(0) ‖ c(1) ‖ … of the RFC, over the specified plaintext; the attribute
    type stays in clear -/
theorem hide_eq_rfc (a : AVP) (secret : Bytes) (rv : UInt32) (lp ap : Bytes)
    (hh : a.isHidden = false) (hl : 6 + a.value.length ≤ 1023) :
    hide md5 a secret rv lp ap = .ok (.hidden a.attr (hiddenValue md5 a.attr secret rv a.value lp ap)) :=
  hide_value_eq_spec md5 a secret rv lp ap hh hl

/-- |hidden value| = 16 · ⌈(2 + |value| + |length padding|) / 16⌉ -/
theorem hidden_length (hmd5 : ∀ x, (md5 x).length = 16) (a : AVP) (secret : Bytes) (rv : UInt32) (lp ap : Bytes)
    (hh : a.isHidden = false) (hl : 6 + a.value.length ≤ 1023) (hap : ap.length = 16) :
    ∃ v, hide md5 a secret rv lp ap = .ok (.hidden a.attr v) ∧
      v.length = 16 * ((2 + a.value.length + lp.length + 15) / 16) := by
  refine ⟨_, hide_eq md5 a secret rv lp ap hh hl, ?_⟩
  have hmod := hidePlain_length_mod a lp ap hap
  have hchunks := chunks_each ((hidePlain a lp ap).length / 16) (hidePlain a lp ap) (by omega)
  have henc := encChain_each md5 hmd5 secret _ (hmd5 (be16 a.attr ++ secret ++ be32 rv)) _ hchunks
  have hflen := flatten_length_16 _ henc
  rw [encChain_length, chunks_length] at hflen
  unfold key1
  rw [hflen, ← hidePlain_length a lp ap hap]
  omega

/-- the buffer `reveal` parses is p(0) ‖ p(1) ‖ … of the RFC, and what it does with it is the cascade
    below: empty / misaligned / bad length are errors, otherwise the announced type's payload decoder
    runs on exactly the announced number of octets after the length subfield -/
theorem reveal_eq_rfc (hmd5 : ∀ x, (md5 x).length = 16) (t : UInt16) (v secret : Bytes) (rv : UInt32) :
    reveal md5 (.hidden t v) secret rv =
      if v.length = 0 then .ok (.error .emptyHiddenAVP)
      else if v.length % 16 ≠ 0 then .ok (.error .misalignedHiddenAVP)
      else
        let plain := decrypted md5 t secret rv v
        let total := word16Of plain
        if total.toNat < 6 ∨ total.toNat > 1023 then .ok (.error (.invalidOriginalAVPLength total))
        else if total.toNat - 6 > v.length - 2 then .ok (.error (.invalidOriginalAVPLength total))
        else match (decodeAvp t : M Bytes DErr AVP) ((plain.drop 2).take (total.toNat - 6)) with
          | .ok a _ => .ok (.ok a)
          | .err e _ => .ok (.error e)
          | .fault f => .error f := by
  rw [reveal_hidden_eq md5 hmd5, revealPlain_eq_spec]
  rfl

/-- what `reveal` answers, seen as "the AVP, or refused" -/
def viewReveal : Except Fault (Except DErr AVP) → Option AVP
  | .ok (.ok a) => some a
  | _ => none

/-- `reveal` against the independent reference `Spec.Hide.reveal` (block-indexed decryption, the positional payload
    table of `Spec.Avp`, nothing of the model's decoders): the same AVP, or refused, for every hidden value, secret and
    random vector -/
theorem reveal_eq_reference (hmd5 : ∀ x, (md5 x).length = 16) (t : UInt16) (v secret : Bytes) (rv : UInt32) :
    viewReveal (reveal md5 (.hidden t v) secret rv) = Spec.Hide.reveal md5 t secret rv v := by
  rw [reveal_eq_rfc md5 hmd5]
  unfold Spec.Hide.reveal
  by_cases h0 : v.length = 0
  · simp [h0, viewReveal]
  by_cases h1 : v.length % 16 ≠ 0
  · simp [h0, h1, viewReveal]
  have hnot : ¬ (v.length = 0 ∨ v.length % 16 ≠ 0) := by
    intro h; rcases h with h | h
    · exact h0 h
    · exact h1 h
  simp only [if_neg h0, if_neg h1, if_neg hnot]
  have hlen : (decrypted md5 t secret rv v).length = v.length := by
    rw [← revealPlain_eq_spec]; exact revealPlain_length md5 hmd5 t v secret rv (by omega)
  have hw : word16Of (decrypted md5 t secret rv v) = Spec.u16At (decrypted md5 t secret rv v) 0 := by
    have : 2 ≤ (decrypted md5 t secret rv v).length := by omega
    obtain ⟨x, y, r, hr⟩ := exists_cons2 (s := decrypted md5 t secret rv v) this
    rw [hr]; rfl
  simp only [hw]
  generalize hL : (Spec.u16At (decrypted md5 t secret rv v) 0) = total
  by_cases c1 : total.toNat < 6 ∨ total.toNat > 1023
  · have c1' : total.toNat < 6 ∨ total.toNat > 1023 ∨ total.toNat - 6 > v.length - 2 := by
      rcases c1 with c | c
      · exact .inl c
      · exact .inr (.inl c)
    simp only [if_pos c1, if_pos c1']; rfl
  by_cases c2 : total.toNat - 6 > v.length - 2
  · simp only [if_neg c1, if_pos c2, if_pos (show total.toNat < 6 ∨ total.toNat > 1023 ∨ total.toNat - 6 > v.length - 2 from .inr (.inr c2))]
    rfl
  have c3 : ¬ (total.toNat < 6 ∨ total.toNat > 1023 ∨ total.toNat - 6 > v.length - 2) := by
    intro h; rcases h with h | h | h
    · exact c1 (.inl h)
    · exact c1 (.inr h)
    · exact c2 h
  simp only [if_neg c1, if_neg c2, if_neg c3]
  rw [← decodeAvp_view]
  cases (decodeAvp t : M Bytes DErr AVP) (List.take (total.toNat - 6) (List.drop 2 (decrypted md5 t secret rv v))) <;> rfl

/-- on the wire a hidden AVP carries the H bit and its attribute type in clear; other AVPs do not carry H -/
theorem encode_hidden_sets_H (a : AVP) :
    ∃ o1 o2 rest, avpImage a = o1 :: o2 :: 0 :: 0 :: (be16 a.attr ++ rest) ∧ rest = a.value ∧
      (o1.toNat / 2 % 2 = 1 ↔ a.isHidden = true) ∧ o1.toNat % 2 = 1 := by
  refine ⟨_, _, a.value, rfl, rfl, ?_, ?_⟩
  · rw [flagOctet_toNat]; cases a.isHidden <;> simp <;> omega
  · rw [flagOctet_toNat]; cases a.isHidden <;> simp <;> omega

/-- the hash the driver instantiates has the 16-octet output the theorems assume -/
theorem md5_length (x : Bytes) : (Spec.Md5.md5 x).length = 16 := Spec.Md5.md5_length x

/-! non-vacuity: a two-block example against the index formulas, with a hash that depends on its input -/
def toyHash (x : Bytes) : Bytes := (List.range 16).map fun i => UInt8.ofNat (x.length + i + (x.headD 0).toNat)
example : ∀ x, (toyHash x).length = 16 := fun x => by simp [toyHash]
example : hide toyHash (.hostName [1, 2, 3]) [9] 7 (List.replicate 12 0xEE) (List.replicate 16 0xAA)
    = .ok (.hidden 7 (hiddenValue toyHash 7 [9] 7 [1, 2, 3] (List.replicate 12 0xEE) (List.replicate 16 0xAA))) := by decide

/-- `hide` as the code runs it — the first chunk XORed in place, then `for i in 1..n { input[i] ^= MD5(secret ‖ input[i-1]) }`
    on the same buffer, every slice / index expression a possible panic (`hideIP`, Model/InPlace.lean; what the
    correspondence check runs) — is `hide`: no index out of range, the same hidden value, hence the RFC construction -/
theorem hide_inplace_eq (hmd5 : ∀ x, (md5 x).length = 16) (a : AVP) (secret : Bytes) (rv : UInt32) (lp ap : Bytes)
    (hap : ap.length = 16) : hideIP md5 a secret rv lp ap = hide md5 a secret rv lp ap :=
  hideIP_eq md5 hmd5 a secret rv lp ap hap

/-- the source's `CRYPTO_CHUNK_SIZE` is the 16 of the construction (re-read by bin/gentables on every run) -/
theorem source_chunk_size : GenSizes.cc "CRYPTO_CHUNK_SIZE" = 16 := GenSizes.codec_constants_pinned.1

end Rl2tp.C12
