/-
  C05 — the decoder accepts exactly the specified language with the specified values.
  `Spec.Avp` / `Spec.Message` are the independent executable specification: RFC 2661 field order and
  widths, the two flag octets read by mask (T = 0x01, L = 0x02, S = 0x10, O = 0x40, P = 0x80, reserved 0x2C / 0x0F,
  version = high nibble of the second octet), the 39 payload formats as one positional table, UTF-8 and
  enumerated-code constraints; no cursor, no monad, no import of `Model/*` but the value types: nothing shared with
  the model but `Prim`, the value types and the code tables (whose content C16 pins to the RFC numbers).  The
  refinement proofs go through an intermediate form of the specification phrased with the model's flag accessors
  (`Spec.decodeM`, Proofs/SpecM.lean); `Spec.decode_eq_decodeM` (Proofs/SpecBridge.lean, all 65 536 flag words by
  kernel evaluation) shows it is the same function.
-/
import Rl2tp.Proofs.SpecMsg
import Rl2tp.Proofs.SpecBridge
import Rl2tp.Proofs.Utf8
namespace Rl2tp.C05
open Spec

/-- For every byte string and every option set: the decoder returns a value iff the specification does,
    the values are equal field for field, and the reader is left exactly after the octets the
    specification names as the message (everything beyond them is untouched and has no influence: the
    right-hand side is a function of the named sub-slices only). -/
theorem decode_eq_spec (o : Opts) (b : Bytes) :
    viewR ((decode o : M Bytes (List DErr) Msg) b) = afterSpec b (Spec.decode o b) := by
  rw [Spec.decode_eq_decodeM]; exact decode_view o b

/-- accept/reject agree -/
theorem accepts_iff (o : Opts) (b : Bytes) :
    (∃ m r, (decode o : M Bytes (List DErr) Msg) b = .ok m r) ↔ (Spec.decode o b).isSome = true := by
  rw [Spec.decode_eq_decodeM]
  have h := decode_view o b
  constructor
  · rintro ⟨m, r, hd⟩
    rw [hd] at h
    cases hs : Spec.decodeM o b with
    | none => rw [hs] at h; simp [viewR, afterSpec] at h
    | some p => rfl
  · intro hs
    cases hd : (decode o : M Bytes (List DErr) Msg) b with
    | ok m r => exact ⟨m, r, rfl⟩
    | err es r =>
      rw [hd] at h
      cases hsp : Spec.decodeM o b with
      | none => rw [hsp] at hs; simp at hs
      | some p => rw [hsp] at h; simp [viewR, afterSpec] at h
    | fault f =>
      rw [hd] at h
      cases hsp : Spec.decodeM o b with
      | none => rw [hsp] at hs; simp at hs
      | some p => rw [hsp] at h; simp [viewR, afterSpec] at h

/-- the flag octets by mask are the crate's flag accessors, for every flag word (so a wrong bit index in the model's
    accessors could not hide behind the specification: the specification does not use them) -/
theorem flag_masks (x y : UInt8) :
    bitT x = isControl (word16 x y) ∧ bitL x = hasLength (word16 x y) ∧ bitS x = hasNsNr (word16 x y) ∧
    bitO x = hasOffset (word16 x y) ∧ bitP x = isPrioritized (word16 x y) ∧ ver y = version (word16 x y) ∧
    reservedClear x y = reservedOk (word16 x y) := Spec.flags_eq x y

/-- a bare AVP list: the same records, element-wise a value (equal to the specified one) or not -/
theorem decodeAvps_eq_spec (b : Bytes) :
    ∃ rs r, (greedy : M Bytes DErr (List Res)) b = .ok rs r ∧ rs.map viewRes = Spec.avps (b.length + 1) b :=
  greedy_view b

/-- each of the 39 payload decoders against its row of the format table, for all 65 536 attribute
    types and every payload -/
theorem decodePayload_eq_parse (t : UInt16) (p : Bytes) :
    viewAvp ((decodeAvp t : M Bytes DErr AVP) p) = Spec.parsePayload t p :=
  decodeAvp_view t p

/-- "UTF-8 constraints": the specification's text predicate (a transcription of Unicode table 3-7, the one the
    four text AVPs and the two optional messages are checked with) accepts exactly the octet strings that are the
    UTF-8 encoding of a sequence of Unicode scalar values — encoding as defined by Lean's core library, not by us -/
theorem utf8_valid_iff_encoding (bs : Bytes) :
    Spec.Utf8.valid bs = true ↔ ∃ cs : List Char, bs = cs.flatMap String.utf8EncodeChar :=
  Spec.Utf8.valid_iff_encoding bs

/-- … i.e. exactly the byte arrays a Lean `String` can be made of -/
theorem utf8_valid_iff_isValidUTF8 (bs : Bytes) : Spec.Utf8.valid bs = true ↔ bs.toByteArray.IsValidUTF8 :=
  Spec.Utf8.valid_iff_isValidUTF8 bs

/-! non-vacuity: the specification accepts the README's example and rejects it when Length lies -/
def readme : Bytes := [0x13, 0x20, 0, 0x14, 0, 2, 0, 3, 0, 4, 0, 5, 0, 8, 0, 0, 0, 0, 0, 1]
example : Spec.decode Opts.strict readme =
    some (.control { length := 20, tunnelId := 2, sessionId := 3, ns := 4, nr := 5,
                     avps := [.messageType .startControlConnectionRequest] }, 20) := by decide
example : Spec.decode Opts.strict (readme.set 3 0x15) = none := by decide
example : Spec.decode Opts.default [0x02, 0x20, 0, 9, 0, 7, 0, 9, 0xAA] =
    some (.data { prio := false, length := some 9, tunnelId := 7, sessionId := 9, nsnr := none, offset := none,
                  data := [0xAA] }, 9) := by decide

end Rl2tp.C05
