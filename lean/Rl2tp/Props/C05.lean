/-
  C05 — the decoder accepts exactly the specified language with the specified values.
  `Spec.Avp` / `Spec.Message` are the independent executable specification: RFC 2661 field order and
  widths, the two flag octets read by mask (T = 0x01, L = 0x02, S = 0x10, O = 0x40, P = 0x80, reserved 0x2C / 0x0F,
  version = high nibble of the second octet), the 39 payload formats as one positional table, UTF-8 and
  enumerated-code constraints; no cursor, no monad, no import of `Model/*` but the value types: nothing shared with
  the model but `Prim`, the value types and the code tables (whose content C16 pins to the RFC numbers).  The
  refinement proofs go through an intermediate form of the specification phrased with the model's flag accessors
  (`Spec.decodeM`, Proofs/SpecM.lean); `Spec.decode_eq_decodeM` (Proofs/SpecBridge.lean, all 65 536 flag words by
  kernel evaluation) shows it is the same function.
-/
import Rl2tp.Proofs.SpecMsg
import Rl2tp.Proofs.SpecBridge
import Rl2tp.Proofs.Utf8
import Rl2tp.Proofs.NonInterference
import Rl2tp.Proofs.GenSizes
namespace Rl2tp.C05
open Spec

/-- For every byte string and every option set: the decoder returns a value iff the specification does,
    the values are equal field for field, and the reader is left exactly after the octets the
    specification names as the message (everything beyond them is untouched and has no influence: the
    right-hand side is a function of the named sub-slices only). -/
theorem decode_eq_spec (o : Opts) (b : Bytes) :
    viewR ((decode o : M Bytes (List DErr) Msg) b) = afterSpec b (Spec.decode o b) := by
  rw [Spec.decode_eq_decodeM]; exact decode_view o b

/-- accept/reject agree -/
theorem accepts_iff (o : Opts) (b : Bytes) :
    (∃ m r, (decode o : M Bytes (List DErr) Msg) b = .ok m r) ↔ (Spec.decode o b).isSome = true := by
  rw [Spec.decode_eq_decodeM]
  have h := decode_view o b
  constructor
  · rintro ⟨m, r, hd⟩
    rw [hd] at h
    cases hs : Spec.decodeM o b with
    | none => rw [hs] at h; simp [viewR, afterSpec] at h
    | some p => rfl
  · intro hs
    cases hd : (decode o : M Bytes (List DErr) Msg) b with
    | ok m r => exact ⟨m, r, rfl⟩
    | err es r =>
      rw [hd] at h
      cases hsp : Spec.decodeM o b with
      | none => rw [hsp] at hs; simp at hs
      | some p => rw [hsp] at h; simp [viewR, afterSpec] at h
    | fault f =>
      rw [hd] at h
      cases hsp : Spec.decodeM o b with
      | none => rw [hsp] at hs; simp at hs
      | some p => rw [hsp] at h; simp [viewR, afterSpec] at h

/-- the flag octets by mask are the crate's flag accessors, for every flag word (so a wrong bit index in the model's
    accessors could not hide behind the specification: the specification does not use them) -/
theorem flag_masks (x y : UInt8) :
    bitT x = isControl (word16 x y) ∧ bitL x = hasLength (word16 x y) ∧ bitS x = hasNsNr (word16 x y) ∧
    bitO x = hasOffset (word16 x y) ∧ bitP x = isPrioritized (word16 x y) ∧ ver y = version (word16 x y) ∧
    reservedClear x y = reservedOk (word16 x y) := Spec.flags_eq x y

/-- a bare AVP list: the same records, element-wise a value (equal to the specified one) or not -/
theorem decodeAvps_eq_spec (b : Bytes) :
    ∃ rs r, (greedy : M Bytes DErr (List Res)) b = .ok rs r ∧ rs.map viewRes = Spec.avps (b.length + 1) b :=
  greedy_view b

/-! ### "nothing outside the fields the specification names influences the result"

By `decode_eq_spec` / `decodeAvps_eq_spec` the decoder's answer *is* the specification's, so what the specification does
not read the decoder cannot depend on.  The cases a reader asks about, one by one (those about what lies behind the
declared length are C08's `suffix_irrelevant`; the flag bits of the message header are C14's `bits_irrelevant`; 1…5
stray octets behind the last AVP are C15's `body_results_junk`): -/

/-- the M bit and the four reserved bits of an AVP's first octet: two record lists that differ only there are decoded
    to the same values, record by record (the two length bits and the H bit are the only ones read) -/
theorem avp_flag_bits_irrelevant (a a' : UInt8) (t : Bytes)
    (h1 : a.toNat / 64 = a'.toNat / 64) (h2 : a.toNat / 2 % 2 = a'.toNat / 2 % 2) :
    ∃ rs rs' r r', (greedy : M Bytes DErr (List Res)) (a :: t) = .ok rs r ∧
      (greedy : M Bytes DErr (List Res)) (a' :: t) = .ok rs' r' ∧ rs.map viewRes = rs'.map viewRes := by
  obtain ⟨rs, r, h, hv⟩ := greedy_view (a :: t)
  obtain ⟨rs', r', h', hv'⟩ := greedy_view (a' :: t)
  refine ⟨rs, rs', r, r', h, h', ?_⟩
  rw [hv, hv']
  exact avps_flag_bits_irrelevant _ a a' t h1 h2

/-- octets behind a fixed-width value are not part of it: for the 24 kinds whose format is a fixed number of octets,
    a payload with anything appended decodes to the same value -/
theorem surplus_octets_irrelevant (t : UInt16) (n : Nat) (hw : fixedWidth t.toNat = some n) (p x : Bytes) (hp : n ≤ p.length) :
    viewAvp ((decodeAvp t : M Bytes DErr AVP) (p ++ x)) = viewAvp ((decodeAvp t : M Bytes DErr AVP) p) := by
  rw [decodeAvp_view, decodeAvp_view]
  exact surplus_ignored t n hw p x hp

/-- the reserved octets inside Proxy Authen ID, Call Errors and ACCM are not read -/
theorem reserved_octets_irrelevant (t : UInt16) (r r' s s' : UInt8) (q : Bytes) :
    (t.toNat = 32 → viewAvp ((decodeAvp t : M Bytes DErr AVP) (r :: q)) = viewAvp ((decodeAvp t : M Bytes DErr AVP) (r' :: q))) ∧
    (t.toNat = 34 → viewAvp ((decodeAvp t : M Bytes DErr AVP) (r :: s :: q)) =
      viewAvp ((decodeAvp t : M Bytes DErr AVP) (r' :: s' :: q))) ∧
    (t.toNat = 35 → viewAvp ((decodeAvp t : M Bytes DErr AVP) (r :: s :: q)) =
      viewAvp ((decodeAvp t : M Bytes DErr AVP) (r' :: s' :: q))) := by
  simp only [decodeAvp_view]
  exact reserved_octets_ignored t r r' s s' q

/-- the value octets of a vendor-specific AVP (in the specification's reading of a record list) -/
theorem vendor_value_irrelevant (fuel : Nat) (a b c d e f : UInt8) (p p' rest : Bytes)
    (hv : word16 c d ≠ 0) (hl : p.length = p'.length)
    (hlen : avpLen (a :: b :: c :: d :: e :: f :: (p ++ rest)) = 6 + p.length) :
    Spec.avps fuel (a :: b :: c :: d :: e :: f :: (p ++ rest)) = Spec.avps fuel (a :: b :: c :: d :: e :: f :: (p' ++ rest)) :=
  avps_vendor_value_irrelevant fuel a b c d e f p p' rest hv hl hlen

/-- the pad octets of a data message's offset field: skipped, never read -/
theorem offset_pad_octets_irrelevant (x : UInt8) (h pad pad' rest : Bytes) (hO : bitO x = true)
    (hh : h.length = headerSize x) (hp : pad.length = (u16At h (headerSize x - 2)).toNat) (hp' : pad'.length = pad.length) :
    Spec.dataMessage x (h ++ pad ++ rest) = Spec.dataMessage x (h ++ pad' ++ rest) :=
  offset_pad_irrelevant x h pad pad' rest hO hh hp hp'

/-- each of the 39 payload decoders against its row of the format table, for all 65 536 attribute
    types and every payload -/
theorem decodePayload_eq_parse (t : UInt16) (p : Bytes) :
    viewAvp ((decodeAvp t : M Bytes DErr AVP) p) = Spec.parsePayload t p :=
  decodeAvp_view t p

/-- "UTF-8 constraints": the specification's text predicate (a transcription of Unicode table 3-7, the one the
    four text AVPs and the two optional messages are checked with) accepts exactly the octet strings that are the
    UTF-8 encoding of a sequence of Unicode scalar values — encoding as defined by Lean's core library, not by us -/
theorem utf8_valid_iff_encoding (bs : Bytes) :
    Spec.Utf8.valid bs = true ↔ ∃ cs : List Char, bs = cs.flatMap String.utf8EncodeChar :=
  Spec.Utf8.valid_iff_encoding bs

/-- … i.e. exactly the byte arrays a Lean `String` can be made of -/
theorem utf8_valid_iff_isValidUTF8 (bs : Bytes) : Spec.Utf8.valid bs = true ↔ bs.toByteArray.IsValidUTF8 :=
  Spec.Utf8.valid_iff_isValidUTF8 bs

/-! non-vacuity: the specification accepts the README's example and rejects it when Length lies -/
def readme : Bytes := [0x13, 0x20, 0, 0x14, 0, 2, 0, 3, 0, 4, 0, 5, 0, 8, 0, 0, 0, 0, 0, 1]
example : Spec.decode Opts.strict readme =
    some (.control { length := 20, tunnelId := 2, sessionId := 3, ns := 4, nr := 5,
                     avps := [.messageType .startControlConnectionRequest] }, 20) := by decide
example : Spec.decode Opts.strict (readme.set 3 0x15) = none := by decide
example : Spec.decode Opts.default [0x02, 0x20, 0, 9, 0, 7, 0, 9, 0xAA] =
    some (.data { prio := false, length := some 9, tunnelId := 7, sessionId := 9, nsnr := none, offset := none,
                  data := [0xAA] }, 9) := by decide

/-! ### guards and sizes as the source has them now (re-read by bin/gentables on every run) -/

/-- the source's AVP header size and fixed control header size are the model's: fewer octets than `Header::LENGTH` give
    no record and exactly that many give one; a Length field below `FIXED_LENGTH` is refused and one equal to it accepted -/
theorem source_header_sizes :
    ((∀ n ∈ List.range (GenSizes.cc "HEADER_LENGTH"), (greedy : M Bytes DErr (List Res)) (GenSizes.zeros n) = .ok [] (GenSizes.zeros n)) ∧
     (match (greedy : M Bytes DErr (List Res)) (GenSizes.zeros (GenSizes.cc "HEADER_LENGTH")) with | .ok [_] _ => true | _ => false) = true) ∧
    ((∀ l ∈ List.range (GenSizes.cc "CONTROL_FIXED_LENGTH"),
      (decode Opts.strict : M Bytes (List DErr) Msg) ([0x13, 0x20, 0, UInt8.ofNat l] ++ GenSizes.zeros 8)
        = .err [.incompleteControlMessageHeader] []) ∧
     (match (decode Opts.strict : M Bytes (List DErr) Msg) ([0x13, 0x20, 0, UInt8.ofNat (GenSizes.cc "CONTROL_FIXED_LENGTH")] ++ GenSizes.zeros 8) with
      | .ok (.control c) [] => c.avps.isEmpty | _ => false) = true) :=
  ⟨GenSizes.header_length_is_model, GenSizes.control_fixed_length_is_model⟩

/-- the version the source's decoder insists on by default (`PROTOCOL_VERSION`) is the model's -/
theorem source_protocol_version :
    ∀ v ∈ List.range 16, v ≠ GenSizes.cc "PROTOCOL_VERSION" →
      (decodeDefault : M Bytes (List DErr) Msg) ([0x13, UInt8.ofNat (16 * v), 0, 12] ++ GenSizes.zeros 8)
        = .err [.invalidVersion (UInt8.ofNat v)] ([0, 12] ++ GenSizes.zeros 8) :=
  GenSizes.protocol_version_is_model.1

end Rl2tp.C05
