/-
  C07 — every emitted length field is exact; oversize values are refused, not truncated.
-/
import Rl2tp.Proofs.Control
import Rl2tp.Model.Hide
import Rl2tp.Proofs.GenSizes
import Rl2tp.Proofs.GenKinds
namespace Rl2tp.C07

/-! ### an independent length walker (`Tiles`) -/

/-- the 10-bit length a record announces in its first two octets -/
def recLen : Bytes → Option Nat
  | a :: c :: _ => some ((a.toNat / 64) * 256 + c.toNat)
  | _ => none

/-- records, each exactly as long as its own length field says (at least a header), filling the body -/
def tilesAvps : Nat → Bytes → Bool
  | _, [] => true
  | 0, _ :: _ => false
  | fuel + 1, b@(_ :: _) =>
    match recLen b with
    | some l => decide (6 ≤ l) && decide (l ≤ b.length) && tilesAvps fuel (b.drop l)
    | none => false

def lengthField : Bytes → Option Nat
  | _ :: _ :: a :: b :: _ => some (a.toNat * 256 + b.toNat)
  | _ => none

/-- a control image: Length field = image size, then records tiling the body exactly -/
def tilesControl (img : Bytes) : Bool :=
  decide (12 ≤ img.length) && (lengthField img == some img.length) && tilesAvps img.length (img.drop 12)

theorem recLen_image (a : AVP) (rest : Bytes) (h : 6 + a.value.length ≤ 1023) :
    recLen (avpImage a ++ rest) = some (6 + a.value.length) := by
  simp only [avpImage, List.cons_append, recLen]
  have e2 : (UInt8.ofNat ((6 + a.value.length) % 256)).toNat = (6 + a.value.length) % 256 := u8_small (by omega)
  rw [flagOctet_toNat, e2]
  congr 1
  split <;> omega

theorem avpImage_cons (a : AVP) : ∃ x t, avpImage a = x :: t := ⟨_, _, rfl⟩

theorem tilesAvps_images (as : List AVP) (fuel : Nat) (h : ∀ a ∈ as, 6 + a.value.length ≤ 1023)
    (hf : (avpsImage as).length ≤ fuel) : tilesAvps fuel (avpsImage as) = true := by
  induction as generalizing fuel with
  | nil => cases fuel <;> rfl
  | cons a as ih =>
    have ha := h a (by simp)
    simp only [avpsImage, List.flatMap_cons] at hf ⊢
    have hlen : (avpImage a ++ List.flatMap avpImage as).length = 6 + a.value.length + (avpsImage as).length := by
      simp [avpImage_length, avpsImage]
    cases fuel with
    | zero => rw [hlen] at hf; omega
    | succ n =>
      obtain ⟨x, t, hx⟩ := avpImage_cons a
      have hrl := recLen_image a (List.flatMap avpImage as) ha
      rw [hx] at hrl ⊢
      rw [List.cons_append] at hrl
      simp only [List.cons_append, tilesAvps, hrl]
      have hd : ((x :: t) ++ List.flatMap avpImage as).drop (6 + a.value.length) = avpsImage as := by
        rw [← hx, ← avpImage_length a, List.drop_left' rfl]; rfl
      have hl2 : 6 + a.value.length ≤ (x :: (t ++ List.flatMap avpImage as)).length := by
        have : (x :: (t ++ List.flatMap avpImage as)).length = (avpImage a ++ List.flatMap avpImage as).length := by
          rw [hx]; rfl
        rw [this, hlen]; omega
      rw [List.cons_append] at hd
      have d1 : decide (6 ≤ 6 + a.value.length) = true := decide_eq_true (by omega)
      have d2 : decide (6 + a.value.length ≤ (x :: (t ++ List.flatMap avpImage as)).length) = true := decide_eq_true hl2
      rw [hd, ih n (fun y hy => h y (by simp [hy])) (by rw [hlen] at hf; omega), d1, d2]
      rfl

/-- whenever control-message encoding returns, the Length field equals the octets emitted and the AVPs
    tile the body exactly — whatever the writer held before -/
theorem encode_tiles (w : Bytes) (c : Control) (out : Bytes) (h : writeControl w c = .ok out) :
    ∃ img, out = w ++ img ∧ tilesControl img = true := by
  by_cases ha : ∀ a ∈ c.avps, 6 + a.value.length ≤ 1023
  · by_cases hl : 12 + (avpsImage c.avps).length ≤ 65535
    · rw [writeControl_eq w c ha hl] at h
      cases h
      refine ⟨controlImage c, rfl, ?_⟩
      unfold tilesControl
      have h12 : (controlImage c).drop 12 = avpsImage c.avps := by simp [controlImage, be16]
      have hlf : lengthField (controlImage c) = some (controlImage c).length := by
        rw [controlImage_length]
        simp only [controlImage, be16, List.cons_append, List.nil_append, lengthField]
        have e := u16_small (show 12 + (avpsImage c.avps).length < 65536 by omega)
        rw [e]
        have e1 : (UInt8.ofNat ((12 + (avpsImage c.avps).length) / 256)).toNat = (12 + (avpsImage c.avps).length) / 256 :=
          u8_small (by omega)
        have e2 : (UInt8.ofNat ((12 + (avpsImage c.avps).length) % 256)).toNat = (12 + (avpsImage c.avps).length) % 256 :=
          u8_small (by omega)
        rw [e1, e2]; congr 1; omega
      rw [h12, hlf, tilesAvps_images _ _ ha (by rw [controlImage_length]; omega)]
      simp [controlImage_length]
    · rw [writeControl_oversize w c ha (by omega)] at h; cases h
  · have : ∃ a ∈ c.avps, 6 + a.value.length > 1023 := by
      false_or_by_contra
      rename_i hn
      apply ha
      intro a hm
      false_or_by_contra
      rename_i hh
      exact hn ⟨a, hm, by omega⟩
    unfold writeControl at h
    simp only [] at h
    rw [writeAvps_oversize _ _ this] at h
    cases h

/-- `get_length` (kept by hand per type in the code) is the number of value octets the writer emits -/
theorem getLength_exact (a : AVP) : a.getLength = a.value.length := by
  cases a with
  | resultCode c e =>
    match e with
    | none => rfl
    | some (et, none) => rfl
    | some (et, some m) => simp [AVP.getLength, AVP.value]; omega
  | q931CauseCode c m adv =>
    match adv with
    | none => rfl
    | some a => simp [AVP.getLength, AVP.value]; omega
  | _ => first | rfl | simp [AVP.getLength, AVP.value]

/-- whenever AVP encoding returns: appended octets = 6 + get_length, and the 10-bit length field says so -/
theorem avp_length_exact (w : Bytes) (a : AVP) (out : Bytes) (h : writeAvp w a = .ok out) :
    ∃ img, out = w ++ img ∧ img.length = 6 + a.getLength ∧ recLen img = some img.length := by
  by_cases hl : 6 + a.value.length ≤ 1023
  · rw [writeAvp_eq w a hl] at h
    cases h
    refine ⟨avpImage a, rfl, by rw [avpImage_length, getLength_exact], ?_⟩
    have := recLen_image a [] hl
    rw [List.append_nil] at this
    rw [this, avpImage_length]
  · rw [writeAvp_oversize w a (by omega)] at h; cases h

/-- an AVP over 1023 octets is refused -/
theorem avp_oversize_refused (w : Bytes) (a : AVP) (h : 6 + a.getLength > 1023) :
    writeAvp w a = .error .panic :=
  writeAvp_oversize w a (by rw [← getLength_exact]; exact h)

/-- a control message over 65535 octets is refused (all its AVPs being encodable) -/
theorem control_oversize_refused (w : Bytes) (c : Control) (ha : ∀ a ∈ c.avps, 6 + a.value.length ≤ 1023)
    (h : 12 + (avpsImage c.avps).length > 65535) : writeControl w c = .error .panic :=
  writeControl_oversize w c ha h

/-- a control message that contains an AVP over 1023 octets is refused, wherever the AVP stands -/
theorem control_with_oversize_avp_refused (w : Bytes) (c : Control) (h : ∃ a ∈ c.avps, 6 + a.getLength > 1023) :
    writeControl w c = .error .panic := by
  obtain ⟨a, ha, hl⟩ := h
  unfold writeControl
  simp only []
  rw [writeAvps_oversize _ _ ⟨a, ha, by rw [← getLength_exact]; exact hl⟩]

/-- every message too large in either way is refused: over 65535 octets in all, or with an AVP over 1023 — no
    side condition -/
theorem control_any_oversize_refused (w : Bytes) (c : Control)
    (h : (∃ a ∈ c.avps, 6 + a.getLength > 1023) ∨ 12 + (c.avps.map fun a => 6 + a.getLength).sum > 65535) :
    writeControl w c = .error .panic := by
  by_cases ha : ∃ a ∈ c.avps, 6 + a.getLength > 1023
  · exact control_with_oversize_avp_refused w c ha
  · have hall : ∀ a ∈ c.avps, 6 + a.value.length ≤ 1023 := by
      intro a hm
      false_or_by_contra
      rename_i hh
      exact ha ⟨a, hm, by rw [getLength_exact]; omega⟩
    rcases h with h | h
    · exact absurd h ha
    · apply writeControl_oversize w c hall
      have : (avpsImage c.avps).length = (c.avps.map fun a => 6 + a.getLength).sum := by
        clear hall ha h
        induction c.avps with
        | nil => rfl
        | cons a as ih =>
          simp only [avpsImage, List.flatMap_cons, List.length_append, List.map_cons, List.sum_cons] at ih ⊢
          rw [avpImage_length, getLength_exact, ih]
      omega

/-- encoding either returns or fails loudly — it has no third outcome (no undefined behaviour, no silent truncation) -/
theorem control_ok_or_panic (w : Bytes) (c : Control) :
    (∃ out, writeControl w c = .ok out) ∨ writeControl w c = .error .panic := by
  by_cases ha : ∀ a ∈ c.avps, 6 + a.value.length ≤ 1023
  · by_cases hl : 12 + (avpsImage c.avps).length ≤ 65535
    · exact .inl ⟨_, writeControl_eq w c ha hl⟩
    · exact .inr (writeControl_oversize w c ha (by omega))
  · right
    apply control_with_oversize_avp_refused
    false_or_by_contra
    rename_i hn
    apply ha
    intro a hm
    false_or_by_contra
    rename_i hh
    exact hn ⟨a, hm, by rw [getLength_exact]; omega⟩

theorem avp_ok_or_panic (w : Bytes) (a : AVP) : (∃ out, writeAvp w a = .ok out) ∨ writeAvp w a = .error .panic := by
  by_cases hl : 6 + a.value.length ≤ 1023
  · exact .inl ⟨_, writeAvp_eq w a hl⟩
  · exact .inr (writeAvp_oversize w a (by omega))

/-- **The tiles are the AVPs.**  Whenever control-message encoding returns, what was appended is the 12-octet header
    followed by one image per AVP, in order; the i-th image is exactly `6 + get_length` of the i-th AVP long and its
    own 10-bit length field says so; the header's Length field is the size of all of it. -/
theorem encode_tiles_exact (w : Bytes) (c : Control) (out : Bytes) (h : writeControl w c = .ok out) :
    ∃ hdr : Bytes, ∃ imgs : List Bytes,
      out = w ++ hdr ++ imgs.flatten ∧ hdr.length = 12 ∧ imgs.length = c.avps.length ∧
      lengthField (hdr ++ imgs.flatten) = some (12 + imgs.flatten.length) ∧
      (∀ i (hi : i < imgs.length) (hj : i < c.avps.length),
        imgs[i].length = 6 + (c.avps[i]).getLength ∧ recLen imgs[i] = some imgs[i].length) := by
  have ha : ∀ a ∈ c.avps, 6 + a.value.length ≤ 1023 := by
    intro a hm
    false_or_by_contra
    rename_i hh
    rw [control_with_oversize_avp_refused w c ⟨a, hm, by rw [getLength_exact]; omega⟩] at h
    cases h
  have hl : 12 + (avpsImage c.avps).length ≤ 65535 := by
    false_or_by_contra
    rename_i hh
    rw [writeControl_oversize w c ha (by omega)] at h
    cases h
  rw [writeControl_eq w c ha hl] at h
  cases h
  refine ⟨(controlImage c).take 12, c.avps.map avpImage, ?_, ?_, by simp, ?_, ?_⟩
  · have h12 : (controlImage c).drop 12 = avpsImage c.avps := by simp [controlImage, be16]
    have : (c.avps.map avpImage).flatten = avpsImage c.avps := by simp [avpsImage, List.flatMap]
    rw [this, ← h12, List.append_assoc, List.take_append_drop]
  · have := controlImage_length c
    simp only [List.length_take]; omega
  · have h12 : (controlImage c).drop 12 = avpsImage c.avps := by simp [controlImage, be16]
    have hf : (c.avps.map avpImage).flatten = avpsImage c.avps := by simp [avpsImage, List.flatMap]
    have hlf : lengthField (controlImage c) = some (controlImage c).length := by
      rw [controlImage_length]
      simp only [controlImage, be16, List.cons_append, List.nil_append, lengthField]
      have e := u16_small (show 12 + (avpsImage c.avps).length < 65536 by omega)
      rw [e]
      have e1 : (UInt8.ofNat ((12 + (avpsImage c.avps).length) / 256)).toNat = (12 + (avpsImage c.avps).length) / 256 :=
        u8_small (by omega)
      have e2 : (UInt8.ofNat ((12 + (avpsImage c.avps).length) % 256)).toNat = (12 + (avpsImage c.avps).length) % 256 :=
        u8_small (by omega)
      rw [e1, e2]; congr 1; omega
    have hwhole : (controlImage c).take 12 ++ (c.avps.map avpImage).flatten = controlImage c := by
      rw [hf, ← h12, List.take_append_drop]
    rw [hwhole, hlf, controlImage_length, hf]
  · intro i hi hj
    simp only [List.getElem_map]
    have hm : c.avps[i] ∈ c.avps := List.getElem_mem hj
    refine ⟨by rw [avpImage_length, getLength_exact], ?_⟩
    have := recLen_image c.avps[i] [] (ha _ hm)
    rw [List.append_nil] at this
    rw [this, avpImage_length]

/-- `hide` refuses an AVP whose original length does not fit the length subfield -/
theorem hide_oversize_refused (md5 : Bytes → Bytes) (a : AVP) (s : Bytes) (rv : UInt32) (lp ap : Bytes)
    (hh : a.isHidden = false) (h : 6 + a.value.length > 1023) : hide md5 a s rv lp ap = .error .panic := by
  have hp : a.payload.length + 6 - 2 > 1023 := by rw [payload_length]; omega
  unfold hide
  rw [if_neg (by simp [hh]), if_pos hp]

/-! non-vacuity -/
example : tilesControl [0x13, 0x20, 0, 20, 0, 1, 0, 2, 0, 3, 0, 4, 1, 8, 0, 0, 0, 0, 0, 1] = true := by decide
example : tilesControl [0x13, 0x20, 0, 20, 0, 1, 0, 2, 0, 3, 0, 4, 1, 9, 0, 0, 0, 0, 0, 1] = false := by decide
/-- the encoder returns on a small message and refuses a 1018-octet value: both sides of every theorem are inhabited -/
example : writeControl [0xAA] ⟨0, 1, 2, 3, 4, [.messageType .hello]⟩ =
    .ok [0xAA, 0x13, 0x20, 0, 20, 0, 1, 0, 2, 0, 3, 0, 4, 1, 8, 0, 0, 0, 0, 0, 6] := by decide
example (v : Bytes) (h : v.length = 1018) : 6 + (AVP.hostName v).getLength > 1023 := by
  show 6 + v.length > 1023
  omega

/-- the source's `LENGTH_BITS` (from which it derives `MAX_LENGTH = (1 << LENGTH_BITS) - 1`) and `Header::LENGTH` are the
    10 and the 6 the bounds above are stated with (re-read by bin/gentables on every run) -/
theorem source_length_bits :
    GenSizes.cc "LENGTH_BITS" = 10 ∧ 2 ^ GenSizes.cc "LENGTH_BITS" - 1 = 1023 ∧ GenSizes.cc "HEADER_LENGTH" = 6 ∧
    GenSizes.cc "ATTRIBUTE_TYPE_SIZE" = 2 :=
  ⟨GenSizes.codec_constants_pinned.2.2.1, GenSizes.codec_constants_pinned.2.2.2.2.2.2.2.2.2, GenSizes.codec_constants_pinned.2.2.2.2.1,
   GenSizes.codec_constants_pinned.2.1⟩

/-- where the source's `get_length` returns a constant (`Self::LENGTH`, or 0), the model's `getLength` of a value of that
    kind is that constant (re-read by bin/gentables on every run) -/
theorem source_fixed_lengths :
    ∀ r ∈ Gen.typeConstants, ∀ l, r.2.2.2.2 = some l → (GenKinds.sampleAvp r.1).map AVP.getLength = some l :=
  GenKinds.fixed_lengths_is_model

end Rl2tp.C07
