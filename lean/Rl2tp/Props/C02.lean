/-
  C02 — the decoder never reads outside its input, whatever reader backs it.
  (a) On the reference cursor, whose primitives fault exactly when the Rust contract is violated
      (`ub` for the `*_unchecked` reads, `panic` for `skip_bytes` / `subreader` past the end), no fault
      is reachable: every unchecked request lies within the octets that remain.
  (b) For *any* reader implementation that honours the contract, the decoded result is the cursor's.
-/
import Rl2tp.Proofs.Sim2
import Rl2tp.Proofs.RevealTotal
import Rl2tp.Proofs.Checked
import Rl2tp.Proofs.GenGuards
namespace Rl2tp.C02

/-- every request issued while decoding a message has its precondition satisfied -/
theorem decode_contract (o : Opts) (b : Bytes) (f : Fault) : (decode o : M Bytes (List DErr) Msg) b ≠ .fault f := by
  have h := decode_good o b
  intro hf
  rw [hf] at h
  exact h

/-- … while decoding a bare AVP list -/
theorem greedy_contract (b : Bytes) (f : Fault) : (greedy : M Bytes DErr (List Res)) b ≠ .fault f := greedy_noFault b f

/-- … in each per-type decoder called directly, for every attribute type -/
theorem payload_contract (t : UInt16) (p : Bytes) (f : Fault) : (decodeAvp t : M Bytes DErr AVP) p ≠ .fault f :=
  decodeAvp_noFault t p f

/-- … and in `reveal`, which re-parses decrypted octets through the same unchecked reader -/
theorem reveal_contract (md5 : Bytes → Bytes) (hmd5 : ∀ x, (md5 x).length = 16) (a : AVP) (s : Bytes) (rv : UInt32)
    (f : Fault) : reveal md5 a s rv ≠ .error f :=
  reveal_noFault md5 hmd5 a s rv f

/-- the result is identical for every reader implementation that honours the reader contract -/
theorem decode_any_reader {ρ : Type} [Rdr ρ] {abs : ρ → Bytes} (hc : Conforms ρ abs) (o : Opts) (r : ρ) :
    (∃ m r', (decode o : M ρ (List DErr) Msg) r = .ok m r' ∧
        (decode o : M Bytes (List DErr) Msg) (abs r) = .ok m (abs r')) ∨
    (∃ es r', (decode o : M ρ (List DErr) Msg) r = .err es r' ∧
        (decode o : M Bytes (List DErr) Msg) (abs r) = .err es (abs r')) :=
  Rl2tp.decode_any_reader hc o r

theorem greedy_any_reader {ρ : Type} [Rdr ρ] {abs : ρ → Bytes} (hc : Conforms ρ abs) (r : ρ) :
    ∃ rs r', (greedy : M ρ DErr (List Res)) r = .ok rs r' ∧
      (greedy : M Bytes DErr (List Res)) (abs r) = .ok rs (abs r') :=
  Rl2tp.greedy_any_reader hc r

theorem payload_any_reader {ρ : Type} [Rdr ρ] {abs : ρ → Bytes} (hc : Conforms ρ abs) (t : UInt16) (r : ρ) :
    (∃ a r', (decodeAvp t : M ρ DErr AVP) r = .ok a r' ∧ (decodeAvp t : M Bytes DErr AVP) (abs r) = .ok a (abs r')) ∨
    (∃ e r', (decodeAvp t : M ρ DErr AVP) r = .err e r' ∧ (decodeAvp t : M Bytes DErr AVP) (abs r) = .err e (abs r')) :=
  decodeAvp_any_reader hc t r

/-! ### "every call issued to R has its precondition satisfied", for every conforming R

`Checked ρ` (Proofs/Checked.lean) passes a request on to the wrapped reader only when it lies within what that reader
reports as left, and turns any other unchecked request into a fault.  The decoder run over `Checked ρ` never faults:
not one request of the run — fixed-width read, skip, sub-range — was out of contract.  This is a statement about
the calls, not only about the result: a poisoned answer that the decoder later discards would still have been a fault. -/

theorem decode_calls_in_contract {ρ : Type} [Rdr ρ] {abs : ρ → Bytes} (hc : Conforms ρ abs) (o : Opts) (r : ρ) (f : Fault) :
    (decode o : M (Checked ρ) (List DErr) Msg) ⟨r⟩ ≠ .fault f :=
  Sim.noFault (decode_sim (checked_conforms hc) o) (fun s g => decode_contract o s g) ⟨r⟩ f

theorem greedy_calls_in_contract {ρ : Type} [Rdr ρ] {abs : ρ → Bytes} (hc : Conforms ρ abs) (r : ρ) (f : Fault) :
    (greedy : M (Checked ρ) DErr (List Res)) ⟨r⟩ ≠ .fault f :=
  Sim.noFault (greedy_sim (checked_conforms hc)) (fun s g => greedy_contract s g) ⟨r⟩ f

theorem payload_calls_in_contract {ρ : Type} [Rdr ρ] {abs : ρ → Bytes} (hc : Conforms ρ abs) (t : UInt16) (r : ρ) (f : Fault) :
    (decodeAvp t : M (Checked ρ) DErr AVP) ⟨r⟩ ≠ .fault f :=
  Sim.noFault (decodeAvp_sim (checked_conforms hc) t) (fun s g => payload_contract t s g) ⟨r⟩ f

/-- … and the wrapper is not in the way: through it the decoder returns what it returns on the cursor -/
theorem decode_checked_result {ρ : Type} [Rdr ρ] {abs : ρ → Bytes} (hc : Conforms ρ abs) (o : Opts) (r : ρ) :
    (∃ m r', (decode o : M (Checked ρ) (List DErr) Msg) ⟨r⟩ = .ok m r' ∧
        (decode o : M Bytes (List DErr) Msg) (abs r) = .ok m (abs r'.inner)) ∨
    (∃ es r', (decode o : M (Checked ρ) (List DErr) Msg) ⟨r⟩ = .err es r' ∧
        (decode o : M Bytes (List DErr) Msg) (abs r) = .err es (abs r'.inner)) :=
  decode_any_reader (checked_conforms hc) o ⟨r⟩

/-! ### non-vacuity: a conforming reader that is *not* the cursor.
    `Poison` never refuses: out of contract it answers 0xA5… and jumps to the end (what the harness's
    PoisonReader does). It conforms, so the theorem applies to it: the decoder cannot tell. -/

structure Poison where
  rest : Bytes
  calls : Nat

instance : Rdr Poison where
  len r := r.rest.length
  u8 r := match r.rest with
    | a :: t => .ok (a, ⟨t, r.calls + 1⟩)
    | _ => .ok (0xA5, ⟨[], r.calls + 1⟩)
  u16 r := match r.rest with
    | a :: b :: t => .ok (word16 a b, ⟨t, r.calls + 1⟩)
    | _ => .ok (0xA5A5, ⟨[], r.calls + 1⟩)
  u32 r := match r.rest with
    | a :: b :: c :: d :: t => .ok (word32 a b c d, ⟨t, r.calls + 1⟩)
    | _ => .ok (0xA5A5A5A5, ⟨[], r.calls + 1⟩)
  u64 r := match r.rest with
    | a :: b :: c :: d :: e :: f :: g :: h :: t => .ok (word64 a b c d e f g h, ⟨t, r.calls + 1⟩)
    | _ => .ok (0xA5A5A5A5A5A5A5A5, ⟨[], r.calls + 1⟩)
  skip r n := .ok ⟨r.rest.drop n, r.calls + 1⟩
  sub r n := .ok (⟨r.rest.take n, 0⟩, ⟨r.rest.drop n, r.calls + 1⟩)
  bytes r n := if n ≤ r.rest.length then some (r.rest.take n, ⟨r.rest.drop n, r.calls + 1⟩) else none

theorem poison_conforms : Conforms Poison (·.rest) where
  len _ := rfl
  u8 r v c h := by
    obtain ⟨rest, calls⟩ := r
    match rest, h with
    | a :: t, h => simp only [Rdr.u8, Except.ok.injEq, Prod.mk.injEq] at h ⊢; exact ⟨_, ⟨h.1, rfl⟩, h.2⟩
  u16 r v c h := by
    obtain ⟨rest, calls⟩ := r
    match rest, h with
    | a :: b :: t, h => simp only [Rdr.u16, Except.ok.injEq, Prod.mk.injEq] at h ⊢; exact ⟨_, ⟨h.1, rfl⟩, h.2⟩
  u32 r v c h := by
    obtain ⟨rest, calls⟩ := r
    match rest, h with
    | a :: b :: c' :: d :: t, h => simp only [Rdr.u32, Except.ok.injEq, Prod.mk.injEq] at h ⊢; exact ⟨_, ⟨h.1, rfl⟩, h.2⟩
  u64 r v c h := by
    obtain ⟨rest, calls⟩ := r
    match rest, h with
    | a :: b :: c' :: d :: e :: f :: g :: i :: t, h =>
      simp only [Rdr.u64, Except.ok.injEq, Prod.mk.injEq] at h ⊢; exact ⟨_, ⟨h.1, rfl⟩, h.2⟩
  skip r n c h := by
    simp only [Rdr.skip] at h ⊢
    split at h
    · simp only [Except.ok.injEq] at h; exact ⟨_, rfl, h⟩
    · cases h
  sub r n s c h := by
    simp only [Rdr.sub] at h ⊢
    split at h
    · simp only [Except.ok.injEq, Prod.mk.injEq] at h; exact ⟨_, _, rfl, h.1, h.2⟩
    · cases h
  bytesSome r n b c h := by
    simp only [Rdr.bytes] at h ⊢
    split at h
    · rename_i hn
      simp only [Option.some.injEq, Prod.mk.injEq] at h
      exact ⟨_, by rw [if_pos hn, h.1], h.2⟩
    · cases h
  bytesNone r n h := by
    simp only [Rdr.bytes] at h ⊢
    split at h
    · cases h
    · rename_i hn; rw [if_neg hn]

/-- the decoder over the poison reader returns what the cursor returns -/
example (o : Opts) (b : Bytes) :
    (∃ m r', (decode o : M Poison (List DErr) Msg) ⟨b, 0⟩ = .ok m r' ∧ (decode o : M Bytes (List DErr) Msg) b = .ok m r'.rest) ∨
    (∃ es r', (decode o : M Poison (List DErr) Msg) ⟨b, 0⟩ = .err es r' ∧ (decode o : M Bytes (List DErr) Msg) b = .err es r'.rest) :=
  decode_any_reader poison_conforms o ⟨b, 0⟩

/-- the policed poison reader: every request the decoder makes of it is in contract, for every input and option set -/
example (o : Opts) (b : Bytes) (f : Fault) : (decode o : M (Checked Poison) (List DErr) Msg) ⟨⟨b, 0⟩⟩ ≠ .fault f :=
  decode_calls_in_contract poison_conforms o ⟨b, 0⟩ f

/-- the wrapper does police: an unchecked 2-octet read with one octet left is a fault, although `Poison` itself would
    have answered 0xA5A5 -/
example : (Rdr.u16 (⟨⟨[7], 0⟩⟩ : Checked Poison)).isOk = false ∧ (Rdr.u16 (⟨[7], 0⟩ : Poison)).isOk = true := by decide

/-! ### guards and sizes as the source has them now (re-read by bin/gentables on every run) -/

/-- for each kind whose first guard (`reader.len() < Self::LENGTH`) stands in front of unchecked reads in the *source as it
    is now*, the least payload length that guard lets through is the model's: below it the model's decoder of the kind of
    that name refuses the payload as incomplete, at it it does not — so the unchecked reads behind each guard are the
    ones the model's theorem is about -/
theorem source_unchecked_guards :
    ∀ r ∈ Gen.typeConstants, r.2.2.2.1 = true →
      (∀ n ∈ List.range r.2.2.1, GenGuards.refusedAsIncomplete (GenGuards.numberOf r.2.1) n = true) ∧
      GenGuards.refusedAsIncomplete (GenGuards.numberOf r.2.1) r.2.2.1 = false :=
  GenGuards.unchecked_guards_is_model

end Rl2tp.C02
