/-
  C03 — control messages and all AVP kinds survive encode then decode unchanged.
  For every value in the encodable domain, no bound on the number of AVPs or on payload sizes other
  than the wire limits themselves.
-/
import Rl2tp.Proofs.Control
import Rl2tp.Proofs.GenKinds
namespace Rl2tp.C03

/-- the encodable domain is decidable and is what the statement quantifies over:
    variable parts non-empty, strings well-formed UTF-8, optional tails not empty, ≤ 1023 octets -/
example (a : AVP) : Decidable a.Encodable := inferInstance

/-- every well-formed value decodes back from its own value octets (all 39 kinds, full value ranges) -/
theorem payload_roundtrip (a : AVP) (hw : a.wf = true) (hh : a.isHidden = false) :
    (decodeAvp a.attr : M Bytes DErr AVP) a.value = .ok a [] :=
  Rl2tp.payload_roundtrip a hw hh

/-- `AVP::write` then `AVP::try_read_greedy` yields exactly `[Ok a]` and consumes everything —
    for all 39 standard kinds and for opaque hidden AVPs -/
theorem avp_roundtrip (a : AVP) (he : a.Encodable) :
    ∃ img, encodeAvp a = .ok img ∧ (greedy : M Bytes DErr (List Res)) img = .ok [.ok a] [] := by
  refine ⟨avpImage a, ?_, Rl2tp.avp_roundtrip a he⟩
  have := writeAvp_eq [] a he.2
  simpa [encodeAvp] using this

/-- hidden AVPs: any attribute type, any value of at most 1017 octets (the empty one included) -/
theorem hidden_roundtrip (t : UInt16) (v : Bytes) (h : v.length ≤ 1017) :
    ∃ img, encodeAvp (.hidden t v) = .ok img ∧
      (greedy : M Bytes DErr (List Res)) img = .ok [.ok (.hidden t v)] [] :=
  avp_roundtrip (.hidden t v) ⟨rfl, by simp [AVP.value]; omega⟩

/-- the greedy reader peels one encodable AVP off the front of anything -/
theorem greedy_cons (a : AVP) (rest : Bytes) (he : a.Encodable) (rs : List Res) (r : Bytes)
    (hr : (greedy : M Bytes DErr (List Res)) rest = .ok rs r) :
    (greedy : M Bytes DErr (List Res)) (avpImage a ++ rest) = .ok (.ok a :: rs) r := by
  rw [greedy_image a rest he, hr]; rfl

/-- Control messages: encode, then decode under *any* validation options (the strictest included),
    gives back the same ids, Ns/Nr and AVP list, with Length equal to the number of octets emitted. -/
theorem control_roundtrip (c : Control) (o : Opts) (he : ∀ a ∈ c.avps, a.Encodable)
    (hf : firstIsMessageType c.avps = true) (hl : 12 + (avpsImage c.avps).length ≤ 65535) :
    ∃ img, encode (.control c) = .ok img ∧
      (decode o : M Bytes (List DErr) Msg) img = .ok (.control { c with length := UInt16.ofNat img.length }) [] := by
  refine ⟨controlImage c, ?_, ?_⟩
  · have := writeControl_eq [] c (fun a ha => (he a ha).2) hl
    simpa [encode, writeMsg] using this
  · have hcore := decodeControlCore_image c [] he hf hl
    rw [List.append_nil] at hcore
    have himg : controlImage c = 0x13 :: 0x20 :: (controlImage c).drop 2 := by
      simp [controlImage, be16, controlFlags_val]
    rw [controlImage_length]
    rw [himg, decode_cons]
    have hw : word16 0x13 0x20 = controlFlags := by decide
    rw [hw]
    have h1 : version controlFlags = 2 := by decide
    have h2 : reservedOk controlFlags = true := by decide
    have h3 : isControl controlFlags = true := by decide
    have h4 : isPrioritized controlFlags = false := by decide
    have h5 : hasOffset controlFlags = false := by decide
    simp only [h1, h2, h3, ne_eq, not_true_eq_false, decide_false, Bool.and_false, Bool.false_eq_true, if_false,
      Bool.not_true, if_true, decodeControl_eq, h4, h5]
    exact hcore

/-- the size of what is emitted, so that the hypothesis `≤ 65535` is about the real message size -/
theorem control_size (c : Control) : (controlImage c).length = 12 + (c.avps.map fun a => 6 + a.value.length).sum := by
  rw [controlImage_length]
  congr 1
  induction c.avps with
  | nil => rfl
  | cons a as ih => simp [avpsImage, avpImage_length] at ih ⊢; first | omega | done

/-! non-vacuity: a three-AVP SCCRQ and a 1017-octet challenge are in the domain -/
example : (AVP.messageType .startControlConnectionRequest).Encodable ∧ (AVP.protocolVersion 1 0).Encodable ∧
    (AVP.hostName [0x6c, 0x61, 0x63]).Encodable := by decide
example (v : Bytes) (h : v.length = 1017) : (AVP.challenge v).Encodable :=
  ⟨by cases v <;> simp_all [AVP.wf], by simp [AVP.value]; omega⟩
example : ¬ (AVP.hostName []).Encodable := by decide

/-! ### the attribute numbers as the source has them now (re-read by bin/gentables on every run) -/

/-- each kind's own `ATTRIBUTE_TYPE` constant — what its writer emits — is the number the source's dispatch decodes
    that kind under, and it is the number the model's writer emits for the kind of that name -/
theorem source_attribute_numbers :
    Gen.typeConstants.map (fun r => (r.1, r.2.1)) = Gen.dispatch ∧
    ∀ r ∈ Gen.typeConstants, (GenKinds.sampleAvp r.1).map (fun a => (Text.kindName a, a.attr.toNat)) = some (r.2.1, r.1) :=
  ⟨GenKinds.type_constants_match_dispatch, GenKinds.writer_attr_is_model⟩

end Rl2tp.C03
