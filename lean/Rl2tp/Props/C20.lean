/-
  C20 — decode errors identify the offending field and render with the right AVP name.
-/
import Rl2tp.Props.C15
import Rl2tp.Model.Errors
import Rl2tp.Proofs.DataMsg
import Rl2tp.Proofs.GenTables
import Rl2tp.Proofs.GenKinds
import Rl2tp.Proofs.GenBoundaries
namespace Rl2tp.C20
open C15 Text

/-! ### a single faulty record among good ones is reported by its own error, alone -/

theorem resErrors_append (xs ys : List Res) : resErrors (xs ++ ys) = resErrors xs ++ resErrors ys := by
  simp [resErrors, List.filterMap_append]

theorem resErrors_good (rs : List Res) (h : ∀ r ∈ rs, isOk r = true) : resErrors rs = [] :=
  (resErrors_nil_iff rs).mpr h

/-- An otherwise valid control message (every other record decodes, the first-AVP rule holds) with one
    record whose own decode is the error `x`: the result is `Err([x])` — the fault, and nothing else. -/
theorem single_fault (o : Opts) (tid sid ns nr : UInt16) (pre post : List Bytes) (bad : Bytes) (x : DErr)
    (hwd : ∀ r ∈ pre ++ bad :: post, WellDelimited r)
    (hsize : 12 + (pre ++ bad :: post).flatten.length ≤ 65535)
    (hpre : ∀ r ∈ pre, isOk (resultOf r) = true) (hpost : ∀ r ∈ post, isOk (resultOf r) = true)
    (hbad : resultOf bad = .error x)
    (hfirst : firstBad ((pre ++ bad :: post).map resultOf) = false) :
    (decode o : M Bytes (List DErr) Msg) (message tid sid ns nr (pre ++ bad :: post).flatten) = .err [x] [] := by
  obtain ⟨hd, _, _⟩ := control_error_list o tid sid ns nr (pre ++ bad :: post) hwd hsize hfirst
    ⟨bad, by simp, by rw [hbad]; rfl⟩
  rw [hd]
  congr 1
  rw [List.map_append, List.map_cons, resErrors_append]
  have h1 : resErrors (pre.map resultOf) = [] := resErrors_good _ (fun r hr => by
    obtain ⟨y, hy, rfl⟩ := List.mem_map.mp hr; exact hpre y hy)
  have h2 : resErrors (post.map resultOf) = [] := resErrors_good _ (fun r hr => by
    obtain ⟨y, hy, rfl⟩ := List.mem_map.mp hr; exact hpost y hy)
  have h3 : resErrors (resultOf bad :: post.map resultOf) = x :: resErrors (post.map resultOf) := by
    rw [hbad]; rfl
  rw [h1, h3, h2]
  rfl

/-- the same for every flag word the options accept, with stray octets inside the Length and anything behind the
    message: `Err([x])`, the reader behind the declared length -/
theorem single_fault_general (o : Opts) (fx fy : UInt8) (hw : FlagsOk o (word16 fx fy)) (tid sid ns nr : UInt16)
    (pre post : List Bytes) (bad : Bytes) (x : DErr) (junk : Bytes) (hj : junk.length < 6) (rest : Bytes)
    (hwd : ∀ r ∈ pre ++ bad :: post, WellDelimited r)
    (hsize : 12 + ((pre ++ bad :: post).flatten ++ junk).length ≤ 65535)
    (hpre : ∀ r ∈ pre, isOk (resultOf r) = true) (hpost : ∀ r ∈ post, isOk (resultOf r) = true)
    (hbad : resultOf bad = .error x)
    (hfirst : firstBad ((pre ++ bad :: post).map resultOf) = false) :
    (decode o : M Bytes (List DErr) Msg) (messageW fx fy tid sid ns nr ((pre ++ bad :: post).flatten ++ junk) rest) =
      .err [x] rest := by
  obtain ⟨hd, _, _⟩ := control_error_list_general o fx fy hw tid sid ns nr (pre ++ bad :: post) hwd junk hj rest hsize
    hfirst ⟨bad, by simp, by rw [hbad]; rfl⟩
  rw [hd]
  congr 1
  rw [List.map_append, List.map_cons, resErrors_append]
  have h1 : resErrors (pre.map resultOf) = [] := resErrors_good _ (fun r hr => by
    obtain ⟨y, hy, rfl⟩ := List.mem_map.mp hr; exact hpre y hy)
  have h2 : resErrors (post.map resultOf) = [] := resErrors_good _ (fun r hr => by
    obtain ⟨y, hy, rfl⟩ := List.mem_map.mp hr; exact hpost y hy)
  have h3 : resErrors (resultOf bad :: post.map resultOf) = x :: resErrors (post.map resultOf) := by
    rw [hbad]; rfl
  rw [h1, h3, h2]
  rfl

/-- a record spelled out: first octet, length octet, vendor id, attribute type, value -/
def rec6 (a b : UInt8) (v t : UInt16) (p : Bytes) : Bytes := a :: b :: (be16 v ++ be16 t ++ p)

theorem resultOf_rec6 (a b : UInt8) (v t : UInt16) (p : Bytes) : resultOf (rec6 a b v t p) = recordResult a v t p := by
  simp [rec6, resultOf, be16, word16_be16]

theorem wellDelimited_rec6 (a b : UInt8) (v t : UInt16) (p : Bytes) (h : hdrLen a b = 6 + p.length) :
    WellDelimited (rec6 a b v t p) :=
  ⟨a, b, UInt8.ofNat (v.toNat / 256), UInt8.ofNat (v.toNat % 256), UInt8.ofNat (t.toNat / 256), UInt8.ofNat (t.toNat % 256),
    p, by simp [rec6, be16], h⟩

/-! ### what each kind of fault makes of the record it sits in (the error carries the offending value) -/

/-- an attribute type the table does not know: `UnknownAvp(t)` -/
theorem fault_unknown_attr (a : UInt8) (t : UInt16) (p : Bytes) (hH : a.toNat / 2 % 2 = 0)
    (ht : t.toNat = 20 ∨ 40 ≤ t.toNat) : recordResult a 0 t p = .error (.unknownAvp t) := by
  unfold recordResult
  rw [if_neg (by simp), if_neg (by omega), decodeAvp_unknown t ht]
  rfl

/-- a vendor-specific record, whatever its flags and type: `UnsupportedVendorId(v)` -/
theorem fault_vendor (a : UInt8) (v t : UInt16) (p : Bytes) (hv : v ≠ 0) :
    recordResult a v t p = .error (.unsupportedVendorId v) := by
  unfold recordResult
  rw [if_pos hv]

/-- a Message Type AVP with an unassigned code: `UnknownMessageType(c)` -/
theorem fault_message_type (a : UInt8) (c : UInt16) (rest : Bytes) (hH : a.toNat / 2 % 2 = 0)
    (hc : MessageType.ofCode c = none) : recordResult a 0 0 (be16 c ++ rest) = .error (.unknownMessageType c) := by
  unfold recordResult
  rw [if_neg (by simp), if_neg (by omega)]
  simp only [be16, List.cons_append, List.nil_append, decodeAvp]
  show (match (readMessageType : M Bytes DErr AVP) _ with | .ok x _ => _ | .err e _ => _ | .fault _ => _) = _
  rw [readMessageType_cons, word16_be16, hc]

/-- a Result Code AVP with an unassigned error type: `InvalidResultCodeErrorType(x)` -/
theorem fault_error_type (a : UInt8) (code x : UInt16) (rest : Bytes) (hH : a.toNat / 2 % 2 = 0)
    (hx : ErrorType.ofCode x = none) :
    recordResult a 0 1 (be16 code ++ be16 x ++ rest) = .error (.invalidResultCodeErrorType x) := by
  unfold recordResult
  rw [if_neg (by simp), if_neg (by omega)]
  simp only [be16, List.cons_append, List.nil_append, decodeAvp]
  show (match (readResultCode : M Bytes DErr AVP) _ with | .ok x _ => _ | .err e _ => _ | .fault _ => _) = _
  rw [readResultCode_cons_long, word16_be16, word16_be16]
  simp [rcErrorSpec, hx]

/-- the four text AVPs with a payload that is not UTF-8: `InvalidUtf8(t)` with their own type -/
theorem fault_bad_utf8 (a : UInt8) (t : UInt16) (p : Bytes) (hH : a.toNat / 2 % 2 = 0)
    (ht : t.toNat = 8 ∨ t.toNat = 21 ∨ t.toNat = 22 ∨ t.toNat = 23) (hp : p ≠ []) (hv : Spec.Utf8.valid p = false) :
    recordResult a 0 t p = .error (.invalidUtf8 t) := by
  unfold recordResult
  rw [if_neg (by simp), if_neg (by omega)]
  have e : t = UInt16.ofNat t.toNat := by simp
  rcases ht with h | h | h | h <;>
    (rw [h] at e
     unfold decodeAvp
     simp only [h]
     rw [leafStr_ne hp, hv, e]
     rfl)

/-- … the optional message of a Result Code AVP (a known error type in front of it): `InvalidUtf8(1)` … -/
theorem fault_bad_utf8_result_code (a : UInt8) (code x : UInt16) (m : Bytes) (hH : a.toNat / 2 % 2 = 0)
    (hx : (ErrorType.ofCode x).isSome = true) (hm : m ≠ []) (hv : Spec.Utf8.valid m = false) :
    recordResult a 0 1 (be16 code ++ be16 x ++ m) = .error (.invalidUtf8 1) := by
  unfold recordResult
  rw [if_neg (by simp), if_neg (by omega)]
  simp only [be16, List.cons_append, List.nil_append, decodeAvp]
  show (match (readResultCode : M Bytes DErr AVP) _ with | .ok x _ => _ | .err e _ => _ | .fault _ => _) = _
  rw [readResultCode_cons_long, word16_be16, word16_be16]
  obtain ⟨et, het⟩ := Option.isSome_iff_exists.mp hx
  have hl : m.length ≠ 0 := by intro h; exact hm (List.eq_nil_of_length_eq_zero h)
  simp [rcErrorSpec, het, hl, hv]

/-- … and the optional advisory of a Q.931 Cause Code AVP: `InvalidUtf8(12)`.  With `fault_bad_utf8` these are all six
    places where the decoder checks text. -/
theorem fault_bad_utf8_q931 (a : UInt8) (cause : UInt16) (msg : UInt8) (adv : Bytes) (hH : a.toNat / 2 % 2 = 0)
    (hm : adv ≠ []) (hv : Spec.Utf8.valid adv = false) :
    recordResult a 0 12 (be16 cause ++ msg :: adv) = .error (.invalidUtf8 12) := by
  unfold recordResult
  rw [if_neg (by simp), if_neg (by omega)]
  simp only [be16, List.cons_append, List.nil_append, decodeAvp]
  show (match (readQ931 : M Bytes DErr AVP) _ with | .ok x _ => _ | .err e _ => _ | .fault _ => _) = _
  rw [readQ931_cons]
  have hl : adv.length ≠ 0 := by intro h; exact hm (List.eq_nil_of_length_eq_zero h)
  simp [hl, hv]

/-- minimum payload each kind's format needs -/
def minLen : Nat → Nat
  | 0 | 1 | 2 | 6 | 9 | 10 | 14 | 29 | 32 => 2
  | 3 | 4 | 15 | 16 | 17 | 18 | 19 | 24 | 25 | 36 | 38 => 4
  | 5 => 8
  | 12 => 3
  | 13 => 16
  | 34 => 26
  | 35 => 10
  | 39 => 0
  | _ => 1

/-- a truncated AVP (payload below the kind's minimum): `IncompleteAVP(t)` with its own type — all 38
    kinds that have a minimum -/
theorem fault_truncated (t : UInt16) (p : Bytes) (ht : t.toNat ≤ 38) (h20 : t.toNat ≠ 20)
    (hp : p.length < minLen t.toNat) :
    (decodeAvp t : M Bytes DErr AVP) p = .err (.incompleteAVP t) p := by
  have e : t = UInt16.ofNat t.toNat := by simp
  have hk : t.toNat = 0 ∨ t.toNat = 1 ∨ t.toNat = 2 ∨ t.toNat = 3 ∨ t.toNat = 4 ∨ t.toNat = 5 ∨ t.toNat = 6 ∨ t.toNat = 7 ∨
      t.toNat = 8 ∨ t.toNat = 9 ∨ t.toNat = 10 ∨ t.toNat = 11 ∨ t.toNat = 12 ∨ t.toNat = 13 ∨ t.toNat = 14 ∨ t.toNat = 15 ∨
      t.toNat = 16 ∨ t.toNat = 17 ∨ t.toNat = 18 ∨ t.toNat = 19 ∨ t.toNat = 21 ∨ t.toNat = 22 ∨ t.toNat = 23 ∨
      t.toNat = 24 ∨ t.toNat = 25 ∨ t.toNat = 26 ∨ t.toNat = 27 ∨ t.toNat = 28 ∨ t.toNat = 29 ∨ t.toNat = 30 ∨
      t.toNat = 31 ∨ t.toNat = 32 ∨ t.toNat = 33 ∨ t.toNat = 34 ∨ t.toNat = 35 ∨ t.toNat = 36 ∨ t.toNat = 37 ∨
      t.toNat = 38 := by omega
  rcases hk with h | h | h | h | h | h | h | h | h | h | h | h | h | h | h | h | h | h | h | h | h | h | h | h | h | h | h | h |
    h | h | h | h | h | h | h | h | h | h
  all_goals
    rw [h] at e hp
    simp only [minLen] at hp
    unfold decodeAvp
    simp only [h]
    rw [e]
    first
      | exact leafU16_short hp | exact leafU32_short hp | exact leafU64_short hp | exact leafB4_short hp
      | exact readMessageType_short hp | exact readResultCode_short hp | exact readProtocolVersion_short hp
      | exact readQ931_short hp | exact readChallengeResponse_short hp | exact readProxyAuthenType_short hp
      | exact readProxyAuthenId_short hp | exact readCallErrors_short hp | exact readAccm_short hp
      | (have hp0 : p = [] := List.eq_nil_of_length_eq_zero (by omega)
         subst hp0
         first | exact leafBytes_nil _ _ | exact leafStr_nil _ _)

/-- the same one level up: the record such a payload sits in yields `IncompleteAVP(t)` (H bit clear, vendor 0) -/
theorem fault_truncated_record (a : UInt8) (t : UInt16) (p : Bytes) (hH : a.toNat / 2 % 2 = 0) (ht : t.toNat ≤ 38)
    (h20 : t.toNat ≠ 20) (hp : p.length < minLen t.toNat) :
    recordResult a 0 t p = .error (.incompleteAVP t) := by
  unfold recordResult
  rw [if_neg (by simp), if_neg (by omega), fault_truncated t p ht h20 hp]

/-- a bad version nibble, with version checking on: `InvalidVersion(v)` whatever follows -/
theorem fault_version (o : Opts) (x y : UInt8) (t : Bytes) (ho : o.version = true) (hv : version (word16 x y) ≠ 2) :
    (decode o : M Bytes (List DErr) Msg) (x :: y :: t) = .err [.invalidVersion (version (word16 x y))] t := by
  rw [decode_cons, if_pos (by simp [ho, hv])]

/-- a data message whose offset size exceeds what follows: `InvalidOffset(n)` -/
theorem fault_offset (d : Data) (n : UInt16) (hoff : d.offset = some n) (hn : d.data.length < n.toNat) :
    (decodeData (mkFlags false d.length.isSome d.nsnr.isSome d.offset.isSome d.prio) : M Bytes DErr Msg) (dataTail d) =
      .err (.invalidOffset n) d.data := by
  have hh := readDataHeader_image d []
  rw [List.append_nil, List.append_nil] at hh
  unfold decodeData
  simp only [bind_apply, len_apply, len_bytes]
  rw [hh]
  simp only [hoff, skipOffset, bind_apply, len_apply, len_bytes, M.ite_apply, fail_apply]
  rw [if_pos hn]

/-- … as the *whole* decoder reports it, under every option set: `Err([InvalidOffset(n)])`, alone, carrying the
    offset size, for the encoder's own image of such a message (any priority, Length, Ns/Nr) -/
theorem fault_offset_decode (o : Opts) (d : Data) (n : UInt16) (hoff : d.offset = some n) (hn : d.data.length < n.toNat) :
    (decode o : M Bytes (List DErr) Msg) (dataImage d) = .err [.invalidOffset n] d.data := by
  rw [dataImage_eq]
  simp only [be16, List.cons_append, List.nil_append]
  rw [decode_cons, word16_be16]
  rw [if_neg (by simp [mkFlags_version]), if_neg (by simp [mkFlags_reservedOk]), if_neg (by simp [mkFlags_isControl])]
  unfold liftE
  rw [fault_offset d n hoff hn]

/-! ### rendering -/

/-- for AVP-related errors the text shows the name of the kind this attribute number actually decodes to … -/
theorem name_matches_dispatch (t : UInt16) (p r : Bytes) (a : AVP)
    (h : (decodeAvp t : M Bytes DErr AVP) p = .ok a r) : avpName t = kindName a := by
  have hattr := decodeAvp_attr t p r a h
  have hnh := decodeAvp_not_hidden t p r a h
  rw [← hattr]
  cases a <;> first | rfl | (simp [AVP.isHidden] at hnh)

/-- unconditionally: every non-hidden AVP value renders under the name of its own kind … -/
theorem name_of_kind (a : AVP) (h : a.isHidden = false) : avpName a.attr = kindName a := by
  cases a <;> first | rfl | (simp [AVP.isHidden] at h)

/-- … and every assigned attribute type (0..39 except 20) *is* the type of some non-hidden AVP value that the
    dispatch decodes — so `name_matches_dispatch` speaks about all 39 rows of the table, not about none -/
theorem assigned_has_value (t : UInt16) (ht : t.toNat < 40) (h20 : t.toNat ≠ 20) :
    ∃ a p, a.attr = t ∧ a.isHidden = false ∧ (decodeAvp t : M Bytes DErr AVP) p = .ok a [] := by
  have e : t = UInt16.ofNat t.toNat := by simp
  have hk : t.toNat = 0 ∨ t.toNat = 1 ∨ t.toNat = 2 ∨ t.toNat = 3 ∨ t.toNat = 4 ∨ t.toNat = 5 ∨ t.toNat = 6 ∨ t.toNat = 7 ∨
      t.toNat = 8 ∨ t.toNat = 9 ∨ t.toNat = 10 ∨ t.toNat = 11 ∨ t.toNat = 12 ∨ t.toNat = 13 ∨ t.toNat = 14 ∨ t.toNat = 15 ∨
      t.toNat = 16 ∨ t.toNat = 17 ∨ t.toNat = 18 ∨ t.toNat = 19 ∨ t.toNat = 21 ∨ t.toNat = 22 ∨ t.toNat = 23 ∨
      t.toNat = 24 ∨ t.toNat = 25 ∨ t.toNat = 26 ∨ t.toNat = 27 ∨ t.toNat = 28 ∨ t.toNat = 29 ∨ t.toNat = 30 ∨
      t.toNat = 31 ∨ t.toNat = 32 ∨ t.toNat = 33 ∨ t.toNat = 34 ∨ t.toNat = 35 ∨ t.toNat = 36 ∨ t.toNat = 37 ∨
      t.toNat = 38 ∨ t.toNat = 39 := by omega
  rcases hk with h | h | h | h | h | h | h | h | h | h | h | h | h | h | h | h | h | h | h | h | h | h | h | h | h | h | h | h |
    h | h | h | h | h | h | h | h | h | h | h
  all_goals
    rw [h] at e
    rw [e]
  · exact ⟨.messageType .hello, [0, 6], by decide, rfl, by decide⟩
  · exact ⟨.resultCode 1 none, [0, 1], by decide, rfl, by decide⟩
  · exact ⟨.protocolVersion 1 0, [1, 0], by decide, rfl, by decide⟩
  · exact ⟨.framingCapabilities 1, [0, 0, 0, 1], by decide, rfl, by decide⟩
  · exact ⟨.bearerCapabilities 1, [0, 0, 0, 1], by decide, rfl, by decide⟩
  · exact ⟨.tieBreaker 1, [0, 0, 0, 0, 0, 0, 0, 1], by decide, rfl, by decide⟩
  · exact ⟨.firmwareRevision 1, [0, 1], by decide, rfl, by decide⟩
  · exact ⟨.hostName [0x61], [0x61], by decide, rfl, by decide⟩
  · exact ⟨.vendorName [0x61], [0x61], by decide, rfl, by decide⟩
  · exact ⟨.assignedTunnelId 1, [0, 1], by decide, rfl, by decide⟩
  · exact ⟨.receiveWindowSize 1, [0, 1], by decide, rfl, by decide⟩
  · exact ⟨.challenge [0x61], [0x61], by decide, rfl, by decide⟩
  · exact ⟨.q931CauseCode 1 2 none, [0, 1, 2], by decide, rfl, by decide⟩
  · exact ⟨.challengeResponse 0 1, [0, 0, 0, 0, 0, 0, 0, 0, 0, 0, 0, 0, 0, 0, 0, 1], by decide, rfl, by decide⟩
  · exact ⟨.assignedSessionId 1, [0, 1], by decide, rfl, by decide⟩
  · exact ⟨.callSerialNumber 1, [0, 0, 0, 1], by decide, rfl, by decide⟩
  · exact ⟨.minimumBps 1, [0, 0, 0, 1], by decide, rfl, by decide⟩
  · exact ⟨.maximumBps 1, [0, 0, 0, 1], by decide, rfl, by decide⟩
  · exact ⟨.bearerType 1, [0, 0, 0, 1], by decide, rfl, by decide⟩
  · exact ⟨.framingType 1, [0, 0, 0, 1], by decide, rfl, by decide⟩
  · exact ⟨.calledNumber [0x61], [0x61], by decide, rfl, by decide⟩
  · exact ⟨.callingNumber [0x61], [0x61], by decide, rfl, by decide⟩
  · exact ⟨.subAddress [0x61], [0x61], by decide, rfl, by decide⟩
  · exact ⟨.txConnectSpeed 1, [0, 0, 0, 1], by decide, rfl, by decide⟩
  · exact ⟨.physicalChannelId 1, [0, 0, 0, 1], by decide, rfl, by decide⟩
  · exact ⟨.initialReceivedLcpConfReq [0x61], [0x61], by decide, rfl, by decide⟩
  · exact ⟨.lastSentLcpConfReq [0x61], [0x61], by decide, rfl, by decide⟩
  · exact ⟨.lastReceivedLcpConfReq [0x61], [0x61], by decide, rfl, by decide⟩
  · exact ⟨.proxyAuthenType .pppChap, [0, 2], by decide, rfl, by decide⟩
  · exact ⟨.proxyAuthenName [0x61], [0x61], by decide, rfl, by decide⟩
  · exact ⟨.proxyAuthenChallenge [0x61], [0x61], by decide, rfl, by decide⟩
  · exact ⟨.proxyAuthenId 1, [0, 1], by decide, rfl, by decide⟩
  · exact ⟨.proxyAuthenResponse [0x61], [0x61], by decide, rfl, by decide⟩
  · exact ⟨.callErrors 0 0 0 0 0 1, [0, 0, 0, 0, 0, 0, 0, 0, 0, 0, 0, 0, 0, 0, 0, 0, 0, 0, 0, 0, 0, 0, 0, 0, 0, 1], by decide, rfl,
      by decide⟩
  · exact ⟨.accm 0 1, [0, 0, 0, 0, 0, 0, 0, 0, 0, 1], by decide, rfl, by decide⟩
  · exact ⟨.randomVector 1, [0, 0, 0, 1], by decide, rfl, by decide⟩
  · exact ⟨.privateGroupId [0x61], [0x61], by decide, rfl, by decide⟩
  · exact ⟨.rxConnectSpeed 1, [0, 0, 0, 1], by decide, rfl, by decide⟩
  · exact ⟨.sequencingRequired, [], by decide, rfl, by decide⟩

/-- … and the number itself when the attribute type is unassigned -/
theorem name_unassigned (t : UInt16) (h : t.toNat = 20 ∨ 40 ≤ t.toNat) : avpName t = toString t.toNat := by
  unfold avpName
  rcases h with h | h
  · rw [h]; rfl
  · obtain ⟨n, hn⟩ : ∃ n, t.toNat = n + 40 := ⟨t.toNat - 40, by omega⟩
    rw [hn]; rfl

/-- Rendering is total (`display` is a total function: no fuel, no partiality, one fixed phrase per variant
    with the payload or the AVP name spliced in) and the text is never empty, for every variant and payload. -/
theorem render_nonempty (e : DErr) : display e ≠ "" := by
  cases e <;> first
    | decide
    | (intro h; unfold display at h; simp only [String.append_eq_empty_iff] at h; exact absurd h.1.1 (by decide))

/-! non-vacuity -/
example : display (.incompleteAVP 12) = "Incomplete AVP (Q931CauseCode)" := by decide
example : display (.invalidUtf8 20) = "AVP (20) with invalid UTF-8 string payload" := by decide
example : recordResult 1 0 20 [1, 2] = .error (.unknownAvp 20) := by decide

/-- `single_fault` composed with `fault_vendor`: a vendor-specific record injected behind a good Message Type AVP, in a
    message with a non-canonical flag word and a trailer, is reported as `Err([UnsupportedVendorId(9)])` and nothing
    else — every hypothesis of `single_fault_general` instantiated at once -/
theorem injected_vendor_fault (o : Opts) (fx fy : UInt8) (hw : FlagsOk o (word16 fx fy)) (tid sid ns nr : UInt16)
    (a : UInt8) (v t : UInt16) (hv : v ≠ 0) (rest : Bytes) :
    (decode o : M Bytes (List DErr) Msg)
        (messageW fx fy tid sid ns nr (([[1, 8, 0, 0, 0, 0, 0, 6]] ++ rec6 (a % 64) 7 v t [0x61] :: []).flatten ++ []) rest) =
      .err [.unsupportedVendorId v] rest := by
  have ha : (a % 64).toNat = a.toNat % 64 := by simp
  have hl : hdrLen (a % 64) 7 = 6 + [(0x61 : UInt8)].length := by
    unfold hdrLen; rw [ha]; have := a.toNat_lt; simp
  refine single_fault_general o fx fy hw tid sid ns nr [[1, 8, 0, 0, 0, 0, 0, 6]] [] _ _ [] (by simp) rest ?_ ?_ ?_ ?_ ?_ ?_
  · intro r hr
    simp only [List.cons_append, List.nil_append, List.mem_cons, List.mem_nil_iff, or_false] at hr
    rcases hr with rfl | rfl
    · exact ⟨1, 8, 0, 0, 0, 0, [0, 6], rfl, by decide⟩
    · exact wellDelimited_rec6 _ _ _ _ _ hl
  · simp [rec6, be16]
  · intro r hr
    simp only [List.mem_cons, List.mem_nil_iff, or_false] at hr
    subst hr; decide
  · intro r hr; simp at hr
  · rw [resultOf_rec6]; exact fault_vendor _ _ _ _ hv
  · rfl

/-! ### the name table and the Display texts as they stand in /repo's sources *now* (re-read by `bin/gentables` on every run) -/

/-- the source's number → name table is the model's `avpName` on all 39 assigned numbers, and it agrees row by row with
    the source's own dispatch table -/
theorem source_avp_names :
    Gen.avpNames = GenTables.assigned.map (fun t => (t, avpName (UInt16.ofNat t))) ∧ Gen.avpNames = Gen.dispatch :=
  ⟨GenTables.avp_names_is_model, GenTables.names_match_dispatch⟩

/-- every `#[error("…")]` text of the source, with an assigned (12), the unassigned in-range (20) and a large (200)
    number spliced in, is what the model's `display` renders for that variant; all 26 variants are there -/
theorem source_error_texts :
    (∀ row ∈ Gen.errorTexts, ∀ n ∈ [12, 20, 200],
      (GenTables.errOf row.1 n).map display = some (GenTables.sourceText row n)) ∧ Gen.errorTexts.length = 26 :=
  ⟨GenTables.error_texts_is_model, GenTables.error_texts_complete⟩

/-- the number each kind's first guard reports (`IncompleteAVP(Self::ATTRIBUTE_TYPE)`) is, in the model, the source's
    `ATTRIBUTE_TYPE` of that kind (re-read by bin/gentables on every run) -/
theorem source_error_numbers :
    ∀ r ∈ Gen.typeConstants, r.2.2.1 = 0 ∨
      (decodeAvp (UInt16.ofNat r.1) : M Bytes DErr AVP) [] = .err (.incompleteAVP (UInt16.ofNat r.1)) [] :=
  GenKinds.guard_reports_own_number

/-- which payload lengths each kind reports as `IncompleteAVP` (rather than by a later, more specific error) is, in the
    model, what the source's first guards say: all 39 kinds, below the least length yes, at it no -/
theorem source_incomplete_boundaries :
    (∀ r ∈ Gen.typeConstants,
      (∀ n ∈ List.range r.2.2.1, GenGuards.refusedAsIncomplete (GenGuards.numberOf r.2.1) n = true) ∧
      GenGuards.refusedAsIncomplete (GenGuards.numberOf r.2.1) r.2.2.1 = false) ∧ Gen.typeConstants.length = 39 :=
  ⟨GenBoundaries.min_lengths_is_model, GenBoundaries.min_lengths_complete⟩

end Rl2tp.C20
