/-
  C19 — the codec is pure: nothing on stdout/stderr, no state, same result on every thread.
  What a theorem about a Lean function can carry: the model's codec threads no state, so the answer to a
  call is the same at every position of every call history and under every reordering.  That the *Rust*
  code has no hidden statics, prints nothing and has no data races is the runtime residue: it is observed
  (fds 1/2 of a worker that itself prints nothing; the same calls in shuffled order and from 16 threads),
  not proved — this check is labelled partial for that reason.

  The theorems below would hold for any Lean function put in place of `run1`: their content is the modelling decision
  itself — the codec has **no library state and no output channel** (`LibState = Unit`).  Whether that decision renders
  the code is checked on every run, outside Lean, by `bin/check`'s purity scan of /repo's non-test sources (no
  `static mut`, no static with interior mutability, no `thread_local!` / `lazy_static!`, no print / eprint / dbg macro,
  no `io::stdout` / `io::stderr`): a hit is reported as a violation of C19 even when no observation shows it.
-/
import Rl2tp.Model.Message
import Rl2tp.Model.Hide
import Rl2tp.Spec.Md5
namespace Rl2tp.C19

inductive Call
  | decode (o : Opts) (b : Bytes)
  | decodeAvps (b : Bytes)
  | encode (prefix_ : Bytes) (m : Msg)
  | hide (a : AVP) (secret : Bytes) (rv : UInt32) (lp ap : Bytes)
  | reveal (a : AVP) (secret : Bytes) (rv : UInt32)

inductive Answer
  | msg (o : Out Bytes (List DErr) Msg)
  | avps (o : Out Bytes DErr (List Res))
  | bytes (o : Except Fault Bytes)
  | avp (o : Except Fault AVP)
  | revealed (o : Except Fault (Except DErr AVP))

/-- one call, answered from its arguments alone -/
def run1 : Call → Answer
  | .decode o b => .msg (decode o b)
  | .decodeAvps b => .avps (greedy b)
  | .encode p m => .bytes (writeMsg p m)
  | .hide a s rv lp ap => .avp (hide Spec.Md5.md5 a s rv lp ap)
  | .reveal a s rv => .revealed (reveal Spec.Md5.md5 a s rv)

/-- the library's state between calls: there is none -/
abbrev LibState := Unit

/-- a call history run through the library, threading its (empty) state -/
def runHistory : LibState → List Call → List Answer
  | _, [] => []
  | st, c :: cs => run1 c :: runHistory st cs

theorem run_history (st : LibState) (calls : List Call) : runHistory st calls = calls.map run1 := by
  induction calls with
  | nil => rfl
  | cons c cs ih => simp [runHistory, ih]

/-- the answer to a call does not depend on what was called before or after it -/
theorem history_independent (st : LibState) (pre post : List Call) (c : Call) :
    (runHistory st (pre ++ c :: post))[pre.length]? = some (run1 c) := by
  rw [run_history]
  simp

/-- any reordering of a history reorders the answers the same way (so concurrent calls, whatever their
    interleaving, see the answers of the sequential run) -/
theorem reorder (st : LibState) (calls calls' : List Call) (h : calls.Perm calls') :
    (runHistory st calls).Perm (runHistory st calls') := by
  rw [run_history, run_history]
  exact h.map run1

/-- repeating a call gives the same answer -/
theorem repeatable (st : LibState) (c : Call) : runHistory st [c, c] = [run1 c, run1 c] := rfl

end Rl2tp.C19
