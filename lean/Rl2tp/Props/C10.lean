/-
  C10 — re-encoding a decoded message is stable: one round reaches a fixed point.
-/
import Rl2tp.Proofs.Reencode
import Rl2tp.Props.C03
import Rl2tp.Props.C04
namespace Rl2tp.C10
open Spec

/-- the data branch of the specification only ever answers with a data message -/
theorem specData_is_data (w : UInt16) (s : Bytes) (m : Msg) (k : Nat) (h : Spec.decodeDataM w s = some (m, k)) :
    ∃ d, m = .data d := by
  unfold Spec.decodeDataM at h
  simp only [] at h
  generalize (if hasOffset w = true then (u16At s (dataNeed w - 2)).toNat else 0) = pad at h
  by_cases c1 : s.length < dataNeed w
  · rw [if_pos c1] at h; cases h
  rw [if_neg c1] at h
  by_cases c2 : s.length - dataNeed w < pad
  · rw [if_pos c2] at h; cases h
  rw [if_neg c2] at h
  by_cases hL : hasLength w = true
  · rw [if_pos hL] at h
    split at h
    · cases h
    · simp only [Option.some.injEq, Prod.mk.injEq] at h; exact ⟨_, h.1.symm⟩
  · rw [if_neg hL] at h
    split at h
    · cases h
    · simp only [Option.some.injEq, Prod.mk.injEq] at h; exact ⟨_, h.1.symm⟩

/-- the specification's answer is a control message only on the control branch -/
theorem spec_control_inv (o : Opts) (b : Bytes) (c : Control) (n : Nat) (h : Spec.decodeM o b = some (.control c, n)) :
    ∃ w k, Spec.decodeControlM w o (b.drop 2) = some (.control c, k) := by
  unfold Spec.decodeM at h
  split at h
  · cases h
  simp only [] at h
  split at h
  · cases h
  split at h
  · cases h
  by_cases hc : isControl (u16At b 0) = true
  · rw [if_pos hc] at h
    cases hin : Spec.decodeControlM (u16At b 0) o (b.drop 2) with
    | none => rw [hin] at h; cases h
    | some p =>
      rw [hin] at h
      simp only [Option.map, Option.some.injEq, Prod.mk.injEq] at h
      exact ⟨u16At b 0, p.2, by rw [hin, ← h.1]⟩
  · rw [if_neg hc] at h
    cases hin : Spec.decodeDataM (u16At b 0) (b.drop 2) with
    | none => rw [hin] at h; cases h
    | some p =>
      rw [hin] at h
      simp only [Option.map, Option.some.injEq, Prod.mk.injEq] at h
      exfalso
      -- a data answer is never a control message
      obtain ⟨d, hd⟩ := specData_is_data _ _ p.1 p.2 hin
      rw [hd] at h; cases h.1

/-- every accepted control message, from whatever octets (reserved bits set, M bit clear, surplus
    payload octets, ignored trailing octets, P/O bits with the check off): its value is encodable; the
    encoding decodes under the strictest options to the same value up to Length, which now equals the new
    size; and encoding that value reproduces the same octets — one round reaches the fixed point. -/
theorem control_reencode_fixed (o : Opts) (b : Bytes) (c : Control) (r : Bytes)
    (h : (decode o : M Bytes (List DErr) Msg) b = .ok (.control c) r) :
    ∃ img, encode (.control c) = .ok img ∧
      (decode Opts.strict : M Bytes (List DErr) Msg) img = .ok (.control { c with length := UInt16.ofNat img.length }) [] ∧
      encode (.control { c with length := UInt16.ofNat img.length }) = .ok img := by
  obtain ⟨n, hs, _⟩ := decode_ok_spec o b _ r h
  obtain ⟨w, k, hk⟩ := spec_control_inv o b c n hs
  obtain ⟨c', hc', henc, hfirst, hsize⟩ := specControl_sound w o _ _ k hk
  cases hc'
  obtain ⟨img, himg, hdec⟩ := C03.control_roundtrip c Opts.strict henc hfirst hsize
  refine ⟨img, himg, hdec, ?_⟩
  -- the encoder recomputes Length instead of echoing the field
  have e1 : encode (.control { c with length := UInt16.ofNat img.length }) = encode (.control c) := by
    simp only [encode, writeMsg, writeControl]
  rw [e1, himg]

/-- the specification's answer on the data branch -/
theorem spec_data_inv (o : Opts) (b : Bytes) (d : Data) (n : Nat) (h : Spec.decodeM o b = some (.data d, n)) :
    2 ≤ b.length ∧ isControl (u16At b 0) = false ∧ ∃ k, Spec.decodeDataM (u16At b 0) (b.drop 2) = some (.data d, k) := by
  unfold Spec.decodeM at h
  split at h
  · cases h
  rename_i hlen
  simp only [] at h
  split at h
  · cases h
  split at h
  · cases h
  by_cases hc : isControl (u16At b 0) = true
  · rw [if_pos hc] at h
    cases hin : Spec.decodeControlM (u16At b 0) o (b.drop 2) with
    | none => rw [hin] at h; cases h
    | some p =>
      exfalso
      obtain ⟨c, hc', _⟩ := specControl_sound _ o _ p.1 p.2 hin
      rw [hin] at h
      simp only [Option.map, Option.some.injEq, Prod.mk.injEq] at h
      rw [hc'] at h; cases h.1
  · rw [if_neg hc] at h
    cases hin : Spec.decodeDataM (u16At b 0) (b.drop 2) with
    | none => rw [hin] at h; cases h
    | some p =>
      rw [hin] at h
      simp only [Option.map, Option.some.injEq, Prod.mk.injEq] at h
      exact ⟨by omega, by simpa using hc, p.2, by rw [← h.1]⟩

/-- what an accepted data message without an offset field looks like -/
theorem specData_sound (w : UInt16) (s : Bytes) (d : Data) (k : Nat) (hO : hasOffset w = false)
    (h : Spec.decodeDataM w s = some (.data d, k)) :
    d.offset = none ∧ d.data ≠ [] ∧
      (d.length = none ∨ (d.length = some (UInt16.ofNat (dataImage d).length) ∧ (dataImage d).length ≤ 65535)) := by
  unfold Spec.decodeDataM dataNeed at h
  simp only [hO, Bool.false_eq_true, if_false, Nat.add_zero] at h
  generalize hneed : 4 + (if hasLength w = true then 2 else 0) + (if hasNsNr w = true then 4 else 0) = need at h
  by_cases c1 : s.length < need
  · rw [if_pos c1] at h; cases h
  rw [if_neg c1, if_neg (by omega)] at h
  by_cases hL : hasLength w = true
  · rw [if_pos hL] at h
    by_cases c3 : (u16At s 0).toNat < 2 + need ∨ (u16At s 0).toNat - (2 + need) > s.length - need ∨ (u16At s 0).toNat = 2 + need
    · rw [if_pos c3] at h; cases h
    rw [if_neg c3] at h
    simp only [Option.some.injEq, Prod.mk.injEq, Msg.data.injEq] at h
    obtain ⟨hd, _⟩ := h
    have hlt := (u16At s 0).toNat_lt
    have hdl : d.data.length = (u16At s 0).toNat - (2 + need) := by
      rw [← hd]; simp only [List.length_take, List.length_drop]; omega
    have hoff : d.offset = none := by rw [← hd]
    have hlen : d.length = some (u16At s 0) := by rw [← hd]
    have hns : d.nsnr.isSome = hasNsNr w := by rw [← hd]; by_cases hS : hasNsNr w = true <;> simp [hS]
    refine ⟨hoff, ?_, Or.inr ?_⟩
    · intro hnil
      rw [hnil] at hdl; simp at hdl; omega
    · have himg : (dataImage d).length = (u16At s 0).toNat := by
        have hneed' : need = 4 + 2 + (if hasNsNr w = true then 4 else 0) := by rw [← hneed]; simp [hL]
        rw [C04.image_size, dataTail_length, hoff, hlen, hns, hdl]
        simp only [Option.isSome_some, if_true, Option.isSome_none, Bool.false_eq_true, if_false]
        by_cases hS : hasNsNr w = true <;> simp only [hS, if_true, Bool.false_eq_true, if_false] at hneed' ⊢ <;> omega
      rw [himg, hlen]
      exact ⟨by simp, by omega⟩
  · rw [if_neg hL] at h
    by_cases c3 : s.length = need
    · rw [if_pos c3] at h; cases h
    rw [if_neg c3] at h
    simp only [Option.some.injEq, Prod.mk.injEq, Msg.data.injEq] at h
    obtain ⟨hd, _⟩ := h
    refine ⟨by rw [← hd], ?_, Or.inl (by rw [← hd])⟩
    intro hnil
    have : d.data.length = s.length - need := by rw [← hd]; simp
    rw [hnil] at this; simp at this; omega

/-- every accepted data message whose input carries no offset field: same statement as for control
    messages (the data encoder echoes the Length it read, which is the size it reproduces) -/
theorem data_reencode_fixed (o : Opts) (b : Bytes) (d : Data) (r : Bytes)
    (h : (decode o : M Bytes (List DErr) Msg) b = .ok (.data d) r) (hO : hasOffset (u16At b 0) = false) :
    ∃ img, encode (.data d) = .ok img ∧
      (decode Opts.strict : M Bytes (List DErr) Msg) img = .ok (.data d) [] ∧
      -- the re-decoded value is `d` itself, so its encoding is the same octets: one round is a fixed point
      (∀ m' q, (decode Opts.strict : M Bytes (List DErr) Msg) img = .ok m' q → encode m' = .ok img) := by
  obtain ⟨n, hs, _⟩ := decode_ok_spec o b _ r h
  obtain ⟨_, _, k, hk⟩ := spec_data_inv o b d n hs
  obtain ⟨hoff, hne, hlen⟩ := specData_sound _ _ d k hO hk
  refine ⟨dataImage d, C04.encode_data d, ?_⟩
  have hskip : d.skipN = 0 := by simp [Data.skipN, hoff]
  have hpos : d.skipN < d.data.length := by
    rw [hskip]; cases hd : d.data with
    | nil => exact absurd hd hne
    | cons x xs => simp
  have hrt := C04.data_roundtrip d Opts.strict hpos hlen
  have hval : (Msg.data { d with offset := none, data := d.data.drop d.skipN }) = .data d := by
    congr 1
    cases d
    simp_all [Data.skipN]
  rw [hval] at hrt
  refine ⟨hrt, ?_⟩
  intro m' q hm
  rw [hrt] at hm
  cases hm
  exact C04.encode_data d

/-! non-vacuity: a non-canonical control message (reserved bit set, M bit clear, surplus octet, 3 trailing
    octets) is accepted with the checks off and normalised in one step -/
def messy : Bytes := [0x13, 0x21, 0, 24, 0, 1, 0, 2, 0, 3, 0, 4, 0, 9, 0, 0, 0, 0, 0, 6, 0xEE, 0xAA, 0xBB, 0xCC]
example : (decode { reserved := false, version := true, unused := false } : M Bytes _ Msg) messy =
    .ok (.control { length := 24, tunnelId := 1, sessionId := 2, ns := 3, nr := 4, avps := [.messageType .hello] }) [] := by
  decide

end Rl2tp.C10
