/-
  C17 — bitmask AVPs: accessors return the constructor's arguments; all 32 bits survive.
-/
import Rl2tp.Model.Bitmask
import Rl2tp.Proofs.Leaf
namespace Rl2tp.C17

/-- for all four kinds and all four argument pairs, the accessor named after each constructor
    parameter returns that parameter -/
theorem new_accessors (k : MaskKind) (x y : Bool) :
    k.first (k.new x y) = x ∧ k.second (k.new x y) = y := by
  cases k <;> cases x <;> cases y <;> decide

/-- a word from the wire keeps all 32 bits through decode then encode -/
theorem word_roundtrip (k : MaskKind) (w : UInt32) (rest : Bytes) :
    (decodeAvp (k.toAvp w).attr : M Bytes DErr AVP) (be32 w ++ rest) = .ok (k.toAvp w) rest ∧
    (k.toAvp w).value = be32 w := by
  cases k <;> exact ⟨by simp [decodeAvp, MaskKind.toAvp, AVP.attr, be32], rfl⟩

/-- each accessor is exactly one bit of the word, kind by kind (the crate's layout), hence independent of
    the other 31 bits -/
theorem accessor_bits (w : UInt32) :
    MaskKind.framingCapabilities.first w = bit32 w 6 ∧ MaskKind.framingCapabilities.second w = bit32 w 7 ∧
    MaskKind.bearerCapabilities.first w = bit32 w 7 ∧ MaskKind.bearerCapabilities.second w = bit32 w 6 ∧
    MaskKind.bearerType.first w = bit32 w 6 ∧ MaskKind.bearerType.second w = bit32 w 7 ∧
    MaskKind.framingType.first w = bit32 w 6 ∧ MaskKind.framingType.second w = bit32 w 7 := by
  simp [MaskKind.first, MaskKind.second]

/-- two words that agree on an accessor's bit agree on the accessor -/
theorem accessor_independent (k : MaskKind) (w w' : UInt32)
    (h6 : bit32 w 6 = bit32 w' 6) (h7 : bit32 w 7 = bit32 w' 7) :
    k.first w = k.first w' ∧ k.second w = k.second w' := by
  cases k <;> simp [MaskKind.first, MaskKind.second, h6, h7]

/-- … accessor by accessor: each reads one bit (6 or 7, the two accessors of a kind different ones) and agrees on any
    two words that agree on that one bit — the other 31 bits, its sibling's included, do not matter to it -/
theorem accessor_own_bit (k : MaskKind) :
    ∃ i j : Nat, i ≠ j ∧ (i = 6 ∨ i = 7) ∧ (j = 6 ∨ j = 7) ∧
      (∀ w w' : UInt32, bit32 w i = bit32 w' i → k.first w = k.first w') ∧
      (∀ w w' : UInt32, bit32 w j = bit32 w' j → k.second w = k.second w') := by
  cases k
  · exact ⟨6, 7, by decide, .inl rfl, .inr rfl, fun w w' h => by simp [MaskKind.first, h],
      fun w w' h => by simp [MaskKind.second, h]⟩
  · exact ⟨7, 6, by decide, .inr rfl, .inl rfl, fun w w' h => by simp [MaskKind.first, h],
      fun w w' h => by simp [MaskKind.second, h]⟩
  · exact ⟨6, 7, by decide, .inl rfl, .inr rfl, fun w w' h => by simp [MaskKind.first, h],
      fun w w' h => by simp [MaskKind.second, h]⟩
  · exact ⟨6, 7, by decide, .inl rfl, .inr rfl, fun w w' h => by simp [MaskKind.first, h],
      fun w w' h => by simp [MaskKind.second, h]⟩

/-! non-vacuity and the pinned-tree defect D7: the pre-fix constructor put digital at bit 6 -/
example : MaskKind.bearerCapabilities.new true false = 128 := by decide
def pinnedBearerNew (digital analog : Bool) : UInt32 := UInt32.ofNat (b2n digital * 64 + b2n analog * 128)
example : MaskKind.bearerCapabilities.first (pinnedBearerNew true false) = false := by decide

/-! ### a reader whose `bytes` declines

The trait only says `bytes` *attempts* a read.  A reader that answers every `bytes` request with `None` (and is a plain
cursor otherwise) is outside what C02 calls conforming, but a bitmask word must still not be lost to it: the four
bitmask decoders do not ask for `bytes` at all, so they answer such a reader exactly as they answer the slice. -/

/-- the slice cursor with `bytes` switched off -/
structure Declining where
  data : Bytes

instance : Rdr Declining where
  len r := r.data.length
  u8 r := (Rdr.u8 r.data).map fun (p : UInt8 × Bytes) => (p.1, ⟨p.2⟩)
  u16 r := (Rdr.u16 r.data).map fun (p : UInt16 × Bytes) => (p.1, ⟨p.2⟩)
  u32 r := (Rdr.u32 r.data).map fun (p : UInt32 × Bytes) => (p.1, ⟨p.2⟩)
  u64 r := (Rdr.u64 r.data).map fun (p : UInt64 × Bytes) => (p.1, ⟨p.2⟩)
  skip r n := (Rdr.skip r.data n).map fun d => ⟨d⟩
  sub r n := (Rdr.sub r.data n).map fun (p : Bytes × Bytes) => (⟨p.1⟩, ⟨p.2⟩)
  bytes _ _ := none

/-- the answer to the declining reader, read back as an answer to the slice -/
def undecline {ε α : Type} : Out Declining ε α → Out Bytes ε α
  | .ok a r => .ok a r.data
  | .err e r => .err e r.data
  | .fault f => .fault f

theorem leafU32_declining (attr : UInt16) (mk : UInt32 → AVP) (b : Bytes) :
    undecline ((leafU32 attr mk : M Declining DErr AVP) ⟨b⟩) = (leafU32 attr mk : M Bytes DErr AVP) b := by
  match b with
  | [] => rfl
  | [_] => rfl
  | [_, _] => rfl
  | [_, _, _] => rfl
  | _ :: _ :: _ :: _ :: _ => rfl

/-- all four bitmask kinds: the word decoded through a reader whose `bytes` declines is the word decoded from the
    slice (same value, same octets left over, same refusal when fewer than four octets are there) -/
theorem bitmask_decode_declining (t : UInt16) (ht : t = 3 ∨ t = 4 ∨ t = 18 ∨ t = 19) (b : Bytes) :
    undecline ((decodeAvp t : M Declining DErr AVP) ⟨b⟩) = (decodeAvp t : M Bytes DErr AVP) b := by
  rcases ht with h | h | h | h <;> subst h <;> exact leafU32_declining _ _ b

example : undecline ((decodeAvp 3 : M Declining DErr AVP) ⟨[0, 0, 0, 0xC0]⟩) = .ok (.framingCapabilities 0xC0) [] := by decide

end Rl2tp.C17
