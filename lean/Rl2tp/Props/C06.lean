/-
  C06 — the encoder emits exactly the specified octets for every message and AVP.
-/
import Rl2tp.Proofs.Control
import Rl2tp.Proofs.DataMsg
import Rl2tp.Spec.Encode
import Rl2tp.Proofs.DataWriter
import Rl2tp.Proofs.GenKinds
import Rl2tp.Proofs.GenSizes
namespace Rl2tp.C06

/-- the writers' value octets and attribute numbers are the layout table's -/
theorem value_eq_layout (a : AVP) :
    a.value = (Spec.layout a).2.flatMap Spec.Field.emit ∧ a.attr = UInt16.ofNat (Spec.layout a).1 := by
  cases a with
  | resultCode c e =>
    match e with
    | none => exact ⟨by simp [AVP.value, Spec.layout, Spec.Field.emit], rfl⟩
    | some (et, none) => exact ⟨by simp [AVP.value, Spec.layout, Spec.Field.emit], rfl⟩
    | some (et, some m) => exact ⟨by simp [AVP.value, Spec.layout, Spec.Field.emit], rfl⟩
  | q931CauseCode c m adv =>
    match adv with
    | none => exact ⟨by simp [AVP.value, Spec.layout, Spec.Field.emit], rfl⟩
    | some x => exact ⟨by simp [AVP.value, Spec.layout, Spec.Field.emit], rfl⟩
  | hidden t v => exact ⟨by simp [AVP.value, Spec.layout, Spec.Field.emit], by simp [AVP.attr, Spec.layout]⟩
  | _ => exact ⟨by simp [AVP.value, Spec.layout, Spec.Field.emit, List.replicate], rfl⟩

theorem avpImage_eq_spec (a : AVP) : avpImage a = Spec.encodeAvp a := by
  obtain ⟨hv, ha⟩ := value_eq_layout a
  unfold avpImage Spec.encodeAvp flagOctet
  simp only []
  rw [← hv, ← ha]
  cases a <;> rfl

/-- every AVP within the size limit: mandatory bit set, vendor id zero, hidden bit iff hidden, the
    assigned attribute number, reserved octets zero, the kind's payload layout -/
theorem encodeAvp_eq_spec (a : AVP) (h : 6 + a.value.length ≤ 1023) :
    encodeAvp a = .ok (Spec.encodeAvp a) := by
  have := writeAvp_eq [] a h
  rw [← avpImage_eq_spec]
  simpa [encodeAvp] using this

theorem avpsImage_eq_spec (as : List AVP) : avpsImage as = as.flatMap Spec.encodeAvp := by
  induction as with
  | nil => rfl
  | cons a as ih => simp only [avpsImage, List.flatMap_cons, avpImage_eq_spec] at ih ⊢; rw [ih]

/-- every control message within the size limits -/
theorem encodeControl_eq_spec (c : Control) (ha : ∀ a ∈ c.avps, 6 + a.value.length ≤ 1023)
    (hl : 12 + (avpsImage c.avps).length ≤ 65535) :
    encode (.control c) = .ok (Spec.encode (.control c)) := by
  have := writeControl_eq [] c ha hl
  have himg : controlImage c = Spec.encodeControl c := by
    unfold controlImage Spec.encodeControl
    simp only [avpsImage_eq_spec, controlFlags_val]
    rfl
  simpa [encode, writeMsg, Spec.encode, himg] using this

theorem mkFlags_data_val (l s o p : Bool) :
    mkFlags false l s o p = UInt16.ofNat (0x0020 + (if l then 0x0200 else 0) + (if s then 0x1000 else 0)
      + (if o then 0x4000 else 0) + (if p then 0x8000 else 0)) := by
  cases l <;> cases s <;> cases o <;> cases p <;> decide

/-- the data encoder as the code runs it — `Flags::new` setter by setter (the version assert included), then one
    append per field present (Model/DataWriter.lean; this is what the correspondence check executes) — emits the
    specified octets behind whatever the writer held -/
theorem encodeData_steps_eq_spec (w : Bytes) (d : Data) : writeDataSteps w d = .ok (w ++ Spec.encode (.data d)) := by
  rw [writeDataSteps_eq]
  simp only [writeMsg, Spec.encode]
  congr 2
  unfold dataImage Spec.encodeData
  rw [mkFlags_data_val]
  rfl

/-- `Flags::new` with the constant version 2 never trips its assert and yields the closed-form flag word -/
theorem flags_new_eq (c l s o p : Bool) : flagsNew c l s o p 2 = .ok (mkFlags c l s o p) := flagsNew_eq c l s o p

/-- every data message (the data encoder has no size limit of its own) -/
theorem encodeData_eq_spec (d : Data) : encode (.data d) = .ok (Spec.encode (.data d)) := by
  simp only [encode, writeMsg, List.nil_append, Spec.encode]
  congr 1
  unfold dataImage Spec.encodeData
  rw [mkFlags_data_val]
  rfl

/-! non-vacuity -/
example : Spec.encodeAvp (.messageType .hello) = [1, 8, 0, 0, 0, 0, 0, 6] := by decide
example : Spec.encodeAvp (.hidden 7 [0xAA]) = [3, 7, 0, 0, 0, 7, 0xAA] := by decide
example : Spec.encodeAvp (.proxyAuthenId 9) = [1, 8, 0, 0, 0, 32, 0, 9] := by decide

/-! ### the constants the source's writers emit, as they are now (re-read by bin/gentables on every run) -/

/-- the number the model's writer puts in front of a value of each kind is that kind's `ATTRIBUTE_TYPE` in the source;
    the version the model's control header carries is the source's `PROTOCOL_VERSION` -/
theorem source_writer_constants :
    (∀ r ∈ Gen.typeConstants, (GenKinds.sampleAvp r.1).map (fun a => (Text.kindName a, a.attr.toNat)) = some (r.2.1, r.1)) ∧
    version (word16 (be16 (mkFlags true true true false false))[0]! (be16 (mkFlags true true true false false))[1]!)
      = UInt8.ofNat (GenSizes.cc "PROTOCOL_VERSION") :=
  ⟨GenKinds.writer_attr_is_model, GenSizes.protocol_version_is_model.2⟩

end Rl2tp.C06
