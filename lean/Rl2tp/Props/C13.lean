/-
  C13 — revealing is total: any hidden octets, secret and random vector give Ok or Err.
-/
import Rl2tp.Proofs.RevealTotal
import Rl2tp.Proofs.InPlace
namespace Rl2tp.C13

variable (md5 : Bytes → Bytes) (hmd5 : ∀ x, (md5 x).length = 16)

include hmd5 in
/-- never a fault (panic, out-of-range read), for every AVP, secret and random vector -/
theorem reveal_total (a : AVP) (secret : Bytes) (rv : UInt32) :
    (∃ r, reveal md5 a secret rv = .ok (.ok r)) ∨ (∃ e, reveal md5 a secret rv = .ok (.error e)) := by
  cases h : reveal md5 a secret rv with
  | error f => exact absurd h (reveal_noFault md5 hmd5 a secret rv f)
  | ok x => cases x with
    | ok r => exact Or.inl ⟨r, rfl⟩
    | error e => exact Or.inr ⟨e, rfl⟩

include hmd5 in
/-- what comes out is an AVP of the announced attribute type -/
theorem reveal_kind (t : UInt16) (v secret : Bytes) (rv : UInt32) (a : AVP)
    (h : reveal md5 (.hidden t v) secret rv = .ok (.ok a)) : a.attr = t :=
  Rl2tp.reveal_kind md5 hmd5 t v secret rv a h

theorem reveal_rejects_empty (t : UInt16) (secret : Bytes) (rv : UInt32) :
    reveal md5 (.hidden t []) secret rv = .ok (.error .emptyHiddenAVP) := by
  simp [reveal]

theorem reveal_rejects_misaligned (t : UInt16) (v secret : Bytes) (rv : UInt32) (h : v.length % 16 ≠ 0) :
    reveal md5 (.hidden t v) secret rv = .ok (.error .misalignedHiddenAVP) := by
  have h0 : v.length ≠ 0 := by omega
  simp [reveal, h0, h]

include hmd5 in
/-- a decrypted original length outside 6..=1023, or claiming more value octets than the |v| − 2 that
    follow the length subfield, is an error — never a read past the end -/
theorem reveal_rejects_bad_length (t : UInt16) (v secret : Bytes) (rv : UInt32)
    (h0 : v.length ≠ 0) (hal : v.length % 16 = 0)
    (hbad : (word16Of (revealPlain md5 t v secret rv)).toNat < 6 ∨ (word16Of (revealPlain md5 t v secret rv)).toNat > 1023 ∨
      (word16Of (revealPlain md5 t v secret rv)).toNat - 6 > v.length - 2) :
    reveal md5 (.hidden t v) secret rv = .ok (.error (.invalidOriginalAVPLength (word16Of (revealPlain md5 t v secret rv)))) := by
  rw [reveal_hidden_eq md5 hmd5, if_neg h0, if_neg (by omega)]
  simp only []
  rcases hbad with h | h | h
  · rw [if_pos (Or.inl h)]
  · rw [if_pos (Or.inr h)]
  · split
    · rfl
    · first | rfl | rw [if_pos h]

include hmd5 in
/-- the padding is padding: two hidden values of the same (aligned, non-zero) length whose decrypted octets agree on the
    original-length word and on the value it delimits are revealed alike — whatever stands behind the delimited value
    (zeros, random octets, octets that would themselves read as an AVP record) has no influence on the result -/
theorem reveal_padding_irrelevant (t : UInt16) (v v' secret secret' : Bytes) (rv rv' : UInt32)
    (hl : v.length = v'.length)
    (hw : word16Of (revealPlain md5 t v secret rv) = word16Of (revealPlain md5 t v' secret' rv'))
    (hv : ((revealPlain md5 t v secret rv).drop 2).take ((word16Of (revealPlain md5 t v secret rv)).toNat - 6)
        = ((revealPlain md5 t v' secret' rv').drop 2).take ((word16Of (revealPlain md5 t v secret rv)).toNat - 6)) :
    reveal md5 (.hidden t v) secret rv = reveal md5 (.hidden t v') secret' rv' := by
  rw [reveal_hidden_eq md5 hmd5, reveal_hidden_eq md5 hmd5]
  simp only []
  rw [← hl, ← hw, hv]

/-! non-vacuity, and the pinned-tree defect D6: without the last guard the sub-reader request exceeds
    what remains (a 16-octet value announcing 100 octets) -/
/-! ### the decryption loop as the code runs it: in place, last chunk to first, with index expressions that can panic

`revealIP` (Model/InPlace.lean) is `AVP::reveal` with the loop `for i in (1..n).rev() { data[i] ^= MD5(secret ‖ data[i-1]) }`
on one buffer, each slice / index expression a possible panic.  It is what the correspondence check runs. -/

include hmd5 in
/-- the in-place `reveal` never faults either: no slice or index expression of the loop is ever out of range, and what
    follows the loop is the `reveal` of the theorems above -/
theorem reveal_inplace_total (a : AVP) (secret : Bytes) (rv : UInt32) (f : Fault) :
    revealIP md5 a secret rv ≠ .error f := by
  rw [revealIP_eq md5 hmd5]; exact reveal_noFault md5 hmd5 a secret rv f

include hmd5 in
/-- walking last to first in place computes exactly the chain decryption the other theorems are stated for -/
theorem reveal_inplace_eq (a : AVP) (secret : Bytes) (rv : UInt32) : revealIP md5 a secret rv = reveal md5 a secret rv :=
  revealIP_eq md5 hmd5 a secret rv

def constHash : Bytes → Bytes := fun _ => List.replicate 16 0
example : reveal constHash (.hidden 7 (0 :: 106 :: List.replicate 14 0)) [] 0 = .ok (.error (.invalidOriginalAVPLength 106)) := by
  decide
example : reveal constHash (.hidden 7 (0 :: 10 :: 0x61 :: 0x62 :: 0x63 :: 0x64 :: List.replicate 10 0)) [] 0 =
    .ok (.ok (.hostName [0x61, 0x62, 0x63, 0x64])) := by decide

/-- the order of the walk matters: the same loop run first-to-last in place (each chunk keyed by its already
    *decrypted* predecessor) gives a different third chunk — the reverse order is not a detail the model may ignore -/
def posHash (x : Bytes) : Bytes := (List.range 16).map fun i => UInt8.ofNat (i + (x.getLastD 0).toNat)
example : ∀ x, (posHash x).length = 16 := fun x => by simp [posHash]
example : fwdLoop posHash [] 1 2 (List.replicate 48 1) ≠ revLoop posHash [] 2 (List.replicate 48 1) := by decide

end Rl2tp.C13
