/-
  C11 — hiding then revealing an AVP with the same secret and random vector returns it.
  The hash is a parameter: the theorems hold for every function with 16-octet output (MD5 is one).

  Domain.  "Every non-hidden AVP that fits the size limits" is read as the encodable domain C03 spells out: at most
  1023 octets on the wire *and* at least what the kind's format needs — variable-length values non-empty, optional
  text not `Some("")` (`AVP.Encodable`, decidable).  Outside it the crate's value types can still be built
  (`HostName { value: vec![] }`), `hide` accepts them, and `reveal` then answers what the decoder makes of such a value:
  `Err(IncompleteAVP(t))` for an empty value, the same AVP without the empty text for `Some("")`.  That is not hidden
  here: `reveal_hide_any` states the outcome for *every* non-hidden AVP within the upper limit, `reveal_hide_empty_value`
  / `reveal_hide_empty_text` spell out the two cases, and the `hr` stream carries them (model and implementation agree).
  DESIGN.md §0.5 records the reading.
-/
import Rl2tp.Proofs.HideReveal
import Rl2tp.Proofs.Greedy
import Rl2tp.Props.C03
namespace Rl2tp.C11

variable (md5 : Bytes → Bytes) (hmd5 : ∀ x, (md5 x).length = 16)

include hmd5 in
/-- directly: for every non-hidden encodable AVP, every secret (the empty one included), random vector,
    length padding and 16 octets of alignment padding — any number of chunks -/
theorem reveal_hide (a : AVP) (secret : Bytes) (rv : UInt32) (lp ap : Bytes)
    (he : a.Encodable) (hh : a.isHidden = false) (hap : ap.length = 16) :
    ∃ h, hide md5 a secret rv lp ap = .ok h ∧ reveal md5 h secret rv = .ok (.ok a) :=
  Rl2tp.reveal_hide md5 hmd5 a secret rv lp ap he.1 hh he.2 hap

include hmd5 in
/-- for **every** non-hidden AVP of at most 1023 octets — well-formed or not: revealing what `hide` produced yields
    exactly what the decoder makes of the AVP's own value octets -/
theorem reveal_hide_any (a : AVP) (secret : Bytes) (rv : UInt32) (lp ap : Bytes)
    (hl : 6 + a.value.length ≤ 1023) (hh : a.isHidden = false) (hap : ap.length = 16) :
    ∃ h, hide md5 a secret rv lp ap = .ok h ∧ reveal md5 h secret rv = ownDecode a :=
  reveal_hide_general md5 hmd5 a secret rv lp ap hh hl hap

include hmd5 in
/-- outside the domain, case 1: a variable-length value that is empty is hidden without complaint and revealed as
    `Err(IncompleteAVP(7))` (Host Name shown; the other byte-string and text kinds answer with their own number) -/
theorem reveal_hide_empty_value (secret : Bytes) (rv : UInt32) (lp ap : Bytes) (hap : ap.length = 16) :
    ∃ h, hide md5 (.hostName []) secret rv lp ap = .ok h ∧ reveal md5 h secret rv = .ok (.error (.incompleteAVP 7)) := by
  obtain ⟨h, h1, h2⟩ := reveal_hide_general md5 hmd5 (.hostName []) secret rv lp ap rfl (by decide) hap
  exact ⟨h, h1, by rw [h2]; rfl⟩

include hmd5 in
/-- outside the domain, case 2: an optional text that is `Some("")` comes back as `None` -/
theorem reveal_hide_empty_text (c : UInt16) (et : ErrorType) (secret : Bytes) (rv : UInt32) (lp ap : Bytes)
    (hap : ap.length = 16) :
    ∃ h, hide md5 (.resultCode c (some (et, some []))) secret rv lp ap = .ok h ∧
      reveal md5 h secret rv = .ok (.ok (.resultCode c (some (et, none)))) := by
  obtain ⟨h, h1, h2⟩ := reveal_hide_general md5 hmd5 (.resultCode c (some (et, some []))) secret rv lp ap rfl
    (by simp [AVP.value, be16]) hap
  refine ⟨h, h1, ?_⟩
  rw [h2]
  unfold ownDecode
  simp only [AVP.attr, AVP.value, decodeAvp, be16, List.cons_append, List.nil_append, List.append_nil]
  show (match (readResultCode : M Bytes DErr AVP) _ with | .ok r _ => _ | .err e _ => _ | .fault f => _) = _
  rw [readResultCode_cons_long, word16_be16, word16_be16]
  have : ErrorType.ofCode et.toCode = some et := by cases et <;> rfl
  simp [rcErrorSpec, this]

include hmd5 in
/-- … and after the hidden AVP has been encoded and decoded (it fits when 2+|value|+|lp| ≤ 1008) -/
theorem reveal_hide_wire (a : AVP) (secret : Bytes) (rv : UInt32) (lp ap : Bytes)
    (he : a.Encodable) (hh : a.isHidden = false) (hap : ap.length = 16) (hfit : 2 + a.value.length + lp.length ≤ 1008) :
    ∃ h img, hide md5 a secret rv lp ap = .ok h ∧ encodeAvp h = .ok img ∧
      (greedy : M Bytes DErr (List Res)) img = .ok [.ok h] [] ∧ reveal md5 h secret rv = .ok (.ok a) := by
  have heq := hide_eq md5 a secret rv lp ap hh he.2
  obtain ⟨h, hh1, hh2⟩ := Rl2tp.reveal_hide md5 hmd5 a secret rv lp ap he.1 hh he.2 hap
  rw [heq] at hh1
  cases hh1
  -- the hidden value is as long as the padded plaintext
  have hmod := hidePlain_length_mod a lp ap hap
  have hpl := hidePlain_length a lp ap hap
  have hchunks := chunks_each ((hidePlain a lp ap).length / 16) (hidePlain a lp ap) (by omega)
  have henc := encChain_each md5 hmd5 secret _ (hmd5 (be16 a.attr ++ secret ++ be32 rv)) _ hchunks
  have hflen := flatten_length_16 _ henc
  rw [encChain_length, chunks_length] at hflen
  have henc' : (AVP.hidden a.attr (encChain md5 secret (key1 md5 a.attr secret rv)
      (chunks ((hidePlain a lp ap).length / 16) (hidePlain a lp ap))).flatten).Encodable := by
    refine ⟨rfl, ?_⟩
    simp only [AVP.value]
    unfold key1
    rw [hflen]
    omega
  refine ⟨_, avpImage _, heq, ?_, avp_roundtrip _ henc', hh2⟩
  have := writeAvp_eq [] _ henc'.2
  simpa [encodeAvp] using this

/-- what `hide` makes of a plain AVP (`Proofs/HideReveal.hide_eq`) -/
def hiddenOf (a : AVP) (secret : Bytes) (rv : UInt32) (lp ap : Bytes) : AVP :=
  .hidden a.attr (encChain md5 secret (key1 md5 a.attr secret rv)
    (chunks ((hidePlain a lp ap).length / 16) (hidePlain a lp ap))).flatten

include hmd5 in
/-- the hidden AVP is itself encodable when 2+|value|+|lp| ≤ 1008 -/
theorem hiddenOf_encodable (a : AVP) (secret : Bytes) (rv : UInt32) (lp ap : Bytes)
    (hap : ap.length = 16) (hfit : 2 + a.value.length + lp.length ≤ 1008) :
    (hiddenOf md5 a secret rv lp ap).Encodable := by
  have hmod := hidePlain_length_mod a lp ap hap
  have hpl := hidePlain_length a lp ap hap
  have hchunks := chunks_each ((hidePlain a lp ap).length / 16) (hidePlain a lp ap) (by omega)
  have henc := encChain_each md5 hmd5 secret _ (hmd5 (be16 a.attr ++ secret ++ be32 rv)) _ hchunks
  have hflen := flatten_length_16 _ henc
  rw [encChain_length, chunks_length] at hflen
  refine ⟨rfl, ?_⟩
  simp only [hiddenOf, AVP.value]
  unfold key1
  rw [hflen]
  omega

include hmd5 in
/-- End to end, the way the AVPs travel: a control message whose first AVP is a (plain) Message Type and whose
    other AVPs were each hidden under the tunnel's secret and the message's random vector — any number of
    them, any kinds, any paddings — is encoded, decoded under any validation options, and every hidden AVP of
    the decoded message reveals to the AVP that was hidden. -/
theorem hidden_in_message_roundtrip (tid sid ns nr : UInt16) (mt : MessageType) (o : Opts)
    (secret : Bytes) (rv : UInt32) (items : List (AVP × Bytes × Bytes))
    (hi : ∀ x ∈ items, x.1.Encodable ∧ x.1.isHidden = false ∧ x.2.2.length = 16 ∧ 2 + x.1.value.length + x.2.1.length ≤ 1008)
    (hl : 12 + (avpsImage (.messageType mt :: items.map fun x => hiddenOf md5 x.1 secret rv x.2.1 x.2.2)).length ≤ 65535) :
    let hs := items.map fun x => hiddenOf md5 x.1 secret rv x.2.1 x.2.2
    let c : Control := { length := 0, tunnelId := tid, sessionId := sid, ns := ns, nr := nr, avps := .messageType mt :: hs }
    (∀ x ∈ items, hide md5 x.1 secret rv x.2.1 x.2.2 = .ok (hiddenOf md5 x.1 secret rv x.2.1 x.2.2)) ∧
    (∃ img, encode (.control c) = .ok img ∧
      (decode o : M Bytes (List DErr) Msg) img = .ok (.control { c with length := UInt16.ofNat img.length }) []) ∧
    (∀ x ∈ items, reveal md5 (hiddenOf md5 x.1 secret rv x.2.1 x.2.2) secret rv = .ok (.ok x.1)) := by
  intro hs c
  refine ⟨?_, ?_, ?_⟩
  · intro x hx
    obtain ⟨he, hh, _, _⟩ := hi x hx
    exact hide_eq md5 x.1 secret rv x.2.1 x.2.2 hh he.2
  · apply C03.control_roundtrip c o
    · intro a ha
      simp only [c, List.mem_cons] at ha
      rcases ha with rfl | ha
      · exact ⟨rfl, by cases mt <;> decide⟩
      · simp only [hs, List.mem_map] at ha
        obtain ⟨x, hx, rfl⟩ := ha
        obtain ⟨_, _, hap, hfit⟩ := hi x hx
        exact hiddenOf_encodable md5 hmd5 x.1 secret rv x.2.1 x.2.2 hap hfit
    · rfl
    · exact hl
  · intro x hx
    obtain ⟨he, hh, hap, _⟩ := hi x hx
    obtain ⟨h, h1, h2⟩ := Rl2tp.reveal_hide md5 hmd5 x.1 secret rv x.2.1 x.2.2 he.1 hh he.2 hap
    rw [hide_eq md5 x.1 secret rv x.2.1 x.2.2 hh he.2] at h1
    cases h1
    exact h2

/-- hiding an already hidden AVP returns it unchanged -/
theorem hide_hidden (t : UInt16) (v secret : Bytes) (rv : UInt32) (lp ap : Bytes) :
    hide md5 (.hidden t v) secret rv lp ap = .ok (.hidden t v) := by
  simp [hide, AVP.isHidden]

/-- revealing a non-hidden AVP returns it unchanged -/
theorem reveal_plain (a : AVP) (secret : Bytes) (rv : UInt32) (hh : a.isHidden = false) :
    reveal md5 a secret rv = .ok (.ok a) := by
  cases a <;> first | (simp [AVP.isHidden] at hh; done) | rfl

/-! non-vacuity: the constant hash has 16-octet output, so the hypotheses are satisfiable with a
    concrete function; block counts 1 and 3 -/
def constHash : Bytes → Bytes := fun _ => List.replicate 16 0x5A
example : ∀ x, (constHash x).length = 16 := fun _ => rfl
example : (AVP.sequencingRequired).Encodable ∧ (AVP.hostName (List.replicate 40 1)).Encodable := by decide

/-- the hypotheses of `hidden_in_message_roundtrip` are met by a Host Name and a 30-octet challenge with three octets of length padding -/
example : ∀ x ∈ [(AVP.hostName [1, 2, 3], ([] : Bytes), List.replicate 16 (0 : UInt8)),
                 (AVP.challenge (List.replicate 30 7), [9, 9, 9], List.replicate 16 (1 : UInt8))],
    x.1.Encodable ∧ x.1.isHidden = false ∧ x.2.2.length = 16 ∧ 2 + x.1.value.length + x.2.1.length ≤ 1008 := by decide

end Rl2tp.C11
