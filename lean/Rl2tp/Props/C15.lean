/-
  C15 — control messages: all-or-nothing acceptance and a complete, ordered error list.
-/
import Rl2tp.Proofs.Records
import Rl2tp.Proofs.ControlInv
namespace Rl2tp.C15

/-- a record is well delimited when it has a header and its 10-bit length is its own size -/
def WellDelimited (r : Bytes) : Prop :=
  ∃ a b c d e f p, r = a :: b :: c :: d :: e :: f :: p ∧ hdrLen a b = 6 + p.length

/-- the result list entry a record yields — a function of the record's own octets -/
def resultOf : Bytes → Res
  | a :: _ :: c :: d :: e :: f :: p => recordResult a (word16 c d) (word16 e f) p
  | _ => .error (.unknownAvp 0)

def isOk : Res → Bool
  | .ok _ => true
  | .error _ => false

/-- the body `r₁ ++ … ++ rₖ` decodes record by record, in wire order -/
theorem body_results (recs : List Bytes) (h : ∀ r ∈ recs, WellDelimited r) :
    (greedy : M Bytes DErr (List Res)) recs.flatten = .ok (recs.map resultOf) [] := by
  induction recs with
  | nil => simp [greedy_short]
  | cons r recs ih =>
    obtain ⟨a, b, c, d, e, f, p, rfl, hl⟩ := h r (by simp)
    simp only [List.flatten_cons, List.cons_append, List.map_cons, resultOf]
    rw [greedy_record_cons a b c d e f p recs.flatten hl, ih (fun x hx => h x (by simp [hx]))]
    rfl

/-- … and 1 to 5 octets behind the last record (fewer than an AVP header) end the list silently: they yield no entry,
    no error, and are left unread -/
theorem body_results_junk (recs : List Bytes) (h : ∀ r ∈ recs, WellDelimited r) (junk : Bytes) (hj : junk.length < 6) :
    (greedy : M Bytes DErr (List Res)) (recs.flatten ++ junk) = .ok (recs.map resultOf) junk := by
  induction recs with
  | nil => simpa using greedy_short hj
  | cons r recs ih =>
    obtain ⟨a, b, c, d, e, f, p, rfl, hl⟩ := h r (by simp)
    simp only [List.flatten_cons, List.cons_append, List.map_cons, resultOf, List.append_assoc]
    rw [greedy_record_cons a b c d e f p (recs.flatten ++ junk) hl, ih (fun x hx => h x (by simp [hx]))]
    rfl

/-- the flag words the options let through as a control message: T, L and S set; version 2, reserved bits clear,
    P and O clear — each only when its check is switched on.  (`0x1320` satisfies it for every option set.) -/
def FlagsOk (o : Opts) (w : UInt16) : Prop :=
  isControl w = true ∧ hasLength w = true ∧ hasNsNr w = true ∧
    (o.version = true → version w = 2) ∧ (o.reserved = true → reservedOk w = true) ∧
    (o.unused = true → isPrioritized w = false) ∧ (o.unused = true → hasOffset w = false)

theorem flagsOk_1320 (o : Opts) : FlagsOk o (word16 0x13 0x20) := by
  have hw : word16 0x13 0x20 = 0x1320 := by decide
  rw [hw]
  exact ⟨by decide, by decide, by decide, fun _ => by decide, fun _ => by decide, fun _ => by decide, fun _ => by decide⟩

/-- the octets of a control message with flag octets `x y`, these ids, this body (which the Length field covers
    exactly), followed by `rest` (which it does not) -/
def messageW (x y : UInt8) (tid sid ns nr : UInt16) (body rest : Bytes) : Bytes :=
  x :: y :: (be16 (UInt16.ofNat (12 + body.length)) ++ be16 tid ++ be16 sid ++ be16 ns ++ be16 nr ++ (body ++ rest))

/-- **Any** acceptable flag word, any ids, a body made of well-delimited records plus at most five stray octets,
    anything behind the message: the outcome is `finishControl` of the per-record results in wire order, and the
    reader stands at `rest`. -/
theorem decode_messageW (o : Opts) (x y : UInt8) (hw : FlagsOk o (word16 x y)) (tid sid ns nr : UInt16)
    (recs : List Bytes) (h : ∀ r ∈ recs, WellDelimited r) (junk : Bytes) (hj : junk.length < 6) (rest : Bytes)
    (hsize : 12 + (recs.flatten ++ junk).length ≤ 65535) :
    (decode o : M Bytes (List DErr) Msg) (messageW x y tid sid ns nr (recs.flatten ++ junk) rest) =
      finishControl (UInt16.ofNat (12 + (recs.flatten ++ junk).length)) tid sid ns nr (recs.map resultOf) rest := by
  obtain ⟨hT, hL, hS, hV, hR, hP, hO⟩ := hw
  unfold messageW
  exact decode_control_body o x y _ tid sid ns nr (recs.flatten ++ junk) rest hT hL hS hV hR hP hO
    (u16_small (by omega)) _ junk (body_results_junk recs h junk hj)

/-- the value a list of results stands for when all of them are values -/
theorem finishControl_ok_iff (len tid sid ns nr : UInt16) (rs : List Res) (rest : Bytes) :
    (∃ m r, finishControl len tid sid ns nr rs rest = .ok m r) ↔ (resErrors rs = [] ∧ firstBad rs = false) := by
  unfold finishControl
  constructor
  · rintro ⟨m, r, hm⟩
    by_cases hf : firstBad rs = true
    · rw [if_pos hf] at hm; cases hm
    · rw [if_neg hf] at hm
      by_cases he : resErrors rs ≠ []
      · rw [if_pos he] at hm; cases hm
      · exact ⟨by simpa using he, by simpa using hf⟩
  · rintro ⟨he, hf⟩
    rw [if_neg (by simp [hf]), if_neg (by simp [he])]
    exact ⟨_, _, rfl⟩

theorem resErrors_nil_iff (rs : List Res) : resErrors rs = [] ↔ ∀ r ∈ rs, isOk r = true := by
  induction rs with
  | nil => simp [resErrors]
  | cons r rs ih =>
    cases r with
    | ok a => simp only [resErrors, List.filterMap_cons, List.mem_cons, forall_eq_or_imp, isOk, true_and]; exact ih
    | error e => simp [resErrors, isOk]

/-- accepted **iff** every record decodes (none vendor-specific, none undecodable) and the first one, when there is
    one, passes the first-AVP rule — for every acceptable flag word, with or without stray octets, whatever follows -/
theorem control_accepts_iff_general (o : Opts) (x y : UInt8) (hw : FlagsOk o (word16 x y)) (tid sid ns nr : UInt16)
    (recs : List Bytes) (h : ∀ r ∈ recs, WellDelimited r) (junk : Bytes) (hj : junk.length < 6) (rest : Bytes)
    (hsize : 12 + (recs.flatten ++ junk).length ≤ 65535) :
    (∃ m r, (decode o : M Bytes (List DErr) Msg) (messageW x y tid sid ns nr (recs.flatten ++ junk) rest) = .ok m r) ↔
      ((∀ r ∈ recs, isOk (resultOf r) = true) ∧ firstBad (recs.map resultOf) = false) := by
  rw [decode_messageW o x y hw tid sid ns nr recs h junk hj rest hsize, finishControl_ok_iff, resErrors_nil_iff]
  constructor
  · rintro ⟨hall, hf⟩
    exact ⟨fun r hr => hall _ (List.mem_map_of_mem hr), hf⟩
  · rintro ⟨hall, hf⟩
    refine ⟨fun x hx => ?_, hf⟩
    obtain ⟨r, hr, rfl⟩ := List.mem_map.mp hx
    exact hall r hr

/-- all results are values and the first passes the first-AVP rule: then the first *is* a Message Type AVP -/
theorem first_is_messageType (rs : List Res) (hall : ∀ r ∈ rs, isOk r = true) (hf : firstBad rs = false) :
    rs = [] ∨ ∃ t tl, rs = .ok (.messageType t) :: tl := by
  cases rs with
  | nil => exact .inl rfl
  | cons r tl =>
    right
    have hr := hall r (by simp)
    cases r with
    | error e => simp [isOk] at hr
    | ok a =>
      cases a <;> simp [firstBad, firstOk] at hf
      exact ⟨_, _, rfl⟩

/-- what is accepted: the message with exactly the records' values, in wire order, nothing else; its first AVP (when
    there is one) is a Message Type AVP; the reader stands behind the declared length -/
theorem control_accepted_value (o : Opts) (x y : UInt8) (hw : FlagsOk o (word16 x y)) (tid sid ns nr : UInt16)
    (recs : List Bytes) (h : ∀ r ∈ recs, WellDelimited r) (junk : Bytes) (hj : junk.length < 6) (rest : Bytes)
    (hsize : 12 + (recs.flatten ++ junk).length ≤ 65535)
    (hall : ∀ r ∈ recs, isOk (resultOf r) = true) (hf : firstBad (recs.map resultOf) = false) :
    (decode o : M Bytes (List DErr) Msg) (messageW x y tid sid ns nr (recs.flatten ++ junk) rest) =
        .ok (.control { length := UInt16.ofNat (12 + (recs.flatten ++ junk).length), tunnelId := tid, sessionId := sid,
                        ns := ns, nr := nr, avps := resValues (recs.map resultOf) }) rest ∧
      (resValues (recs.map resultOf)).length = recs.length ∧
      (recs = [] ∨ ∃ t tl, recs.map resultOf = .ok (.messageType t) :: tl) := by
  have hall' : ∀ r ∈ recs.map resultOf, isOk r = true := by
    intro x hx; obtain ⟨r, hr, rfl⟩ := List.mem_map.mp hx; exact hall r hr
  have he : resErrors (recs.map resultOf) = [] := (resErrors_nil_iff _).mpr hall'
  refine ⟨?_, ?_, ?_⟩
  · rw [decode_messageW o x y hw tid sid ns nr recs h junk hj rest hsize]
    unfold finishControl
    rw [if_neg (by simp [hf]), if_neg (by simp [he])]
  · clear he hf hsize h hall
    induction recs with
    | nil => rfl
    | cons r recs ih =>
      have h1 := hall' (resultOf r) (by simp)
      cases hr : resultOf r with
      | error e => rw [hr] at h1; simp [isOk] at h1
      | ok a =>
        simp only [List.map_cons, hr, resValues, List.filterMap_cons, List.length_cons]
        have := ih (fun x hx => hall' x (by simp only [List.map_cons, List.mem_cons]; exact .inr hx))
        simpa [resValues] using this
  · rcases first_is_messageType _ hall' hf with h0 | ⟨t, tl, ht⟩
    · left; simpa using h0
    · exact .inr ⟨t, tl, ht⟩

/-- on rejection nothing partial is returned and the error list is not empty; when the first AVP passes the first-AVP
    rule the list is exactly the errors of the undecodable records, in wire order — one per undecodable record -/
theorem control_error_list_general (o : Opts) (x y : UInt8) (hw : FlagsOk o (word16 x y)) (tid sid ns nr : UInt16)
    (recs : List Bytes) (h : ∀ r ∈ recs, WellDelimited r) (junk : Bytes) (hj : junk.length < 6) (rest : Bytes)
    (hsize : 12 + (recs.flatten ++ junk).length ≤ 65535) (hf : firstBad (recs.map resultOf) = false)
    (hbad : ∃ r ∈ recs, isOk (resultOf r) = false) :
    (decode o : M Bytes (List DErr) Msg) (messageW x y tid sid ns nr (recs.flatten ++ junk) rest) =
        .err (resErrors (recs.map resultOf)) rest ∧
      resErrors (recs.map resultOf) ≠ [] ∧
      (resErrors (recs.map resultOf)).length = (recs.filter fun r => !isOk (resultOf r)).length := by
  have hne : resErrors (recs.map resultOf) ≠ [] := by
    intro he
    obtain ⟨r, hr, hb⟩ := hbad
    have := (resErrors_nil_iff _).mp he (resultOf r) (List.mem_map_of_mem hr)
    rw [hb] at this; cases this
  refine ⟨?_, hne, ?_⟩
  · rw [decode_messageW o x y hw tid sid ns nr recs h junk hj rest hsize]
    unfold finishControl
    rw [if_neg (by simp [hf]), if_pos hne]
  · clear hne hbad hf hsize h
    induction recs with
    | nil => rfl
    | cons r recs ih =>
      cases hr : resultOf r with
      | ok a => simp [resErrors, isOk, hr] at ih ⊢; exact ih
      | error e => simp [resErrors, isOk, hr] at ih ⊢; exact ih

/-- when the first AVP is not (even a malformed) Message Type the whole message is refused as such -/
theorem control_first_rule_general (o : Opts) (x y : UInt8) (hw : FlagsOk o (word16 x y)) (tid sid ns nr : UInt16)
    (recs : List Bytes) (h : ∀ r ∈ recs, WellDelimited r) (junk : Bytes) (hj : junk.length < 6) (rest : Bytes)
    (hsize : 12 + (recs.flatten ++ junk).length ≤ 65535) (hf : firstBad (recs.map resultOf) = true) :
    (decode o : M Bytes (List DErr) Msg) (messageW x y tid sid ns nr (recs.flatten ++ junk) rest) =
      .err [.controlMessageTypeNotFirst] rest := by
  rw [decode_messageW o x y hw tid sid ns nr recs h junk hj rest hsize]
  unfold finishControl
  rw [if_pos hf]

/-- parsing stops only at a record whose length field is unusable: it contributes one error and ends the list -/
theorem stops_only_at_bad_length (recs : List Bytes) (h : ∀ r ∈ recs, WellDelimited r)
    (a b c d e f : UInt8) (tail : Bytes) (hb : hdrLen a b < 6 ∨ hdrLen a b - 6 > tail.length) :
    (greedy : M Bytes DErr (List Res)) (recs.flatten ++ a :: b :: c :: d :: e :: f :: tail) =
      .ok (recs.map resultOf ++ [.error (.invalidAVPLength (badLen a b))]) tail := by
  have hl := greedy_bad_length_eq a b c d e f tail hb
  induction recs with
  | nil => simpa using hl
  | cons r recs ih =>
    obtain ⟨a', b', c', d', e', f', p, rfl, hlen⟩ := h r (by simp)
    simp only [List.flatten_cons, List.cons_append, List.map_cons, resultOf, List.append_assoc]
    rw [greedy_record_cons a' b' c' d' e' f' p _ hlen, ih (fun x hx => h x (by simp [hx]))]
    rfl

theorem resErrors_append (xs ys : List Res) : resErrors (xs ++ ys) = resErrors xs ++ resErrors ys := by
  simp [resErrors]

theorem firstBad_append_of_ne_nil (xs ys : List Res) (h : xs ≠ []) : firstBad (xs ++ ys) = firstBad xs := by
  cases xs with
  | nil => exact absurd rfl h
  | cons x xs => rfl

/-- … and the message that contains such a record is **always rejected**: with records in front of it whose first
    passes the first-AVP rule, the error list is the errors of the undecodable records in wire order followed by the
    `InvalidAVPLength` of the unusable one (carrying its length field); nothing behind the unusable record is looked at -/
theorem control_bad_length_rejected (o : Opts) (x y : UInt8) (hw : FlagsOk o (word16 x y)) (tid sid ns nr : UInt16)
    (recs : List Bytes) (h : ∀ r ∈ recs, WellDelimited r) (a b c d e f : UInt8) (tail rest : Bytes)
    (hb : hdrLen a b < 6 ∨ hdrLen a b - 6 > tail.length)
    (hsize : 12 + (recs.flatten ++ a :: b :: c :: d :: e :: f :: tail).length ≤ 65535) :
    (decode o : M Bytes (List DErr) Msg)
        (messageW x y tid sid ns nr (recs.flatten ++ a :: b :: c :: d :: e :: f :: tail) rest) =
      (if recs = [] ∨ firstBad (recs.map resultOf) = true then .err [.controlMessageTypeNotFirst] rest
       else .err (resErrors (recs.map resultOf) ++ [.invalidAVPLength (badLen a b)]) rest) := by
  obtain ⟨hT, hL, hS, hV, hR, hP, hO⟩ := hw
  unfold messageW
  rw [decode_control_body o x y _ tid sid ns nr _ rest hT hL hS hV hR hP hO (u16_small (by omega)) _ tail
    (stops_only_at_bad_length recs h a b c d e f tail hb)]
  unfold finishControl
  by_cases h0 : recs = []
  · subst h0
    simp [firstBad, firstOk]
  · have hm : recs.map resultOf ≠ [] := by simpa using h0
    rw [firstBad_append_of_ne_nil _ _ hm, resErrors_append]
    by_cases hf : firstBad (recs.map resultOf) = true
    · simp [hf]
    · simp [h0, hf, resErrors]

/-! ### the same for the canonical flag word `0x1320`, no stray octets, nothing behind the message -/

/-- the octets of a control message with flag word 0x1320, these ids, and this body -/
def message (tid sid ns nr : UInt16) (body : Bytes) : Bytes :=
  0x13 :: 0x20 :: (be16 (UInt16.ofNat (12 + body.length)) ++ be16 tid ++ be16 sid ++ be16 ns ++ be16 nr ++ (body ++ []))

theorem message_eq (tid sid ns nr : UInt16) (body : Bytes) :
    message tid sid ns nr body = messageW 0x13 0x20 tid sid ns nr (body ++ []) [] := by
  simp [message, messageW]

/-- Decoding a control message assembled from well-delimited records, under any options: the outcome
    is a function of the per-record results, in wire order. -/
theorem decode_message (o : Opts) (tid sid ns nr : UInt16) (recs : List Bytes) (h : ∀ r ∈ recs, WellDelimited r)
    (hsize : 12 + recs.flatten.length ≤ 65535) :
    (decode o : M Bytes (List DErr) Msg) (message tid sid ns nr recs.flatten) =
      finishControl (UInt16.ofNat (12 + recs.flatten.length)) tid sid ns nr (recs.map resultOf) [] := by
  rw [message_eq]
  have := decode_messageW o 0x13 0x20 (flagsOk_1320 o) tid sid ns nr recs h [] (by simp) [] (by simpa using hsize)
  simpa using this

theorem control_accepts_iff (o : Opts) (tid sid ns nr : UInt16) (recs : List Bytes) (h : ∀ r ∈ recs, WellDelimited r)
    (hsize : 12 + recs.flatten.length ≤ 65535) :
    (∃ m r, (decode o : M Bytes (List DErr) Msg) (message tid sid ns nr recs.flatten) = .ok m r) ↔
      ((∀ r ∈ recs, isOk (resultOf r) = true) ∧ firstBad (recs.map resultOf) = false) := by
  rw [message_eq]
  exact control_accepts_iff_general o 0x13 0x20 (flagsOk_1320 o) tid sid ns nr recs h [] (by simp) []
    (by simpa using hsize)

theorem control_error_list (o : Opts) (tid sid ns nr : UInt16) (recs : List Bytes) (h : ∀ r ∈ recs, WellDelimited r)
    (hsize : 12 + recs.flatten.length ≤ 65535) (hf : firstBad (recs.map resultOf) = false)
    (hbad : ∃ r ∈ recs, isOk (resultOf r) = false) :
    (decode o : M Bytes (List DErr) Msg) (message tid sid ns nr recs.flatten) = .err (resErrors (recs.map resultOf)) [] ∧
      resErrors (recs.map resultOf) ≠ [] ∧
      (resErrors (recs.map resultOf)).length = (recs.filter fun r => !isOk (resultOf r)).length := by
  rw [message_eq]
  exact control_error_list_general o 0x13 0x20 (flagsOk_1320 o) tid sid ns nr recs h [] (by simp) []
    (by simpa using hsize) hf hbad

theorem control_first_rule (o : Opts) (tid sid ns nr : UInt16) (recs : List Bytes) (h : ∀ r ∈ recs, WellDelimited r)
    (hsize : 12 + recs.flatten.length ≤ 65535) (hf : firstBad (recs.map resultOf) = true) :
    (decode o : M Bytes (List DErr) Msg) (message tid sid ns nr recs.flatten) = .err [.controlMessageTypeNotFirst] [] := by
  rw [message_eq]
  exact control_first_rule_general o 0x13 0x20 (flagsOk_1320 o) tid sid ns nr recs h [] (by simp) []
    (by simpa using hsize) hf

/-- a ZLB (no AVP at all) is accepted -/
theorem zlb_accepted (o : Opts) (tid sid ns nr : UInt16) :
    (decode o : M Bytes (List DErr) Msg) (message tid sid ns nr []) =
      .ok (.control { length := 12, tunnelId := tid, sessionId := sid, ns := ns, nr := nr, avps := [] }) [] := by
  have := decode_message o tid sid ns nr [] (fun r hr => by simp at hr) (by simp)
  simpa [finishControl, firstBad, resErrors, resValues] using this

/-! ### "accepted only if", for an arbitrary input (no assumption on how it was built) -/

/-- **Whatever the octets**: if the decoder accepts them as a control message then the Length field `L` lies between 12
    and the input's size, the reader is left exactly at octet `L`, and the `L − 12` octets after the header are a list
    of AVP records (in the specification's reading, `Spec.avps`: element-wise a value, or `none` for a vendor-specific /
    undecodable / unusable-length record) in which **every** record is a value and the first, when there is one, is a
    Message Type AVP; the AVPs of the returned message are exactly these values, in wire order — nothing partial. -/
theorem control_accepted_only_if (o : Opts) (b : Bytes) (c : Control) (r : Bytes)
    (h : (decode o : M Bytes (List DErr) Msg) b = .ok (.control c) r) :
    12 ≤ c.length.toNat ∧ c.length.toNat ≤ b.length ∧ r = b.drop c.length.toNat ∧
      ∃ rs : List (Option AVP),
        rs = Spec.avps (((b.drop 12).take (c.length.toNat - 12)).length + 1) ((b.drop 12).take (c.length.toNat - 12)) ∧
        (∀ x ∈ rs, x.isSome = true) ∧ (rs = [] ∨ ∃ t tl, rs = some (.messageType t) :: tl) ∧
        c.avps = rs.filterMap id := by
  obtain ⟨h1, h2, h3, h4⟩ := control_accepted_inv o b c r h
  obtain ⟨a1, a2, a3⟩ := acceptAvps_some _ _ h4
  exact ⟨h1, h2, h3, _, rfl, a1, a2, a3⟩

/-- whatever the octets and the options, a rejection carries at least one error and no value (`Out` has no constructor
    that holds both), and the decoder never faults -/
theorem control_rejection_nonempty (o : Opts) (b : Bytes) :
    (∃ m r, (decode o : M Bytes (List DErr) Msg) b = .ok m r) ∨
      (∃ es r, (decode o : M Bytes (List DErr) Msg) b = .err es r ∧ es ≠ []) := by
  have hg := decode_good o b
  cases hd : (decode o : M Bytes (List DErr) Msg) b with
  | ok m r => exact .inl ⟨m, r, rfl⟩
  | err es r => rw [hd] at hg; exact .inr ⟨es, r, rfl, hg⟩
  | fault f => rw [hd] at hg; exact absurd hg (by simp [Good])

/-! non-vacuity: one good Message Type record, one vendor-specific record -/
example : WellDelimited [1, 8, 0, 0, 0, 0, 0, 6] := ⟨1, 8, 0, 0, 0, 0, [0, 6], rfl, by decide⟩
example : resultOf [1, 8, 0, 0, 0, 0, 0, 6] = .ok (.messageType .hello) := by decide
example : resultOf [1, 7, 0, 9, 0, 7, 0x61] = .error (.unsupportedVendorId 9) := by decide
/-- a flag word with the P and O bits, reserved bits and version 15 is acceptable once the three checks are off … -/
example : FlagsOk ⟨false, false, false⟩ (word16 0xFF 0xFF) := by
  refine ⟨by decide, by decide, by decide, ?_, ?_, ?_, ?_⟩ <;> intro h <;> cases h
/-- … and such a message, with three stray octets inside its Length and two octets behind it, is accepted with the one AVP -/
example : (decode ⟨false, false, false⟩ : M Bytes (List DErr) Msg)
      (messageW 0xFF 0xFF 1 2 3 4 ([[1, 8, 0, 0, 0, 0, 0, 6]].flatten ++ [9, 9, 9]) [0xAA, 0xBB]) =
    .ok (.control { length := 23, tunnelId := 1, sessionId := 2, ns := 3, nr := 4, avps := [.messageType .hello] })
      [0xAA, 0xBB] := by decide
/-- a record with an unusable length (5) behind a good one: rejected, the error carries the field -/
example : (decode Opts.strict : M Bytes (List DErr) Msg)
      (messageW 0x13 0x20 1 2 3 4 ([[1, 8, 0, 0, 0, 0, 0, 6]].flatten ++ [0, 5, 0, 0, 0, 7, 1, 2]) []) =
    .err [.invalidAVPLength 5] [] := by decide

end Rl2tp.C15
