/-
  C15 — control messages: all-or-nothing acceptance and a complete, ordered error list.
-/
import Rl2tp.Proofs.Records
namespace Rl2tp.C15

/-- a record is well delimited when it has a header and its 10-bit length is its own size -/
def WellDelimited (r : Bytes) : Prop :=
  ∃ a b c d e f p, r = a :: b :: c :: d :: e :: f :: p ∧ hdrLen a b = 6 + p.length

/-- the result list entry a record yields — a function of the record's own octets -/
def resultOf : Bytes → Res
  | a :: _ :: c :: d :: e :: f :: p => recordResult a (word16 c d) (word16 e f) p
  | _ => .error (.unknownAvp 0)

def isOk : Res → Bool
  | .ok _ => true
  | .error _ => false

/-- the body `r₁ ++ … ++ rₖ` decodes record by record, in wire order -/
theorem body_results (recs : List Bytes) (h : ∀ r ∈ recs, WellDelimited r) :
    (greedy : M Bytes DErr (List Res)) recs.flatten = .ok (recs.map resultOf) [] := by
  induction recs with
  | nil => simp [greedy_short]
  | cons r recs ih =>
    obtain ⟨a, b, c, d, e, f, p, rfl, hl⟩ := h r (by simp)
    simp only [List.flatten_cons, List.cons_append, List.map_cons, resultOf]
    rw [greedy_record_cons a b c d e f p recs.flatten hl, ih (fun x hx => h x (by simp [hx]))]
    rfl

/-- the octets of a control message with flag word 0x1320, these ids, and this body -/
def message (tid sid ns nr : UInt16) (body : Bytes) : Bytes :=
  0x13 :: 0x20 :: (be16 (UInt16.ofNat (12 + body.length)) ++ be16 tid ++ be16 sid ++ be16 ns ++ be16 nr ++ (body ++ []))

/-- Decoding a control message assembled from well-delimited records, under any options: the outcome
    is a function of the per-record results, in wire order. -/
theorem decode_message (o : Opts) (tid sid ns nr : UInt16) (recs : List Bytes) (h : ∀ r ∈ recs, WellDelimited r)
    (hsize : 12 + recs.flatten.length ≤ 65535) :
    (decode o : M Bytes (List DErr) Msg) (message tid sid ns nr recs.flatten) =
      finishControl (UInt16.ofNat (12 + recs.flatten.length)) tid sid ns nr (recs.map resultOf) [] := by
  unfold message
  have hw : word16 0x13 0x20 = 0x1320 := by decide
  exact decode_control_body o 0x13 0x20 _ tid sid ns nr recs.flatten [] (by rw [hw]; decide) (by rw [hw]; decide)
    (by rw [hw]; decide) (fun _ => by rw [hw]; decide) (fun _ => by rw [hw]; decide) (fun _ => by rw [hw]; decide)
    (fun _ => by rw [hw]; decide) (u16_small (by omega)) _ [] (body_results recs h)

theorem resErrors_nil_iff (rs : List Res) : resErrors rs = [] ↔ ∀ r ∈ rs, isOk r = true := by
  induction rs with
  | nil => simp [resErrors]
  | cons r rs ih =>
    cases r with
    | ok a => simp only [resErrors, List.filterMap_cons, List.mem_cons, forall_eq_or_imp, isOk, true_and]; exact ih
    | error e => simp [resErrors, isOk]

/-- accepted **iff** every record decodes (none vendor-specific, none undecodable) and the first one,
    when there is one, passes the first-AVP rule; a body with no AVP (ZLB) is accepted -/
theorem control_accepts_iff (o : Opts) (tid sid ns nr : UInt16) (recs : List Bytes) (h : ∀ r ∈ recs, WellDelimited r)
    (hsize : 12 + recs.flatten.length ≤ 65535) :
    (∃ m r, (decode o : M Bytes (List DErr) Msg) (message tid sid ns nr recs.flatten) = .ok m r) ↔
      ((∀ r ∈ recs, isOk (resultOf r) = true) ∧ firstBad (recs.map resultOf) = false) := by
  rw [decode_message o tid sid ns nr recs h hsize]
  unfold finishControl
  have hiff := resErrors_nil_iff (recs.map resultOf)
  constructor
  · rintro ⟨m, r, hm⟩
    by_cases hf : firstBad (recs.map resultOf) = true
    · rw [if_pos hf] at hm; cases hm
    · rw [if_neg hf] at hm
      by_cases he : resErrors (recs.map resultOf) ≠ []
      · rw [if_pos he] at hm; cases hm
      · have he' : resErrors (recs.map resultOf) = [] := by simpa using he
        refine ⟨?_, by simpa using hf⟩
        intro r hr
        exact hiff.mp he' (resultOf r) (List.mem_map_of_mem hr)
  · rintro ⟨hall, hf⟩
    have he : resErrors (recs.map resultOf) = [] := by
      apply hiff.mpr
      intro x hx
      obtain ⟨r, hr, rfl⟩ := List.mem_map.mp hx
      exact hall r hr
    rw [if_neg (by simp [hf]), if_neg (by simp [he])]
    exact ⟨_, _, rfl⟩

/-- on rejection nothing partial is returned and the error list is not empty; when the first AVP passes
    the first-AVP rule the list is exactly the errors of the undecodable records, in wire order -/
theorem control_error_list (o : Opts) (tid sid ns nr : UInt16) (recs : List Bytes) (h : ∀ r ∈ recs, WellDelimited r)
    (hsize : 12 + recs.flatten.length ≤ 65535) (hf : firstBad (recs.map resultOf) = false)
    (hbad : ∃ r ∈ recs, isOk (resultOf r) = false) :
    (decode o : M Bytes (List DErr) Msg) (message tid sid ns nr recs.flatten) = .err (resErrors (recs.map resultOf)) [] ∧
      resErrors (recs.map resultOf) ≠ [] ∧
      (resErrors (recs.map resultOf)).length = (recs.filter fun r => !isOk (resultOf r)).length := by
  have hne : resErrors (recs.map resultOf) ≠ [] := by
    intro he
    obtain ⟨r, hr, hb⟩ := hbad
    have := (resErrors_nil_iff _).mp he (resultOf r) (List.mem_map_of_mem hr)
    rw [hb] at this; cases this
  refine ⟨?_, hne, ?_⟩
  · rw [decode_message o tid sid ns nr recs h hsize]
    unfold finishControl
    rw [if_neg (by simp [hf]), if_pos hne]
  · clear hne hbad hf hsize h
    induction recs with
    | nil => rfl
    | cons r recs ih =>
      cases hr : resultOf r with
      | ok a => simp [resErrors, isOk, hr] at ih ⊢; exact ih
      | error e => simp [resErrors, isOk, hr] at ih ⊢; exact ih

/-- when the first AVP is not (even a malformed) Message Type the whole message is refused as such -/
theorem control_first_rule (o : Opts) (tid sid ns nr : UInt16) (recs : List Bytes) (h : ∀ r ∈ recs, WellDelimited r)
    (hsize : 12 + recs.flatten.length ≤ 65535) (hf : firstBad (recs.map resultOf) = true) :
    (decode o : M Bytes (List DErr) Msg) (message tid sid ns nr recs.flatten) = .err [.controlMessageTypeNotFirst] [] := by
  rw [decode_message o tid sid ns nr recs h hsize]
  unfold finishControl
  rw [if_pos hf]

/-- a ZLB (no AVP at all) is accepted -/
theorem zlb_accepted (o : Opts) (tid sid ns nr : UInt16) :
    (decode o : M Bytes (List DErr) Msg) (message tid sid ns nr []) =
      .ok (.control { length := 12, tunnelId := tid, sessionId := sid, ns := ns, nr := nr, avps := [] }) [] := by
  have := decode_message o tid sid ns nr [] (fun r hr => by simp at hr) (by simp)
  simpa [finishControl, firstBad, resErrors, resValues] using this

/-- parsing stops only at a record whose length field is unusable: it contributes one error and ends the list -/
theorem stops_only_at_bad_length (recs : List Bytes) (h : ∀ r ∈ recs, WellDelimited r)
    (a b c d e f : UInt8) (tail : Bytes) (hb : hdrLen a b < 6 ∨ hdrLen a b - 6 > tail.length) :
    ∃ l, (greedy : M Bytes DErr (List Res)) (recs.flatten ++ a :: b :: c :: d :: e :: f :: tail) =
      .ok (recs.map resultOf ++ [.error (.invalidAVPLength l)]) tail := by
  obtain ⟨l, hl⟩ := greedy_bad_length a b c d e f tail hb
  refine ⟨l, ?_⟩
  induction recs with
  | nil => simpa using hl
  | cons r recs ih =>
    obtain ⟨a', b', c', d', e', f', p, rfl, hlen⟩ := h r (by simp)
    simp only [List.flatten_cons, List.cons_append, List.map_cons, resultOf, List.append_assoc]
    rw [greedy_record_cons a' b' c' d' e' f' p _ hlen, ih (fun x hx => h x (by simp [hx]))]
    rfl

/-! non-vacuity: one good Message Type record, one vendor-specific record -/
example : WellDelimited [1, 8, 0, 0, 0, 0, 0, 6] := ⟨1, 8, 0, 0, 0, 0, [0, 6], rfl, by decide⟩
example : resultOf [1, 8, 0, 0, 0, 0, 0, 6] = .ok (.messageType .hello) := by decide
example : resultOf [1, 7, 0, 9, 0, 7, 0x61] = .error (.unsupportedVendorId 9) := by decide

end Rl2tp.C15
