/-
  C04 — data messages survive encode then decode: ids, Ns/Nr, priority, length, payload.
-/
import Rl2tp.Proofs.DataMsg
namespace Rl2tp.C04

/-- the data encoder only appends, and what it appends is `dataImage` -/
theorem encode_data (d : Data) : encode (.data d) = .ok (dataImage d) := by simp [encode, writeMsg]

/-- the size of the encoding, counted from the first flag octet -/
theorem image_size (d : Data) : (dataImage d).length = 2 + (dataTail d).length := by
  rw [dataImage_eq]; simp

/-- Encode then decode, under *any* validation options: same ids, Ns/Nr, priority, length and exactly the
    payload octets after the `n` offset-pad octets; the decoded value reports no offset.
    Domain: |data| > n (so the payload is non-empty), length absent or equal to the true total size. -/
theorem data_roundtrip (d : Data) (o : Opts) (hn : d.skipN < d.data.length)
    (hlen : d.length = none ∨ (d.length = some (UInt16.ofNat (dataImage d).length) ∧ (dataImage d).length ≤ 65535)) :
    (decode o : M Bytes (List DErr) Msg) (dataImage d) =
      .ok (.data { d with offset := none, data := d.data.drop d.skipN }) [] := by
  rw [image_size] at hlen
  have himg := dataImage_eq d
  have hd := decodeData_image d [] hn hlen
  rw [List.append_nil] at hd
  rw [himg]
  simp only [be16, List.cons_append, List.nil_append]
  rw [decode_cons, word16_be16]
  simp only [mkFlags_version, mkFlags_reservedOk, mkFlags_isControl, ne_eq, not_true_eq_false, decide_false,
    Bool.and_false, Bool.false_eq_true, if_false, Bool.not_true]
  unfold liftE
  rw [hd]
  cases hl : d.length <;> simp

/-- with a Length field the decoder stops at the declared end: whatever follows is left in the reader -/
theorem data_roundtrip_followed (d : Data) (o : Opts) (rest : Bytes) (hn : d.skipN < d.data.length) (l : UInt16)
    (hlen : d.length = some l) (hl : l = UInt16.ofNat (dataImage d).length) (hmax : (dataImage d).length ≤ 65535) :
    (decode o : M Bytes (List DErr) Msg) (dataImage d ++ rest) =
      .ok (.data { d with offset := none, data := d.data.drop d.skipN }) rest := by
  subst hl
  rw [image_size] at hlen hmax
  have hd := decodeData_image d rest hn (Or.inr ⟨hlen, hmax⟩)
  rw [dataImage_eq]
  simp only [be16, List.cons_append, List.nil_append, List.append_assoc]
  rw [decode_cons, word16_be16]
  simp only [mkFlags_version, mkFlags_reservedOk, mkFlags_isControl, ne_eq, not_true_eq_false, decide_false,
    Bool.and_false, Bool.false_eq_true, if_false, Bool.not_true]
  unfold liftE
  rw [hd, hlen]

/-- the priority bit round-trips (the pinned tree decoded it as `false` always: D4) -/
theorem priority_roundtrip (d : Data) (o : Opts) (hn : d.skipN < d.data.length) (hlen : d.length = none) :
    ∃ d', (decode o : M Bytes (List DErr) Msg) (dataImage d) = .ok (.data d') [] ∧ d'.prio = d.prio :=
  ⟨_, data_roundtrip d o hn (Or.inl hlen), rfl⟩

/-! non-vacuity: a prioritised message with Length, Ns/Nr and a one-octet offset pad -/
def sample : Data :=
  { prio := true, length := some 17, tunnelId := 7, sessionId := 9, nsnr := some (1, 2), offset := some 1,
    data := [0xaa, 0xbb, 0xcc] }
example : (dataImage sample).length = 17 ∧ sample.skipN < sample.data.length := by decide
example : (decode Opts.strict : M Bytes _ Msg) (dataImage sample) =
    .ok (.data { sample with offset := none, data := [0xbb, 0xcc] }) [] := by decide

end Rl2tp.C04
