/-
  C14 — validation options only restrict; each checks exactly its bits; the default is version only.
-/
import Rl2tp.Proofs.Options
import Rl2tp.Proofs.SpecBridge
import Rl2tp.Proofs.GenTables
import Rl2tp.Proofs.GenSizes
namespace Rl2tp.C14

/-- accepted under stronger options ⇒ accepted with the same value (and the same remaining input)
    under every weaker combination -/
theorem opts_monotone (o o' : Opts) (hle : Opts.le o o') (b : Bytes) (m : Msg) (r : Bytes)
    (h : (decode o' : M Bytes (List DErr) Msg) b = .ok m r) :
    (decode o : M Bytes (List DErr) Msg) b = .ok m r := by
  by_cases hs : b.length < 2
  · rw [decode_short o' hs] at h; simp at h
  obtain ⟨x, y, t, rfl⟩ := exists_cons2 (by omega : 2 ≤ b.length)
  rw [decode_cons] at h ⊢
  obtain ⟨hr, hv, hu⟩ := hle
  split at h
  · simp at h
  rename_i hv'
  split at h
  · simp at h
  rename_i hr'
  have e1 : ¬ ((o.version && version (word16 x y) ≠ 2) = true) := by
    intro hc
    apply hv'
    simp only [Bool.and_eq_true] at hc ⊢
    exact ⟨hv hc.1, hc.2⟩
  have e2 : ¬ ((o.reserved && !reservedOk (word16 x y)) = true) := by
    intro hc
    apply hr'
    simp only [Bool.and_eq_true] at hc ⊢
    exact ⟨hr hc.1, hc.2⟩
  rw [if_neg e1, if_neg e2]
  split
  · rename_i hc
    rw [if_pos hc] at h
    rw [decodeControl_eq] at h ⊢
    split at h
    · simp at h
    rename_i hp'
    split at h
    · simp at h
    rename_i ho'
    have e3 : ¬ ((o.unused && isPrioritized (word16 x y)) = true) := by
      intro hc
      apply hp'
      simp only [Bool.and_eq_true] at hc ⊢
      exact ⟨hu hc.1, hc.2⟩
    have e4 : ¬ ((o.unused && hasOffset (word16 x y)) = true) := by
      intro hc
      apply ho'
      simp only [Bool.and_eq_true] at hc ⊢
      exact ⟨hu hc.1, hc.2⟩
    rw [if_neg e3, if_neg e4]
    exact h
  · rename_i hc
    rw [if_neg hc] at h
    exact h

/-- contrapositive reading: rejected under weaker options ⇒ rejected under stronger ones
    (decoding never faults, so "not accepted" is "rejected") -/
theorem rejected_monotone (o o' : Opts) (hle : Opts.le o o') (b : Bytes)
    (h : Rejected ((decode o : M Bytes (List DErr) Msg) b)) : Rejected ((decode o' : M Bytes (List DErr) Msg) b) := by
  obtain ⟨es, r, he⟩ := h
  cases hd : (decode o' : M Bytes (List DErr) Msg) b with
  | ok m r' => rw [opts_monotone o o' hle b m r' hd] at he; simp at he
  | err es' r' => exact ⟨es', r', rfl⟩
  | fault f =>
    have := decode_good o' b
    rw [hd] at this
    exact absurd this id

/-- version checking rejects exactly the inputs whose version nibble is not 2 … -/
theorem version_exact (o : Opts) (x y : UInt8) (t : Bytes) :
    (decode { o with version := true } : M Bytes (List DErr) Msg) (x :: y :: t) =
      if version (word16 x y) ≠ 2 then .err [.invalidVersion (version (word16 x y))] t
      else (decode { o with version := false } : M Bytes (List DErr) Msg) (x :: y :: t) := by
  rw [decode_cons, decode_cons]
  by_cases hv : version (word16 x y) = 2 <;> simp [hv, decodeControl_eq]

/-- … reserved-bit checking exactly those with a reserved bit set (when the version check, which comes
    first, lets the input through) … -/
theorem reserved_exact (o : Opts) (x y : UInt8) (t : Bytes) :
    (reservedOk (word16 x y) = true →
      (decode { o with reserved := true } : M Bytes (List DErr) Msg) (x :: y :: t) =
      (decode { o with reserved := false } : M Bytes (List DErr) Msg) (x :: y :: t)) ∧
    (reservedOk (word16 x y) = false →
      Rejected ((decode { o with reserved := true } : M Bytes (List DErr) Msg) (x :: y :: t))) := by
  constructor
  · intro hr
    rw [decode_cons, decode_cons]
    simp [hr, decodeControl_eq]
  · intro hr
    rw [decode_cons]
    split
    · exact ⟨_, _, rfl⟩
    · simp [hr, Rejected]

/-- … and unused-field checking exactly the control messages with the priority or offset bit set -/
theorem unused_exact (o : Opts) (x y : UInt8) (t : Bytes) :
    ((isControl (word16 x y) = false ∨ (isPrioritized (word16 x y) = false ∧ hasOffset (word16 x y) = false)) →
      (decode { o with unused := true } : M Bytes (List DErr) Msg) (x :: y :: t) =
      (decode { o with unused := false } : M Bytes (List DErr) Msg) (x :: y :: t)) ∧
    (isControl (word16 x y) = true → (isPrioritized (word16 x y) = true ∨ hasOffset (word16 x y) = true) →
      Rejected ((decode { o with unused := true } : M Bytes (List DErr) Msg) (x :: y :: t))) := by
  constructor
  · intro h
    rw [decode_cons, decode_cons]
    rcases h with h | ⟨hp, ho⟩
    · simp [h]
    · simp [decodeControl_eq, hp, ho]
  · intro hc h
    rw [decode_cons]
    split
    · exact ⟨_, _, rfl⟩
    · split
      · exact ⟨_, _, rfl⟩
      · first | rw [if_pos hc, decodeControl_eq] | rw [decodeControl_eq]
        rcases h with h | h
        · simp [h, Rejected]
        · by_cases hp : isPrioritized (word16 x y) = true <;> simp [h, hp, Rejected]

/-- with a check switched off, the bits it would look at do not affect the result: two flag words
    that agree on everything the enabled checks and the decoders look at decode alike -/
theorem bits_irrelevant (o : Opts) (w w' : UInt16) (t : Bytes)
    (hc : isControl w = isControl w') (hl : hasLength w = hasLength w') (hs : hasNsNr w = hasNsNr w')
    (ho : isControl w = false ∨ o.unused = true → hasOffset w = hasOffset w')
    (hp : isControl w = false ∨ o.unused = true → isPrioritized w = isPrioritized w')
    (hv : o.version = true → version w = version w')
    (hr : o.reserved = true → reservedOk w = reservedOk w') :
    (decode o : M Bytes (List DErr) Msg) (be16 w ++ t) = (decode o : M Bytes (List DErr) Msg) (be16 w' ++ t) := by
  simp only [be16, List.cons_append, List.nil_append]
  rw [decode_cons, decode_cons, word16_be16, word16_be16]
  have hdata : isControl w = false →
      (liftE (decodeData w) : M Bytes (List DErr) Msg) t = liftE (decodeData w') t := by
    intro hcc
    have ho' := ho (Or.inl hcc); have hp' := hp (Or.inl hcc)
    simp only [decodeData, readDataHeader, readDataPayload, liftE, hl, hs, ho', hp']
  have hctl : (decodeControl w o : M Bytes (List DErr) Msg) t = decodeControl w' o t := by
    rw [decodeControl_eq, decodeControl_eq]
    cases hou : o.unused
    · simp only [Bool.false_and, Bool.false_eq_true, if_false, decodeControlCore, hl, hs]
    · have ho' := ho (Or.inr hou); have hp' := hp (Or.inr hou)
      simp only [Bool.true_and, ho', hp', decodeControlCore, hl, hs]
  have hrest : (if isControl w = true then (decodeControl w o : M Bytes (List DErr) Msg) t else liftE (decodeData w) t) =
      (if isControl w' = true then (decodeControl w' o : M Bytes (List DErr) Msg) t else liftE (decodeData w') t) := by
    rw [← hc]
    cases hcc : isControl w
    · simp only [Bool.false_eq_true, if_false]; exact hdata hcc
    · simp only [if_true]; exact hctl
  have hres : (if (o.reserved && !reservedOk w) = true then (.err [.invalidReservedBits] t : Out Bytes (List DErr) Msg)
        else if isControl w = true then (decodeControl w o : M Bytes (List DErr) Msg) t else liftE (decodeData w) t) =
      (if (o.reserved && !reservedOk w') = true then (.err [.invalidReservedBits] t : Out Bytes (List DErr) Msg)
        else if isControl w' = true then (decodeControl w' o : M Bytes (List DErr) Msg) t else liftE (decodeData w') t) := by
    cases hor : o.reserved
    · simp only [Bool.false_and, Bool.false_eq_true, if_false]; exact hrest
    · rw [hr hor, hrest]
  cases hov : o.version
  · simp only [Bool.false_and, Bool.false_eq_true, if_false]; exact hres
  · rw [hv hov, hres]

/-- the default entry point is version checking alone -/
theorem default_is_version_only :
    (decodeDefault : M Bytes (List DErr) Msg) = decode { reserved := false, version := true, unused := false } := rfl

/-! non-vacuity: a control message with the priority bit is accepted without the unused check and rejected with it -/
example : (decode { reserved := true, version := true, unused := false } : M Bytes _ Msg)
      [0x93, 0x20, 0, 12, 0, 1, 0, 2, 0, 3, 0, 4]
    = .ok (.control { length := 12, tunnelId := 1, sessionId := 2, ns := 3, nr := 4, avps := [] }) [] := by decide
example : (decode Opts.strict : M Bytes _ Msg) [0x93, 0x20, 0, 12, 0, 1, 0, 2, 0, 3, 0, 4]
    = .err [.forbiddenControlMessagePriority] [0, 12, 0, 1, 0, 2, 0, 3, 0, 4] := by decide

/-- which bits the three checks look at, as masks on the two flag octets as they arrive (all 65 536 flag words, kernel
    evaluation): "reserved" = 0x2C of the first octet and 0x0F of the second, "version" = the high nibble of the second,
    "unused" = P (0x80) and O (0x40) of the first -/
theorem checked_bits_are_masks (x y : UInt8) :
    reservedOk (word16 x y) = (x &&& 0x2C == 0 && y &&& 0x0F == 0) ∧ version (word16 x y) = y >>> 4 ∧
    isPrioritized (word16 x y) = (x &&& 0x80 != 0) ∧ hasOffset (word16 x y) = (x &&& 0x40 != 0) := by
  obtain ⟨_, _, _, h4, h5, h6, h7⟩ := Spec.flags_eq x y
  exact ⟨h7.symm, h6.symm, h5.symm, h4.symm⟩

/-! ### the bit numbers as they stand in /repo's `flags.rs` *now* (re-read by `bin/gentables` on every run) -/

/-- the `get_bit(n)` / `set_bit(n)` numbers of the five flag accessors, the reserved-bit list and the version field's
    shift and mask in the source are the ones the model's accessors use -/
theorem source_flag_bits (w : UInt16) :
    (isControl w = fbit w (GenTables.bitOf "T") ∧ hasLength w = fbit w (GenTables.bitOf "L") ∧
      hasNsNr w = fbit w (GenTables.bitOf "S") ∧ hasOffset w = fbit w (GenTables.bitOf "O") ∧
      isPrioritized w = fbit w (GenTables.bitOf "P")) ∧
    reservedOk w = Gen.reservedBits.all (fun i => !fbit w i) ∧
    version w = UInt8.ofNat (w.toNat / 2 ^ Gen.versionShift % (Gen.versionMask + 1)) :=
  ⟨GenTables.flag_bits_is_model w, GenTables.reserved_bits_is_model w, GenTables.version_field_is_model w⟩

/-- the version the default options insist on is the source's `PROTOCOL_VERSION` (re-read by bin/gentables on every run) -/
theorem source_default_version :
    ∀ v ∈ List.range 16, v ≠ GenSizes.cc "PROTOCOL_VERSION" →
      (decodeDefault : M Bytes (List DErr) Msg) ([0x13, UInt8.ofNat (16 * v), 0, 12] ++ GenSizes.zeros 8)
        = .err [.invalidVersion (UInt8.ofNat v)] ([0, 12] ++ GenSizes.zeros 8) :=
  GenSizes.protocol_version_is_model.1

end Rl2tp.C14
