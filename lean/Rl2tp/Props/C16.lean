/-
  C16 — enumerated protocol fields accept exactly their assigned code points, one-to-one.
  Theorems over the model's tables, for every `x : UInt16` (no enumeration bound).
  The tie to the code is exhaustive here: all 65 536 codes of each field go through the real
  decoder/encoder and through the model, line by line (`code` ops).
-/
import Rl2tp.Proofs.Shape
import Rl2tp.Proofs.GenTables
namespace Rl2tp.C16

/-- assigned code points of `MessageType` (RFC 2661) -/
def messageTypeCodes : List Nat := [1, 2, 3, 4, 6, 7, 8, 9, 10, 11, 12, 14, 15, 16]

theorem messageType_accepts (x : UInt16) : (MessageType.ofCode x).isSome ↔ x.toNat ∈ messageTypeCodes := by
  unfold MessageType.ofCode messageTypeCodes
  split <;> simp_all

theorem messageType_ofCode_toCode (t : MessageType) : MessageType.ofCode t.toCode = some t := by
  cases t <;> rfl

theorem messageType_toCode_ofCode (x : UInt16) (t : MessageType) (h : MessageType.ofCode x = some t) : t.toCode = x := by
  apply UInt16.toNat_inj.mp
  unfold MessageType.ofCode at h
  split at h <;> simp_all <;> subst h <;> simp_all [MessageType.toCode]

/-- each named value ↦ its RFC 2661 number -/
theorem messageType_toCode_rfc : [MessageType.startControlConnectionRequest.toCode.toNat, MessageType.startControlConnectionReply.toCode.toNat, MessageType.startControlConnectionConnected.toCode.toNat, MessageType.stopControlConnectionNotification.toCode.toNat, MessageType.hello.toCode.toNat, MessageType.outgoingCallRequest.toCode.toNat, MessageType.outgoingCallReply.toCode.toNat, MessageType.outgoingCallConnected.toCode.toNat, MessageType.incomingCallRequest.toCode.toNat, MessageType.incomingCallReply.toCode.toNat, MessageType.incomingCallConnected.toCode.toNat, MessageType.callDisconnectNotify.toCode.toNat, MessageType.wanErrorNotify.toCode.toNat, MessageType.setLinkInfo.toCode.toNat] = messageTypeCodes := by
  decide

/-- assigned code points of `ErrorType` (RFC 2661) -/
def errorTypeCodes : List Nat := [0, 1, 2, 3, 4, 5, 6, 7, 8]

theorem errorType_accepts (x : UInt16) : (ErrorType.ofCode x).isSome ↔ x.toNat ∈ errorTypeCodes := by
  unfold ErrorType.ofCode errorTypeCodes
  split <;> simp_all

theorem errorType_ofCode_toCode (t : ErrorType) : ErrorType.ofCode t.toCode = some t := by
  cases t <;> rfl

theorem errorType_toCode_ofCode (x : UInt16) (t : ErrorType) (h : ErrorType.ofCode x = some t) : t.toCode = x := by
  apply UInt16.toNat_inj.mp
  unfold ErrorType.ofCode at h
  split at h <;> simp_all <;> subst h <;> simp_all [ErrorType.toCode]

/-- each named value ↦ its RFC 2661 number -/
theorem errorType_toCode_rfc : [ErrorType.ok.toCode.toNat, ErrorType.noControlConnectionExists.toCode.toNat, ErrorType.wrongLength.toCode.toNat, ErrorType.outOfRangeOrBadReserved.toCode.toNat, ErrorType.insufficientResources.toCode.toNat, ErrorType.invalidSessionId.toCode.toNat, ErrorType.generic.toCode.toNat, ErrorType.tryAnotherDestination.toCode.toNat, ErrorType.unknownMandatoryAvp.toCode.toNat] = errorTypeCodes := by
  decide

/-- assigned code points of `ProxyAuthenType` (RFC 2661) -/
def proxyAuthenTypeCodes : List Nat := [0, 1, 2, 3, 4, 5]

theorem proxyAuthenType_accepts (x : UInt16) : (ProxyAuthenType.ofCode x).isSome ↔ x.toNat ∈ proxyAuthenTypeCodes := by
  unfold ProxyAuthenType.ofCode proxyAuthenTypeCodes
  split <;> simp_all

theorem proxyAuthenType_ofCode_toCode (t : ProxyAuthenType) : ProxyAuthenType.ofCode t.toCode = some t := by
  cases t <;> rfl

theorem proxyAuthenType_toCode_ofCode (x : UInt16) (t : ProxyAuthenType) (h : ProxyAuthenType.ofCode x = some t) : t.toCode = x := by
  apply UInt16.toNat_inj.mp
  unfold ProxyAuthenType.ofCode at h
  split at h <;> simp_all <;> subst h <;> simp_all [ProxyAuthenType.toCode]

/-- each named value ↦ its RFC 2661 number -/
theorem proxyAuthenType_toCode_rfc : [ProxyAuthenType.reserved.toCode.toNat, ProxyAuthenType.textualUserNamePasswordExchange.toCode.toNat, ProxyAuthenType.pppChap.toCode.toNat, ProxyAuthenType.pppPap.toCode.toNat, ProxyAuthenType.noAuthentication.toCode.toNat, ProxyAuthenType.microsoftChapVersion1.toCode.toNat] = proxyAuthenTypeCodes := by
  decide

/-- assigned code points of `StopCcnCode` (RFC 2661) -/
def stopCcnCodes : List Nat := [0, 1, 2, 3, 4, 5, 6, 7]

theorem stopCcn_accepts (x : UInt16) : (StopCcnCode.ofCode x).isSome ↔ x.toNat ∈ stopCcnCodes := by
  unfold StopCcnCode.ofCode stopCcnCodes
  split <;> simp_all

theorem stopCcn_ofCode_toCode (t : StopCcnCode) : StopCcnCode.ofCode t.toCode = some t := by
  cases t <;> rfl

theorem stopCcn_toCode_ofCode (x : UInt16) (t : StopCcnCode) (h : StopCcnCode.ofCode x = some t) : t.toCode = x := by
  apply UInt16.toNat_inj.mp
  unfold StopCcnCode.ofCode at h
  split at h <;> simp_all <;> subst h <;> simp_all [StopCcnCode.toCode]

/-- each named value ↦ its RFC 2661 number -/
theorem stopCcn_toCode_rfc : [StopCcnCode.reserved.toCode.toNat, StopCcnCode.generalRequestToClearControlConnection.toCode.toNat, StopCcnCode.generalError.toCode.toNat, StopCcnCode.controlChannelAlreadyExists.toCode.toNat, StopCcnCode.requesterNotAuthorizedToEstablishControlChannel.toCode.toNat, StopCcnCode.requesterProtocolVersionUnsupported.toCode.toNat, StopCcnCode.requesterShutdown.toCode.toNat, StopCcnCode.fsmError.toCode.toNat] = stopCcnCodes := by
  decide

/-- assigned code points of `CdnCode` (RFC 2661) -/
def cdnCodes : List Nat := [0, 1, 2, 3, 4, 5, 6, 7, 8, 9, 10, 11]

theorem cdn_accepts (x : UInt16) : (CdnCode.ofCode x).isSome ↔ x.toNat ∈ cdnCodes := by
  unfold CdnCode.ofCode cdnCodes
  split <;> simp_all

theorem cdn_ofCode_toCode (t : CdnCode) : CdnCode.ofCode t.toCode = some t := by
  cases t <;> rfl

theorem cdn_toCode_ofCode (x : UInt16) (t : CdnCode) (h : CdnCode.ofCode x = some t) : t.toCode = x := by
  apply UInt16.toNat_inj.mp
  unfold CdnCode.ofCode at h
  split at h <;> simp_all <;> subst h <;> simp_all [CdnCode.toCode]

/-- each named value ↦ its RFC 2661 number -/
theorem cdn_toCode_rfc : [CdnCode.reserved.toCode.toNat, CdnCode.callDisconnectedLossOfCarrier.toCode.toNat, CdnCode.callDisconnectedWithErrorCode.toCode.toNat, CdnCode.callDisconnectedAdministrative.toCode.toNat, CdnCode.callFailedTemporarilyUnavailable.toCode.toNat, CdnCode.callFailedPermanentlyUnavailable.toCode.toNat, CdnCode.invalidDestination.toCode.toNat, CdnCode.callFailedNoCarrier.toCode.toNat, CdnCode.callFailedBusySignal.toCode.toNat, CdnCode.callFailedNoDialTone.toCode.toNat, CdnCode.callEstablishTimeout.toCode.toNat, CdnCode.callNoFramingDetected.toCode.toNat] = cdnCodes := by
  decide

/-! ### attribute types: the dispatch table knows exactly 0..19 and 21..39 -/

/-- the dispatch table has no row for `t` -/
def unknownAttr (t : UInt16) : Prop := (decodeAvp t : M Bytes DErr AVP) = fail (.unknownAvp t)

theorem dispatch_rejects (t : UInt16) (h : t.toNat = 20 ∨ 40 ≤ t.toNat) : unknownAttr t := by
  unfold unknownAttr decodeAvp
  split <;> first | rfl | omega

/-- a payload every assigned kind accepts: (00 01) × 16 -/
def samplePayload : Bytes := (List.range 16).flatMap fun _ => [0, 1]

/-- every assigned attribute type has a decoder: it decodes the sample payload to a value -/
theorem dispatch_accepts (t : UInt16) (h : t.toNat ≤ 39) (h20 : t.toNat ≠ 20) :
    ∃ a r, (decodeAvp t : M Bytes DErr AVP) samplePayload = .ok a r := by
  have hk : t.toNat = 0 ∨ t.toNat = 1 ∨ t.toNat = 2 ∨ t.toNat = 3 ∨ t.toNat = 4 ∨ t.toNat = 5 ∨ t.toNat = 6 ∨ t.toNat = 7 ∨ t.toNat = 8 ∨ t.toNat = 9 ∨ t.toNat = 10 ∨ t.toNat = 11 ∨ t.toNat = 12 ∨ t.toNat = 13 ∨ t.toNat = 14 ∨ t.toNat = 15 ∨ t.toNat = 16 ∨ t.toNat = 17 ∨ t.toNat = 18 ∨ t.toNat = 19 ∨ t.toNat = 21 ∨ t.toNat = 22 ∨ t.toNat = 23 ∨ t.toNat = 24 ∨ t.toNat = 25 ∨ t.toNat = 26 ∨ t.toNat = 27 ∨ t.toNat = 28 ∨ t.toNat = 29 ∨ t.toNat = 30 ∨ t.toNat = 31 ∨ t.toNat = 32 ∨ t.toNat = 33 ∨ t.toNat = 34 ∨ t.toNat = 35 ∨ t.toNat = 36 ∨ t.toNat = 37 ∨ t.toNat = 38 ∨ t.toNat = 39 := by omega
  rcases hk with hk | hk | hk | hk | hk | hk | hk | hk | hk | hk | hk | hk | hk | hk | hk | hk | hk | hk | hk | hk | hk | hk | hk | hk | hk | hk | hk | hk | hk | hk | hk | hk | hk | hk | hk | hk | hk | hk | hk <;>
    (unfold decodeAvp; simp only [hk]; exact ⟨_, _, rfl⟩)

/-- ... and the value it yields re-encodes under the same attribute type -/
theorem dispatch_attr (t : UInt16) (p r : Bytes) (a : AVP)
    (h : (decodeAvp t : M Bytes DErr AVP) p = .ok a r) : a.attr = t :=
  decodeAvp_attr t p r a h

/-- the raw result code is kept whatever its value and written back unchanged -/
theorem resultCode_raw_kept (c : UInt16) (rest : Bytes) (hr : rest.length < 2) :
    (readResultCode : M Bytes DErr AVP) (be16 c ++ rest) = .ok (.resultCode c none) rest ∧
    (AVP.resultCode c none).value = be16 c := by
  constructor
  · simp only [be16, List.cons_append, List.nil_append]
    rw [readResultCode_cons_short _ _ _ hr, word16_be16]
  · rfl

/-- the typed views of a raw result code fail exactly outside their range -/
theorem stopCcn_view_fails (c : UInt16) : StopCcnCode.ofCode c = none ↔ 8 ≤ c.toNat := by
  unfold StopCcnCode.ofCode
  split <;> simp_all <;> omega

theorem cdn_view_fails (c : UInt16) : CdnCode.ofCode c = none ↔ 12 ≤ c.toNat := by
  unfold CdnCode.ofCode
  split <;> simp_all <;> omega

/-! ### the same at the decoders: what a one-AVP body with the 16-bit code `x` decodes to, for every `x` -/

/-- Message Type (attribute 0): the value named by the table for an assigned code, `UnknownMessageType(x)` carrying the
    code for every other one; surplus octets are left alone -/
theorem decode_messageType_code (x : UInt16) (rest : Bytes) :
    (decodeAvp 0 : M Bytes DErr AVP) (be16 x ++ rest) =
      match MessageType.ofCode x with
      | some t => .ok (.messageType t) rest
      | none => .err (.unknownMessageType x) rest := by
  simp only [be16, List.cons_append, List.nil_append, decodeAvp]
  show (readMessageType : M Bytes DErr AVP) _ = _
  rw [readMessageType_cons, word16_be16]
  cases MessageType.ofCode x <;> rfl

/-- … accepted iff the code is one of the fourteen assigned ones -/
theorem decode_messageType_accepts (x : UInt16) (rest : Bytes) :
    (∃ a r, (decodeAvp 0 : M Bytes DErr AVP) (be16 x ++ rest) = .ok a r) ↔ x.toNat ∈ messageTypeCodes := by
  rw [decode_messageType_code, ← messageType_accepts]
  cases MessageType.ofCode x <;> simp

/-- Proxy Authen Type (attribute 29): the named value for 0..5, rejected (`IncompleteAVP(29)`, the code's own error
    for it) for every other code -/
theorem decode_proxyAuthenType_code (x : UInt16) (rest : Bytes) :
    (decodeAvp 29 : M Bytes DErr AVP) (be16 x ++ rest) =
      match ProxyAuthenType.ofCode x with
      | some t => .ok (.proxyAuthenType t) rest
      | none => .err (.incompleteAVP 29) rest := by
  simp only [be16, List.cons_append, List.nil_append, decodeAvp]
  show (readProxyAuthenType : M Bytes DErr AVP) _ = _
  rw [readProxyAuthenType_cons, word16_be16]
  cases ProxyAuthenType.ofCode x <;> rfl

theorem decode_proxyAuthenType_accepts (x : UInt16) (rest : Bytes) :
    (∃ a r, (decodeAvp 29 : M Bytes DErr AVP) (be16 x ++ rest) = .ok a r) ↔ x.toNat ∈ proxyAuthenTypeCodes := by
  rw [decode_proxyAuthenType_code, ← proxyAuthenType_accepts]
  cases ProxyAuthenType.ofCode x <;> simp

/-- Result Code (attribute 1) with an error field: whatever the raw result code `c`, the general error type `x`
    decides — an unassigned one is `InvalidResultCodeErrorType(x)`, an assigned one is kept by name … -/
theorem decode_resultCode_errorType (c x : UInt16) (rest : Bytes) :
    (decodeAvp 1 : M Bytes DErr AVP) (be16 c ++ be16 x ++ rest) =
      match rcErrorSpec x rest with
      | .ok e r' => .ok (.resultCode c (some e)) r'
      | .err e r' => .err e r'
      | .fault f => .fault f := by
  simp only [be16, List.cons_append, List.nil_append, decodeAvp]
  show (readResultCode : M Bytes DErr AVP) _ = _
  rw [readResultCode_cons_long, word16_be16, word16_be16]
  cases rcErrorSpec x rest <;> rfl

theorem decode_resultCode_errorType_accepts (c x : UInt16) :
    (∃ a r, (decodeAvp 1 : M Bytes DErr AVP) (be16 c ++ be16 x) = .ok a r) ↔ x.toNat ∈ errorTypeCodes := by
  have := decode_resultCode_errorType c x []
  rw [List.append_nil] at this
  rw [this, ← errorType_accepts]
  unfold rcErrorSpec
  cases ErrorType.ofCode x <;> simp

/-- … and **the raw result code is kept whatever its value**, with or without an error field and message: two
    payloads that differ only in the result code decode to values that differ only in the result code (both
    rejected, or both accepted with the same error part and the same octets left) -/
theorem resultCode_raw_kept_general (c c' : UInt16) (p : Bytes) :
    (∀ e r, (decodeAvp 1 : M Bytes DErr AVP) (be16 c ++ p) = .err e r →
        (decodeAvp 1 : M Bytes DErr AVP) (be16 c' ++ p) = .err e r) ∧
    (∀ a r, (decodeAvp 1 : M Bytes DErr AVP) (be16 c ++ p) = .ok a r →
        ∃ err, a = .resultCode c err ∧ (decodeAvp 1 : M Bytes DErr AVP) (be16 c' ++ p) = .ok (.resultCode c' err) r) := by
  have key : ∀ k : UInt16, (decodeAvp 1 : M Bytes DErr AVP) (be16 k ++ p) =
      (readResultCode : M Bytes DErr AVP) (be16 k ++ p) := fun k => by simp only [decodeAvp]; rfl
  rw [key c, key c']
  simp only [be16, List.cons_append, List.nil_append]
  by_cases hp : p.length < 2
  · rw [readResultCode_cons_short _ _ _ hp, readResultCode_cons_short _ _ _ hp, word16_be16, word16_be16]
    refine ⟨fun e r h => (by cases h), fun a r h => ?_⟩
    cases h
    exact ⟨none, rfl, rfl⟩
  · obtain ⟨x, y, q, rfl⟩ := exists_cons2 (s := p) (by omega)
    rw [readResultCode_cons_long, readResultCode_cons_long, word16_be16, word16_be16]
    cases rcErrorSpec (word16 x y) q with
    | ok e r' =>
      refine ⟨fun e' r h => (by cases h), fun a r h => ?_⟩
      cases h
      exact ⟨some e, rfl, rfl⟩
    | err e r' => exact ⟨fun e' r h => h, fun a r h => (by cases h)⟩
    | fault f => exact ⟨fun e' r h => (by cases h), fun a r h => (by cases h)⟩

/-- the encoder writes the raw code back in front of whatever follows -/
theorem resultCode_value_starts_with_code (c : UInt16) (e : Option (ErrorType × Option Bytes)) :
    ∃ tail, (AVP.resultCode c e).value = be16 c ++ tail := by
  cases e with
  | none => exact ⟨[], by simp [AVP.value]⟩
  | some p =>
    obtain ⟨et, m⟩ := p
    cases m with
    | none => exact ⟨_, by simp [AVP.value]; rfl⟩
    | some m => exact ⟨_, by simp [AVP.value]; rfl⟩

/-- every named value's number is one of the assigned ones (no constructor can be forgotten in the `…_toCode_rfc` lists) -/
theorem messageType_toCode_assigned (t : MessageType) : t.toCode.toNat ∈ messageTypeCodes :=
  (messageType_accepts t.toCode).mp (by rw [messageType_ofCode_toCode]; rfl)
theorem errorType_toCode_assigned (t : ErrorType) : t.toCode.toNat ∈ errorTypeCodes :=
  (errorType_accepts t.toCode).mp (by rw [errorType_ofCode_toCode]; rfl)
theorem proxyAuthenType_toCode_assigned (t : ProxyAuthenType) : t.toCode.toNat ∈ proxyAuthenTypeCodes :=
  (proxyAuthenType_accepts t.toCode).mp (by rw [proxyAuthenType_ofCode_toCode]; rfl)

/-- an assigned attribute type never answers "unknown AVP", whatever the payload -/
theorem dispatch_never_unknown (t : UInt16) (h : t.toNat ≤ 39) (h20 : t.toNat ≠ 20) :
    ¬ unknownAttr t := by
  intro hu
  obtain ⟨a, r, ha⟩ := dispatch_accepts t h h20
  unfold unknownAttr at hu
  rw [hu] at ha
  simp at ha

/-! non-vacuity: the tables are inhabited at and around their edges -/
example : MessageType.ofCode 5 = none ∧ MessageType.ofCode 16 = some .setLinkInfo ∧ MessageType.ofCode 17 = none := by decide
example : CdnCode.ofCode 11 = some .callNoFramingDetected ∧ CdnCode.ofCode 12 = none := by decide

/-! ### the tables as they stand in /repo's sources *now*

`bin/gentables` re-reads the source on every run and writes `Rl2tp/Gen/Tables.lean`; these theorems are re-checked against
what it found.  A row edited in `message_type.rs`, a variant moved in one of the num_enum enumerations, a dispatch arm
renumbered in `avp.rs` makes the corresponding one fail.  (When a table is no longer written in a shape the translator
reads, `Gen.translated` says so and the committed baseline stands in: the tie is then the correspondence alone.) -/

/-- the source's code → message type map (`MESSAGE_CODE_TO_TYPE`) and its `get_code` are the model's `ofCode` / `toCode` -/
theorem source_message_type_tables :
    Gen.messageCodeToType = (Text.MessageType.all).map (fun p => (p.1.toCode.toNat, p.2)) ∧
    Gen.messageTypeGetCode = (Text.MessageType.all).map (fun p => (p.1.toCode.toNat, p.2)) ∧
    (∀ p ∈ Gen.messageCodeToType, (MessageType.ofCode (UInt16.ofNat p.1)).map (Text.nameOf Text.MessageType.all) = some p.2) :=
  ⟨GenTables.message_map_is_model, GenTables.message_get_code_is_model, GenTables.message_map_is_ofCode⟩

/-- the declaration order (= the numbers num_enum assigns) of the four derived enumerations is the model's -/
theorem source_enumerations :
    Gen.stopCcnCodes = (Text.StopCcnCode.all).map (fun p => (p.1.toCode.toNat, p.2)) ∧
    Gen.cdnCodes = (Text.CdnCode.all).map (fun p => (p.1.toCode.toNat, p.2)) ∧
    Gen.errorTypes = (Text.ErrorType.all).map (fun p => (p.1.toCode.toNat, p.2)) ∧
    Gen.proxyAuthenTypes = (Text.ProxyAuthenType.all).map (fun p => (p.1.toCode.toNat, p.2)) :=
  ⟨GenTables.stop_ccn_is_model, GenTables.cdn_is_model, GenTables.error_types_is_model, GenTables.proxy_types_is_model⟩

/-- the rows of the source's attribute-type dispatch are the model's: the same 39 numbers, each decoding to the same kind -/
theorem source_dispatch_rows : Gen.dispatch = GenTables.assigned.map fun t => (t, GenTables.dispatchKind t) :=
  GenTables.dispatch_is_model

end Rl2tp.C16
