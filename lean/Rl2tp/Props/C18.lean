/-
  C18 — SliceReader and VecWriter behave as a plain cursor and a plain byte vector.

  Two objects on the Lean side.  The *model* renders the implementation: `SliceReader` as the remaining octets,
  re-sliced by every operation (`ROp.run`, `runOps`, `runNested` over `Bytes` with take/drop), `VecWriter` as a byte
  list with append and `writeAt`.  The *reference* is what the property compares with: a cursor that keeps the
  original buffer, an absolute position and a limit and never re-slices (`RefCur`), and a byte vector whose positional
  overwrite is defined octet by octet (`splice`).  The theorems below say that every operation sequence — sub-readers
  that are themselves read from included — gives the same observations on both (`reader_sequence_refines`,
  `nested_sequence_refines`, `writer_sequence_refines`); the `rd` / `wr` streams tie the model to the code.
-/
import Rl2tp.Proofs.CursorRef
namespace Rl2tp.C18

/-! ### one operation, exactly -/

/-- within its precondition each operation answers with *its own* kind of value — the big-endian number of the next
    1/2/4/8 octets, the next `n` octets, a sub-reader over the next `n` octets, or nothing for `skip` — and leaves
    exactly the octets behind them; `bytes(n)` beyond the end answers `None` and leaves everything -/
theorem op_exact (op : ROp) (s : Bytes) (h : ROp.pre op s) : op.run s = .ok (ROp.expected s op) := run_eq op s h

/-- outside its precondition an unchecked operation never returns a value in the model (the contract is violated:
    undefined behaviour or a panic in the implementation) -/
theorem op_out_of_contract (op : ROp) (s : Bytes) (h : ¬ ROp.pre op s) : ∃ f, op.run s = .error f := run_fault op s h

/-! ### every sequence, against the reference cursor -/

/-- the reference cursor advances the position by exactly the amount requested, never touches the buffer or the
    limit, and a refused `bytes` leaves it as it was -/
theorem ref_step_position (c : RefCur) (op : ROp) (v : RVal) (c' : RefCur) (h : c.step op = some (v, c')) :
    c'.buf = c.buf ∧ c'.lim = c.lim ∧ (c'.pos = c.pos + ROp.width op ∨ (v = .none ∧ c' = c)) := by
  cases op <;> simp only [RefCur.step] at h <;> split at h <;>
    first
      | (simp only [Option.some.injEq, Prod.mk.injEq] at h; obtain ⟨rfl, rfl⟩ := h
         first
           | exact ⟨rfl, rfl, .inl rfl⟩
           | exact ⟨rfl, rfl, .inr ⟨rfl, rfl⟩⟩)
      | cases h

/-- **Any** sequence of reader operations on any slice (here: any window `pos..lim` of any buffer): the model's
    observations — each value, the octets left after each step, and whether the run stopped at a violated
    precondition — are those of the reference cursor. -/
theorem reader_sequence_refines (c : RefCur) (hwf : c.wf) (ops : List ROp) :
    (runOps c.view ops).1 = (refRun c ops).1 ∧ (runOps c.view ops).2.isSome = (refRun c ops).2 :=
  runOps_refines c hwf ops

/-- … from the start of a slice -/
theorem reader_sequence_from_start (data : Bytes) (ops : List ROp) :
    (runOps data ops).1 = (refRun ⟨data, 0, data.length⟩ ops).1 ∧
      (runOps data ops).2.isSome = (refRun ⟨data, 0, data.length⟩ ops).2 := by
  have h := runOps_refines ⟨data, 0, data.length⟩ ⟨Nat.zero_le _, Nat.le_refl _⟩ ops
  simpa [RefCur.view] using h

/-- … and with sub-readers that are read from, nested to any depth: a sub-reader is the window `pos..pos+n` of the
    same buffer (it can never see what lies behind its window, `bytes` beyond it answers `None`), the parent goes on
    at `pos+n` -/
theorem nested_sequence_refines (c : RefCur) (st : List RefCur) (hwf : c.wf) (hst : ∀ p ∈ st, p.wf) (ops : List NOp) :
    (runNested c.view (st.map RefCur.view) ops).1 = (refRunNested c st ops).1 ∧
      (runNested c.view (st.map RefCur.view) ops).2.isSome = (refRunNested c st ops).2 :=
  runNested_refines c st hwf hst ops

/-- integers are big-endian: the value read from the image of `v` is `v` -/
theorem big_endian (v : UInt16) : beVal (be16 v) = v.toNat := beVal_be16 v

/-- Within its precondition every operation returns exactly the next `width` octets (big-endian for
    integers), and leaves exactly the octets after them; `bytes(n)` with `n` too large returns nothing
    and leaves the cursor alone. -/
theorem run_spec (op : ROp) (s : Bytes) (h : ROp.pre op s) :
    ∃ v r, op.run s = .ok (v, r) ∧
      ((ROp.width op ≤ s.length ∧ r = s.drop (ROp.width op) ∧
          (match v with
            | .num n => n = beVal (s.take (ROp.width op))
            | .octets b => b = s.take (ROp.width op)
            | .subreader b => b = s.take (ROp.width op)
            | .unit => True
            | .none => False))
        ∨ (s.length < ROp.width op ∧ v = .none ∧ r = s ∧ ∃ n, op = .bytes n)) := by
  cases op with
  | u8 =>
    obtain ⟨a, r, rfl⟩ := exists_cons_of_le (s := s) h
    exact ⟨_, _, rfl, Or.inl ⟨h, rfl, by simp [beVal, ROp.width]⟩⟩
  | u16 =>
    obtain ⟨a, b, r, rfl⟩ := exists_cons2 (s := s) h
    refine ⟨_, _, rfl, Or.inl ⟨h, rfl, ?_⟩⟩
    simp [beVal, ROp.width, word16_toNat]
  | u32 =>
    obtain ⟨a, b, c, d, r, rfl⟩ := exists_cons4 (s := s) h
    refine ⟨_, _, rfl, Or.inl ⟨h, rfl, ?_⟩⟩
    simp [beVal, ROp.width, word32_toNat]
  | u64 =>
    obtain ⟨a, b, c, d, e, f, g, i, r, rfl⟩ := exists_cons8 (s := s) h
    refine ⟨_, _, rfl, Or.inl ⟨h, rfl, ?_⟩⟩
    simp [beVal, ROp.width, word64_toNat]
  | bytes n =>
    by_cases hn : n ≤ s.length
    · exact ⟨.octets (s.take n), s.drop n, by simp [ROp.run, Rdr.bytes, hn], Or.inl ⟨hn, rfl, rfl⟩⟩
    · exact ⟨.none, s, by simp [ROp.run, Rdr.bytes, hn], Or.inr ⟨by simp [ROp.width]; omega, rfl, rfl, n, rfl⟩⟩
  | skip n =>
    have hn : n ≤ s.length := h
    exact ⟨.unit, s.drop n, by simp [ROp.run, Rdr.skip, hn, Except.map], Or.inl ⟨hn, rfl, trivial⟩⟩
  | sub n =>
    have hn : n ≤ s.length := h
    exact ⟨.subreader (s.take n), s.drop n, by simp [ROp.run, Rdr.sub, hn, Except.map], Or.inl ⟨hn, rfl, rfl⟩⟩

/-- a refused slice request is not an event for the cursor: nothing is returned and the position stays,
    so whatever is asked next is answered as if the refused request had not been made -/
theorem bytes_refused (s : Bytes) (n : Nat) (h : s.length < n) : (ROp.bytes n).run s = .ok (.none, s) := by
  have : ¬ n ≤ s.length := by omega
  simp [ROp.run, Rdr.bytes, this]

theorem bytes_refused_then (s : Bytes) (n : Nat) (ops : List ROp) (h : s.length < n) :
    runOps s (.bytes n :: ops) = ((.none, s.length) :: (runOps s ops).1, (runOps s ops).2) := by
  simp only [runOps, bytes_refused s n h]

/-- consumed ++ remaining = original, for every operation that returns -/
theorem run_partition (op : ROp) (s r : Bytes) (v : RVal) (h : op.run s = .ok (v, r)) :
    ∃ c, s = c ++ r := by
  by_cases hp : ROp.pre op s
  · obtain ⟨v', r', h', hs⟩ := run_spec op s hp
    rw [h] at h'
    simp only [Except.ok.injEq, Prod.mk.injEq] at h'
    obtain ⟨rfl, rfl⟩ := h'
    rcases hs with ⟨_, hr, _⟩ | ⟨_, _, hr, _⟩
    · exact ⟨s.take (ROp.width op), by rw [hr]; simp⟩
    · exact ⟨[], by rw [hr]; simp⟩
  · -- outside the precondition the cursor faults: it never returns
    exfalso
    cases op with
    | u8 => match s, hp with
      | [], _ => simp [ROp.run, Rdr.u8, Except.map] at h
      | _ :: _, hp => simp [ROp.pre, ROp.width] at hp
    | u16 => match s, hp with
      | [], _ => simp [ROp.run, Rdr.u16, Except.map] at h
      | [_], _ => simp [ROp.run, Rdr.u16, Except.map] at h
      | _ :: _ :: _, hp => simp [ROp.pre, ROp.width] at hp
    | u32 => match s, hp with
      | [], _ => simp [ROp.run, Rdr.u32, Except.map] at h
      | [_], _ => simp [ROp.run, Rdr.u32, Except.map] at h
      | [_, _], _ => simp [ROp.run, Rdr.u32, Except.map] at h
      | [_, _, _], _ => simp [ROp.run, Rdr.u32, Except.map] at h
      | _ :: _ :: _ :: _ :: _, hp => simp [ROp.pre, ROp.width] at hp
    | u64 =>
      have hl : s.length < 8 := by simpa [ROp.pre, ROp.width] using hp
      match s, hl with
      | [], _ => simp [ROp.run, Rdr.u64, Except.map] at h
      | [_], _ => simp [ROp.run, Rdr.u64, Except.map] at h
      | [_, _], _ => simp [ROp.run, Rdr.u64, Except.map] at h
      | [_, _, _], _ => simp [ROp.run, Rdr.u64, Except.map] at h
      | [_, _, _, _], _ => simp [ROp.run, Rdr.u64, Except.map] at h
      | [_, _, _, _, _], _ => simp [ROp.run, Rdr.u64, Except.map] at h
      | [_, _, _, _, _, _], _ => simp [ROp.run, Rdr.u64, Except.map] at h
      | [_, _, _, _, _, _, _], _ => simp [ROp.run, Rdr.u64, Except.map] at h
    | bytes n => exact hp trivial
    | skip n =>
      have hn : ¬ n ≤ s.length := hp
      simp [ROp.run, Rdr.skip, hn, Except.map] at h
    | sub n =>
      have hn : ¬ n ≤ s.length := hp
      simp [ROp.run, Rdr.sub, hn, Except.map] at h

/-- in any operation sequence that runs to the end, the length reported after each operation never exceeds the
    initial one (the exact values are those of the reference cursor: `reader_sequence_refines`) -/
theorem runOps_suffix (s : Bytes) (ops : List ROp) (vs : List (RVal × Nat)) (h : runOps s ops = (vs, none)) :
    ∀ p ∈ vs, p.2 ≤ s.length := by
  induction ops generalizing s vs with
  | nil => simp [runOps] at h; subst h; simp
  | cons op ops ih =>
    simp only [runOps] at h
    cases hr : op.run s with
    | error f => rw [hr] at h; simp at h
    | ok p =>
      obtain ⟨v, r⟩ := p
      rw [hr] at h
      simp only [] at h
      obtain ⟨c, hc⟩ := run_partition op s r v hr
      have hlen : r.length ≤ s.length := by rw [hc]; simp
      cases hrest : runOps r ops with
      | mk vs' f' =>
        rw [hrest] at h
        simp only [Prod.mk.injEq] at h
        obtain ⟨rfl, rfl⟩ := h
        intro p hp
        simp only [List.mem_cons] at hp
        rcases hp with rfl | hp
        · exact hlen
        · exact Nat.le_trans (ih r vs' hrest p hp) hlen

/-! ### the writer -/

theorem writeAt_length (w bs : Bytes) (off : Nat) (w' : Bytes) (h : writeAt w off bs = .ok w') :
    w'.length = w.length :=
  Rl2tp.writeAt_length h

/-- an overwrite that does not lie inside the written data is refused -/
theorem writeAt_refused (w bs : Bytes) (off : Nat) (h : off + bs.length > w.length) :
    writeAt w off bs = .error .panic := by
  unfold writeAt
  rw [if_neg (by omega)]

/-- an accepted overwrite changes exactly the addressed range -/
theorem writeAt_exact (w bs : Bytes) (off : Nat) (h : off + bs.length ≤ w.length) :
    ∃ w', writeAt w off bs = .ok w' ∧ w'.take off = w.take off ∧
      (w'.drop off).take bs.length = bs ∧ w'.drop (off + bs.length) = w.drop (off + bs.length) := by
  refine ⟨w.take off ++ bs ++ w.drop (off + bs.length), by simp [writeAt, h], ?_, ?_, ?_⟩
  · have : (w.take off).length = off := by simp; omega
    simp [List.take_append, this]
  · have : (w.take off).length = off := by simp; omega
    simp [List.drop_append, this]
  · have h1 : (w.take off ++ bs).length = off + bs.length := by simp; omega
    rw [List.drop_append, h1]
    simp
    omega

/-- one step: an append extends by its width, an overwrite (accepted or refused) leaves the length alone; the
    statement for sequences is `writer_sequence_length` -/
theorem append_length (w : Bytes) (op : WOp) :
    (op.run w).1.length = w.length + (match op with
      | .bytes b => b.length | .u8 _ => 1 | .u16 _ => 2 | .u32 _ => 4 | .u64 _ => 8 | .at _ _ => 0) := by
  cases op with
  | bytes b => simp [WOp.run]
  | u8 v => simp [WOp.run]
  | u16 v => simp [WOp.run]
  | u32 v => simp [WOp.run]
  | u64 v => simp [WOp.run]
  | «at» off b =>
    simp only [WOp.run]
    cases h : writeAt w off b with
    | ok w' => simp [Rl2tp.writeAt_length h]
    | error f => simp

/-- appended octets are exactly the big-endian images -/
theorem append_content (w : Bytes) :
    (WOp.run w (.u16 v16)).1 = w ++ be16 v16 ∧ (WOp.run w (.u32 v32)).1 = w ++ be32 v32 ∧
    (WOp.run w (.u64 v64)).1 = w ++ be64 v64 ∧ (WOp.run w (.bytes b)).1 = w ++ b ∧ (WOp.run w (.u8 v8)).1 = w ++ [v8] := by
  simp [WOp.run]

/-- **Any** sequence of writer operations from any starting content: the log (accepted / refused, length after each
    step) and the final buffer are those of the reference vector — appends, and overwrites applied position by
    position when the range lies inside what has been written, ignored otherwise -/
theorem writer_sequence_refines (w : Bytes) (ops : List WOp) : runWOps w ops = refWRun w ops := runWOps_eq_ref w ops

/-- the reference overwrite, octet by octet -/
theorem splice_octet (w : Bytes) (off : Nat) (b : Bytes) (i : Nat) (hi : i < w.length) :
    (splice w off b)[i]? = some (if off ≤ i ∧ i < off + b.length then b.getD (i - off) 0 else w.getD i 0) := by
  simp [splice, List.getElem?_range, hi]

/-- no sequence of operations changes the length except by what it appends: final length = initial length + the
    widths of the appends (overwrites, accepted or refused, contribute nothing) -/
theorem writer_sequence_length (w : Bytes) (ops : List WOp) :
    (runWOps w ops).2.length = w.length + (ops.map WOp.appended).sum := by
  rw [runWOps_eq_ref]; exact refWRun_length w ops

/-! non-vacuity -/
example : runNested [1, 2, 3, 4, 5, 6, 7, 8] [] [.push 3, .op (.bytes 4), .op (.bytes 3), .pop, .op (.bytes 5)] =
    ([(.unit, 3), (.none, 3), (.octets [1, 2, 3], 0), (.unit, 5), (.octets [4, 5, 6, 7, 8], 0)], none) := by decide
example : runWOps [] [.u16 258, .at 1 [9], .at 2 [7], .bytes [5]] = ([(true, 2), (true, 2), (false, 2), (true, 3)], [1, 9, 5]) := by
  decide
example : runOps [1, 2, 3, 4, 5] [.u16, .bytes 9, .sub 1, .skip 2] =
    ([(.num 258, 3), (.none, 3), (.subreader [3], 2), (.unit, 0)], none) := by decide
example : writeAt [1, 2, 3] 1 [9, 9] = .ok [1, 9, 9] ∧ writeAt [1, 2, 3] 2 [9, 9] = .error .panic := by decide

end Rl2tp.C18
