/-
  C09 — encoding only appends: earlier writer content untouched, position independent.
-/
import Rl2tp.Proofs.Control
import Rl2tp.Model.WriterLog
namespace Rl2tp.C09

/-- what encoding into an empty writer produces -/
def encodeMsg (m : Msg) : Except Fault Bytes := writeMsg [] m

theorem exists_oversize_of_not_all {as : List AVP} (h : ¬ ∀ a ∈ as, 6 + a.value.length ≤ 1023) :
    ∃ a ∈ as, 6 + a.value.length > 1023 := by
  induction as with
  | nil => exact absurd (fun a ha => by simp at ha) h
  | cons a as ih =>
    by_cases ha : 6 + a.value.length ≤ 1023
    · have : ¬ ∀ x ∈ as, 6 + x.value.length ≤ 1023 := by
        intro hall
        apply h
        intro x hx
        simp only [List.mem_cons] at hx
        rcases hx with rfl | hx
        · exact ha
        · exact hall x hx
      obtain ⟨x, hx, hx2⟩ := ih this
      exact ⟨x, by simp [hx], hx2⟩
    · exact ⟨a, by simp, by omega⟩

/-- the control encoder's result into any writer, by cases on the size limits -/
theorem writeControl_cases (w : Bytes) (c : Control) :
    writeControl w c =
      if (∀ a ∈ c.avps, 6 + a.value.length ≤ 1023) ∧ 12 + (avpsImage c.avps).length ≤ 65535
      then .ok (w ++ controlImage c) else .error .panic := by
  by_cases ha : ∀ a ∈ c.avps, 6 + a.value.length ≤ 1023
  · by_cases hl : 12 + (avpsImage c.avps).length ≤ 65535
    · rw [if_pos ⟨ha, hl⟩]; exact writeControl_eq w c ha hl
    · rw [if_neg (fun h => hl h.2)]; exact writeControl_oversize w c ha (by omega)
  · rw [if_neg (fun h => ha h.1)]
    unfold writeControl
    simp only []
    rw [writeAvps_oversize _ _ (exists_oversize_of_not_all ha)]

/-- Encoding a message into a writer that already holds `p` leaves `p` unchanged and appends exactly
    what encoding into an empty writer produces; it panics exactly when the fresh encoding does. -/
theorem encodeInto_append (p : Bytes) (m : Msg) :
    writeMsg p m = (encodeMsg m).map (p ++ ·) := by
  cases m with
  | data d => simp [writeMsg, encodeMsg, Except.map]
  | control c =>
    simp only [writeMsg, encodeMsg]
    rw [writeControl_cases p c, writeControl_cases [] c]
    split <;> simp [Except.map]

/-- the same for a single AVP -/
theorem encodeAvpInto_append (p : Bytes) (a : AVP) :
    writeAvp p a = (encodeAvp a).map (p ++ ·) := by
  unfold encodeAvp
  by_cases h : 6 + a.value.length ≤ 1023
  · rw [writeAvp_eq p a h, writeAvp_eq [] a h]; simp [Except.map]
  · rw [writeAvp_oversize p a (by omega), writeAvp_oversize [] a (by omega)]; rfl

/-- encoding several messages in sequence into one writer -/
def writeMsgs : Bytes → List Msg → Except Fault Bytes
  | w, [] => .ok w
  | w, m :: ms =>
    match writeMsg w m with
    | .ok w' => writeMsgs w' ms
    | .error f => .error f

/-- … yields the concatenation of their individual encodings -/
theorem encode_many (p : Bytes) (ms : List Msg) (imgs : List Bytes)
    (h : ms.map encodeMsg = imgs.map Except.ok) : writeMsgs p ms = .ok (p ++ imgs.flatten) := by
  induction ms generalizing p imgs with
  | nil =>
    cases imgs with
    | nil => simp [writeMsgs]
    | cons i is => simp at h
  | cons m ms ih =>
    cases imgs with
    | nil => simp at h
    | cons i is =>
      simp only [List.map_cons, List.cons.injEq] at h
      simp only [writeMsgs]
      rw [encodeInto_append, h.1]
      simp only [Except.map]
      rw [ih (p ++ i) is h.2]
      simp

/-! ### the positional overwrites -/

theorem writeAvpL_erase (w : Bytes) (a : AVP) : (writeAvpL w a).map (·.1) = writeAvp w a := by
  unfold writeAvpL writeAvp
  simp only []
  cases makeFlagsAndLength true a.isHidden ((w ++ [0, 0] ++ be16 0 ++ a.payload).length - w.length) with
  | error f => rfl
  | ok fl =>
    simp only []
    cases writeAt (w ++ [0, 0] ++ be16 0 ++ a.payload) w.length fl <;> rfl

theorem writeAvpsL_erase (w : Bytes) (as : List AVP) : (writeAvpsL w as).map (·.1) = writeAvps w as := by
  induction as generalizing w with
  | nil => rfl
  | cons a as ih =>
    simp only [writeAvpsL, writeAvps]
    rw [← writeAvpL_erase]
    cases h : writeAvpL w a with
    | error f => rfl
    | ok p =>
      obtain ⟨w', l⟩ := p
      simp only [Except.map]
      rw [← ih w']
      cases writeAvpsL w' as with
      | error f => rfl
      | ok q => rfl

/-- erasing the log from the instrumented control encoder gives the plain one -/
theorem writeControlL_erase (w : Bytes) (c : Control) : (writeControlL w c).map (·.1) = writeControl w c := by
  unfold writeControlL writeControl
  simp only []
  rw [← writeAvpsL_erase]
  cases writeAvpsL (w ++ be16 (mkFlags true true true false false) ++ [0, 0] ++ be16 c.tunnelId ++ be16 c.sessionId
      ++ be16 c.ns ++ be16 c.nr) c.avps with
  | error f => rfl
  | ok p =>
    obtain ⟨w3, l⟩ := p
    simp only [Except.map]
    by_cases hlen : w3.length - w.length ≤ 65535
    · simp only [hlen, if_true]
      cases writeAt w3 (w ++ be16 (mkFlags true true true false false)).length (be16 (UInt16.ofNat (w3.length - w.length))) <;> rfl
    · simp only [hlen, if_false]

/-- every overwrite issued lies between `lo` and the end of what has been written -/
def Inside (lo hi : Nat) (log : OwLog) : Prop := ∀ p ∈ log, lo ≤ p.1 ∧ p.1 + p.2 ≤ hi

theorem writeAvpL_inside (w : Bytes) (a : AVP) (out : Bytes) (log : OwLog) (h : writeAvpL w a = .ok (out, log)) :
    w.length ≤ out.length ∧ Inside w.length out.length log := by
  have he := writeAvpL_erase w a
  rw [h] at he
  simp only [Except.map] at he
  by_cases hl : 6 + a.value.length ≤ 1023
  · unfold writeAvpL at h
    have hlen : (w ++ [0, 0] ++ be16 0 ++ a.payload).length - w.length = 6 + a.value.length := by
      simp [payload_length]; omega
    simp only [hlen, makeFlagsAndLength, if_pos hl] at h
    have e : w ++ [0, 0] ++ be16 0 ++ a.payload = w ++ 0 :: 0 :: (be16 0 ++ a.payload) := by simp
    rw [e, writeAt_patch] at h
    simp only [Except.ok.injEq, Prod.mk.injEq] at h
    obtain ⟨rfl, rfl⟩ := h
    refine ⟨by simp, ?_⟩
    intro p hp
    simp only [List.mem_singleton] at hp
    subst hp
    simp [payload_length]
  · rw [writeAvp_oversize w a (by omega)] at he; cases he

theorem writeAvpsL_inside (w : Bytes) (as : List AVP) (out : Bytes) (log : OwLog)
    (h : writeAvpsL w as = .ok (out, log)) : w.length ≤ out.length ∧ Inside w.length out.length log := by
  induction as generalizing w out log with
  | nil =>
    simp only [writeAvpsL, Except.ok.injEq, Prod.mk.injEq] at h
    obtain ⟨rfl, rfl⟩ := h
    exact ⟨Nat.le_refl _, fun p hp => by simp at hp⟩
  | cons a as ih =>
    simp only [writeAvpsL] at h
    cases h1 : writeAvpL w a with
    | error f => rw [h1] at h; cases h
    | ok q =>
      obtain ⟨w', l⟩ := q
      rw [h1] at h
      simp only [] at h
      cases h2 : writeAvpsL w' as with
      | error f => rw [h2] at h; cases h
      | ok q2 =>
        obtain ⟨w'', l'⟩ := q2
        rw [h2] at h
        simp only [Except.ok.injEq, Prod.mk.injEq] at h
        obtain ⟨rfl, rfl⟩ := h
        obtain ⟨ha, hia⟩ := writeAvpL_inside w a w' l h1
        obtain ⟨hb, hib⟩ := ih w' w'' l' h2
        refine ⟨by omega, ?_⟩
        intro p hp
        simp only [List.mem_append] at hp
        rcases hp with hp | hp
        · have := hia p hp; omega
        · have := hib p hp; omega

/-- where the AVPs of a list start when the first is written at absolute offset `pos` -/
def avpStarts : Nat → List AVP → OwLog
  | _, [] => []
  | pos, a :: as => (pos, 2) :: avpStarts (pos + (6 + a.value.length)) as

theorem writeAvpL_exact (w : Bytes) (a : AVP) (out : Bytes) (log : OwLog) (h : writeAvpL w a = .ok (out, log)) :
    out = w ++ avpImage a ∧ log = [(w.length, 2)] ∧ 6 + a.value.length ≤ 1023 := by
  have he := writeAvpL_erase w a
  rw [h] at he
  simp only [Except.map] at he
  by_cases hl : 6 + a.value.length ≤ 1023
  · refine ⟨?_, ?_, hl⟩
    · rw [writeAvp_eq w a hl] at he; cases he; rfl
    · unfold writeAvpL at h
      have hlen : (w ++ [0, 0] ++ be16 0 ++ a.payload).length - w.length = 6 + a.value.length := by
        simp [payload_length]; omega
      simp only [hlen, makeFlagsAndLength, if_pos hl] at h
      have e : w ++ [0, 0] ++ be16 0 ++ a.payload = w ++ 0 :: 0 :: (be16 0 ++ a.payload) := by simp
      rw [e, writeAt_patch] at h
      simp only [Except.ok.injEq, Prod.mk.injEq] at h
      obtain ⟨_, rfl⟩ := h
      rfl
  · rw [writeAvp_oversize w a (by omega)] at he; cases he

/-- **Each overwrite belongs to its own AVP.**  When a list of AVPs is written behind `w`, the log is exactly one
    two-octet overwrite per AVP, at the first octet that AVP appended — so it lies inside that AVP's own image
    (`start .. start + 6 + |value|`), never in a neighbour's, never in what the writer held before. -/
theorem writeAvpsL_log_exact (w : Bytes) (as : List AVP) (out : Bytes) (log : OwLog)
    (h : writeAvpsL w as = .ok (out, log)) : out = w ++ avpsImage as ∧ log = avpStarts w.length as := by
  induction as generalizing w out log with
  | nil =>
    simp only [writeAvpsL, Except.ok.injEq, Prod.mk.injEq] at h
    obtain ⟨rfl, rfl⟩ := h
    simp [avpsImage, avpStarts]
  | cons a as ih =>
    simp only [writeAvpsL] at h
    cases h1 : writeAvpL w a with
    | error f => rw [h1] at h; cases h
    | ok q =>
      obtain ⟨w', l⟩ := q
      rw [h1] at h
      simp only [] at h
      cases h2 : writeAvpsL w' as with
      | error f => rw [h2] at h; cases h
      | ok q2 =>
        obtain ⟨w'', l'⟩ := q2
        rw [h2] at h
        simp only [Except.ok.injEq, Prod.mk.injEq] at h
        obtain ⟨rfl, rfl⟩ := h
        obtain ⟨e1, e2, _⟩ := writeAvpL_exact w a w' l h1
        obtain ⟨e3, e4⟩ := ih w' w'' l' h2
        subst e1 e2
        refine ⟨by rw [e3]; simp [avpsImage], ?_⟩
        rw [e4]
        simp [avpStarts, avpImage_length]

/-- a run of messages into one writer fails exactly at the first message that does not encode on its own: the
    messages before it have been appended (each as it encodes alone), nothing of the later ones has been looked at -/
theorem writeMsgs_error (p : Bytes) (ms : List Msg) (f : Fault) (h : writeMsgs p ms = .error f) :
    ∃ (done : List Msg) (m : Msg) (rest : List Msg) (imgs : List Bytes),
      ms = done ++ m :: rest ∧ done.map encodeMsg = imgs.map Except.ok ∧ encodeMsg m = .error f := by
  induction ms generalizing p with
  | nil => simp [writeMsgs] at h
  | cons m ms ih =>
    simp only [writeMsgs] at h
    cases hm : writeMsg p m with
    | error g =>
      rw [hm] at h
      simp only [Except.error.injEq] at h
      subst h
      refine ⟨[], m, ms, [], rfl, rfl, ?_⟩
      have := encodeInto_append p m
      rw [hm] at this
      cases he : encodeMsg m with
      | ok i => rw [he] at this; simp [Except.map] at this
      | error g' => rw [he] at this; simp only [Except.map, Except.error.injEq] at this; rw [this]
    | ok w' =>
      rw [hm] at h
      obtain ⟨done, m', rest, imgs, e1, e2, e3⟩ := ih w' h
      have := encodeInto_append p m
      rw [hm] at this
      cases he : encodeMsg m with
      | error g' => rw [he] at this; simp [Except.map] at this
      | ok i =>
        exact ⟨m :: done, m', rest, i :: imgs, by rw [e1]; rfl, by simp [he, e2], e3⟩

/-- Every positional overwrite the message encoder issues lies inside the value being encoded:
    at or after the first octet appended for it, and before the end of what it appended. -/
theorem overwrites_inside (p : Bytes) (m : Msg) (out : Bytes) (log : OwLog) (h : writeMsgL p m = .ok (out, log)) :
    p.length ≤ out.length ∧ Inside p.length out.length log := by
  cases m with
  | data d =>
    simp only [writeMsgL, Except.ok.injEq, Prod.mk.injEq] at h
    obtain ⟨rfl, rfl⟩ := h
    exact ⟨by simp, fun q hq => by simp at hq⟩
  | control c =>
    simp only [writeMsgL, writeControlL] at h
    cases h1 : writeAvpsL (p ++ be16 (mkFlags true true true false false) ++ [0, 0] ++ be16 c.tunnelId ++ be16 c.sessionId
        ++ be16 c.ns ++ be16 c.nr) c.avps with
    | error f => rw [h1] at h; cases h
    | ok q =>
      obtain ⟨w3, l⟩ := q
      rw [h1] at h
      simp only [] at h
      obtain ⟨ha, hia⟩ := writeAvpsL_inside _ _ _ _ h1
      simp only [List.length_append, be16_length, List.length_cons, List.length_nil] at ha hia
      split at h
      · cases h2 : writeAt w3 (p ++ be16 (mkFlags true true true false false)).length (be16 (UInt16.ofNat (w3.length - p.length))) with
        | error f => rw [h2] at h; cases h
        | ok o =>
          rw [h2] at h
          simp only [Except.ok.injEq, Prod.mk.injEq] at h
          obtain ⟨rfl, rfl⟩ := h
          have hlen := Rl2tp.writeAt_length h2
          refine ⟨by omega, ?_⟩
          intro x hx
          simp only [List.mem_append, List.mem_singleton] at hx
          rcases hx with hx | rfl
          · have := hia x hx; omega
          · simp only [List.length_append, be16_length]; omega
      · cases h

/-- the logged encoder writes the same octets as the plain one -/
theorem writeMsgL_erase (p : Bytes) (m : Msg) : (writeMsgL p m).map (·.1) = writeMsg p m := by
  cases m with
  | data d => rfl
  | control c => exact writeControlL_erase p c

/-! non-vacuity: a non-empty prefix, a control message with one AVP -/
def sampleControl : Control :=
  { length := 0, tunnelId := 1, sessionId := 2, ns := 3, nr := 4, avps := [.messageType .hello] }

example : writeMsgL [0xAA, 0xBB] (.control sampleControl) =
    .ok ([0xAA, 0xBB, 0x13, 0x20, 0, 20, 0, 1, 0, 2, 0, 3, 0, 4, 1, 8, 0, 0, 0, 0, 0, 6], [(14, 2), (4, 2)]) := by decide

/-- … in particular behind `n` zero octets for any `n` — 2^32 and more, and lengths just below a multiple of 2^32,
    included: this is the model's side of the `encbig` / `encabig` cases (the implementation writes into a lazily mapped
    vector of that size; the driver answers with the value's own encoding) -/
theorem behind_zeros (n : Nat) (m : Msg) (a : AVP) :
    writeMsg (List.replicate n 0) m = (encodeMsg m).map (List.replicate n 0 ++ ·) ∧
    writeAvp (List.replicate n 0) a = (encodeAvp a).map (List.replicate n 0 ++ ·) :=
  ⟨encodeInto_append _ m, encodeAvpInto_append _ a⟩

end Rl2tp.C09
