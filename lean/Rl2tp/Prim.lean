/-
  Prim: octets, big-endian words, and the list facts every other file uses.
  Shared by the model and the specification (DESIGN.md §2.1); nothing else is shared.
-/
namespace Rl2tp

abbrev Bytes := List UInt8

/-! ## big-endian words, defined arithmetically so that `omega` can reason about them -/

def word16 (a b : UInt8) : UInt16 := UInt16.ofNat (a.toNat * 256 + b.toNat)

def word32 (a b c d : UInt8) : UInt32 :=
  UInt32.ofNat (((a.toNat * 256 + b.toNat) * 256 + c.toNat) * 256 + d.toNat)

def word64 (a b c d e f g h : UInt8) : UInt64 :=
  UInt64.ofNat
    (((((((a.toNat * 256 + b.toNat) * 256 + c.toNat) * 256 + d.toNat) * 256 + e.toNat) * 256
      + f.toNat) * 256 + g.toNat) * 256 + h.toNat)

def be16 (x : UInt16) : Bytes :=
  [UInt8.ofNat (x.toNat / 256), UInt8.ofNat (x.toNat % 256)]

def be32 (x : UInt32) : Bytes :=
  [UInt8.ofNat (x.toNat / 16777216), UInt8.ofNat (x.toNat / 65536 % 256),
   UInt8.ofNat (x.toNat / 256 % 256), UInt8.ofNat (x.toNat % 256)]

def be64 (x : UInt64) : Bytes :=
  [UInt8.ofNat (x.toNat / 72057594037927936), UInt8.ofNat (x.toNat / 281474976710656 % 256),
   UInt8.ofNat (x.toNat / 1099511627776 % 256), UInt8.ofNat (x.toNat / 4294967296 % 256),
   UInt8.ofNat (x.toNat / 16777216 % 256), UInt8.ofNat (x.toNat / 65536 % 256),
   UInt8.ofNat (x.toNat / 256 % 256), UInt8.ofNat (x.toNat % 256)]

@[simp] theorem be16_length (x : UInt16) : (be16 x).length = 2 := rfl
@[simp] theorem be32_length (x : UInt32) : (be32 x).length = 4 := rfl
@[simp] theorem be64_length (x : UInt64) : (be64 x).length = 8 := rfl

theorem u8_small {n : Nat} (h : n < 256) : (UInt8.ofNat n).toNat = n := by
  simp [UInt8.toNat_ofNat']; omega

theorem u16_small {n : Nat} (h : n < 65536) : (UInt16.ofNat n).toNat = n := by
  simp [UInt16.toNat_ofNat']; omega

@[simp] theorem word16_be16 (x : UInt16) :
    word16 (UInt8.ofNat (x.toNat / 256)) (UInt8.ofNat (x.toNat % 256)) = x := by
  unfold word16
  apply UInt16.toNat_inj.mp
  have := x.toNat_lt
  simp [UInt8.toNat_ofNat']
  omega

@[simp] theorem word32_be32 (x : UInt32) :
    word32 (UInt8.ofNat (x.toNat / 16777216)) (UInt8.ofNat (x.toNat / 65536 % 256))
      (UInt8.ofNat (x.toNat / 256 % 256)) (UInt8.ofNat (x.toNat % 256)) = x := by
  unfold word32
  apply UInt32.toNat_inj.mp
  have := x.toNat_lt
  simp [UInt8.toNat_ofNat']
  omega

@[simp] theorem word64_be64 (x : UInt64) :
    word64 (UInt8.ofNat (x.toNat / 72057594037927936)) (UInt8.ofNat (x.toNat / 281474976710656 % 256))
      (UInt8.ofNat (x.toNat / 1099511627776 % 256)) (UInt8.ofNat (x.toNat / 4294967296 % 256))
      (UInt8.ofNat (x.toNat / 16777216 % 256)) (UInt8.ofNat (x.toNat / 65536 % 256))
      (UInt8.ofNat (x.toNat / 256 % 256)) (UInt8.ofNat (x.toNat % 256)) = x := by
  unfold word64
  apply UInt64.toNat_inj.mp
  have := x.toNat_lt
  simp [UInt8.toNat_ofNat']
  omega

theorem word16_of_nat {n : Nat} (h : n < 65536) :
    word16 (UInt8.ofNat (n / 256)) (UInt8.ofNat (n % 256)) = UInt16.ofNat n := by
  have := word16_be16 (UInt16.ofNat n)
  rw [u16_small h] at this
  exact this

theorem word16_toNat (a b : UInt8) : (word16 a b).toNat = a.toNat * 256 + b.toNat := by
  unfold word16
  have := a.toNat_lt; have := b.toNat_lt
  simp [UInt16.toNat_ofNat']; omega

/-- the two octets of a big-endian u16 determine it (other direction of the round trip) -/
theorem be16_word16 (a b : UInt8) : be16 (word16 a b) = [a, b] := by
  unfold be16
  rw [word16_toNat]
  have ha := a.toNat_lt; have hb := b.toNat_lt
  have e1 : (a.toNat * 256 + b.toNat) / 256 = a.toNat := by omega
  have e2 : (a.toNat * 256 + b.toNat) % 256 = b.toNat := by omega
  rw [e1, e2]
  simp

theorem word32_toNat (a b c d : UInt8) :
    (word32 a b c d).toNat = ((a.toNat * 256 + b.toNat) * 256 + c.toNat) * 256 + d.toNat := by
  unfold word32
  have := a.toNat_lt; have := b.toNat_lt; have := c.toNat_lt; have := d.toNat_lt
  simp [UInt32.toNat_ofNat']; omega

theorem be32_word32 (a b c d : UInt8) : be32 (word32 a b c d) = [a, b, c, d] := by
  unfold be32
  rw [word32_toNat]
  have ha := a.toNat_lt; have hb := b.toNat_lt; have hc := c.toNat_lt; have hd := d.toNat_lt
  have e1 : (((a.toNat * 256 + b.toNat) * 256 + c.toNat) * 256 + d.toNat) / 16777216 = a.toNat := by omega
  have e2 : (((a.toNat * 256 + b.toNat) * 256 + c.toNat) * 256 + d.toNat) / 65536 % 256 = b.toNat := by omega
  have e3 : (((a.toNat * 256 + b.toNat) * 256 + c.toNat) * 256 + d.toNat) / 256 % 256 = c.toNat := by omega
  have e4 : (((a.toNat * 256 + b.toNat) * 256 + c.toNat) * 256 + d.toNat) % 256 = d.toNat := by omega
  rw [e1, e2, e3, e4]
  simp

theorem word64_toNat (a b c d e f g h : UInt8) :
    (word64 a b c d e f g h).toNat =
      ((((((a.toNat * 256 + b.toNat) * 256 + c.toNat) * 256 + d.toNat) * 256 + e.toNat) * 256
        + f.toNat) * 256 + g.toNat) * 256 + h.toNat := by
  unfold word64
  have := a.toNat_lt; have := b.toNat_lt; have := c.toNat_lt; have := d.toNat_lt
  have := e.toNat_lt; have := f.toNat_lt; have := g.toNat_lt; have := h.toNat_lt
  simp [UInt64.toNat_ofNat']; omega

theorem be64_word64 (a b c d e f g h : UInt8) : be64 (word64 a b c d e f g h) = [a, b, c, d, e, f, g, h] := by
  unfold be64
  rw [word64_toNat]
  have := a.toNat_lt; have := b.toNat_lt; have := c.toNat_lt; have := d.toNat_lt
  have := e.toNat_lt; have := f.toNat_lt; have := g.toNat_lt; have := h.toNat_lt
  generalize hn : ((((((a.toNat * 256 + b.toNat) * 256 + c.toNat) * 256 + d.toNat) * 256 + e.toNat) * 256
        + f.toNat) * 256 + g.toNat) * 256 + h.toNat = n
  have e1 : n / 72057594037927936 = a.toNat := by omega
  have e2 : n / 281474976710656 % 256 = b.toNat := by omega
  have e3 : n / 1099511627776 % 256 = c.toNat := by omega
  have e4 : n / 4294967296 % 256 = d.toNat := by omega
  have e5 : n / 16777216 % 256 = e.toNat := by omega
  have e6 : n / 65536 % 256 = f.toNat := by omega
  have e7 : n / 256 % 256 = g.toNat := by omega
  have e8 : n % 256 = h.toNat := by omega
  rw [e1, e2, e3, e4, e5, e6, e7, e8]
  simp

/-! ## list facts -/

theorem exists_cons_of_le {s : Bytes} (h : 1 ≤ s.length) : ∃ a r, s = a :: r := by
  match s, h with
  | a :: r, _ => exact ⟨a, r, rfl⟩

theorem exists_cons2 {s : Bytes} (h : 2 ≤ s.length) : ∃ a b r, s = a :: b :: r := by
  match s, h with
  | a :: b :: r, _ => exact ⟨a, b, r, rfl⟩

theorem exists_cons4 {s : Bytes} (h : 4 ≤ s.length) : ∃ a b c d r, s = a :: b :: c :: d :: r := by
  match s, h with
  | a :: b :: c :: d :: r, _ => exact ⟨a, b, c, d, r, rfl⟩

theorem exists_cons6 {s : Bytes} (h : 6 ≤ s.length) :
    ∃ a b c d e f r, s = a :: b :: c :: d :: e :: f :: r := by
  match s, h with
  | a :: b :: c :: d :: e :: f :: r, _ => exact ⟨a, b, c, d, e, f, r, rfl⟩

theorem exists_cons8 {s : Bytes} (h : 8 ≤ s.length) :
    ∃ a b c d e f g i r, s = a :: b :: c :: d :: e :: f :: g :: i :: r := by
  match s, h with
  | a :: b :: c :: d :: e :: f :: g :: i :: r, _ => exact ⟨a, b, c, d, e, f, g, i, r, rfl⟩

end Rl2tp
