//! One case line in, one answer line out.  The answer is `R` or `R | O`:
//! `R` is the canonical observation that the Lean model must reproduce, `O` is the verdict of the
//! property's own statement evaluated on the implementation alone (`ok` or `FAIL:<tag>:<detail>`;
//! several verdicts are joined by `&`).

use crate::readers::{CheckedReader, DequeReader, LoggingWriter};
use crate::term::*;
use rl2tp::avp::types::result_code::{CdnCode, CodeValue, Error as RcError, StopCcnCode};
use rl2tp::avp::types::{self, RandomVector};
use rl2tp::avp::AVP;
use rl2tp::common::{DecodeError, Reader, SliceReader, VecWriter, Writer};
use rl2tp::{Message, ValidateReserved, ValidateUnused, ValidateVersion, ValidationOptions};
use std::borrow::Borrow;
use std::panic::{catch_unwind, AssertUnwindSafe};

pub fn guard<T>(f: impl FnOnce() -> T) -> Option<T> {
    catch_unwind(AssertUnwindSafe(f)).ok()
}

pub fn opts_of(s: &str) -> Option<ValidationOptions> {
    let b = s.as_bytes();
    if b.len() != 3 || b.iter().any(|c| *c != b'0' && *c != b'1') {
        return None;
    }
    Some(ValidationOptions {
        reserved: if b[0] == b'1' { ValidateReserved::Yes } else { ValidateReserved::No },
        version: if b[1] == b'1' { ValidateVersion::Yes } else { ValidateVersion::No },
        unused: if b[2] == b'1' { ValidateUnused::Yes } else { ValidateUnused::No },
    })
}

pub const ALL_OPTS: [&str; 8] = ["000", "001", "010", "011", "100", "101", "110", "111"];

fn render_dec<T: Borrow<[u8]>>(res: &Result<Message<T>, Vec<DecodeError>>, rem: usize) -> String {
    match res {
        Ok(m) => format!("ok {} rem={}", TMsg::from_crate(m).render(), rem),
        Err(es) => format!("err {}", render_errs(es)),
    }
}

type DecOut = Option<(Result<TMsg, Vec<DecodeError>>, usize)>;

/// `n` zero octets, mapped lazily by the allocator (pages that are never touched cost nothing); None when the machine
/// will not promise that much address space — the case is then not applicable here, not a failure of the crate
fn zeroed(n: usize) -> Option<Vec<u8>> {
    zeroed_with_room(n, 0)
}

/// … with `room` more octets of capacity behind them, so that appending does not reallocate
fn zeroed_with_room(n: usize, room: usize) -> Option<Vec<u8>> {
    if n + room == 0 {
        return Some(vec![]);
    }
    let layout = std::alloc::Layout::from_size_align(n + room, 1).ok()?;
    unsafe {
        let p = std::alloc::alloc_zeroed(layout);
        if p.is_null() {
            None
        } else {
            Some(Vec::from_raw_parts(p, n, n + room))
        }
    }
}

fn dec_slice_raw(b: &[u8], o: &ValidationOptions) -> DecOut {
    guard(|| {
        let mut r = SliceReader::from(b);
        let res = Message::<&[u8]>::try_read_validate(&mut r, o.clone());
        (res.map(|m| TMsg::from_crate(&m)), r.len())
    })
}

fn show(d: &DecOut) -> String {
    match d {
        None => "panic".to_string(),
        Some((Ok(m), rem)) => format!("ok {} rem={}", m.render(), rem),
        Some((Err(es), _)) => format!("err {}", render_errs(es)),
    }
}

pub fn dec_slice(b: &[u8], o: &ValidationOptions) -> String {
    show(&dec_slice_raw(b, o))
}

fn viol_text(first: Option<(u8, usize, usize)>) -> String {
    match first {
        Some((op, req, rem)) => {
            let opn = match op {
                1 => "u8".to_string(),
                2 => "u16".to_string(),
                4 => "u32".to_string(),
                8 => "u64".to_string(),
                b's' => "subreader".to_string(),
                b'k' => "skip".to_string(),
                x => format!("op{}", x),
            };
            format!("{}-requested-{}-remaining-{}", opn, req, rem)
        }
        None => String::new(),
    }
}

/// run the same decode against the three harness readers and compare with the SliceReader observation
fn reader_oracle(b: &[u8], expect: &str, run: &dyn Fn(ReaderSel) -> (String, usize, String)) -> String {
    let mut fails = vec![];
    for sel in [ReaderSel::Checked(b), ReaderSel::Poison(b), ReaderSel::Deque(b)] {
        let name = sel.name();
        let (got, viol, vt) = run(sel);
        if viol > 0 {
            fails.push(format!("FAIL:c02-contract:{}:{}-violations:{}", name, viol, vt));
        }
        if got != expect && expect != "panic" {
            fails.push(format!("FAIL:c02-reader:{}:got={}", name, got.replace(' ', "_")));
            // the decoder is generic over its reader: what it answers through a conforming reader is the decoder's
            // answer as much as what it answers through SliceReader (accepted language and values: C05; verdict and
            // error list of a control message: C15)
            fails.push(format!("FAIL:c05-reader:{}:differs-from-the-slice-reader", name));
            fails.push(format!("FAIL:c15-reader:{}:differs-from-the-slice-reader", name));
        }
    }
    if fails.is_empty() {
        "ok".into()
    } else {
        fails.join("&")
    }
}

#[derive(Clone, Copy)]
pub enum ReaderSel<'a> {
    Checked(&'a [u8]),
    Poison(&'a [u8]),
    Deque(&'a [u8]),
}
impl<'a> ReaderSel<'a> {
    fn name(&self) -> &'static str {
        match self {
            ReaderSel::Checked(_) => "checked",
            ReaderSel::Poison(_) => "poison",
            ReaderSel::Deque(_) => "deque",
        }
    }
}

/// generic "run something that takes a Reader<Vec<u8>>" over the selected harness reader
fn with_reader(sel: ReaderSel, body: &dyn Fn(&mut dyn DynReader) -> String) -> (String, usize, String) {
    match sel {
        ReaderSel::Checked(b) | ReaderSel::Poison(b) => {
            let poison = matches!(sel, ReaderSel::Poison(_));
            let mut r = CheckedReader::new(b, poison);
            let sh = r.sh.clone();
            let out = guard(|| body(&mut r)).unwrap_or_else(|| "panic".into());
            let v = sh.violations.get();
            let vt = viol_text(sh.first.get());
            (out, v, vt)
        }
        ReaderSel::Deque(b) => {
            let mut r = DequeReader::new(b);
            let out = guard(|| body(&mut r)).unwrap_or_else(|| "panic".into());
            (out, 0, String::new())
        }
    }
}

/// object-safe face over the three things we decode through harness readers
pub trait DynReader {
    fn dec(&mut self, o: &ValidationOptions) -> String;
    fn avps(&mut self) -> String;
    fn pay(&mut self, attr: u16) -> String;
}

impl<R: Reader<Vec<u8>>> DynReader for R {
    fn dec(&mut self, o: &ValidationOptions) -> String {
        let res = Message::<Vec<u8>>::try_read_validate(self, o.clone());
        render_dec(&res, self.len())
    }
    fn avps(&mut self) -> String {
        let res = AVP::try_read_greedy(self);
        format!("{} rem={}", render_avp_list(&res), self.len())
    }
    fn pay(&mut self, attr: u16) -> String {
        render_avp_res(&leaf(attr, self))
    }
}

/// direct call of the public per-type decoders (the crate's own dispatch function is private)
pub fn leaf<T: Borrow<[u8]>>(attr: u16, r: &mut impl Reader<T>) -> Result<AVP, DecodeError> {
    use types::*;
    Ok(match attr {
        0 => AVP::MessageType(MessageType::try_read(r)?),
        1 => AVP::ResultCode(ResultCode::try_read(r)?),
        2 => AVP::ProtocolVersion(ProtocolVersion::try_read(r)?),
        3 => AVP::FramingCapabilities(FramingCapabilities::try_read(r)?),
        4 => AVP::BearerCapabilities(BearerCapabilities::try_read(r)?),
        5 => AVP::TieBreaker(TieBreaker::try_read(r)?),
        6 => AVP::FirmwareRevision(FirmwareRevision::try_read(r)?),
        7 => AVP::HostName(HostName::try_read(r)?),
        8 => AVP::VendorName(VendorName::try_read(r)?),
        9 => AVP::AssignedTunnelId(AssignedTunnelId::try_read(r)?),
        10 => AVP::ReceiveWindowSize(ReceiveWindowSize::try_read(r)?),
        11 => AVP::Challenge(Challenge::try_read(r)?),
        12 => AVP::Q931CauseCode(Q931CauseCode::try_read(r)?),
        13 => AVP::ChallengeResponse(ChallengeResponse::try_read(r)?),
        14 => AVP::AssignedSessionId(AssignedSessionId::try_read(r)?),
        15 => AVP::CallSerialNumber(CallSerialNumber::try_read(r)?),
        16 => AVP::MinimumBps(MinimumBps::try_read(r)?),
        17 => AVP::MaximumBps(MaximumBps::try_read(r)?),
        18 => AVP::BearerType(BearerType::try_read(r)?),
        19 => AVP::FramingType(FramingType::try_read(r)?),
        21 => AVP::CalledNumber(CalledNumber::try_read(r)?),
        22 => AVP::CallingNumber(CallingNumber::try_read(r)?),
        23 => AVP::SubAddress(SubAddress::try_read(r)?),
        24 => AVP::TxConnectSpeed(TxConnectSpeed::try_read(r)?),
        25 => AVP::PhysicalChannelId(PhysicalChannelId::try_read(r)?),
        26 => AVP::InitialReceivedLcpConfReq(InitialReceivedLcpConfReq::try_read(r)?),
        27 => AVP::LastSentLcpConfReq(LastSentLcpConfReq::try_read(r)?),
        28 => AVP::LastReceivedLcpConfReq(LastReceivedLcpConfReq::try_read(r)?),
        29 => AVP::ProxyAuthenType(ProxyAuthenType::try_read(r)?),
        30 => AVP::ProxyAuthenName(ProxyAuthenName::try_read(r)?),
        31 => AVP::ProxyAuthenChallenge(ProxyAuthenChallenge::try_read(r)?),
        32 => AVP::ProxyAuthenId(ProxyAuthenId::try_read(r)?),
        33 => AVP::ProxyAuthenResponse(ProxyAuthenResponse::try_read(r)?),
        34 => AVP::CallErrors(CallErrors::try_read(r)?),
        35 => AVP::Accm(Accm::try_read(r)?),
        36 => AVP::RandomVector(RandomVector::try_read(r)?),
        37 => AVP::PrivateGroupId(PrivateGroupId::try_read(r)?),
        38 => AVP::RxConnectSpeed(RxConnectSpeed::try_read(r)?),
        39 => AVP::SequencingRequired(SequencingRequired::default()),
        x => return Err(DecodeError::UnknownAvp(x)),
    })
}

pub fn attr_of_kind(kind: &str) -> Option<u16> {
    Some(match kind {
        "MessageType" => 0,
        "ResultCode" => 1,
        "ProtocolVersion" => 2,
        "FramingCapabilities" => 3,
        "BearerCapabilities" => 4,
        "TieBreaker" => 5,
        "FirmwareRevision" => 6,
        "HostName" => 7,
        "VendorName" => 8,
        "AssignedTunnelId" => 9,
        "ReceiveWindowSize" => 10,
        "Challenge" => 11,
        "Q931CauseCode" => 12,
        "ChallengeResponse" => 13,
        "AssignedSessionId" => 14,
        "CallSerialNumber" => 15,
        "MinimumBps" => 16,
        "MaximumBps" => 17,
        "BearerType" => 18,
        "FramingType" => 19,
        "CalledNumber" => 21,
        "CallingNumber" => 22,
        "SubAddress" => 23,
        "TxConnectSpeed" => 24,
        "PhysicalChannelId" => 25,
        "InitialReceivedLcpConfReq" => 26,
        "LastSentLcpConfReq" => 27,
        "LastReceivedLcpConfReq" => 28,
        "ProxyAuthenType" => 29,
        "ProxyAuthenName" => 30,
        "ProxyAuthenChallenge" => 31,
        "ProxyAuthenId" => 32,
        "ProxyAuthenResponse" => 33,
        "CallErrors" => 34,
        "Accm" => 35,
        "RandomVector" => 36,
        "PrivateGroupId" => 37,
        "RxConnectSpeed" => 38,
        "SequencingRequired" => 39,
        _ => return None,
    })
}

fn variant_name(a: &AVP) -> String {
    let s = format!("{:?}", a);
    s.chars().take_while(|c| c.is_ascii_alphanumeric()).collect()
}

// ---------------------------------------------------------------- independent length walker (C07)

/// control image: 12 header octets, Length == image size, records each as long as its own 10-bit
/// length says (>= 6), exactly filling the body
pub fn tiles_control(img: &[u8]) -> Result<usize, String> {
    if img.len() < 12 {
        return Err(format!("image-shorter-than-header:{}", img.len()));
    }
    let l = ((img[2] as usize) << 8) | img[3] as usize;
    if l != img.len() {
        return Err(format!("length-field-{}-but-{}-octets", l, img.len()));
    }
    tiles_avps(&img[12..])
}

pub fn tiles_avps(mut body: &[u8]) -> Result<usize, String> {
    let mut n = 0;
    while !body.is_empty() {
        if body.len() < 6 {
            return Err(format!("tail-of-{}-octets", body.len()));
        }
        let l = (((body[0] >> 6) as usize) << 8) | body[1] as usize;
        if l < 6 || l > body.len() {
            return Err(format!("record-{}-length-{}-of-{}", n, l, body.len()));
        }
        body = &body[l..];
        n += 1;
    }
    Ok(n)
}

// ---------------------------------------------------------------- encoding

struct EncOut {
    data: Option<Vec<u8>>, // None = panicked
    ow: Vec<(usize, usize)>,
    log_data: Option<Vec<u8>>,
}

/// a writer as a caller may well hold it: its vector with spare capacity behind what it holds (every other case, decided
/// by the value to be written); capacity is not content and may not show in what is written
fn spare_capacity(w: &mut VecWriter, key: usize) {
    if key % 2 == 0 {
        w.data.reserve_exact(3 + key % 61);
    }
}

fn enc_msg_into(prefix: &[u8], m: &Message<Vec<u8>>) -> EncOut {
    let data = guard(|| {
        let mut w = VecWriter::new();
        w.write_bytes(prefix);
        spare_capacity(&mut w, format!("{:?}", m).len());
        m.write(&mut w);
        std::mem::take(&mut w.data)
    });
    let mut lw = LoggingWriter::default();
    lw.write_bytes(prefix);
    let ok = guard(|| m.write(&mut lw)).is_some();
    EncOut { data, ow: lw.overwrites.clone(), log_data: if ok { Some(lw.data) } else { None } }
}

fn enc_avp_into(prefix: &[u8], a: &AVP) -> EncOut {
    let data = guard(|| {
        let mut w = VecWriter::new();
        w.write_bytes(prefix);
        spare_capacity(&mut w, format!("{:?}", a).len());
        a.write(&mut w);
        std::mem::take(&mut w.data)
    });
    let mut lw = LoggingWriter::default();
    lw.write_bytes(prefix);
    let ok = guard(|| a.write(&mut lw)).is_some();
    EncOut { data, ow: lw.overwrites.clone(), log_data: if ok { Some(lw.data) } else { None } }
}

fn render_enc(e: &EncOut) -> String {
    match &e.data {
        None => "panic".into(),
        Some(d) => format!("ok {} ow=[{}]", hex(d), e.ow.iter().map(|(o, l)| format!("{}+{}", o, l)).collect::<Vec<_>>().join(";")),
    }
}

fn join(v: Vec<String>) -> String {
    let f: Vec<String> = v.into_iter().filter(|x| x != "ok").collect();
    if f.is_empty() {
        "ok".into()
    } else {
        f.join("&")
    }
}

fn enc_oracles(prefix: &[u8], e: &EncOut, fresh: &EncOut, is_control: bool, avp_len: Option<usize>) -> String {
    let mut v = vec![];
    match (&e.data, &fresh.data) {
        (Some(d), Some(f)) => {
            if e.log_data.as_ref() != Some(d) {
                v.push("FAIL:c09-writer:logging-writer-differs".to_string());
            }
            let mut want = prefix.to_vec();
            want.extend_from_slice(f);
            if *d != want {
                v.push(format!("FAIL:c09-append:got-{}-want-prefix+{}", hex(d), hex(f)));
            }
            for (o, l) in &e.ow {
                if *o < prefix.len() || o + l > prefix.len() + f.len() {
                    v.push(format!("FAIL:c09-ow:overwrite-{}+{}-outside-{}..{}", o, l, prefix.len(), prefix.len() + f.len()));
                }
            }
            let img = if d.len() >= prefix.len() { &d[prefix.len()..] } else { &d[..] };
            let t = if is_control {
                tiles_control(img).map(|_| ())
            } else if avp_len.is_some() {
                match tiles_avps(img) {
                    Ok(1) => Ok(()),
                    Ok(n) => Err(format!("{}-records", n)),
                    Err(x) => Err(x),
                }
            } else {
                Ok(())
            };
            if let Err(x) = t {
                v.push(format!("FAIL:c07-tiles:{}", x));
            }
            if let Some(gl) = avp_len {
                if img.len() != 6 + gl {
                    v.push(format!("FAIL:c07-len:emitted-{}-get_length-{}", img.len(), gl));
                }
            }
        }
        (Some(_), None) | (None, Some(_)) => v.push("FAIL:c09-append:panic-depends-on-prefix".to_string()),
        (None, None) => {}
    }
    join(v)
}

/// the encodable domain of C03 / C11: variable-length values non-empty, optional text not Some("")
fn c11_domain(t: &TAvp) -> bool {
    let empty = |x: &String| x.is_empty() || x == ".";
    match t.kind.as_str() {
        "HostName" | "Challenge" | "PrivateGroupId" | "InitialReceivedLcpConfReq" | "LastSentLcpConfReq" | "LastReceivedLcpConfReq"
        | "ProxyAuthenName" | "ProxyAuthenChallenge" | "ProxyAuthenResponse" | "VendorName" | "CalledNumber" | "CallingNumber"
        | "SubAddress" => t.args.first().map(|x| !empty(x)).unwrap_or(false),
        "ResultCode" | "Q931CauseCode" => t.args.get(2).map(|x| x == "-" || !empty(x)).unwrap_or(true),
        _ => true,
    }
}

// ---------------------------------------------------------------- reference cursor / vector (C18 oracle on the impl side)

fn rd_run(data: &[u8], ops: &str) -> (String, String) {
    // returns (impl observation, reference observation)
    let ops: Vec<&str> = if ops == "." { vec![] } else { ops.split(',').collect() };
    let imp = {
        let mut out = vec![];
        let mut r = SliceReader::from(data);
        // `P<n>`: carve a sub-reader of n octets and go on *inside it* (the parent waits on the stack);
        // `Q`: back to the parent.  A sub-reader is a reader like any other, over its own window only.
        let mut stack: Vec<SliceReader> = vec![];
        for op in &ops {
            if op.starts_with('P') {
                let n: usize = op[1..].parse().unwrap();
                match guard(|| r.subreader(n)) {
                    Some(sub) => {
                        let parent = std::mem::replace(&mut r, sub);
                        stack.push(parent);
                        out.push(format!("{}=ok:{}/{}", op, r.len(), if r.is_empty() { 1 } else { 0 }));
                    }
                    None => {
                        out.push(format!("{}=panic", op));
                        break;
                    }
                }
                continue;
            }
            if *op == "Q" {
                if let Some(parent) = stack.pop() {
                    r = parent;
                }
                out.push(format!("Q=ok:{}/{}", r.len(), if r.is_empty() { 1 } else { 0 }));
                continue;
            }
            let res = guard(|| unsafe {
                match *op {
                    "u8" => r.read_u8_unchecked().to_string(),
                    "u16" => r.read_u16_be_unchecked().to_string(),
                    "u32" => r.read_u32_be_unchecked().to_string(),
                    "u64" => r.read_u64_be_unchecked().to_string(),
                    x if x.starts_with('b') => match r.bytes(x[1..].parse().unwrap()) {
                        Some(b) => hex(b),
                        None => "none".into(),
                    },
                    x if x.starts_with('k') => {
                        r.skip_bytes(x[1..].parse().unwrap());
                        "ok".into()
                    }
                    x if x.starts_with('s') => {
                        let mut s = r.subreader(x[1..].parse().unwrap());
                        let l = s.len();
                        let e = s.is_empty();
                        format!("{}/{}/{}", hex(s.bytes(l).unwrap_or(&[])), l, if e { 1 } else { 0 })
                    }
                    _ => "bad-op".into(),
                }
            });
            match res {
                Some(x) => {
                    // a refused bytes() is followed like any other step: the cursor must not have moved
                    out.push(format!("{}={}:{}", op, x, r.len()));
                }
                None => {
                    out.push(format!("{}=panic", op));
                    break;
                }
            }
        }
        out.join(";")
    };
    let refr = {
        let mut out = vec![];
        let mut d = data;
        let mut stack: Vec<&[u8]> = vec![];
        for op in &ops {
            if op.starts_with('P') {
                let n: usize = op[1..].parse().unwrap();
                let (a, b) = d.split_at(n);
                stack.push(b);
                d = a;
                out.push(format!("{}=ok:{}/{}", op, d.len(), if d.is_empty() { 1 } else { 0 }));
                continue;
            }
            if *op == "Q" {
                if let Some(p) = stack.pop() {
                    d = p;
                }
                out.push(format!("Q=ok:{}/{}", d.len(), if d.is_empty() { 1 } else { 0 }));
                continue;
            }
            let fixed = |n: usize, d: &mut &[u8]| -> String {
                let mut v: u64 = 0;
                for i in 0..n {
                    v = (v << 8) | d[i] as u64;
                }
                *d = &d[n..];
                v.to_string()
            };
            let x = match *op {
                "u8" => fixed(1, &mut d),
                "u16" => fixed(2, &mut d),
                "u32" => fixed(4, &mut d),
                "u64" => fixed(8, &mut d),
                x if x.starts_with('b') => {
                    let n: usize = x[1..].parse().unwrap();
                    if n > d.len() {
                        "none".into()
                    } else {
                        let r = hex(&d[..n]);
                        d = &d[n..];
                        r
                    }
                }
                x if x.starts_with('k') => {
                    let n: usize = x[1..].parse().unwrap();
                    d = &d[n..];
                    "ok".into()
                }
                x if x.starts_with('s') => {
                    let n: usize = x[1..].parse().unwrap();
                    let r = format!("{}/{}/{}", hex(&d[..n]), n, if n == 0 { 1 } else { 0 });
                    d = &d[n..];
                    r
                }
                _ => "bad-op".into(),
            };
            out.push(format!("{}={}:{}", op, x, d.len()));
        }
        out.join(";")
    };
    (imp, refr)
}

fn wr_run(ops: &str) -> (String, String) {
    let ops: Vec<&str> = if ops == "." { vec![] } else { ops.split(',').collect() };
    let mut w = VecWriter::new();
    let mut out = vec![];
    let mut refd: Vec<u8> = vec![];
    let mut refo = vec![];
    for op in &ops {
        let (name, arg) = op.split_once(':').unwrap_or((op, ""));
        let before_empty = w.is_empty();
        let r = guard(|| match name {
            "w" => w.write_bytes(&unhex(arg).unwrap()),
            "u8" => w.write_u8(arg.parse().unwrap()),
            "u16" => w.write_u16_be(arg.parse().unwrap()),
            "u32" => w.write_u32_be(arg.parse().unwrap()),
            "u64" => w.write_u64_be(arg.parse().unwrap()),
            x if x.starts_with("at") => w.write_bytes_at(&unhex(arg).unwrap(), x[2..].parse().unwrap()),
            _ => panic!("bad-op"),
        });
        let _ = before_empty;
        out.push(format!("{}:{}:{}", if r.is_some() { "ok" } else { "refused" }, w.len(), if w.is_empty() { 1 } else { 0 }));
        // reference
        let ok = match name {
            "w" => {
                refd.extend_from_slice(&unhex(arg).unwrap());
                true
            }
            "u8" => {
                refd.push(arg.parse().unwrap());
                true
            }
            "u16" => {
                refd.extend_from_slice(&arg.parse::<u16>().unwrap().to_be_bytes());
                true
            }
            "u32" => {
                refd.extend_from_slice(&arg.parse::<u32>().unwrap().to_be_bytes());
                true
            }
            "u64" => {
                refd.extend_from_slice(&arg.parse::<u64>().unwrap().to_be_bytes());
                true
            }
            x if x.starts_with("at") => {
                let off: usize = x[2..].parse().unwrap();
                let b = unhex(arg).unwrap();
                if off + b.len() <= refd.len() {
                    refd[off..off + b.len()].copy_from_slice(&b);
                    true
                } else {
                    false
                }
            }
            _ => false,
        };
        refo.push(format!("{}:{}:{}", if ok { "ok" } else { "refused" }, refd.len(), if refd.is_empty() { 1 } else { 0 }));
    }
    (format!("{} data={}", out.join(";"), hex(&w.data)), format!("{} data={}", refo.join(";"), hex(&refd)))
}

// ---------------------------------------------------------------- the dispatcher

fn msg_eq_upto_len(a: &TMsg, b: &TMsg) -> bool {
    match (a, b) {
        (TMsg::Control { tid, sid, ns, nr, avps, .. }, TMsg::Control { tid: t2, sid: s2, ns: n2, nr: r2, avps: a2, .. }) => {
            tid == t2 && sid == s2 && ns == n2 && nr == r2 && avps == a2
        }
        _ => a == b,
    }
}

fn has_declared_len(m: &TMsg) -> bool {
    match m {
        TMsg::Control { .. } => true,
        TMsg::Data { len, .. } => len.is_some(),
    }
}

fn rv_of(s: &str) -> Option<RandomVector> {
    Some(RandomVector { value: unhex(s)?.try_into().ok()? })
}

fn strict() -> ValidationOptions {
    opts_of("111").unwrap()
}

pub fn run_line(line: &str) -> String {
    let f: Vec<&str> = line.split(' ').collect();
    // (every call into the crate has its own guard inside `run`; this outer one only keeps a case line that the
    // harness itself cannot parse from taking the process, and the cases after it, down)
    match catch_unwind(AssertUnwindSafe(|| run(&f))) {
        Ok(Some(x)) => x,
        Ok(None) => "bad-op".to_string(),
        Err(_) => "harness-panic".to_string(),
    }
}

fn run(f: &[&str]) -> Option<String> {
    let op = *f.first()?;
    Some(match op {
        "dec" => {
            let o = opts_of(f.get(1)?)?;
            let b = unhex(f.get(2)?)?;
            let r = dec_slice(&b, &o);
            let orc = reader_oracle(&b, &r, &|sel| with_reader(sel, &|r| r.dec(&o)));
            format!("{} | {}", r, orc)
        }
        "decd" => {
            let b = unhex(f.get(1)?)?;
            guard(|| {
                let mut r = SliceReader::from(&b[..]);
                let res = Message::<&[u8]>::try_read(&mut r);
                render_dec(&res, r.len())
            })
            .unwrap_or_else(|| "panic".into())
        }
        "avps" => {
            let b = unhex(f.get(1)?)?;
            let r = guard(|| {
                let mut r = SliceReader::from(&b[..]);
                let res = AVP::try_read_greedy(&mut r);
                format!("{} rem={}", render_avp_list(&res), r.len())
            })
            .unwrap_or_else(|| "panic".into());
            let orc = reader_oracle(&b, &r, &|sel| with_reader(sel, &|r| r.avps()));
            format!("{} | {}", r, orc)
        }
        "pay" => {
            let attr: u16 = f.get(1)?.parse().ok()?;
            let b = unhex(f.get(2)?)?;
            let r = guard(|| {
                let mut r = SliceReader::from(&b[..]);
                render_avp_res(&leaf(attr, &mut r))
            })
            .unwrap_or_else(|| "panic".into());
            let orc = reader_oracle(&b, &r, &|sel| with_reader(sel, &|r| r.pay(attr)));
            format!("{} | {}", r, orc)
        }
        "enc" => {
            let p = unhex(f.get(1)?)?;
            let t = TMsg::parse(f.get(2)?)?;
            let m = t.to_crate()?;
            let e = enc_msg_into(&p, &m);
            let fresh = if p.is_empty() { enc_msg_into(&[], &m) } else { enc_msg_into(&[], &m) };
            let orc = enc_oracles(&p, &e, &fresh, matches!(t, TMsg::Control { .. }), None);
            format!("{} | {}", render_enc(&e), orc)
        }
        "enca" => {
            let p = unhex(f.get(1)?)?;
            let t = TAvp::parse(f.get(2)?)?;
            let a = to_crate(&t)?;
            let e = enc_avp_into(&p, &a);
            let fresh = enc_avp_into(&[], &a);
            let gl = guard(|| a.get_length());
            let orc = enc_oracles(&p, &e, &fresh, false, gl);
            format!("{} len={} | {}", render_enc(&e), gl.map(|x| x.to_string()).unwrap_or("panic".into()), orc)
        }
        "rt" => {
            let t = TMsg::parse(f.get(1)?)?;
            let m = t.to_crate()?;
            let e = enc_msg_into(&[], &m);
            match &e.data {
                None => "enc=panic".to_string(),
                Some(d) => {
                    let dec = dec_slice_raw(d, &strict());
                    let expect = match &t {
                        TMsg::Control { tid, sid, ns, nr, avps, .. } => {
                            TMsg::Control { len: d.len() as u16, tid: *tid, sid: *sid, ns: *ns, nr: *nr, avps: avps.clone() }
                        }
                        TMsg::Data { p, len, tid, sid, nsnr, off, data } => TMsg::Data {
                            p: *p,
                            len: *len,
                            tid: *tid,
                            sid: *sid,
                            nsnr: *nsnr,
                            off: None,
                            data: data[(off.unwrap_or(0) as usize).min(data.len())..].to_vec(),
                        },
                    };
                    let tag = if matches!(t, TMsg::Control { .. }) { "c03-rt" } else { "c04-rt" };
                    let orc = match &dec {
                        Some((Ok(m2), 0)) if *m2 == expect => "ok".to_string(),
                        other => format!("FAIL:{}:want-{}-got-{}", tag, expect.render(), show(other).replace(' ', "_")),
                    };
                    format!("enc={} dec={} | {}", hex(d), show(&dec), orc)
                }
            }
        }
        "rtp" => {
            // the round trip of `rt`, with the message encoded into a writer that already holds a prefix and decoded
            // from the octets after it
            let p = unhex(f.get(1)?)?;
            let t = TMsg::parse(f.get(2)?)?;
            let m = t.to_crate()?;
            let e = enc_msg_into(&p, &m);
            match &e.data {
                None => "enc=panic".to_string(),
                Some(full) => {
                    let d = &full[p.len().min(full.len())..];
                    let dec = dec_slice_raw(d, &strict());
                    let expect = match &t {
                        TMsg::Control { tid, sid, ns, nr, avps, .. } => {
                            TMsg::Control { len: d.len() as u16, tid: *tid, sid: *sid, ns: *ns, nr: *nr, avps: avps.clone() }
                        }
                        TMsg::Data { p, len, tid, sid, nsnr, off, data } => TMsg::Data {
                            p: *p,
                            len: *len,
                            tid: *tid,
                            sid: *sid,
                            nsnr: *nsnr,
                            off: None,
                            data: data[(off.unwrap_or(0) as usize).min(data.len())..].to_vec(),
                        },
                    };
                    let tag = if matches!(t, TMsg::Control { .. }) { "c03-rt" } else { "c04-rt" };
                    let mut v = vec![];
                    match &dec {
                        Some((Ok(m2), 0)) if *m2 == expect => {}
                        other => v.push(format!("FAIL:{}:behind-a-prefix-want-{}-got-{}", tag, expect.render(), show(other).replace(' ', "_"))),
                    }
                    if full.len() < p.len() || full[..p.len()] != p[..] {
                        v.push("FAIL:c09-append:prefix-changed".to_string());
                    }
                    format!("enc={} dec={} | {}", hex(d), show(&dec), join(v))
                }
            }
        }
        "rta" => {
            let t = TAvp::parse(f.get(1)?)?;
            let a = to_crate(&t)?;
            let e = enc_avp_into(&[], &a);
            match &e.data {
                None => "enc=panic".to_string(),
                Some(d) => {
                    let dec = guard(|| {
                        let mut r = SliceReader::from(&d[..]);
                        let res = AVP::try_read_greedy(&mut r);
                        (res, r.len())
                    });
                    let (shown, orc) = match &dec {
                        None => ("panic".to_string(), "FAIL:c03-rta:panic".to_string()),
                        Some((res, rem)) => {
                            let s = format!("{} rem={}", render_avp_list(res), rem);
                            let good = res.len() == 1 && res[0].as_ref().ok() == Some(&a) && *rem == 0;
                            (s.clone(), if good { "ok".into() } else { format!("FAIL:c03-rta:got-{}", s.replace(' ', "_")) })
                        }
                    };
                    format!("enc={} dec={} | {}", hex(d), shown, orc)
                }
            }
        }
        "fix" => {
            let o = opts_of(f.get(1)?)?;
            let b = unhex(f.get(2)?)?;
            let d1 = dec_slice_raw(&b, &o);
            // C10 speaks of control messages and of data messages without an offset field
            let data_with_offset = b.len() >= 2 && b[0] & 0x01 == 0 && b[0] & 0x40 != 0;
            match &d1 {
                Some((Ok(m1), _)) if !data_with_offset => {
                    let cm = m1.to_crate()?;
                    let e1 = enc_msg_into(&[], &cm);
                    match &e1.data {
                        None => format!("d1={} e1=panic | FAIL:c10:re-encoding-panics", show(&d1)),
                        Some(x1) => {
                            let d2 = dec_slice_raw(x1, &strict());
                            let (e2s, orc) = match &d2 {
                                Some((Ok(m2), 0)) => {
                                    let e2 = enc_msg_into(&[], &m2.to_crate()?);
                                    let s = e2.data.as_ref().map(|x| hex(x)).unwrap_or("panic".into());
                                    let good = msg_eq_upto_len(m1, m2) && e2.data.as_ref() == Some(x1);
                                    (s, if good { "ok".to_string() } else { "FAIL:c10:not-a-fixed-point".to_string() })
                                }
                                _ => ("-".to_string(), "FAIL:c10:re-encoded-octets-rejected".to_string()),
                            };
                            format!("d1={} e1={} d2={} e2={} | {}", show(&d1), hex(x1), show(&d2), e2s, orc)
                        }
                    }
                }
                _ => format!("d1={}", show(&d1)),
            }
        }
        "sfx" => {
            let o = opts_of(f.get(1)?)?;
            let b = unhex(f.get(2)?)?;
            let s = unhex(f.get(3)?)?;
            let a = dec_slice_raw(&b, &o);
            match &a {
                Some((Ok(m), rem)) if has_declared_len(m) => {
                    let consumed = b.len() - rem;
                    let mut b2 = b[..consumed].to_vec();
                    b2.extend_from_slice(&s);
                    let r2 = dec_slice_raw(&b2, &o);
                    let declared = match m {
                        TMsg::Control { len, .. } => *len as usize,
                        TMsg::Data { len, .. } => len.unwrap() as usize,
                    };
                    let mut v = vec![];
                    if consumed != declared {
                        v.push(format!("FAIL:c08-consumed:declared-{}-consumed-{}", declared, consumed));
                    }
                    match &r2 {
                        Some((Ok(m2), rem2)) if m2 == m && *rem2 == s.len() => {}
                        other => v.push(format!("FAIL:c08-sfx:with-suffix-{}", show(other).replace(' ', "_"))),
                    }
                    // the default entry point (version checking alone) stops at the declared end as well
                    let vonly = ValidationOptions { reserved: ValidateReserved::No, version: ValidateVersion::Yes, unused: ValidateUnused::No };
                    if let Some((Ok(mv), _)) = dec_slice_raw(&b2, &vonly) {
                        let d = guard(|| {
                            let mut r = SliceReader::from(&b2[..]);
                            let res = Message::<&[u8]>::try_read(&mut r);
                            (res.map(|m| TMsg::from_crate(&m)), r.len())
                        });
                        match &d {
                            Some((Ok(m3), rem3)) if *m3 == mv && *rem3 == s.len() => {}
                            other => v.push(format!("FAIL:c08-sfx-default:default-entry-with-suffix-{}", show(other).replace(' ', "_"))),
                        }
                    }
                    format!("a={} b={} | {}", show(&a), show(&r2), join(v))
                }
                _ => format!("a={}", show(&a)),
            }
        }
        "seqm" => {
            let terms: Vec<TMsg> = f.get(1)?.split('|').map(TMsg::parse).collect::<Option<Vec<_>>>()?;
            let msgs: Vec<Message<Vec<u8>>> = terms.iter().map(|t| t.to_crate()).collect::<Option<Vec<_>>>()?;
            let all = guard(|| {
                let mut w = VecWriter::new();
                for m in &msgs {
                    m.write(&mut w);
                }
                std::mem::take(&mut w.data)
            });
            match all {
                None => "enc=panic".to_string(),
                Some(buf) => {
                    let mut v = vec![];
                    let mut cat = vec![];
                    for m in &msgs {
                        if let Some(d) = enc_msg_into(&[], m).data {
                            cat.extend_from_slice(&d);
                        }
                    }
                    if cat != buf {
                        v.push("FAIL:c09-seq:sequence-differs-from-concatenation".to_string());
                    }
                    let decs = guard(|| {
                        let mut r = SliceReader::from(&buf[..]);
                        let mut out = vec![];
                        let mut n = 0;
                        while !r.is_empty() && n < 4096 {
                            let before = r.len();
                            let res = Message::<&[u8]>::try_read_validate(&mut r, strict());
                            let stop = res.is_err();
                            out.push((res.map(|m| TMsg::from_crate(&m)), before - r.len()));
                            if stop {
                                break;
                            }
                            n += 1;
                        }
                        out
                    });
                    let shown = match &decs {
                        None => "panic".to_string(),
                        Some(ds) => ds
                            .iter()
                            .map(|(r, used)| match r {
                                Ok(m) => format!("{}@{}", m.render(), used),
                                Err(es) => format!("err{}", render_errs(es)),
                            })
                            .collect::<Vec<_>>()
                            .join("|"),
                    };
                    // expected: each message, control length patched, data offset consumed
                    let good = match &decs {
                        Some(ds) if ds.len() == terms.len() => ds.iter().zip(terms.iter()).all(|((r, _), t)| match (r, t) {
                            (Ok(m), TMsg::Control { .. }) => msg_eq_upto_len(m, t),
                            (Ok(m), TMsg::Data { off: None, .. }) => m == t,
                            _ => false,
                        }),
                        _ => false,
                    };
                    // back-to-back decoding is promised for control messages and for data messages that carry a
                    // Length field: a data message without one takes everything that follows as its payload
                    let delimited = terms.iter().take(terms.len().saturating_sub(1)).all(|t| match t {
                        TMsg::Data { len: None, .. } => false,
                        _ => true,
                    });
                    if !good && delimited {
                        v.push("FAIL:c08-seq:sequential-decodes-differ-from-the-messages-written".to_string());
                    }
                    format!("enc={} dec={} | {}", hex(&buf), shown, join(v))
                }
            }
        }
        "cat" => {
            let recs: Vec<Vec<u8>> = f.get(1)?.split('|').map(unhex).collect::<Option<Vec<_>>>()?;
            let whole: Vec<u8> = recs.concat();
            let av = |b: &[u8]| {
                guard(|| {
                    let mut r = SliceReader::from(b);
                    let res = AVP::try_read_greedy(&mut r);
                    (render_avp_list(&res), r.len())
                })
            };
            let w = av(&whole);
            let well = recs.iter().all(|r| r.len() >= 6 && ((((r[0] >> 6) as usize) << 8) | r[1] as usize) == r.len());
            let mut v = vec![];
            if well {
                let mut parts = vec![];
                for r in &recs {
                    match av(r) {
                        Some((s, _)) => {
                            let inner = s[1..s.len() - 1].to_string();
                            if !inner.is_empty() {
                                parts.push(inner);
                            }
                        }
                        None => parts.push("panic".into()),
                    }
                }
                let want = format!("[{}]", parts.join(";"));
                match &w {
                    Some((s, 0)) if *s == want => {}
                    _ => v.push("FAIL:c08-cat:concatenation-differs-from-piecewise-decoding".to_string()),
                }
            }
            format!("{} | {}", w.map(|(s, rem)| format!("{} rem={}", s, rem)).unwrap_or("panic".into()), join(v))
        }
        "opts" => {
            let b = unhex(f.get(1)?)?;
            let res: Vec<DecOut> = ALL_OPTS.iter().map(|o| dec_slice_raw(&b, &opts_of(o).unwrap())).collect();
            let dflt = guard(|| {
                let mut r = SliceReader::from(&b[..]);
                let x = Message::<&[u8]>::try_read(&mut r);
                (x.map(|m| TMsg::from_crate(&m)), r.len())
            });
            let mut v = vec![];
            let okv = |d: &DecOut| -> Option<(TMsg, usize)> {
                match d {
                    Some((Ok(m), r)) => Some((m.clone(), *r)),
                    _ => None,
                }
            };
            for i in 0..8usize {
                for j in 0..8usize {
                    if i & j == i && i != j {
                        // i weaker than j
                        if let Some(x) = okv(&res[j]) {
                            if okv(&res[i]) != Some(x) {
                                v.push(format!("FAIL:c14-monotone:accepted-under-{}-but-differs-under-{}", ALL_OPTS[j], ALL_OPTS[i]));
                            }
                        }
                    }
                }
            }
            // default entry point = version only (index 0b010 = 2)
            let same = |a: &DecOut, b: &DecOut| match (a, b) {
                (Some((Ok(x), r)), Some((Ok(y), s))) => x == y && r == s,
                (Some((Err(x), _)), Some((Err(y), _))) => x == y,
                (None, None) => true,
                _ => false,
            };
            if !same(&dflt, &res[2]) {
                v.push("FAIL:c14-default:default-entry-differs-from-version-only".to_string());
            }
            if b.len() >= 2 {
                let w = ((b[0] as u16) << 8) | b[1] as u16;
                let nib = (w >> 4) & 0xF;
                let is_control = (w >> 8) & 1 == 1;
                let rsv = w & 0x2C0F != 0;
                let unused = is_control && ((w >> 15) & 1 == 1 || (w >> 14) & 1 == 1);
                for i in 0..8usize {
                    let (r_on, v_on, u_on) = (i & 4 != 0, i & 2 != 0, i & 1 != 0);
                    let rejected = |d: &DecOut| matches!(d, Some((Err(_), _)));
                    if v_on {
                        if nib != 2 {
                            if !rejected(&res[i]) {
                                v.push(format!("FAIL:c14-version:nibble-{}-not-rejected-under-{}", nib, ALL_OPTS[i]));
                            }
                        } else if !same(&res[i], &res[i & !2]) {
                            v.push(format!("FAIL:c14-version:nibble-2-but-{}-differs-from-{}", ALL_OPTS[i], ALL_OPTS[i & !2]));
                        }
                    }
                    if r_on {
                        if rsv {
                            if !rejected(&res[i]) {
                                v.push(format!("FAIL:c14-reserved:reserved-bit-set-not-rejected-under-{}", ALL_OPTS[i]));
                            }
                        } else if !same(&res[i], &res[i & !4]) {
                            v.push(format!("FAIL:c14-reserved:clean-but-{}-differs-from-{}", ALL_OPTS[i], ALL_OPTS[i & !4]));
                        }
                    }
                    if u_on {
                        if unused {
                            if !rejected(&res[i]) {
                                v.push(format!("FAIL:c14-unused:control-P-or-O-not-rejected-under-{}", ALL_OPTS[i]));
                            }
                        } else if !same(&res[i], &res[i & !1]) {
                            v.push(format!("FAIL:c14-unused:no-unused-bit-but-{}-differs-from-{}", ALL_OPTS[i], ALL_OPTS[i & !1]));
                        }
                    }
                }
                // bits behind a switched-off check do not matter: canonicalise them and compare under 000
                let mut c = b.clone();
                let mut w2 = (w & !0x00F0) | 0x0020; // version := 2
                w2 &= !0x2C0F; // reserved := 0
                c[0] = (w2 >> 8) as u8;
                c[1] = w2 as u8;
                let rc = dec_slice_raw(&c, &opts_of("000").unwrap());
                if !same(&rc, &res[0]) {
                    v.push("FAIL:c14-irrelevant:version-or-reserved-bits-change-the-result-with-checks-off".to_string());
                }
                if is_control {
                    let mut c2 = b.clone();
                    c2[0] &= !0xC0; // P and O off
                    let r2 = dec_slice_raw(&c2, &opts_of("000").unwrap());
                    if !same(&r2, &res[0]) {
                        v.push("FAIL:c14-irrelevant:control-P-or-O-bits-change-the-result-with-the-check-off".to_string());
                    }
                }
            }
            let mut parts: Vec<String> = res.iter().map(show).collect();
            parts.push(show(&dflt));
            format!("{} | {}", parts.join(" / "), join(v))
        }
        "hide" => {
            let t = TAvp::parse(f.get(1)?)?;
            let _a = to_crate(&t)?;
            let secret = unhex(f.get(2)?)?;
            let rv = rv_of(f.get(3)?)?;
            let lp = unhex(f.get(4)?)?;
            let ap: [u8; 16] = unhex(f.get(5)?)?.try_into().ok()?;
            match guard(|| to_crate(&t).unwrap().hide(&secret, &rv, &lp, &ap)) {
                None => "panic".into(),
                Some(h) => from_crate(&h).render(),
            }
        }
        "reveal" => {
            let t = TAvp::parse(f.get(1)?)?;
            let a = to_crate(&t)?;
            let secret = unhex(f.get(2)?)?;
            let rv = rv_of(f.get(3)?)?;
            match guard(|| to_crate(&t).unwrap().reveal(&secret, &rv)) /* built afresh: a clone would have lost the spare capacity */ {
                None => "panic".into(),
                Some(r) => {
                    let orc = match (&r, &a) {
                        (Ok(x), AVP::Hidden(h)) => {
                            if attr_of_kind(&variant_name(x)) == Some(h.attribute_type) {
                                "ok".to_string()
                            } else {
                                format!("FAIL:c13-kind:announced-{}-revealed-{}", h.attribute_type, variant_name(x))
                            }
                        }
                        _ => "ok".to_string(),
                    };
                    format!("{} | {}", render_avp_res(&r), orc)
                }
            }
        }
        "hr" => {
            let t = TAvp::parse(f.get(1)?)?;
            let a = to_crate(&t)?;
            let secret = unhex(f.get(2)?)?;
            let rv = rv_of(f.get(3)?)?;
            let lp = unhex(f.get(4)?)?;
            let ap: [u8; 16] = unhex(f.get(5)?)?.try_into().ok()?;
            match guard(|| to_crate(&t).unwrap().hide(&secret, &rv, &lp, &ap)) {
                None => "h=panic".into(),
                Some(h) => {
                    let mut v = vec![];
                    let is_hidden_in = matches!(a, AVP::Hidden(_));
                    if is_hidden_in && h != a {
                        v.push("FAIL:c11-idem:hide-changes-a-hidden-avp".to_string());
                    }
                    let r = guard(|| h.clone().reveal(&secret, &rv));
                    let rs = match &r {
                        None => "panic".to_string(),
                        Some(x) => render_avp_res(x),
                    };
                    // the domain of C11 (as of C03): variable-length values non-empty, optional text not Some("").
                    // Outside it the crate still hides; reveal then answers what the decoder makes of the AVP's own
                    // value octets (theorem C11.reveal_hide_any) — checked for every non-hidden AVP, in or out
                    let in_domain = c11_domain(&t);
                    if !is_hidden_in {
                        if in_domain && r.as_ref().and_then(|x| x.as_ref().ok()) != Some(&a) {
                            v.push(format!("FAIL:c11-direct:reveal-gives-{}", rs));
                        }
                        let own = guard(|| {
                            let e = enc_avp_into(&[], &a);
                            e.data.map(|d| {
                                let mut rd = SliceReader::from(&d[..]);
                                let mut l = AVP::try_read_greedy(&mut rd);
                                if l.len() == 1 { Some(render_avp_res(&l.remove(0))) } else { None }
                            })
                        });
                        if let Some(Some(Some(own))) = own {
                            if own != rs {
                                v.push(format!("FAIL:c11-own:reveal-gives-{}-own-decode-gives-{}", rs, own));
                            }
                        }
                        // reveal of a non-hidden AVP is the identity
                        let idr = guard(|| to_crate(&t).unwrap().reveal(&secret, &rv)) /* built afresh: a clone would have lost the spare capacity */;
                        if idr.as_ref().and_then(|x| x.as_ref().ok()) != Some(&a) {
                            v.push("FAIL:c11-plain:reveal-changes-a-non-hidden-avp".to_string());
                        }
                    }
                    // via the wire
                    let ws = if guard(|| h.get_length()).unwrap_or(usize::MAX) <= 1017 {
                        let e = enc_avp_into(&[], &h);
                        match e.data {
                            None => "enc-panic".to_string(),
                            Some(d) => {
                                let back = guard(|| {
                                    let mut rd = SliceReader::from(&d[..]);
                                    AVP::try_read_greedy(&mut rd)
                                });
                                match back {
                                    Some(mut l) if l.len() == 1 && l[0].is_ok() => {
                                        let h2 = l.remove(0).unwrap();
                                        if h2 != h {
                                            v.push("FAIL:c11-wire:hidden-avp-changed-by-encode-decode".to_string());
                                        }
                                        let r2 = guard(|| h2.reveal(&secret, &rv));
                                        let s = match &r2 {
                                            None => "panic".to_string(),
                                            Some(x) => render_avp_res(x),
                                        };
                                        if !is_hidden_in && in_domain && r2.as_ref().and_then(|x| x.as_ref().ok()) != Some(&a) {
                                            v.push(format!("FAIL:c11-wire:reveal-after-wire-gives-{}", s));
                                        }
                                        s
                                    }
                                    _ => {
                                        v.push("FAIL:c11-wire:hidden-avp-does-not-decode".to_string());
                                        "undecodable".to_string()
                                    }
                                }
                            }
                        }
                    } else {
                        "na".to_string()
                    };
                    format!("h={} r={} w={} | {}", from_crate(&h).render(), rs, ws, join(v))
                }
            }
        }
        // the same questions over an input of 2^32 octets and more (zero octets, lazily mapped: only the pages that are
        // read are ever touched): a declared length is honoured whatever follows it, however much of it there is
        // encoding into a writer that already holds 2^32 octets and more (zero octets, lazily mapped; only the first
        // MiB, the last pages in front of the new octets and the new octets themselves are looked at afterwards)
        // the same encode, called while the thread is unwinding from a panic (from a destructor, as a connection object
        // that says goodbye in its Drop would): what is encoded does not depend on what else the thread is doing
        "encunw" => {
            let t = TMsg::parse(f.get(1)?)?;
            let m = t.to_crate()?;
            let fresh = enc_msg_into(&[], &m).data;
            match fresh {
                None => "panic | ok".to_string(),
                Some(want) => {
                    struct Goodbye<'a> {
                        m: &'a Message<Vec<u8>>,
                        out: &'a std::cell::RefCell<Option<Vec<u8>>>,
                    }
                    impl<'a> Drop for Goodbye<'a> {
                        fn drop(&mut self) {
                            let mut w = VecWriter::new();
                            self.m.write(&mut w);
                            *self.out.borrow_mut() = Some(std::mem::take(&mut w.data));
                        }
                    }
                    let cell = std::cell::RefCell::new(None);
                    let _ = catch_unwind(AssertUnwindSafe(|| {
                        let _g = Goodbye { m: &m, out: &cell };
                        panic!("unwinding");
                    }));
                    let got = cell.borrow().clone();
                    let orc = if got.as_ref() == Some(&want) { "ok".to_string() } else { "FAIL:c19-unwinding:octets-differ-when-encoded-during-unwinding&FAIL:c06-octets:octets-differ-when-encoded-during-unwinding".to_string() };
                    format!("ok {} | {}", got.map(|d| hex(&d)).unwrap_or("none".into()), orc)
                }
            }
        }
        "encbig" | "encabig" => {
            let size: usize = f.get(1)?.parse().ok()?;
            if size > (1usize << 33) {
                return None;
            }
            let msg = if op == "encbig" { Some(TMsg::parse(f.get(2)?)?.to_crate()?) } else { None };
            let avp = if op == "encabig" { Some(to_crate(&TAvp::parse(f.get(2)?)?)?) } else { None };
            let fresh = match (&msg, &avp) {
                (Some(m), _) => enc_msg_into(&[], m).data,
                (_, Some(a)) => enc_avp_into(&[], a).data,
                _ => None,
            };
            let mut big = match zeroed_with_room(size, 1 << 20) {
                Some(v) => Some(v),
                None => return Some("n/a".to_string()),
            };
            let got = guard(|| {
                let mut w = VecWriter::new();
                w.data = big.take().unwrap_or_default();
                if let Some(m) = &msg {
                    m.write(&mut w);
                }
                if let Some(a) = &avp {
                    a.write(&mut w);
                }
                let d = std::mem::take(&mut w.data);
                let tail = d.get(size..).map(|x| x.to_vec()).unwrap_or_default();
                let head = size.min(1 << 20);
                let clean = d.len() >= size && d[..head].iter().all(|&x| x == 0) && d[size - size.min(1 << 16)..size].iter().all(|&x| x == 0);
                (tail, clean)
            });
            match (&got, &fresh) {
                (None, None) => "panic | ok".to_string(),
                (None, Some(_)) => "panic | FAIL:c09-append:refused-behind-a-large-prefix&FAIL:c03-rt:refused-behind-a-large-prefix&FAIL:c06-octets:refused-behind-a-large-prefix&FAIL:c07-refusal:refused-behind-a-large-prefix".to_string(),
                (Some((tail, clean)), fr) => {
                    let same = fr.as_ref().map(|x| x == tail).unwrap_or(false) && *clean;
                    let orc = if same {
                        "ok".to_string()
                    } else {
                        let why = if !*clean { "earlier-octets-changed" } else { "appended-octets-differ-from-the-value-alone" };
                        format!("FAIL:c09-append:{w}&FAIL:c03-rt:{w}&FAIL:c06-octets:{w}&FAIL:c07-exact:{w}", w = why)
                    };
                    format!("ok tail={} clean={} | {}", hex(tail), if *clean { 1 } else { 0 }, orc)
                }
            }
        }
        "sfxbig" => {
            let o = opts_of(f.get(1)?)?;
            let b = unhex(f.get(2)?)?;
            let size: usize = f.get(3)?.parse().ok()?;
            if size < b.len() || size > (1usize << 34) {
                return None;
            }
            let a = dec_slice_raw(&b, &o);
            match &a {
                Some((Ok(m), rem)) if has_declared_len(m) => {
                    let consumed = b.len() - rem;
                    let mut buf = match zeroed(size) {
                        Some(v) => v,
                        None => return Some("n/a".to_string()),
                    };
                    buf[..consumed].copy_from_slice(&b[..consumed]);
                    let r2 = dec_slice_raw(&buf, &o);
                    let mut v = vec![];
                    match &r2 {
                        Some((Ok(m2), rem2)) if m2 == m && *rem2 == size - consumed => {}
                        other => v.push(format!("FAIL:c08-sfx:with-{}-octets-behind-{}", size - consumed, show(other).replace(' ', "_"))),
                    }
                    format!("a={} b={} | {}", show(&a), show(&r2), join(v))
                }
                _ => format!("a={}", show(&a)),
            }
        }
        // a data message without Length field in front of `size - |image|` zero octets: the payload is everything that
        // follows the header (its length is reported, not its octets)
        "paybig" => {
            let b = unhex(f.get(1)?)?;
            let size: usize = f.get(2)?.parse().ok()?;
            if size < b.len() || size > (1usize << 34) {
                return None;
            }
            let mut buf = match zeroed(size) {
                Some(v) => v,
                None => return Some("n/a".to_string()),
            };
            buf[..b.len()].copy_from_slice(&b);
            let o = ValidationOptions { reserved: ValidateReserved::No, version: ValidateVersion::Yes, unused: ValidateUnused::No };
            guard(|| {
                let mut r = SliceReader::from(&buf[..]);
                match Message::<&[u8]>::try_read_validate(&mut r, o.clone()) {
                    Ok(Message::Data(d)) => format!("ok data p={} len={} tid={} sid={} payload={} rem={}", if d.is_prioritized { 1 } else { 0 }, d.length.map(|x| x.to_string()).unwrap_or("-".into()), d.tunnel_id, d.session_id, d.data.len(), r.len()),
                    Ok(Message::Control(_)) => "ok control".to_string(),
                    Err(es) => format!("err {}", render_errs(&es)),
                }
            })
            .unwrap_or_else(|| "panic".into())
        }
        "rdbig" => {
            // rdbig <size> <ops>: a reader over `size` zero octets whose first and last eight are 0xa0.. and 0xb0..
            let size: usize = f.get(1)?.parse().ok()?;
            if size < 16 || size > (1usize << 34) {
                return None;
            }
            let mut buf = match zeroed(size) {
                Some(v) => v,
                None => return Some("n/a".to_string()),
            };
            for i in 0..8 {
                buf[i] = 0xa0 + i as u8;
                buf[size - 8 + i] = 0xb0 + i as u8;
            }
            let (imp, refr) = rd_run(&buf, f.get(2)?);
            let orc = if imp == refr { "ok".to_string() } else { format!("FAIL:c18-reader:reference-says-{}", refr) };
            format!("{} | {}", imp, orc)
        }
        "rd" => {
            let d = unhex(f.get(1)?)?;
            let (imp, refr) = rd_run(&d, f.get(2)?);
            let cmp_imp: String = imp.clone();
            let orc = if cmp_imp == refr { "ok".to_string() } else { format!("FAIL:c18-reader:reference-says-{}", refr) };
            format!("{} | {}", cmp_imp, orc)
        }
        "wr" => {
            let (imp, refr) = wr_run(f.get(1)?);
            let orc = if imp == refr { "ok".to_string() } else { format!("FAIL:c18-writer:reference-says-{}", refr.replace(' ', "_")) };
            format!("{} | {}", imp, orc)
        }
        "code" => {
            let field = *f.get(1)?;
            let x: u16 = f.get(2)?.parse().ok()?;
            let hi = (x >> 8) as u8;
            let lo = x as u8;
            let one = |body: Vec<u8>| -> Option<Result<AVP, DecodeError>> {
                guard(|| {
                    let mut r = SliceReader::from(&body[..]);
                    let mut l = AVP::try_read_greedy(&mut r);
                    if l.len() == 1 {
                        Some(l.remove(0))
                    } else {
                        None
                    }
                })
                .flatten()
            };
            let reenc = |a: &AVP, at: usize| -> String {
                match enc_avp_into(&[], a).data {
                    Some(d) if d.len() >= at + 2 => (((d[at] as u16) << 8) | d[at + 1] as u16).to_string(),
                    _ => "panic".into(),
                }
            };
            match field {
                "mt" => match one(vec![0, 8, 0, 0, 0, 0, hi, lo]) {
                    Some(Ok(a)) => format!("{}:{}", from_crate(&a).args[0], reenc(&a, 6)),
                    Some(Err(e)) => format!("!{}", render_err(&e)),
                    None => "panic".into(),
                },
                "et" => match one(vec![0, 10, 0, 0, 0, 1, 0, 1, hi, lo]) {
                    Some(Ok(a)) => format!("{}:{}", from_crate(&a).args[1], reenc(&a, 8)),
                    Some(Err(e)) => format!("!{}", render_err(&e)),
                    None => "panic".into(),
                },
                "pat" => match one(vec![0, 8, 0, 0, 0, 29, hi, lo]) {
                    Some(Ok(a)) => format!("{}:{}", from_crate(&a).args[0], reenc(&a, 6)),
                    Some(Err(e)) => format!("!{}", render_err(&e)),
                    None => "panic".into(),
                },
                "rc" => match one(vec![0, 8, 0, 0, 0, 1, hi, lo]) {
                    // raw result code is kept
                    Some(Ok(a)) => format!("{}:{}", from_crate(&a).args[0], reenc(&a, 6)),
                    Some(Err(e)) => format!("!{}", render_err(&e)),
                    None => "panic".into(),
                },
                "stop" => match guard(|| CodeValue::from(x).as_stop_ccn()) {
                    Some(Ok(c)) => format!("{:?}:{}", c, u16::from(CodeValue::from(c))),
                    Some(Err(_)) => "-".into(),
                    None => "panic".into(),
                },
                "cdn" => match guard(|| CodeValue::from(x).as_cdn()) {
                    Some(Ok(c)) => format!("{:?}:{}", c, u16::from(CodeValue::from(c))),
                    Some(Err(_)) => "-".into(),
                    None => "panic".into(),
                },
                "attr" => {
                    let mut body = vec![0, 38, 0, 0, hi, lo];
                    for _ in 0..16 {
                        body.extend_from_slice(&[0, 1]);
                    }
                    match one(body) {
                        Some(Ok(a)) => format!("{}:{}", variant_name(&a), reenc(&a, 4)),
                        Some(Err(e)) => format!("!{}", render_err(&e)),
                        None => "panic".into(),
                    }
                }
                _ => return None,
            }
        }
        "named" => {
            // every named value of every enumeration encodes to its number: list them all
            let mut out = vec![];
            for m in MESSAGE_TYPES.iter() {
                let d = enc_avp_into(&[], &AVP::MessageType(*m)).data?;
                out.push(format!("{:?}={}", m, ((d[6] as u16) << 8) | d[7] as u16));
            }
            // the number a named value encodes to is read off the wire (no reliance on a particular integer
            // conversion of the enumeration types)
            for e in ERROR_TYPES.iter() {
                let a = AVP::ResultCode(types::ResultCode { code: CodeValue::from(1u16), error: Some(RcError { error_type: *e, error_message: None }) });
                let d = enc_avp_into(&[], &a).data?;
                out.push(format!("{:?}={}", e, ((d[8] as u16) << 8) | d[9] as u16));
            }
            for p in PROXY_TYPES.iter() {
                let d = enc_avp_into(&[], &AVP::ProxyAuthenType(*p)).data?;
                out.push(format!("{:?}={}", p, ((d[6] as u16) << 8) | d[7] as u16));
            }
            for x in 0..16u16 {
                if let Ok(c) = StopCcnCode::try_from(x) {
                    out.push(format!("StopCcn.{:?}={}", c, u16::from(CodeValue::from(c))));
                }
                if let Ok(c) = CdnCode::try_from(x) {
                    out.push(format!("Cdn.{:?}={}", c, u16::from(CodeValue::from(c))));
                }
            }
            out.join(",")
        }
        "bits" => {
            let kind = *f.get(1)?;
            let x = *f.get(2)? == "1";
            let y = *f.get(3)? == "1";
            let (w, a, b) = match kind {
                "FramingCapabilities" => {
                    let v = types::FramingCapabilities::new(x, y);
                    (from_crate(&AVP::FramingCapabilities(v)).args[0].clone(), v.is_async_framing_supported(), v.is_sync_framing_supported())
                }
                "BearerCapabilities" => {
                    let v = types::BearerCapabilities::new(x, y);
                    (from_crate(&AVP::BearerCapabilities(v)).args[0].clone(), v.is_digital_access_supported(), v.is_analog_access_supported())
                }
                "BearerType" => {
                    let v = types::BearerType::new(x, y);
                    (from_crate(&AVP::BearerType(v)).args[0].clone(), v.is_analog_request(), v.is_digital_request())
                }
                "FramingType" => {
                    let v = types::FramingType::new(x, y);
                    (from_crate(&AVP::FramingType(v)).args[0].clone(), v.is_analog_request(), v.is_digital_request())
                }
                _ => return None,
            };
            let orc = if a == x && b == y { "ok".to_string() } else { format!("FAIL:c17-accessors:new({},{})-reports-({},{})", x, y, a, b) };
            format!("word={} a={} b={} | {}", w, a as u8, b as u8, orc)
        }
        "word" => {
            let kind = *f.get(1)?;
            let w: u32 = f.get(2)?.parse().ok()?;
            let t = TAvp::new(kind, vec![w.to_string()]);
            let a = to_crate(&t)?;
            let (x, y) = match &a {
                AVP::FramingCapabilities(v) => (v.is_async_framing_supported(), v.is_sync_framing_supported()),
                AVP::BearerCapabilities(v) => (v.is_digital_access_supported(), v.is_analog_access_supported()),
                AVP::BearerType(v) => (v.is_analog_request(), v.is_digital_request()),
                AVP::FramingType(v) => (v.is_analog_request(), v.is_digital_request()),
                _ => return None,
            };
            let d = enc_avp_into(&[], &a).data?;
            let mut v = vec![];
            if !(d.len() == 10 && d[6..] == w.to_be_bytes()) {
                v.push("FAIL:c17-word:re-encoded-word-differs".to_string());
            }
            // back through the decoder, with the slice reader, a structurally different reader, and one whose
            // bytes() never succeeds: the word comes back, or (from the last) an error — never another word
            let want = format!("[{}]", t.render());
            let via_slice = guard(|| {
                let mut r = SliceReader::from(&d[..]);
                render_avp_list(&AVP::try_read_greedy(&mut r))
            });
            let via_deque = guard(|| {
                let mut r = crate::readers::DequeReader::new(&d);
                render_avp_list(&AVP::try_read_greedy(&mut r))
            });
            let via_refusing = guard(|| {
                let mut r = crate::readers::RefusingReader::new(&d);
                let l = AVP::try_read_greedy(&mut r);
                (l.len() == 1 && l[0].is_err(), render_avp_list(&l))
            });
            if via_slice.as_deref() != Some(want.as_str()) || via_deque.as_deref() != Some(want.as_str()) {
                v.push(format!("FAIL:c17-word:decoded-{}-and-{}", via_slice.unwrap_or("panic".into()).replace(' ', "_"), via_deque.unwrap_or("panic".into()).replace(' ', "_")));
            }
            match via_refusing {
                Some((is_err, text)) if is_err || text == want => {}
                other => v.push(format!("FAIL:c17-reader:a-reader-whose-bytes()-refuses-gets-{}", other.map(|x| x.1).unwrap_or("panic".into()).replace(' ', "_"))),
            }
            format!("enc={} a={} b={} | {}", hex(&d[6.min(d.len())..]), x as u8, y as u8, join(v))
        }
        "name" => {
            let n: u16 = f.get(1)?.parse().ok()?;
            let texts = guard(|| {
                vec![
                    DecodeError::IncompleteAVP(n).to_string(),
                    DecodeError::InvalidUtf8(n).to_string(),
                    DecodeError::AVPReadError(n).to_string(),
                ]
            });
            match texts {
                None => "panic".into(),
                Some(t) => {
                    // what does this attribute number decode to?
                    let mut body = vec![0, 38, 0, 0, (n >> 8) as u8, n as u8];
                    for _ in 0..16 {
                        body.extend_from_slice(&[0, 1]);
                    }
                    let mut r = SliceReader::from(&body[..]);
                    let l = AVP::try_read_greedy(&mut r);
                    let want = match l.first() {
                        Some(Ok(a)) => variant_name(a),
                        Some(Err(DecodeError::UnknownAvp(_))) => n.to_string(),
                        _ => "?".to_string(),
                    };
                    let good = t[0] == format!("Incomplete AVP ({})", want)
                        && t[1] == format!("AVP ({}) with invalid UTF-8 string payload", want)
                        && t[2] == format!("Read error when parsing AVP ({})", want);
                    let orc = if good { "ok".to_string() } else { format!("FAIL:c20-name:number-{}-decodes-as-{}", n, want) };
                    format!("{} | {}", t.join("|").replace(' ', "_"), orc)
                }
            }
        }
        "render" => {
            let e = parse_err(f.get(1)?)?;
            match guard(|| e.to_string()) {
                None => "panic".into(),
                Some(s) => {
                    let orc = if s.is_empty() { "FAIL:c20-render:empty-text" } else { "ok" };
                    format!("{} | {}", s.replace(' ', "_"), orc)
                }
            }
        }
        "sf" => {
            let o = opts_of(f.get(1)?)?;
            let b = unhex(f.get(2)?)?;
            let want = parse_err(f.get(3)?)?;
            let r = dec_slice_raw(&b, &o);
            let orc = match &r {
                Some((Err(es), _)) if es.len() == 1 && es[0] == want => "ok".to_string(),
                other => format!("FAIL:c20-sf:want-[{}]-got-{}", render_err(&want), show(other).replace(' ', "_")),
            };
            format!("{} | {}", show(&r), orc)
        }
        "c15" => {
            let b = unhex(f.get(1)?)?;
            let nbad: usize = f.get(2)?.parse().ok()?;
            let first_mt = *f.get(3)? == "1";
            let k: usize = f.get(4)?.parse().ok()?;
            let r = dec_slice_raw(&b, &strict());
            let mut v = vec![];
            match &r {
                None => v.push("FAIL:c15:panic".to_string()),
                Some((Ok(TMsg::Control { avps, .. }), _)) => {
                    if nbad != 0 || (k > 0 && !first_mt) {
                        v.push("FAIL:c15-accept:accepted-with-bad-records-or-without-message-type-first".to_string());
                    }
                    if avps.len() != k {
                        v.push(format!("FAIL:c15-accept:{}-avps-returned-for-{}-records", avps.len(), k));
                    }
                }
                Some((Ok(_), _)) => v.push("FAIL:c15:not-a-control-message".to_string()),
                Some((Err(es), _)) => {
                    if es.is_empty() {
                        v.push("FAIL:c15-empty:rejected-with-an-empty-error-list".to_string());
                    }
                    if nbad == 0 && (first_mt || k == 0) {
                        v.push("FAIL:c15-reject:all-records-good-but-rejected".to_string());
                    }
                    if first_mt && nbad > 0 && es.len() != nbad {
                        v.push(format!("FAIL:c15-count:{}-errors-for-{}-bad-records", es.len(), nbad));
                    }
                }
            }
            let orc = reader_oracle(&b, &show(&r), &|sel| with_reader(sel, &|rd| rd.dec(&strict())));
            if orc != "ok" {
                v.push(orc);
            }
            format!("{} | {}", show(&r), join(v))
        }
        "md5" => {
            let b = unhex(f.get(1)?)?;
            hex(&md5::compute(&b).0)
        }
        "utf8" => {
            let b = unhex(f.get(1)?)?;
            if std::str::from_utf8(&b).is_ok() { "1" } else { "0" }.to_string()
        }
        "utf8all" => {
            // validity of every k-octet string, in lexicographic order, folded into (count, hash)
            let k: usize = f.get(1)?.parse().ok()?;
            if k > 3 {
                return None;
            }
            let total = 256usize.pow(k as u32);
            let mut count = 0u64;
            let mut h = 0u64;
            let mut buf = vec![0u8; k];
            for i in 0..total {
                let mut x = i;
                for j in (0..k).rev() {
                    buf[j] = (x & 0xff) as u8;
                    x >>= 8;
                }
                let ok = std::str::from_utf8(&buf).is_ok() as u64;
                count += ok;
                h = (h * 31 + ok + 1) % 1000000007;
            }
            format!("{}:{}", count, h)
        }
        _ => return None,
    })
}
