//! Canonical text terms for AVPs, messages, errors and results (DESIGN.md appendix B.5).
//! One text form on both sides of the correspondence: the Lean driver prints the same.

use rl2tp::avp::types::result_code::{CodeValue, Error as RcError, ErrorType};
use rl2tp::avp::types::{self, MessageType, ProxyAuthenType};
use rl2tp::avp::AVP;
use rl2tp::common::DecodeError;
use rl2tp::{ControlMessage, DataMessage, Message};
use std::borrow::Borrow;

pub fn hex(b: &[u8]) -> String {
    if b.is_empty() {
        return ".".to_string();
    }
    let mut s = String::with_capacity(b.len() * 2);
    for x in b {
        s.push_str(&format!("{:02x}", x));
    }
    s
}

pub fn unhex(s: &str) -> Option<Vec<u8>> {
    if s == "." {
        return Some(vec![]);
    }
    if s.len() % 2 != 0 {
        return None;
    }
    let b = s.as_bytes();
    let mut out = Vec::with_capacity(b.len() / 2);
    for i in (0..b.len()).step_by(2) {
        let h = (b[i] as char).to_digit(16)?;
        let l = (b[i + 1] as char).to_digit(16)?;
        out.push((h * 16 + l) as u8);
    }
    Some(out)
}

#[derive(Clone, Debug, PartialEq, Eq)]
pub struct TAvp {
    pub kind: String,
    pub args: Vec<String>,
}

impl TAvp {
    pub fn new(kind: &str, args: Vec<String>) -> Self {
        TAvp { kind: kind.to_string(), args }
    }
    pub fn render(&self) -> String {
        format!("{}({})", self.kind, self.args.join(","))
    }
    pub fn parse(s: &str) -> Option<TAvp> {
        let open = s.find('(')?;
        if !s.ends_with(')') {
            return None;
        }
        let kind = &s[..open];
        let inner = &s[open + 1..s.len() - 1];
        let args = if inner.is_empty() { vec![] } else { inner.split(',').map(|x| x.to_string()).collect() };
        Some(TAvp { kind: kind.to_string(), args })
    }
}

pub const MESSAGE_TYPES: [MessageType; 14] = [
    MessageType::StartControlConnectionRequest,
    MessageType::StartControlConnectionReply,
    MessageType::StartControlConnectionConnected,
    MessageType::StopControlConnectionNotification,
    MessageType::Hello,
    MessageType::OutgoingCallRequest,
    MessageType::OutgoingCallReply,
    MessageType::OutgoingCallConnected,
    MessageType::IncomingCallRequest,
    MessageType::IncomingCallReply,
    MessageType::IncomingCallConnected,
    MessageType::CallDisconnectNotify,
    MessageType::WanErrorNotify,
    MessageType::SetLinkInfo,
];

pub const ERROR_TYPES: [ErrorType; 9] = [
    ErrorType::Ok,
    ErrorType::NoControlConnectionExists,
    ErrorType::WrongLength,
    ErrorType::OutOfRangeOrBadReserved,
    ErrorType::InsufficientResources,
    ErrorType::InvalidSessionId,
    ErrorType::Generic,
    ErrorType::TryAnotherDestination,
    ErrorType::UnknownMandatoryAvp,
];

pub const PROXY_TYPES: [ProxyAuthenType; 6] = [
    ProxyAuthenType::Reserved,
    ProxyAuthenType::TextualUserNamePasswordExchange,
    ProxyAuthenType::PppChap,
    ProxyAuthenType::PppPap,
    ProxyAuthenType::NoAuthentication,
    ProxyAuthenType::MicrosoftChapVersion1,
];

fn by_name<T: std::fmt::Debug + Copy>(all: &[T], name: &str) -> Option<T> {
    all.iter().copied().find(|x| format!("{:?}", x) == name)
}

/// raw word of a bitmask AVP, taken from `Debug` ("Kind { data: N }"): there is no public accessor
fn debug_word<T: std::fmt::Debug>(x: &T) -> String {
    let s = format!("{:?}", x);
    let i = s.find("data: ").map(|i| i + 6).unwrap_or(0);
    s[i..].chars().take_while(|c| c.is_ascii_digit()).collect()
}

fn opt_str_hex(s: &Option<String>) -> String {
    match s {
        None => "-".to_string(),
        Some(x) => hex(x.as_bytes()),
    }
}

/// the crate's value as a term (read back through the crate's own `From` conversions where it has them)
pub fn from_crate(a: &AVP) -> TAvp {
    let k = |n: &str, v: Vec<String>| TAvp::new(n, v);
    match a {
        AVP::MessageType(x) => k("MessageType", vec![format!("{:?}", x)]),
        AVP::RandomVector(x) => k("RandomVector", vec![hex(&<[u8; 4]>::from(x.clone()))]),
        AVP::ResultCode(x) => {
            let code: u16 = x.code.into();
            let (et, msg) = match &x.error {
                None => ("-".to_string(), "-".to_string()),
                Some(e) => (format!("{:?}", e.error_type), opt_str_hex(&e.error_message)),
            };
            k("ResultCode", vec![code.to_string(), et, msg])
        }
        AVP::ProtocolVersion(x) => k("ProtocolVersion", vec![x.version.to_string(), x.revision.to_string()]),
        AVP::FramingCapabilities(x) => k("FramingCapabilities", vec![debug_word(x)]),
        AVP::BearerCapabilities(x) => k("BearerCapabilities", vec![debug_word(x)]),
        AVP::TieBreaker(x) => k("TieBreaker", vec![u64::from(x.clone()).to_string()]),
        AVP::FirmwareRevision(x) => k("FirmwareRevision", vec![u16::from(x.clone()).to_string()]),
        AVP::HostName(x) => k("HostName", vec![hex(&Vec::<u8>::from(x.clone()))]),
        AVP::VendorName(x) => k("VendorName", vec![hex(String::from(x.clone()).as_bytes())]),
        AVP::AssignedTunnelId(x) => k("AssignedTunnelId", vec![u16::from(x.clone()).to_string()]),
        AVP::ReceiveWindowSize(x) => k("ReceiveWindowSize", vec![u16::from(x.clone()).to_string()]),
        AVP::Challenge(x) => k("Challenge", vec![hex(&Vec::<u8>::from(x.clone()))]),
        AVP::ChallengeResponse(x) => k("ChallengeResponse", vec![hex(&<[u8; 16]>::from(x.clone()))]),
        AVP::Q931CauseCode(x) => k(
            "Q931CauseCode",
            vec![x.cause_code.to_string(), x.cause_msg.to_string(), opt_str_hex(&x.advisory)],
        ),
        AVP::AssignedSessionId(x) => k("AssignedSessionId", vec![u16::from(x.clone()).to_string()]),
        AVP::CallSerialNumber(x) => k("CallSerialNumber", vec![u32::from(x.clone()).to_string()]),
        AVP::MinimumBps(x) => k("MinimumBps", vec![u32::from(x.clone()).to_string()]),
        AVP::MaximumBps(x) => k("MaximumBps", vec![u32::from(x.clone()).to_string()]),
        AVP::BearerType(x) => k("BearerType", vec![debug_word(x)]),
        AVP::FramingType(x) => k("FramingType", vec![debug_word(x)]),
        AVP::CalledNumber(x) => k("CalledNumber", vec![hex(String::from(x.clone()).as_bytes())]),
        AVP::CallingNumber(x) => k("CallingNumber", vec![hex(String::from(x.clone()).as_bytes())]),
        AVP::SubAddress(x) => k("SubAddress", vec![hex(String::from(x.clone()).as_bytes())]),
        AVP::TxConnectSpeed(x) => k("TxConnectSpeed", vec![u32::from(x.clone()).to_string()]),
        AVP::RxConnectSpeed(x) => k("RxConnectSpeed", vec![u32::from(x.clone()).to_string()]),
        AVP::PhysicalChannelId(x) => k("PhysicalChannelId", vec![hex(&<[u8; 4]>::from(x.clone()))]),
        AVP::PrivateGroupId(x) => k("PrivateGroupId", vec![hex(&Vec::<u8>::from(x.clone()))]),
        AVP::SequencingRequired(_) => k("SequencingRequired", vec![]),
        AVP::InitialReceivedLcpConfReq(x) => k("InitialReceivedLcpConfReq", vec![hex(&Vec::<u8>::from(x.clone()))]),
        AVP::LastSentLcpConfReq(x) => k("LastSentLcpConfReq", vec![hex(&Vec::<u8>::from(x.clone()))]),
        AVP::LastReceivedLcpConfReq(x) => k("LastReceivedLcpConfReq", vec![hex(&Vec::<u8>::from(x.clone()))]),
        AVP::ProxyAuthenType(x) => k("ProxyAuthenType", vec![format!("{:?}", x)]),
        AVP::ProxyAuthenName(x) => k("ProxyAuthenName", vec![hex(&Vec::<u8>::from(x.clone()))]),
        AVP::ProxyAuthenChallenge(x) => k("ProxyAuthenChallenge", vec![hex(&Vec::<u8>::from(x.clone()))]),
        AVP::ProxyAuthenId(x) => k("ProxyAuthenId", vec![u8::from(x.clone()).to_string()]),
        AVP::ProxyAuthenResponse(x) => k("ProxyAuthenResponse", vec![hex(&Vec::<u8>::from(x.clone()))]),
        AVP::CallErrors(x) => k(
            "CallErrors",
            vec![
                x.crc_errors.to_string(),
                x.framing_errors.to_string(),
                x.hardware_overruns.to_string(),
                x.buffer_overruns.to_string(),
                x.timeout_errors.to_string(),
                x.alignment_errors.to_string(),
            ],
        ),
        AVP::Accm(x) => k("Accm", vec![hex(&x.send_accm), hex(&x.receive_accm)]),
        AVP::Hidden(x) => k("Hidden", vec![x.attribute_type.to_string(), hex(&x.value)]),
    }
}

fn word_of<T>(w: &str, rd: impl Fn(&mut rl2tp::common::SliceReader) -> Result<T, DecodeError>) -> Option<T> {
    // no public constructor from a raw word: go through the decoder
    let w: u32 = w.parse().ok()?;
    let b = w.to_be_bytes();
    let mut r = rl2tp::common::SliceReader::from(&b);
    rd(&mut r).ok()
}

/// A value as a caller may well hold it: with spare capacity behind its contents (about half of them; how much
/// depends on the contents only).  Capacity is not part of the value and may not show in what is encoded.
fn roomy(mut v: Vec<u8>) -> Vec<u8> {
    let k = v.iter().fold(v.len(), |a, &b| a.wrapping_mul(31).wrapping_add(b as usize));
    if k % 4 == 0 {
        v.reserve_exact(1 + k % 13);
    } else if k % 4 == 2 {
        // (room for a scratch area of some size behind the contents)
        v.reserve_exact(40 + k % 300);
    }
    v
}

fn utf8(s: &str) -> Option<String> {
    String::from_utf8(roomy(unhex(s)?)).ok()
}

fn arr<const N: usize>(s: &str) -> Option<[u8; N]> {
    unhex(s)?.try_into().ok()
}

/// Build the crate's value from a term (through the crate's own `From` conversions where it has them, so that
/// this glue is inside the correspondence as well). `None` when the term does not denote a constructible value
/// (unknown kind, wrong arity, number out of range, a string field that is not UTF-8).
pub fn to_crate(t: &TAvp) -> Option<AVP> {
    let a = &t.args;
    let n = a.len();
    let need = |k: usize| if n == k { Some(()) } else { None };
    Some(match t.kind.as_str() {
        "MessageType" => {
            need(1)?;
            AVP::MessageType(by_name(&MESSAGE_TYPES, &a[0])?)
        }
        "RandomVector" => {
            need(1)?;
            AVP::RandomVector(types::RandomVector::from(arr::<4>(&a[0])?))
        }
        "ResultCode" => {
            need(3)?;
            let code: u16 = a[0].parse().ok()?;
            let error = if a[1] == "-" {
                if a[2] != "-" {
                    return None;
                }
                None
            } else {
                let et = by_name(&ERROR_TYPES, &a[1])?;
                let msg = if a[2] == "-" { None } else { Some(utf8(&a[2])?) };
                Some(RcError { error_type: et, error_message: msg })
            };
            AVP::ResultCode(types::ResultCode { code: CodeValue::from(code), error })
        }
        "ProtocolVersion" => {
            need(2)?;
            AVP::ProtocolVersion(types::ProtocolVersion { version: a[0].parse().ok()?, revision: a[1].parse().ok()? })
        }
        "FramingCapabilities" => {
            need(1)?;
            AVP::FramingCapabilities(word_of(&a[0], |r| types::FramingCapabilities::try_read(r))?)
        }
        "BearerCapabilities" => {
            need(1)?;
            AVP::BearerCapabilities(word_of(&a[0], |r| types::BearerCapabilities::try_read(r))?)
        }
        "BearerType" => {
            need(1)?;
            AVP::BearerType(word_of(&a[0], |r| types::BearerType::try_read(r))?)
        }
        "FramingType" => {
            need(1)?;
            AVP::FramingType(word_of(&a[0], |r| types::FramingType::try_read(r))?)
        }
        "TieBreaker" => {
            need(1)?;
            AVP::TieBreaker(types::TieBreaker::from(a[0].parse::<u64>().ok()?))
        }
        "FirmwareRevision" => {
            need(1)?;
            AVP::FirmwareRevision(types::FirmwareRevision::from(a[0].parse::<u16>().ok()?))
        }
        "AssignedTunnelId" => {
            need(1)?;
            AVP::AssignedTunnelId(types::AssignedTunnelId::from(a[0].parse::<u16>().ok()?))
        }
        "ReceiveWindowSize" => {
            need(1)?;
            AVP::ReceiveWindowSize(types::ReceiveWindowSize::from(a[0].parse::<u16>().ok()?))
        }
        "AssignedSessionId" => {
            need(1)?;
            AVP::AssignedSessionId(types::AssignedSessionId::from(a[0].parse::<u16>().ok()?))
        }
        "CallSerialNumber" => {
            need(1)?;
            AVP::CallSerialNumber(types::CallSerialNumber::from(a[0].parse::<u32>().ok()?))
        }
        "MinimumBps" => {
            need(1)?;
            AVP::MinimumBps(types::MinimumBps::from(a[0].parse::<u32>().ok()?))
        }
        "MaximumBps" => {
            need(1)?;
            AVP::MaximumBps(types::MaximumBps::from(a[0].parse::<u32>().ok()?))
        }
        "TxConnectSpeed" => {
            need(1)?;
            AVP::TxConnectSpeed(types::TxConnectSpeed::from(a[0].parse::<u32>().ok()?))
        }
        "RxConnectSpeed" => {
            need(1)?;
            AVP::RxConnectSpeed(types::RxConnectSpeed::from(a[0].parse::<u32>().ok()?))
        }
        "HostName" => {
            need(1)?;
            AVP::HostName(types::HostName::from(roomy(unhex(&a[0])?)))
        }
        "Challenge" => {
            need(1)?;
            AVP::Challenge(types::Challenge::from(roomy(unhex(&a[0])?)))
        }
        "InitialReceivedLcpConfReq" => {
            need(1)?;
            AVP::InitialReceivedLcpConfReq(types::InitialReceivedLcpConfReq::from(roomy(unhex(&a[0])?)))
        }
        "LastSentLcpConfReq" => {
            need(1)?;
            AVP::LastSentLcpConfReq(types::LastSentLcpConfReq::from(roomy(unhex(&a[0])?)))
        }
        "LastReceivedLcpConfReq" => {
            need(1)?;
            AVP::LastReceivedLcpConfReq(types::LastReceivedLcpConfReq::from(roomy(unhex(&a[0])?)))
        }
        "ProxyAuthenName" => {
            need(1)?;
            AVP::ProxyAuthenName(types::ProxyAuthenName::from(roomy(unhex(&a[0])?)))
        }
        "ProxyAuthenChallenge" => {
            need(1)?;
            AVP::ProxyAuthenChallenge(types::ProxyAuthenChallenge::from(roomy(unhex(&a[0])?)))
        }
        "ProxyAuthenResponse" => {
            need(1)?;
            AVP::ProxyAuthenResponse(types::ProxyAuthenResponse::from(roomy(unhex(&a[0])?)))
        }
        "PrivateGroupId" => {
            need(1)?;
            AVP::PrivateGroupId(types::PrivateGroupId::from(roomy(unhex(&a[0])?)))
        }
        "VendorName" => {
            need(1)?;
            AVP::VendorName(types::VendorName::from(utf8(&a[0])?))
        }
        "CalledNumber" => {
            need(1)?;
            AVP::CalledNumber(types::CalledNumber::from(utf8(&a[0])?))
        }
        "CallingNumber" => {
            need(1)?;
            AVP::CallingNumber(types::CallingNumber::from(utf8(&a[0])?))
        }
        "SubAddress" => {
            need(1)?;
            AVP::SubAddress(types::SubAddress::from(utf8(&a[0])?))
        }
        "Q931CauseCode" => {
            need(3)?;
            let advisory = if a[2] == "-" { None } else { Some(utf8(&a[2])?) };
            AVP::Q931CauseCode(types::Q931CauseCode { cause_code: a[0].parse().ok()?, cause_msg: a[1].parse().ok()?, advisory })
        }
        "ChallengeResponse" => {
            need(1)?;
            AVP::ChallengeResponse(types::ChallengeResponse::from(arr::<16>(&a[0])?))
        }
        "PhysicalChannelId" => {
            need(1)?;
            AVP::PhysicalChannelId(types::PhysicalChannelId::from(arr::<4>(&a[0])?))
        }
        "ProxyAuthenType" => {
            need(1)?;
            AVP::ProxyAuthenType(by_name(&PROXY_TYPES, &a[0])?)
        }
        "ProxyAuthenId" => {
            need(1)?;
            AVP::ProxyAuthenId(types::ProxyAuthenId::from(a[0].parse::<u8>().ok()?))
        }
        "CallErrors" => {
            need(6)?;
            AVP::CallErrors(types::CallErrors {
                crc_errors: a[0].parse().ok()?,
                framing_errors: a[1].parse().ok()?,
                hardware_overruns: a[2].parse().ok()?,
                buffer_overruns: a[3].parse().ok()?,
                timeout_errors: a[4].parse().ok()?,
                alignment_errors: a[5].parse().ok()?,
            })
        }
        "Accm" => {
            need(2)?;
            AVP::Accm(types::Accm { send_accm: arr::<4>(&a[0])?, receive_accm: arr::<4>(&a[1])? })
        }
        "SequencingRequired" => {
            need(0)?;
            AVP::SequencingRequired(types::SequencingRequired {})
        }
        "Hidden" => {
            need(2)?;
            AVP::Hidden(types::Hidden { attribute_type: a[0].parse().ok()?, value: roomy(unhex(&a[1])?) })
        }
        _ => return None,
    })
}

// ---------------------------------------------------------------- messages

#[derive(Clone, Debug, PartialEq, Eq)]
pub enum TMsg {
    Control { len: u16, tid: u16, sid: u16, ns: u16, nr: u16, avps: Vec<TAvp> },
    Data { p: bool, len: Option<u16>, tid: u16, sid: u16, nsnr: Option<(u16, u16)>, off: Option<u16>, data: Vec<u8> },
}

fn opt_u16(x: &Option<u16>) -> String {
    match x {
        None => "-".into(),
        Some(v) => v.to_string(),
    }
}

impl TMsg {
    pub fn render(&self) -> String {
        match self {
            TMsg::Control { len, tid, sid, ns, nr, avps } => format!(
                "C({},{},{},{},{})[{}]",
                len,
                tid,
                sid,
                ns,
                nr,
                avps.iter().map(|a| a.render()).collect::<Vec<_>>().join(";")
            ),
            TMsg::Data { p, len, tid, sid, nsnr, off, data } => format!(
                "D({},{},{},{},{},{},{})",
                if *p { 1 } else { 0 },
                opt_u16(len),
                tid,
                sid,
                match nsnr {
                    None => "-".to_string(),
                    Some((a, b)) => format!("{}.{}", a, b),
                },
                opt_u16(off),
                hex(data)
            ),
        }
    }

    pub fn parse(s: &str) -> Option<TMsg> {
        if let Some(rest) = s.strip_prefix("C(") {
            let close = rest.find(')')?;
            let f: Vec<&str> = rest[..close].split(',').collect();
            if f.len() != 5 {
                return None;
            }
            let tail = &rest[close + 1..];
            let inner = tail.strip_prefix('[')?.strip_suffix(']')?;
            let avps = if inner.is_empty() {
                vec![]
            } else {
                inner.split(';').map(TAvp::parse).collect::<Option<Vec<_>>>()?
            };
            Some(TMsg::Control {
                len: f[0].parse().ok()?,
                tid: f[1].parse().ok()?,
                sid: f[2].parse().ok()?,
                ns: f[3].parse().ok()?,
                nr: f[4].parse().ok()?,
                avps,
            })
        } else if let Some(rest) = s.strip_prefix("D(") {
            let inner = rest.strip_suffix(')')?;
            let f: Vec<&str> = inner.split(',').collect();
            if f.len() != 7 {
                return None;
            }
            let o16 = |x: &str| -> Option<Option<u16>> {
                if x == "-" {
                    Some(None)
                } else {
                    Some(Some(x.parse().ok()?))
                }
            };
            let nsnr = if f[4] == "-" {
                None
            } else {
                let (a, b) = f[4].split_once('.')?;
                Some((a.parse().ok()?, b.parse().ok()?))
            };
            Some(TMsg::Data {
                p: match f[0] {
                    "0" => false,
                    "1" => true,
                    _ => return None,
                },
                len: o16(f[1])?,
                tid: f[2].parse().ok()?,
                sid: f[3].parse().ok()?,
                nsnr,
                off: o16(f[5])?,
                data: unhex(f[6])?,
            })
        } else {
            None
        }
    }

    pub fn to_crate(&self) -> Option<Message<Vec<u8>>> {
        Some(match self {
            TMsg::Control { len, tid, sid, ns, nr, avps } => Message::Control(ControlMessage {
                length: *len,
                tunnel_id: *tid,
                session_id: *sid,
                ns: *ns,
                nr: *nr,
                avps: avps.iter().map(to_crate).collect::<Option<Vec<_>>>()?,
            }),
            TMsg::Data { p, len, tid, sid, nsnr, off, data } => Message::Data(DataMessage {
                is_prioritized: *p,
                length: *len,
                tunnel_id: *tid,
                session_id: *sid,
                ns_nr: *nsnr,
                offset: *off,
                data: data.clone(),
            }),
        })
    }

    pub fn from_crate<T: Borrow<[u8]>>(m: &Message<T>) -> TMsg {
        match m {
            Message::Control(c) => TMsg::Control {
                len: c.length,
                tid: c.tunnel_id,
                sid: c.session_id,
                ns: c.ns,
                nr: c.nr,
                avps: c.avps.iter().map(from_crate).collect(),
            },
            Message::Data(d) => TMsg::Data {
                p: d.is_prioritized,
                len: d.length,
                tid: d.tunnel_id,
                sid: d.session_id,
                nsnr: d.ns_nr,
                off: d.offset,
                data: d.data.borrow().to_vec(),
            },
        }
    }
}

pub fn render_err(e: &DecodeError) -> String {
    format!("{:?}", e)
}

pub fn render_errs(es: &[DecodeError]) -> String {
    format!("[{}]", es.iter().map(render_err).collect::<Vec<_>>().join(";"))
}

pub fn render_avp_res(r: &Result<AVP, DecodeError>) -> String {
    match r {
        Ok(a) => from_crate(a).render(),
        Err(e) => format!("!{}", render_err(e)),
    }
}

pub fn render_avp_list(rs: &[Result<AVP, DecodeError>]) -> String {
    format!("[{}]", rs.iter().map(render_avp_res).collect::<Vec<_>>().join(";"))
}

/// parse `Variant` / `Variant(n)` into a DecodeError (used for expected errors and for `render`)
pub fn parse_err(s: &str) -> Option<DecodeError> {
    let (name, arg) = match s.find('(') {
        Some(i) => (&s[..i], Some(s[i + 1..].strip_suffix(')')?)),
        None => (s, None),
    };
    let a16 = || -> Option<u16> { arg?.parse().ok() };
    use DecodeError::*;
    Some(match name {
        "IncompleteAVP" => IncompleteAVP(a16()?),
        "UnknownMessageType" => UnknownMessageType(a16()?),
        "InvalidUtf8" => InvalidUtf8(a16()?),
        "InvalidResultCodeErrorType" => InvalidResultCodeErrorType(a16()?),
        "AVPReadError" => AVPReadError(a16()?),
        "InvalidAVPLength" => InvalidAVPLength(a16()?),
        "UnknownAvp" => UnknownAvp(a16()?),
        "EmptyHiddenAVP" => EmptyHiddenAVP,
        "MisalignedHiddenAVP" => MisalignedHiddenAVP,
        "InvalidOriginalAVPLength" => InvalidOriginalAVPLength(a16()?),
        "UnsupportedVendorId" => UnsupportedVendorId(a16()?),
        "InvalidVersion" => InvalidVersion(arg?.parse().ok()?),
        "InvalidReservedBits" => InvalidReservedBits,
        "IncompleteFlags" => IncompleteFlags,
        "InvalidOffset" => InvalidOffset(a16()?),
        "IncompleteDataMessageHeader" => IncompleteDataMessageHeader,
        "IncompleteDataMessagePayload" => IncompleteDataMessagePayload,
        "EmptyDataMessagePayload" => EmptyDataMessagePayload,
        "MessageReadError" => MessageReadError,
        "ForbiddenControlMessagePriority" => ForbiddenControlMessagePriority,
        "ForbiddenControlMessageOffset" => ForbiddenControlMessageOffset,
        "ControlMessageWithoutLength" => ControlMessageWithoutLength,
        "ControlMessageWithoutNsNr" => ControlMessageWithoutNsNr,
        "IncompleteControlMessageHeader" => IncompleteControlMessageHeader,
        "IncompleteControlMessagePayload" => IncompleteControlMessagePayload,
        "ControlMessageTypeNotFirst" => ControlMessageTypeNotFirst,
        _ => return None,
    })
}
