//! Harness-supplied implementations of the crate's public `Reader` / `Writer` traits (C02, C09).

use rl2tp::common::{Reader, Writer};
use std::cell::Cell;
use std::collections::VecDeque;
use std::rc::Rc;

#[derive(Default)]
pub struct Shared {
    pub violations: Cell<usize>,
    pub calls: Cell<usize>,
    pub first: Cell<Option<(u8, usize, usize)>>, // (op code, requested, remaining)
}

/// Contract-monitoring reader: every call whose precondition fails is recorded; afterwards it
/// answers as the contract allows (anything).  With `poison` it answers 0xA5.. and jumps to the end,
/// so that reliance on out-of-contract behaviour changes the result.
pub struct CheckedReader {
    buf: Rc<Vec<u8>>,
    pos: usize,
    end: usize,
    pub sh: Rc<Shared>,
    poison: bool,
}

impl CheckedReader {
    pub fn new(data: &[u8], poison: bool) -> Self {
        CheckedReader { buf: Rc::new(data.to_vec()), pos: 0, end: data.len(), sh: Rc::new(Shared::default()), poison }
    }
    fn viol(&self, op: u8, req: usize) {
        self.sh.violations.set(self.sh.violations.get() + 1);
        if self.sh.first.get().is_none() {
            self.sh.first.set(Some((op, req, self.end - self.pos)));
        }
    }
    fn fixed(&mut self, n: usize) -> u64 {
        self.sh.calls.set(self.sh.calls.get() + 1);
        if self.end - self.pos < n {
            self.viol(n as u8, n);
            self.pos = self.end;
            return if self.poison { 0xA5A5A5A5A5A5A5A5u64 >> (64 - 8 * n) } else { 0 };
        }
        let mut v = 0u64;
        for i in 0..n {
            v = (v << 8) | self.buf[self.pos + i] as u64;
        }
        self.pos += n;
        v
    }
}

impl Reader<Vec<u8>> for CheckedReader {
    fn is_empty(&self) -> bool {
        self.pos == self.end
    }
    fn len(&self) -> usize {
        self.end - self.pos
    }
    fn subreader(&mut self, length: usize) -> Self {
        self.sh.calls.set(self.sh.calls.get() + 1);
        let mut l = length;
        if length > self.end - self.pos {
            self.viol(b's', length);
            l = if self.poison { 0 } else { self.end - self.pos };
        }
        let sub = CheckedReader { buf: self.buf.clone(), pos: self.pos, end: self.pos + l, sh: self.sh.clone(), poison: self.poison };
        self.pos += l;
        if l != length {
            self.pos = self.end;
        }
        sub
    }
    fn bytes(&mut self, length: usize) -> Option<Vec<u8>> {
        self.sh.calls.set(self.sh.calls.get() + 1);
        if length > self.end - self.pos {
            // within contract: the answer is None; the state afterwards is not pinned
            if self.poison {
                self.pos = self.end;
            }
            return None;
        }
        let r = self.buf[self.pos..self.pos + length].to_vec();
        self.pos += length;
        Some(r)
    }
    unsafe fn read_u8_unchecked(&mut self) -> u8 {
        self.fixed(1) as u8
    }
    unsafe fn read_u16_be_unchecked(&mut self) -> u16 {
        self.fixed(2) as u16
    }
    unsafe fn read_u32_be_unchecked(&mut self) -> u32 {
        self.fixed(4) as u32
    }
    unsafe fn read_u64_be_unchecked(&mut self) -> u64 {
        self.fixed(8)
    }
    fn skip_bytes(&mut self, length: usize) {
        self.sh.calls.set(self.sh.calls.get() + 1);
        if length > self.end - self.pos {
            self.viol(b'k', length);
            self.pos = self.end;
            return;
        }
        self.pos += length;
    }
}

/// A structurally different conforming reader: owns its octets in a deque and pops them.
pub struct DequeReader {
    q: VecDeque<u8>,
}

impl DequeReader {
    pub fn new(data: &[u8]) -> Self {
        DequeReader { q: data.iter().copied().collect() }
    }
    fn fixed(&mut self, n: usize) -> u64 {
        let mut v = 0u64;
        for _ in 0..n {
            v = (v << 8) | self.q.pop_front().expect("DequeReader: fixed-width read past the end") as u64;
        }
        v
    }
}

impl Reader<Vec<u8>> for DequeReader {
    fn is_empty(&self) -> bool {
        self.q.is_empty()
    }
    fn len(&self) -> usize {
        self.q.len()
    }
    fn subreader(&mut self, length: usize) -> Self {
        let rest = self.q.split_off(length);
        let head = std::mem::replace(&mut self.q, rest);
        DequeReader { q: head }
    }
    fn bytes(&mut self, length: usize) -> Option<Vec<u8>> {
        if length > self.q.len() {
            return None;
        }
        Some(self.q.drain(..length).collect())
    }
    unsafe fn read_u8_unchecked(&mut self) -> u8 {
        self.fixed(1) as u8
    }
    unsafe fn read_u16_be_unchecked(&mut self) -> u16 {
        self.fixed(2) as u16
    }
    unsafe fn read_u32_be_unchecked(&mut self) -> u32 {
        self.fixed(4) as u32
    }
    unsafe fn read_u64_be_unchecked(&mut self) -> u64 {
        self.fixed(8)
    }
    fn skip_bytes(&mut self, length: usize) {
        assert!(length <= self.q.len(), "DequeReader: skip past the end");
        self.q.drain(..length);
    }
}

/// A conforming reader whose `bytes()` never succeeds (the trait only says "attempt"; a scatter / gather reader asked
/// for a run that straddles two buffers answers like this).  Everything else is the deque reader.  A decoder may answer
/// such a reader with an error; it may not answer it with a different value.
pub struct RefusingReader {
    inner: DequeReader,
}

impl RefusingReader {
    pub fn new(data: &[u8]) -> Self {
        RefusingReader { inner: DequeReader::new(data) }
    }
}

impl Reader<Vec<u8>> for RefusingReader {
    fn is_empty(&self) -> bool {
        self.inner.is_empty()
    }
    fn len(&self) -> usize {
        self.inner.len()
    }
    fn subreader(&mut self, length: usize) -> Self {
        RefusingReader { inner: self.inner.subreader(length) }
    }
    fn bytes(&mut self, _length: usize) -> Option<Vec<u8>> {
        None
    }
    unsafe fn read_u8_unchecked(&mut self) -> u8 {
        self.inner.read_u8_unchecked()
    }
    unsafe fn read_u16_be_unchecked(&mut self) -> u16 {
        self.inner.read_u16_be_unchecked()
    }
    unsafe fn read_u32_be_unchecked(&mut self) -> u32 {
        self.inner.read_u32_be_unchecked()
    }
    unsafe fn read_u64_be_unchecked(&mut self) -> u64 {
        self.inner.read_u64_be_unchecked()
    }
    fn skip_bytes(&mut self, length: usize) {
        self.inner.skip_bytes(length)
    }
}

/// Writer that records every positional overwrite (offset, length) — C09.
#[derive(Default)]
pub struct LoggingWriter {
    pub data: Vec<u8>,
    pub overwrites: Vec<(usize, usize)>,
}

impl Writer for LoggingWriter {
    fn is_empty(&self) -> bool {
        self.data.is_empty()
    }
    fn len(&self) -> usize {
        self.data.len()
    }
    fn write_bytes(&mut self, bytes: &[u8]) {
        self.data.extend_from_slice(bytes);
    }
    fn write_bytes_at(&mut self, bytes: &[u8], offset: usize) {
        self.overwrites.push((offset, bytes.len()));
        assert!(offset.checked_add(bytes.len()).map(|e| e <= self.data.len()).unwrap_or(false));
        self.data[offset..offset + bytes.len()].copy_from_slice(bytes);
    }
    fn write_u8(&mut self, value: u8) {
        self.data.push(value);
    }
    fn write_u16_be(&mut self, value: u16) {
        self.data.extend_from_slice(&value.to_be_bytes());
    }
    fn write_u32_be(&mut self, value: u32) {
        self.data.extend_from_slice(&value.to_be_bytes());
    }
    fn write_u64_be(&mut self, value: u64) {
        self.data.extend_from_slice(&value.to_be_bytes());
    }
}
