//! rl2tp verification harness: `gen <prop> <tier> <seed>` prints case lines, `worker` answers them
//! by running the real crate in-process (linked at path = /repo, rebuilt from the working tree).

mod gen;
mod ops;
mod readers;
mod term;

use std::io::{BufRead, BufWriter, Write};
use std::sync::atomic::{AtomicU64, Ordering};
use std::sync::{Arc, Mutex};

static PROGRESS: AtomicU64 = AtomicU64::new(0);

fn main() {
    let args: Vec<String> = std::env::args().collect();
    match args.get(1).map(|s| s.as_str()) {
        Some("gen") => {
            let prop = &args[2];
            let tier = &args[3];
            let seed: u64 = args[4].parse().expect("seed");
            let stdout = std::io::stdout();
            let mut w = BufWriter::new(stdout.lock());
            for l in gen::generate(prop, tier, seed) {
                writeln!(w, "{}", l).unwrap();
            }
        }
        Some("worker") => {
            // worker --out <path> [--threads N]; nothing is ever printed on fd 1 / fd 2 by the harness
            let mut out_path = None;
            let mut threads = 1usize;
            let mut i = 2;
            while i < args.len() {
                match args[i].as_str() {
                    "--out" => {
                        out_path = Some(args[i + 1].clone());
                        i += 2;
                    }
                    "--threads" => {
                        threads = args[i + 1].parse().unwrap();
                        i += 2;
                    }
                    _ => i += 1,
                }
            }
            std::panic::set_hook(Box::new(|_| {}));
            let out = std::fs::File::create(out_path.expect("--out")).expect("create out");
            let mut w = BufWriter::new(out);
            // watchdog: a single case may not take longer than 10 s
            std::thread::spawn(|| {
                let mut last = u64::MAX;
                let mut same = 0;
                loop {
                    std::thread::sleep(std::time::Duration::from_millis(500));
                    let p = PROGRESS.load(Ordering::Relaxed);
                    if p == last {
                        same += 1;
                        if same >= 20 && p % 2 == 1 {
                            // odd = a case is in flight
                            std::process::exit(97);
                        }
                    } else {
                        same = 0;
                        last = p;
                    }
                }
            });
            let stdin = std::io::stdin();
            if threads <= 1 {
                for line in stdin.lock().lines() {
                    let line = line.unwrap();
                    PROGRESS.fetch_add(1, Ordering::Relaxed);
                    let r = ops::run_line(line.trim_end());
                    PROGRESS.fetch_add(1, Ordering::Relaxed);
                    writeln!(w, "{}", r).unwrap();
                    w.flush().unwrap();
                }
            } else {
                let lines: Vec<String> = stdin.lock().lines().map(|l| l.unwrap()).collect();
                let n = lines.len();
                let lines = Arc::new(lines);
                let results = Arc::new(Mutex::new(vec![String::new(); n]));
                let next = Arc::new(AtomicU64::new(0));
                let mut hs = vec![];
                for _ in 0..threads {
                    let lines = lines.clone();
                    let results = results.clone();
                    let next = next.clone();
                    hs.push(std::thread::spawn(move || loop {
                        let i = next.fetch_add(1, Ordering::Relaxed) as usize;
                        if i >= lines.len() {
                            break;
                        }
                        // odd while at least this case is in flight: the watchdog sees a stuck thread as
                        // "no progress while odd" (another thread finishing flips it, which only delays it)
                        PROGRESS.fetch_add(1, Ordering::Relaxed);
                        let r = ops::run_line(lines[i].trim_end());
                        PROGRESS.fetch_add(1, Ordering::Relaxed);
                        results.lock().unwrap()[i] = r;
                    }));
                }
                // all threads but a stuck one come to an end; then nothing moves any more
                let started = std::time::Instant::now();
                let mut last = u64::MAX;
                let mut still = 0;
                loop {
                    if hs.iter().all(|h| h.is_finished()) {
                        break;
                    }
                    std::thread::sleep(std::time::Duration::from_millis(200));
                    let p = PROGRESS.load(Ordering::Relaxed);
                    if p == last {
                        still += 1;
                        if still >= 50 {
                            let _ = started;
                            std::process::exit(97);
                        }
                    } else {
                        still = 0;
                        last = p;
                    }
                }
                for h in hs {
                    h.join().unwrap();
                }
                for r in results.lock().unwrap().iter() {
                    writeln!(w, "{}", r).unwrap();
                }
                w.flush().unwrap();
            }
        }
        _ => {
            eprintln!("usage: harness gen <prop> <tier> <seed> | worker --out <path> [--threads N]");
            std::process::exit(2);
        }
    }
}
