//! Case generators.  Every random choice comes from one xorshift state derived from the seed and
//! the property id, so a run is reproducible from (property, tier, seed).

use crate::ops::guard;
use crate::term::*;
use rl2tp::common::{VecWriter, Writer};

pub struct Rng(std::cell::Cell<u64>, std::cell::RefCell<Vec<u64>>);

/// numbers a maintainer might single out (line speeds, MTUs, the flag words, CR LF, extremes just inside the range);
/// to these come the literals found in /repo's sources but not in the tree the model was reconciled with
/// (`VERIF_DICT_FILE`, written by bin/check when the sources differ): a value singled out by the code is then a value
/// the streams contain
const WELL_KNOWN: [u64; 28] = [
    56000, 64000, 128000, 1_000_000, 10_000_000, 100_000_000, 115200, 9600, 2_048_000, 1_544_000, 1500, 1460, 1492, 576,
    0x0D0A, 0x1320, 0xC802, 0x2013, 0xFFFF_FFFE, 0x7FFF_FFFF, 0x8000_0000, 0xFFFE, 0x7FFF, 0x8000, 1701, 311, 9, 0xDEAD_BEEF,
];
const WELL_KNOWN_TEXT: [&str; 14] = [
    "localhost", "l2tp", "lac", "lns", "cisco", "Cisco Systems, Inc.", "Microsoft", "xl2tpd", "mpd", "0", "1701", "anonymous", "\r\n", "admin",
];

fn dictionary() -> &'static (Vec<u64>, Vec<Vec<u8>>, Vec<String>) {
    static D: std::sync::OnceLock<(Vec<u64>, Vec<Vec<u8>>, Vec<String>)> = std::sync::OnceLock::new();
    D.get_or_init(|| {
        let mut nums = vec![];
        let mut strs = vec![];
        let mut idents: Vec<String> = vec![];
        if let Ok(p) = std::env::var("VERIF_DICT_FILE") {
            if let Ok(t) = std::fs::read_to_string(p) {
                for l in t.lines() {
                    if let Some(x) = l.strip_prefix("n ") {
                        if let Ok(v) = x.trim().parse::<u64>() {
                            nums.push(v);
                        }
                    } else if let Some(x) = l.strip_prefix("s ") {
                        if let Some(b) = unhex(x.trim()) {
                            if !b.is_empty() {
                                strs.push(b);
                            }
                        }
                    } else if let Some(x) = l.strip_prefix("k ") {
                        idents.push(x.trim().to_string());
                    }
                }
            }
        }
        (nums, strs, idents)
    })
}

impl Rng {
    pub fn new(seed: u64, salt: &str) -> Self {
        let mut h = seed ^ 0x9E3779B97F4A7C15;
        for b in salt.bytes() {
            h = (h ^ b as u64).wrapping_mul(0x100000001B3);
        }
        if h == 0 {
            h = 1;
        }
        let r = Rng(std::cell::Cell::new(h), std::cell::RefCell::new(vec![]));
        for _ in 0..8 {
            r.next();
        }
        r
    }
    pub fn next(&self) -> u64 {
        let mut x = self.0.get();
        x ^= x >> 12;
        x ^= x << 25;
        x ^= x >> 27;
        self.0.set(x);
        x.wrapping_mul(0x2545F4914F6CDD1D)
    }
    pub fn below(&self, n: usize) -> usize {
        if n == 0 {
            0
        } else {
            (self.next() % n as u64) as usize
        }
    }
    pub fn pick<'a, T>(&self, v: &'a [T]) -> &'a T {
        &v[self.below(v.len())]
    }
    pub fn chance(&self, num: usize, den: usize) -> bool {
        self.below(den) < num
    }
    pub fn bytes(&self, n: usize) -> Vec<u8> {
        (0..n).map(|_| self.next() as u8).collect()
    }
    fn remember(&self, v: u64) -> u64 {
        let mut m = self.1.borrow_mut();
        if m.len() >= 6 {
            m.remove(0);
        }
        m.push(v);
        v
    }
    /// a value that *coincides* with something: one of the last few numbers drawn (or next to one, or the same low
    /// half), a well-known number, a literal of the changed source.  Independent uniform draws almost never produce
    /// tunnel id = session id, Ns = Nr + 1, or the one speed the code singles out; one draw in six does here.
    fn coincide(&self) -> Option<u64> {
        let pick = self.below(24);
        if pick >= 4 {
            return None;
        }
        let recent: Vec<u64> = self.1.borrow().clone();
        let d = dictionary();
        match pick {
            0 | 1 if !recent.is_empty() => {
                let v = recent[self.below(recent.len())];
                Some(match self.below(4) {
                    0 => v.wrapping_add(1),
                    1 => v.wrapping_sub(1),
                    _ => v,
                })
            }
            2 => Some(WELL_KNOWN[self.below(WELL_KNOWN.len())]),
            3 if !d.0.is_empty() => {
                let v = d.0[self.below(d.0.len())];
                Some(match self.below(6) {
                    0 => v.wrapping_add(1),
                    1 => v.wrapping_sub(1),
                    _ => v,
                })
            }
            _ => None,
        }
    }
    pub fn u16x(&self) -> u16 {
        if let Some(v) = self.coincide() {
            return self.remember(v & 0xFFFF) as u16;
        }
        let v = match self.below(8) {
            0 => 0,
            1 => 1,
            2 => 0xFFFF,
            3 => 0x00FF,
            4 => 0x0100,
            _ => self.next() as u16,
        };
        self.remember(v as u64) as u16
    }
    pub fn u32x(&self) -> u32 {
        if let Some(v) = self.coincide() {
            return self.remember(v & 0xFFFF_FFFF) as u32;
        }
        let v = match self.below(8) {
            0 => 0,
            1 => 1,
            2 => 0xFFFF_FFFF,
            3 => 0x0001_0000,
            4 => 0xC0,
            _ => self.next() as u32,
        };
        self.remember(v as u64) as u32
    }
    pub fn u64x(&self) -> u64 {
        if let Some(v) = self.coincide() {
            return self.remember(v);
        }
        let v = match self.below(6) {
            0 => 0,
            1 => 1,
            2 => u64::MAX,
            _ => self.next(),
        };
        self.remember(v)
    }
    /// a text a maintainer might single out, a literal of the changed source, or the digits of a number drawn lately
    pub fn known_text(&self) -> Option<Vec<u8>> {
        if !self.chance(1, 10) {
            return None;
        }
        let d = dictionary();
        let recent: Vec<u64> = self.1.borrow().clone();
        match self.below(3) {
            0 if !d.1.is_empty() => Some(d.1[self.below(d.1.len())].clone()),
            1 if !recent.is_empty() => Some(recent[self.below(recent.len())].to_string().into_bytes()),
            _ => Some(WELL_KNOWN_TEXT[self.below(WELL_KNOWN_TEXT.len())].as_bytes().to_vec()),
        }
    }
    /// a value that begins with an AVP header *of its own kind* (attribute `attr`, vendor 0, a length that is the
    /// value's own, the whole AVP's, or off by a little), or that is a self-describing TLV (type, id, 16-bit length =
    /// its own size: an LCP packet looks like that)
    pub fn self_describing(&self, attr: u16, n: usize) -> Option<Vec<u8>> {
        if n < 6 || !self.chance(1, 10) {
            return None;
        }
        let mut v = self.bytes(n);
        if self.chance(1, 3) {
            v[0] = *self.pick(&[1u8, 2, 3, 4, 9]);
            v[2] = (n >> 8) as u8;
            v[3] = n as u8;
            return Some(v);
        }
        let l = *self.pick(&[n, n, n + 6, n + 1, n.saturating_sub(1), 6, 1023, n.saturating_sub(6)]);
        v[0] = ((((l >> 8) & 3) as u8) << 6) | *self.pick(&[1u8, 1, 0]);
        v[1] = l as u8;
        v[2] = 0;
        v[3] = 0;
        v[4] = (attr >> 8) as u8;
        v[5] = attr as u8;
        Some(v)
    }
    /// octets that look like something else: a control or data flag word, an AVP header announcing the rest, the
    /// image of a number drawn lately, all-equal octets
    pub fn lookalike(&self, n: usize) -> Option<Vec<u8>> {
        if n < 2 || !self.chance(1, 12) {
            return None;
        }
        let mut v = self.bytes(n);
        let recent: Vec<u64> = self.1.borrow().clone();
        match self.below(5) {
            0 => {
                v[0] = 0x13;
                v[1] = 0x20;
            }
            1 => {
                v[0] = 0xC8;
                v[1] = 0x02;
            }
            2 if n >= 6 => {
                v[0] = (((n >> 8) & 3) as u8) << 6 | 1;
                v[1] = n as u8;
                v[2] = 0;
                v[3] = 0;
                v[4] = 0;
                v[5] = self.below(40) as u8;
            }
            3 if !recent.is_empty() => {
                let x = recent[self.below(recent.len())];
                let img = x.to_be_bytes();
                let k = n.min(8);
                v[..k].copy_from_slice(&img[8 - k..]);
            }
            _ => match self.below(3) {
                0 => v.sort(),
                1 => {
                    let n2 = v.len();
                    for i in 0..n2 / 2 {
                        v[n2 - 1 - i] = v[i];
                    }
                }
                _ => {
                    let b = v[0];
                    for x in v.iter_mut() {
                        *x = b;
                    }
                }
            },
        }
        Some(v)
    }
}

pub const BYTE_KINDS: [&str; 9] = [
    "HostName",
    "Challenge",
    "InitialReceivedLcpConfReq",
    "LastSentLcpConfReq",
    "LastReceivedLcpConfReq",
    "ProxyAuthenName",
    "ProxyAuthenChallenge",
    "ProxyAuthenResponse",
    "PrivateGroupId",
];
pub const STR_KINDS: [&str; 4] = ["VendorName", "CalledNumber", "CallingNumber", "SubAddress"];
pub const U16_KINDS: [&str; 4] = ["FirmwareRevision", "AssignedTunnelId", "ReceiveWindowSize", "AssignedSessionId"];
pub const U32_KINDS: [&str; 5] = ["CallSerialNumber", "MinimumBps", "MaximumBps", "TxConnectSpeed", "RxConnectSpeed"];
pub const MASK_KINDS: [&str; 4] = ["FramingCapabilities", "BearerCapabilities", "BearerType", "FramingType"];
pub const ALL_KINDS: [&str; 39] = [
    "MessageType",
    "ResultCode",
    "ProtocolVersion",
    "FramingCapabilities",
    "BearerCapabilities",
    "TieBreaker",
    "FirmwareRevision",
    "HostName",
    "VendorName",
    "AssignedTunnelId",
    "ReceiveWindowSize",
    "Challenge",
    "Q931CauseCode",
    "ChallengeResponse",
    "AssignedSessionId",
    "CallSerialNumber",
    "MinimumBps",
    "MaximumBps",
    "BearerType",
    "FramingType",
    "CalledNumber",
    "CallingNumber",
    "SubAddress",
    "TxConnectSpeed",
    "PhysicalChannelId",
    "InitialReceivedLcpConfReq",
    "LastSentLcpConfReq",
    "LastReceivedLcpConfReq",
    "ProxyAuthenType",
    "ProxyAuthenName",
    "ProxyAuthenChallenge",
    "ProxyAuthenId",
    "ProxyAuthenResponse",
    "CallErrors",
    "Accm",
    "RandomVector",
    "PrivateGroupId",
    "RxConnectSpeed",
    "SequencingRequired",
];

/// minimum payload length each kind's decoder demands (0 = never fails on length)
pub fn min_len(attr: u16) -> usize {
    match attr {
        0 | 1 | 2 | 6 | 9 | 10 | 14 | 29 | 32 => 2,
        3 | 4 | 15 | 16 | 17 | 18 | 19 | 24 | 25 | 36 | 38 => 4,
        5 => 8,
        12 => 3,
        13 => 16,
        34 => 26,
        35 => 10,
        39 => 0,
        _ => 1,
    }
}

const LADDER: [usize; 18] = [1, 2, 3, 4, 15, 16, 17, 31, 249, 250, 255, 256, 505, 506, 511, 512, 1016, 1017];

fn var_len(r: &Rng, max: usize, big: bool) -> usize {
    let l = if big && r.chance(1, 6) { *r.pick(&LADDER) } else if r.chance(1, 3) { *r.pick(&LADDER[..8]) } else { 1 + r.below(24) };
    l.min(max).max(1)
}

/// valid UTF-8 of at most `max` octets and at least 1, mixing 1..4-octet scalars
pub fn utf8(r: &Rng, max: usize) -> Vec<u8> {
    let mut s = String::new();
    let target = max;
    loop {
        let c = match r.below(10) {
            0 => char::from_u32(0x80 + r.below(0x780) as u32),
            1 => char::from_u32(0x800 + r.below(0xD000) as u32),
            2 => char::from_u32(0xE000 + r.below(0x1FFE) as u32),
            3 => char::from_u32(0x10000 + r.below(0x100000) as u32),
            4 => Some(*r.pick(&['\u{0}', '\u{7f}', '\u{80}', '\u{7ff}', '\u{800}', '\u{ffff}', '\u{10000}', '\u{10ffff}', '\u{d7ff}', '\u{e000}', '\u{fffd}', '\u{feff}', '\u{fffe}', ' ', '\t', '\n', '\r', '\u{a0}', '\u{2028}'])),
            _ => char::from_u32(0x20 + r.below(0x5f) as u32),
        };
        let c = match c {
            Some(c) => c,
            None => continue,
        };
        if s.len() + c.len_utf8() > target {
            if s.is_empty() {
                s.push('a');
            }
            break;
        }
        s.push(c);
        if s.len() == target {
            break;
        }
    }
    s.into_bytes()
}

pub fn gen_avp_kind(r: &Rng, kind: &str, big: bool) -> TAvp {
    let a = |v: Vec<String>| TAvp::new(kind, v);
    match kind {
        "MessageType" => a(vec![format!("{:?}", r.pick(&MESSAGE_TYPES))]),
        "ProxyAuthenType" => a(vec![format!("{:?}", r.pick(&PROXY_TYPES))]),
        "ResultCode" => {
            let code = if r.chance(1, 2) { r.below(13) as u16 } else { r.u16x() };
            match r.below(3) {
                0 => a(vec![code.to_string(), "-".into(), "-".into()]),
                1 => a(vec![code.to_string(), format!("{:?}", r.pick(&ERROR_TYPES)), "-".into()]),
                _ => {
                    let l = var_len(r, 1013, big);
                    a(vec![code.to_string(), format!("{:?}", r.pick(&ERROR_TYPES)), hex(&utf8(r, l))])
                }
            }
        }
        "ProtocolVersion" => a(vec![(r.next() as u8).to_string(), (r.next() as u8).to_string()]),
        "TieBreaker" => {
            let v = match r.self_describing(5, 8) {
                Some(h) => u64::from_be_bytes(h[..8].try_into().unwrap()),
                None => r.u64x(),
            };
            a(vec![v.to_string()])
        }
        "Q931CauseCode" => {
            let adv = if r.chance(1, 2) {
                "-".to_string()
            } else {
                let l = var_len(r, 1014, big);
                hex(&utf8(r, l))
            };
            a(vec![r.u16x().to_string(), (r.next() as u8).to_string(), adv])
        }
        "ChallengeResponse" => a(vec![hex(&r.lookalike(16).unwrap_or_else(|| r.bytes(16)))]),
        "RandomVector" | "PhysicalChannelId" => a(vec![hex(&r.u32x().to_be_bytes())]),
        "ProxyAuthenId" => a(vec![(r.next() as u8).to_string()]),
        "CallErrors" => a((0..6).map(|_| r.u32x().to_string()).collect()),
        "Accm" => a(vec![hex(&r.u32x().to_be_bytes()), hex(&r.u32x().to_be_bytes())]),
        "SequencingRequired" => a(vec![]),
        k if U16_KINDS.contains(&k) => a(vec![r.u16x().to_string()]),
        k if U32_KINDS.contains(&k) => a(vec![r.u32x().to_string()]),
        k if MASK_KINDS.contains(&k) => {
            let w = match r.below(6) {
                0 => 0x40,
                1 => 0x80,
                2 => 0xC0,
                3 => 0,
                _ => r.u32x(),
            };
            a(vec![w.to_string()])
        }
        k if BYTE_KINDS.contains(&k) => {
            let l = var_len(r, 1017, big);
            let attr = crate::ops::attr_of_kind(k).unwrap_or(0);
            let mut v = r.self_describing(attr, l).or_else(|| r.lookalike(l)).or_else(|| r.known_text()).unwrap_or_else(|| r.bytes(l));
            if v.len() > 2 && r.chance(1, 8) {
                // padding-like octets at either end are part of an opaque value
                let k = 1 + r.below(3);
                let n = v.len();
                if r.chance(1, 2) {
                    for x in v[n - k.min(n - 1)..].iter_mut() {
                        *x = 0;
                    }
                } else {
                    for x in v[..k.min(n - 1)].iter_mut() {
                        *x = 0;
                    }
                }
            }
            a(vec![hex(&v)])
        }
        k if STR_KINDS.contains(&k) => {
            let l = var_len(r, 1017, big);
            let attr = crate::ops::attr_of_kind(k).unwrap_or(0);
            // a header look-alike of fewer than 256 octets is ASCII control characters: still text
            let v = match r.self_describing(attr, l.min(200)) {
                Some(h) if l >= 6 => {
                    let mut t: Vec<u8> = h[..6].to_vec();
                    t[0] &= 0x3f;
                    t.extend(utf8(r, l.min(200) - 6 + 1));
                    if std::str::from_utf8(&t).is_ok() { t } else { utf8(r, l) }
                }
                _ => r.known_text().unwrap_or_else(|| utf8(r, l)),
            };
            a(vec![hex(&v)])
        }
        "Hidden" => {
            let t = if r.chance(3, 4) { r.below(40) as u16 } else { r.u16x() };
            let l = match r.below(6) {
                0 => 0,
                1 => 16,
                2 => 32,
                3 => 16 * (1 + r.below(63)),
                _ => r.below(40),
            };
            a(vec![t.to_string(), hex(&r.bytes(l))])
        }
        _ => panic!("gen_avp_kind: {}", kind),
    }
}

pub fn gen_avp(r: &Rng, big: bool) -> TAvp {
    if r.chance(1, 12) {
        return gen_avp_kind(r, "Hidden", big);
    }
    let k = *r.pick(&ALL_KINDS);
    gen_avp_kind(r, k, big)
}

/// the AVP sets RFC 2661 §6 gives each control message (mandatory ones, then optional ones each present half of the
/// time), in the RFC's order, sometimes with a Random Vector in front of a later AVP
pub fn rfc_message(r: &Rng) -> TMsg {
    const SHAPES: [(&str, &[&str], &[&str]); 14] = [
        ("StartControlConnectionRequest", &["ProtocolVersion", "HostName", "FramingCapabilities", "AssignedTunnelId"], &["BearerCapabilities", "ReceiveWindowSize", "Challenge", "TieBreaker", "FirmwareRevision", "VendorName"]),
        ("StartControlConnectionReply", &["ProtocolVersion", "FramingCapabilities", "HostName", "AssignedTunnelId"], &["BearerCapabilities", "FirmwareRevision", "VendorName", "ReceiveWindowSize", "Challenge", "ChallengeResponse"]),
        ("StartControlConnectionConnected", &[], &["ChallengeResponse"]),
        ("StopControlConnectionNotification", &["AssignedTunnelId", "ResultCode"], &[]),
        ("Hello", &[], &[]),
        ("OutgoingCallRequest", &["AssignedSessionId", "CallSerialNumber", "MinimumBps", "MaximumBps", "BearerType", "FramingType", "CalledNumber"], &["SubAddress"]),
        ("OutgoingCallReply", &["AssignedSessionId"], &["PhysicalChannelId"]),
        ("OutgoingCallConnected", &["TxConnectSpeed", "FramingType"], &["RxConnectSpeed", "SequencingRequired"]),
        ("IncomingCallRequest", &["AssignedSessionId", "CallSerialNumber"], &["BearerType", "PhysicalChannelId", "CallingNumber", "CalledNumber", "SubAddress"]),
        ("IncomingCallReply", &["AssignedSessionId"], &[]),
        ("IncomingCallConnected", &["TxConnectSpeed", "FramingType"], &["InitialReceivedLcpConfReq", "LastSentLcpConfReq", "LastReceivedLcpConfReq", "ProxyAuthenType", "ProxyAuthenName", "ProxyAuthenChallenge", "ProxyAuthenId", "ProxyAuthenResponse", "PrivateGroupId", "RxConnectSpeed", "SequencingRequired"]),
        ("CallDisconnectNotify", &["ResultCode", "AssignedSessionId"], &["Q931CauseCode"]),
        ("WanErrorNotify", &["CallErrors"], &[]),
        ("SetLinkInfo", &["Accm"], &[]),
    ];
    let (mt, must, may) = SHAPES[r.below(SHAPES.len())];
    let mut avps = vec![TAvp::new("MessageType", vec![mt.to_string()])];
    for k in must.iter() {
        avps.push(gen_avp_kind(r, k, false));
    }
    for k in may.iter() {
        if r.chance(1, 2) {
            avps.push(gen_avp_kind(r, k, false));
        }
    }
    if avps.len() > 2 && r.chance(1, 4) {
        let at = 1 + r.below(avps.len() - 1);
        avps.insert(at, gen_avp_kind(r, "RandomVector", false));
    }
    let tid = r.u16x();
    let m = TMsg::Control { len: 0, tid, sid: if r.chance(1, 3) { 0 } else { r.u16x() }, ns: r.u16x(), nr: r.u16x(), avps };
    relate_control(r, m)
}

/// header fields and numeric AVP values related to each other, to the encoded size and to the number of AVPs: a
/// relation independent draws do not produce and code may (wrongly) act on
pub fn relate_control(r: &Rng, m: TMsg) -> TMsg {
    if !r.chance(1, 8) {
        return m;
    }
    let total = encode_msg(&m).map(|b| b.len()).unwrap_or(0) as u16;
    if let TMsg::Control { len, mut tid, mut sid, mut ns, mut nr, mut avps } = m {
        let n = avps.len() as u16;
        let pool = [tid, sid, ns, nr, total, n, total.wrapping_sub(12)];
        match r.below(8) {
            0 => sid = tid,
            1 => nr = ns,
            2 => nr = ns.wrapping_add(1),
            3 => ns = nr.wrapping_add(1),
            4 => tid = total,
            5 => sid = n,
            6 => {
                tid = 0;
                sid = 0;
            }
            _ => ns = tid,
        }
        // a 16- or 32-bit AVP value equal to one of them
        for a in avps.iter_mut() {
            if (U16_KINDS.contains(&a.kind.as_str()) || U32_KINDS.contains(&a.kind.as_str())) && r.chance(1, 2) {
                a.args = vec![r.pick(&pool).to_string()];
            }
        }
        return TMsg::Control { len, tid, sid, ns, nr, avps };
    }
    m
}

// ---------------------------------------------------------------- values computed from other values

fn crc16_x25(b: &[u8]) -> u16 {
    let mut c: u16 = 0xffff;
    for &x in b {
        c ^= x as u16;
        for _ in 0..8 {
            c = if c & 1 != 0 { (c >> 1) ^ 0x8408 } else { c >> 1 };
        }
    }
    !c
}

fn crc16_ccitt(b: &[u8]) -> u16 {
    let mut c: u16 = 0xffff;
    for &x in b {
        c ^= (x as u16) << 8;
        for _ in 0..8 {
            c = if c & 0x8000 != 0 { (c << 1) ^ 0x1021 } else { c << 1 };
        }
    }
    c
}

fn crc32_iso(b: &[u8]) -> u32 {
    let mut c: u32 = 0xffff_ffff;
    for &x in b {
        c ^= x as u32;
        for _ in 0..8 {
            c = if c & 1 != 0 { (c >> 1) ^ 0xEDB8_8320 } else { c >> 1 };
        }
    }
    !c
}

/// The check values a protocol stack computes over octets: octet sum and XOR, 16-bit sums (plain and the Internet
/// checksum), Fletcher-16, Adler-32, the PPP frame check sequences (FCS-16 as sent, CRC-CCITT), CRC-32 in both octet
/// orders, MD5, and std's DefaultHasher (SipHash-1-3, zero keys) over the octets and over the slice (length first).
pub fn digests(b: &[u8]) -> Vec<Vec<u8>> {
    use std::hash::{Hash, Hasher};
    let mut v: Vec<Vec<u8>> = vec![];
    let sum: u32 = b.iter().map(|&x| x as u32).sum();
    v.push(vec![sum as u8]);
    v.push(vec![b.iter().fold(0u8, |a, &x| a ^ x)]);
    v.push((sum as u16).to_be_bytes().to_vec());
    let mut ws: u32 = 0;
    for c in b.chunks(2) {
        ws += ((c[0] as u32) << 8) | (*c.get(1).unwrap_or(&0) as u32);
    }
    while ws >> 16 != 0 {
        ws = (ws & 0xffff) + (ws >> 16);
    }
    v.push((!(ws as u16)).to_be_bytes().to_vec());
    let (mut f1, mut f2) = (0u32, 0u32);
    for &x in b {
        f1 = (f1 + x as u32) % 255;
        f2 = (f2 + f1) % 255;
    }
    v.push(vec![f2 as u8, f1 as u8]);
    let (mut a1, mut a2) = (1u32, 0u32);
    for &x in b {
        a1 = (a1 + x as u32) % 65521;
        a2 = (a2 + a1) % 65521;
    }
    v.push(((a2 << 16) | a1).to_be_bytes().to_vec());
    v.push(crc16_x25(b).to_le_bytes().to_vec());
    v.push(crc16_x25(b).to_be_bytes().to_vec());
    v.push(crc16_ccitt(b).to_be_bytes().to_vec());
    v.push(crc32_iso(b).to_le_bytes().to_vec());
    v.push(crc32_iso(b).to_be_bytes().to_vec());
    v.push(md5::compute(b).0.to_vec());
    let mut h = std::collections::hash_map::DefaultHasher::new();
    h.write(b);
    v.push(h.finish().to_be_bytes().to_vec());
    v.push(h.finish().to_le_bytes().to_vec());
    let mut h = std::collections::hash_map::DefaultHasher::new();
    b.hash(&mut h);
    v.push(h.finish().to_be_bytes().to_vec());
    v
}

/// a generator seeded by the content of a message (so that relating one message draws nothing from the stream's own
/// generator and leaves every other case as it was)
fn content_rng(text: &str, salt: &str) -> Rng {
    let mut h: u64 = 0xcbf29ce484222325;
    for b in text.bytes() {
        h = (h ^ b as u64).wrapping_mul(0x100000001B3);
    }
    Rng::new(h, salt)
}

fn be16_at(d: &[u8], i: usize) -> u16 {
    ((*d.get(i).unwrap_or(&0) as u16) << 8) | *d.get(i + 1).unwrap_or(&0) as u16
}

/// One control message in twelve gets a field computed from other fields: header ids or sequence numbers taken from a
/// check value of the AVP octets; an octet-string (or the 16-octet Challenge Response) value that is a check value of
/// the AVPs before it, of another AVP's value, or of the header ids followed by that value; a 16- or 32-bit value that
/// is one of another AVP's value.
pub fn digest_control(m: TMsg) -> TMsg {
    let text = m.render();
    let r = content_rng(&text, "digest-control");
    if !r.chance(1, 12) {
        return m;
    }
    if let TMsg::Control { len, mut tid, mut sid, mut ns, mut nr, mut avps } = m.clone() {
        if avps.is_empty() {
            // (no Message Type to stand first: nothing is added to such a message)
            return m;
        }
        let recs: Vec<Vec<u8>> = avps.iter().map(|a| encode_avp(a).unwrap_or_default()).collect();
        let region: Vec<u8> = recs.concat();
        match r.below(4) {
            0 => {
                let d = r.pick(&digests(&region)).clone();
                match r.below(4) {
                    0 => tid = be16_at(&d, 0),
                    1 => {
                        tid = be16_at(&d, 0);
                        sid = be16_at(&d, 2);
                    }
                    2 => ns = be16_at(&d, 0),
                    _ => {
                        ns = be16_at(&d, 0);
                        nr = be16_at(&d, 2);
                    }
                }
            }
            1 | 2 => {
                // an octet-string value computed from what stands before it / from another value
                let cands: Vec<usize> = (0..avps.len()).filter(|&j| BYTE_KINDS.contains(&avps[j].kind.as_str()) || avps[j].kind == "ChallengeResponse").collect();
                let j = if cands.is_empty() {
                    avps.push(TAvp::new(if r.chance(1, 2) { "ChallengeResponse" } else { "Challenge" }, vec!["00".into()]));
                    avps.len() - 1
                } else {
                    *r.pick(&cands)
                };
                let other: Vec<u8> = if j > 0 && r.chance(1, 2) {
                    recs[..j.min(recs.len())].concat()
                } else {
                    let k = r.below(avps.len());
                    let v = recs.get(k).map(|x| x.get(6..).unwrap_or(&[]).to_vec()).unwrap_or_default();
                    match r.below(3) {
                        0 => v,
                        1 => [tid.to_be_bytes().to_vec(), v].concat(),
                        _ => [vec![recs.first().and_then(|x| x.last().copied()).unwrap_or(0)], v].concat(),
                    }
                };
                let d = if avps[j].kind == "ChallengeResponse" { md5::compute(&other).0.to_vec() } else { r.pick(&digests(&other)).clone() };
                avps[j].args = vec![hex(&d)];
            }
            _ => {
                let nums: Vec<usize> = (0..avps.len()).filter(|&j| U16_KINDS.contains(&avps[j].kind.as_str()) || U32_KINDS.contains(&avps[j].kind.as_str())).collect();
                if let Some(&j) = nums.first() {
                    let k = r.below(avps.len());
                    let v = recs.get(k).map(|x| x.get(6..).unwrap_or(&[]).to_vec()).unwrap_or_default();
                    let d = r.pick(&digests(&v)).clone();
                    let x: u32 = d.iter().take(4).fold(0u32, |a, &b| (a << 8) | b as u32);
                    avps[j].args = vec![if U16_KINDS.contains(&avps[j].kind.as_str()) { (x as u16).to_string() } else { x.to_string() }];
                } else {
                    let d = r.pick(&digests(&region)).clone();
                    sid = be16_at(&d, 0);
                }
            }
        }
        return TMsg::Control { len, tid, sid, ns, nr, avps };
    }
    m
}

/// One data message in twelve: the payload followed (or preceded) by a check value of itself (a frame check sequence),
/// an id or the sequence numbers taken from a check value of the payload, or the payload ending in a check value of the
/// header fields.
pub fn digest_data(m: TMsg) -> TMsg {
    let text = m.render();
    let r = content_rng(&text, "digest-data");
    if !r.chance(1, 12) {
        return m;
    }
    if let TMsg::Data { p, len, mut tid, mut sid, mut nsnr, off, mut data } = m.clone() {
        let n = data.len();
        match r.below(4) {
            0 | 1 => {
                let d = r.pick(&digests(&data[..n.saturating_sub(1).max(1).min(n)])).clone();
                let d = if d.len() >= n { d[..n.saturating_sub(1)].to_vec() } else { d };
                if !d.is_empty() {
                    let body = data[..n - d.len()].to_vec();
                    let dd = r.pick(&digests(&body)).clone();
                    let dd = if dd.len() == d.len() { dd } else { digests(&body).into_iter().find(|x| x.len() == d.len()).unwrap_or(d.clone()) };
                    data = if r.chance(3, 4) { [body, dd].concat() } else { [dd, body].concat() };
                }
            }
            2 => {
                let d = r.pick(&digests(&data)).clone();
                match r.below(3) {
                    0 => tid = be16_at(&d, 0),
                    1 => {
                        tid = be16_at(&d, 0);
                        sid = be16_at(&d, 2);
                    }
                    _ => {
                        if nsnr.is_some() {
                            nsnr = Some((be16_at(&d, 0), be16_at(&d, 2)));
                        } else {
                            sid = be16_at(&d, 0);
                        }
                    }
                }
            }
            _ => {
                let hdr = [tid.to_be_bytes(), sid.to_be_bytes()].concat();
                let d = r.pick(&digests(&hdr)).clone();
                if d.len() < n {
                    let k = n - d.len();
                    data[k..].copy_from_slice(&d);
                }
            }
        }
        return TMsg::Data { p, len, tid, sid, nsnr, off, data };
    }
    m
}

/// One control message in twelve gets fields in an arithmetic relation other than equality (a + b = c, a = 2b, a xor b
/// = c, a mod 16 = b, a · b overflowing 16 / 32 bits, two large values whose sum wraps), over the header fields, the
/// 16- and 32-bit AVP values, the number of AVPs and the sizes.
pub fn arith_control(m: TMsg) -> TMsg {
    let text = m.render();
    let r = content_rng(&text, "arith-control");
    if !r.chance(1, 12) {
        return m;
    }
    let total = encode_msg(&m).map(|b| b.len()).unwrap_or(0) as u16;
    if let TMsg::Control { len, mut tid, mut sid, mut ns, mut nr, mut avps } = m.clone() {
        let n = avps.len() as u16;
        let nums: Vec<usize> = (0..avps.len()).filter(|&j| U16_KINDS.contains(&avps[j].kind.as_str()) || U32_KINDS.contains(&avps[j].kind.as_str())).collect();
        let set_num = |avps: &mut Vec<TAvp>, j: usize, x: u32| {
            avps[j].args = vec![if U16_KINDS.contains(&avps[j].kind.as_str()) { (x as u16).to_string() } else { x.to_string() }];
        };
        match r.below(10) {
            0 => nr = ns.wrapping_add(tid),
            1 => sid = tid.wrapping_mul(2),
            2 => ns = tid ^ sid,
            3 => sid = tid % 16,
            4 => {
                tid = total.wrapping_sub(sid);
            }
            5 => {
                // two large values whose sum / product leaves 16 bits
                tid = 0xff00 | (r.next() as u16 & 0xff);
                sid = 0x10000u32.wrapping_sub(tid as u32) as u16;
                ns = 0x8000 | (r.next() as u16 & 0x7fff);
                nr = ns;
            }
            6 => {
                if nums.len() >= 2 {
                    let a: u32 = avps[nums[0]].args[0].parse().unwrap_or(0);
                    let x = match r.below(4) {
                        0 => a.wrapping_mul(2),
                        1 => a / 2,
                        2 => a.wrapping_add(tid as u32),
                        _ => a ^ sid as u32,
                    };
                    set_num(&mut avps, nums[1], x);
                } else if let Some(&j) = nums.first() {
                    set_num(&mut avps, j, (tid as u32).wrapping_add(sid as u32));
                }
            }
            7 => {
                if let Some(&j) = nums.first() {
                    let x = match r.below(4) {
                        0 => (n as u32) * (tid as u32),
                        1 => (total as u32).saturating_sub(12),
                        2 => (ns as u32) << 16 | nr as u32,
                        _ => (tid as u32) * (sid as u32),
                    };
                    set_num(&mut avps, j, x);
                } else {
                    ns = n;
                    nr = total;
                }
            }
            8 => {
                nr = ns.wrapping_sub(1);
                sid = tid.wrapping_add(n);
            }
            _ => {
                tid = n.wrapping_mul(total);
                sid = !tid;
            }
        }
        return TMsg::Control { len, tid, sid, ns, nr, avps };
    }
    m
}

/// One control message in twelve is given a shape: many AVPs of one kind (7, 8, 9, 15, 16, 17, 31, 32, 33, 64 of them),
/// a particular AVP moved to the 3rd / 7th / 8th / last place, a filler in front of an AVP so that it starts at offset
/// 64, 128, 256, 512 or 1024 of the message, two variable-length values made equally long, or one made exactly as long
/// as everything else in the message together.
pub fn shape_control(m: TMsg) -> TMsg {
    let text = m.render();
    let r = content_rng(&text, "shape-control");
    if !r.chance(1, 12) {
        return m;
    }
    if let TMsg::Control { len, tid, sid, ns, nr, mut avps } = m.clone() {
        if avps.len() < 2 {
            return m;
        }
        let is_var = |a: &TAvp| BYTE_KINDS.contains(&a.kind.as_str()) || STR_KINDS.contains(&a.kind.as_str());
        match r.below(8) {
            7 => {
                // near-duplicates: the same kind twice, next to each other or apart, with values that differ only in the
                // case of ASCII letters, in white space at the ends, or in a trailing NUL (names that "compare equal")
                let kind = *r.pick(&["HostName", "VendorName", "CalledNumber", "ProxyAuthenName", "SubAddress", "PrivateGroupId"]);
                let stems = ["Lac-Host-01.Example.Net", "lns.example.com", "TunnelGroupAlpha", "Vendor Name GmbH", "call-4711-B", "aAbBcCdDeEfF"];
                let v: Vec<u8> = r.pick(&stems).as_bytes().to_vec();
                let w: Vec<u8> = match r.below(5) {
                    0 => v.to_ascii_lowercase(),
                    1 => v.to_ascii_uppercase(),
                    2 => v.iter().map(|c| if c.is_ascii_lowercase() { c.to_ascii_uppercase() } else { c.to_ascii_lowercase() }).collect(),
                    3 => [v.clone(), vec![0x20]].concat(),
                    _ => [v.clone(), vec![0]].concat(),
                };
                let j = 1 + r.below(avps.len());
                avps.insert(j.min(avps.len()), TAvp::new(kind, vec![hex(&v)]));
                let k = if r.chance(2, 3) { j + 1 } else { avps.len() };
                avps.insert(k.min(avps.len()), TAvp::new(kind, vec![hex(&w)]));
            }
            6 => {
                // two long values, each repeated exactly, interleaved: A, A, B, C, B (C of another size)
                let kinds = ["Challenge", "HostName", "PrivateGroupId", "ProxyAuthenName"];
                let a = TAvp::new(*r.pick(&kinds), vec![hex(&r.bytes(17 + r.below(40)))]);
                let b = TAvp::new(*r.pick(&kinds), vec![hex(&r.bytes(17 + r.below(40)))]);
                let c = TAvp::new(*r.pick(&kinds), vec![hex(&r.bytes(1 + r.below(12)))]);
                let filler = TAvp::new("ReceiveWindowSize", vec!["8".into()]);
                let mut seq = vec![a.clone()];
                if r.chance(1, 2) {
                    seq.push(filler.clone());
                }
                seq.push(a);
                if r.chance(1, 2) {
                    seq.push(filler);
                }
                seq.push(b.clone());
                seq.push(c);
                seq.push(b);
                let j = 1 + r.below(avps.len());
                for (k, x) in seq.into_iter().enumerate() {
                    avps.insert((j + k).min(avps.len()), x);
                }
            }
            5 => {
                // the pattern hidden AVPs come in (RFC 2661 4.3): a Random Vector, hidden AVPs under it, the vector
                // restated (the same octets, or others) and more hidden AVPs
                let j = 1 + r.below(avps.len());
                let v = hex(&r.bytes(4));
                let v2 = if r.chance(2, 3) { v.clone() } else { hex(&r.bytes(4)) };
                let hid = |r: &Rng| TAvp::new("Hidden", vec![(r.below(40) as u16).to_string(), hex(&r.bytes(16 * (1 + r.below(3))))]);
                let mut ins = vec![TAvp::new("RandomVector", vec![v])];
                for _ in 0..1 + r.below(2) {
                    ins.push(hid(&r));
                }
                if r.chance(1, 3) {
                    ins.push(TAvp::new("ReceiveWindowSize", vec!["4".into()]));
                }
                ins.push(TAvp::new("RandomVector", vec![v2]));
                if r.chance(2, 3) {
                    ins.push(hid(&r));
                }
                for (k, a) in ins.into_iter().enumerate() {
                    avps.insert((j + k).min(avps.len()), a);
                }
            }
            0 => {
                let j = 1 + r.below(avps.len() - 1);
                let k = *r.pick(&[7usize, 8, 9, 15, 16, 17, 31, 32, 33, 64]);
                let a = avps[j].clone();
                if encode_avp(&a).map(|b| b.len()).unwrap_or(2000) <= 40 {
                    for _ in 0..k - 1 {
                        avps.insert(j, a.clone());
                    }
                }
            }
            1 => {
                let j = 1 + r.below(avps.len() - 1);
                let a = avps.remove(j);
                let want = *r.pick(&[2usize, 6, 7, 1000]);
                while avps.len() < want.min(9) {
                    avps.push(TAvp::new("ReceiveWindowSize", vec![(avps.len() as u16).to_string()]));
                }
                let at = want.min(avps.len());
                avps.insert(at, a);
            }
            2 => {
                let j = 1 + r.below(avps.len() - 1);
                let before: usize = 12 + avps[..j].iter().map(|a| encode_avp(a).map(|b| b.len()).unwrap_or(0)).sum::<usize>();
                let target = *r.pick(&[64usize, 128, 256, 512, 1024]);
                if before + 7 <= target && target - before - 6 <= 1017 {
                    avps.insert(j, TAvp::new("Challenge", vec![hex(&r.bytes(target - before - 6))]));
                }
            }
            3 => {
                let vars: Vec<usize> = (1..avps.len()).filter(|&j| is_var(&avps[j])).collect();
                if vars.len() >= 2 {
                    let l = unhex(&avps[vars[0]].args[0]).map(|b| b.len()).unwrap_or(1).max(1);
                    let kind = avps[vars[1]].kind.clone();
                    let v = if STR_KINDS.contains(&kind.as_str()) { (0..l).map(|i| b'a' + (i % 26) as u8).collect() } else { r.bytes(l) };
                    avps[vars[1]].args = vec![hex(&v)];
                } else {
                    let l = 1 + r.below(20);
                    avps.push(TAvp::new("HostName", vec![hex(&r.bytes(l))]));
                    avps.push(TAvp::new("Challenge", vec![hex(&r.bytes(l))]));
                }
            }
            _ => {
                let rest: usize = 12 + avps.iter().map(|a| encode_avp(a).map(|b| b.len()).unwrap_or(0)).sum::<usize>();
                if rest <= 1017 {
                    avps.push(TAvp::new("Challenge", vec![hex(&r.bytes(rest))]));
                }
            }
        }
        return TMsg::Control { len, tid, sid, ns, nr, avps };
    }
    m
}

/// Images laid out for one kind of message under the flag word of the other: for all 32 combinations of the T, L, S, O
/// and P bits (version 2, reserved bits clear) the header fields a *data* message has under those bits, the header
/// fields a *control* message has whatever the bits say, and the control header followed by an Offset Size field and
/// its pad — each in front of a valid AVP list (Message Type first) and in front of arbitrary octets, with a Length
/// field (where there is one) that counts the whole.  What a flag bit means may not depend on a check that is off.
pub fn cross_layouts() -> Vec<Vec<u8>> {
    let r = content_rng("cross layouts", "x");
    let mut res = vec![];
    for bits in 0..32u16 {
        let (t, l, s_, o, p) = (bits & 1 != 0, bits & 2 != 0, bits & 4 != 0, bits & 8 != 0, bits & 16 != 0);
        let w: u16 = 0x0020 | if t { 0x0100 } else { 0 } | if l { 0x0200 } else { 0 } | if s_ { 0x1000 } else { 0 } | if o { 0x4000 } else { 0 } | if p { 0x8000 } else { 0 };
        for layout in 0..3 {
            for k in [0u16, 1, 2, 6, 12] {
                if layout == 1 && k != 0 {
                    continue;
                }
                for body_kind in 0..2 {
                    let body: Vec<u8> = if body_kind == 0 {
                        let mut b = mt_record(&r);
                        for _ in 0..r.below(3) {
                            b.extend(good_record(&r));
                        }
                        b
                    } else {
                        r.bytes(1 + r.below(24))
                    };
                    let mut v = w.to_be_bytes().to_vec();
                    let len_at = if layout != 0 || l {
                        v.extend_from_slice(&[0, 0]);
                        Some(2usize)
                    } else {
                        None
                    };
                    v.extend_from_slice(&r.u16x().to_be_bytes());
                    v.extend_from_slice(&r.u16x().to_be_bytes());
                    if layout != 0 || s_ {
                        v.extend_from_slice(&r.u16x().to_be_bytes());
                        v.extend_from_slice(&r.u16x().to_be_bytes());
                    }
                    if (layout == 0 && o) || layout == 2 {
                        v.extend_from_slice(&k.to_be_bytes());
                        v.extend(if body_kind == 0 { vec![0u8; k as usize] } else { r.bytes(k as usize) });
                    }
                    v.extend_from_slice(&body);
                    if let Some(at) = len_at {
                        let n = v.len() as u16;
                        v[at] = (n >> 8) as u8;
                        v[at + 1] = n as u8;
                    }
                    res.push(v);
                }
            }
        }
    }
    res
}

/// One message in twelve repeats its own leading header words further on: with the words of a control header being flag
/// word, Length, tunnel id, session id, Ns, Nr, a run of later words is made equal to the run one, two, three or four
/// places before it — (Ns, Nr) = (flag word, Length), (session id, Ns, Nr) = (flag word, Length, tunnel id), (tunnel id,
/// session id) = (flag word, Length), … — and likewise for the words a data header has.  Several equalities at once.
pub fn echo_header(m: TMsg) -> TMsg {
    let text = m.render();
    let r = content_rng(&text, "echo-header");
    if !r.chance(1, 12) {
        return m;
    }
    let img = match encode_msg(&m) {
        Some(i) if i.len() >= 6 => i,
        _ => return m,
    };
    let flags = ((img[0] as u16) << 8) | img[1] as u16;
    match m.clone() {
        TMsg::Control { len, tid, sid, ns, nr, avps } => {
            let total = img.len() as u16;
            let mut w = [flags, total, tid, sid, ns, nr];
            let shift = 1 + r.below(4);
            let start = (2usize).max(shift) + r.below(2);
            for i in start..6 {
                if i >= shift {
                    w[i] = w[i - shift];
                }
            }
            TMsg::Control { len, tid: w[2], sid: w[3], ns: w[4], nr: w[5], avps }
        }
        TMsg::Data { p, len, tid, sid, nsnr, off, data } => {
            // words: flag word, [Length], tunnel id, session id, [Ns, Nr]
            let mut w: Vec<u16> = vec![flags];
            if let Some(l) = len {
                w.push(l);
            }
            let id_at = w.len();
            w.push(tid);
            w.push(sid);
            if let Some((a, b)) = nsnr {
                w.push(a);
                w.push(b);
            }
            let shift = 1 + r.below(3);
            let start = id_at.max(shift) + r.below(2);
            for i in start..w.len() {
                if i >= shift {
                    w[i] = w[i - shift];
                }
            }
            let nsnr2 = nsnr.map(|_| (w[id_at + 2], w[id_at + 3]));
            TMsg::Data { p, len, tid: w[id_at], sid: w[id_at + 1], nsnr: nsnr2, off, data }
        }
    }
}

/// One data message in twelve carries a payload that is itself a frame of the same session: a data (or control) flag
/// word with the L bit, a Length word equal to the payload's own size (or the outer message's), the message's own tunnel
/// and session ids, then what was there.  Frames handed back by a relay look like that.
pub fn nest_data(m: TMsg) -> TMsg {
    let text = m.render();
    let r = content_rng(&text, "nest-data");
    if !r.chance(1, 12) {
        return m;
    }
    if let TMsg::Data { p, len, tid, sid, nsnr, off, mut data } = m.clone() {
        let n = data.len();
        if n < 8 {
            return m;
        }
        let outer = encode_msg(&m).map(|b| b.len()).unwrap_or(0);
        let w: u16 = match r.below(4) {
            0 => 0x0220,
            1 => 0x8220,
            2 => 0x1320,
            _ => 0x0220 | if nsnr.is_some() { 0x1000 } else { 0 },
        };
        let l = match r.below(4) {
            0 | 1 => n,
            2 => outer,
            _ => n - off.unwrap_or(0) as usize,
        } as u16;
        let at = off.unwrap_or(0) as usize;
        let at = if at + 8 <= n && r.chance(1, 2) { at } else { 0 };
        data[at..at + 2].copy_from_slice(&w.to_be_bytes());
        data[at + 2..at + 4].copy_from_slice(&l.to_be_bytes());
        data[at + 4..at + 6].copy_from_slice(&tid.to_be_bytes());
        data[at + 6..at + 8].copy_from_slice(&sid.to_be_bytes());
        return TMsg::Data { p, len, tid, sid, nsnr, off, data };
    }
    m
}

/// The `length` member of a control message value is not part of what is encoded (the encoder counts for itself); here
/// it is made to look meaningful: the true size, the size plus what the writer already holds, what the writer holds,
/// the size of the AVPs alone.
pub fn relate_len(r: &Rng, m: TMsg, before: usize) -> TMsg {
    let size = encode_msg(&m).map(|b| b.len()).unwrap_or(0);
    if let TMsg::Control { tid, sid, ns, nr, avps, .. } = m {
        let len = match r.below(5) {
            0 => size,
            1 | 2 => before + size,
            3 => before,
            _ => size.saturating_sub(12),
        } as u16;
        return TMsg::Control { len, tid, sid, ns, nr, avps };
    }
    m
}

pub fn gen_control(r: &Rng, max_avps: usize, big: bool) -> TMsg {
    if max_avps >= 3 && r.chance(1, 6) {
        return rfc_message(r);
    }
    let n = if r.chance(1, 10) { 0 } else { 1 + r.below(max_avps.max(1)) };
    let mut avps = vec![];
    for i in 0..n {
        if i == 0 {
            avps.push(gen_avp_kind(r, "MessageType", false));
        } else if i >= 2 && r.chance(1, 10) {
            // the same AVP again (same kind, same value), next to or away from the first — or the same value under
            // another kind of the same shape (two LCP CONFREQs with the same octets, two equal speeds)
            let j = 1 + r.below(i - 1);
            let src_kind: &str = &avps[j].kind.clone();
            let class: Option<&[&str]> = if BYTE_KINDS.contains(&src_kind) {
                Some(&BYTE_KINDS)
            } else if STR_KINDS.contains(&src_kind) {
                Some(&STR_KINDS)
            } else if U32_KINDS.contains(&src_kind) {
                Some(&U32_KINDS)
            } else if U16_KINDS.contains(&src_kind) {
                Some(&U16_KINDS)
            } else {
                None
            };
            let kind = match class {
                Some(c) if r.chance(1, 2) => (*r.pick(c)).to_string(),
                _ => avps[j].kind.clone(),
            };
            let dup = TAvp::new(&kind, avps[j].args.clone());
            avps.push(dup);
        } else {
            avps.push(gen_avp(r, big && r.chance(1, 4)));
        }
    }
    let m = TMsg::Control { len: if r.chance(1, 2) { 0 } else { r.u16x() }, tid: r.u16x(), sid: r.u16x(), ns: r.u16x(), nr: r.u16x(), avps };
    echo_header(shape_control(arith_control(digest_control(relate_control(r, m)))))
}

pub fn data_header_len(len: bool, nsnr: bool, off: bool) -> usize {
    2 + if len { 2 } else { 0 } + 4 + if nsnr { 4 } else { 0 } + if off { 2 } else { 0 }
}

pub fn gen_data(r: &Rng, with_offset: bool) -> TMsg {
    let dl = *r.pick(&[1usize, 1, 2, 3, 16, 255, 256, 1400]);
    let dl = if r.chance(1, 3) { 1 + r.below(40) } else { dl };
    let mut data = r.bytes(dl);
    if dl >= 8 && r.chance(1, 6) {
        // a PPP frame as a tunnel carries it: optional address/control ff 03, protocol, then code, id, 16-bit length
        // = from the code octet to the end (LCP / IPCP / authentication packets are built like that)
        let mut f: Vec<u8> = if r.chance(1, 2) { vec![0xff, 0x03] } else { vec![] };
        let protos: [[u8; 2]; 6] = [[0xc0, 0x21], [0xc0, 0x21], [0xc0, 0x23], [0xc2, 0x23], [0x80, 0x21], [0x00, 0x21]];
        let pr: [u8; 2] = *r.pick(&protos);
        f.extend_from_slice(&pr);
        let body = dl.saturating_sub(f.len());
        if body >= 4 {
            f.push(1 + r.below(12) as u8);
            f.push(r.next() as u8);
            let l = if r.chance(1, 8) { body + 1 } else { body };
            f.push((l >> 8) as u8);
            f.push(l as u8);
            f.extend(r.bytes(body - 4));
            data = f;
        }
    }
    let has_len = r.chance(1, 2);
    let nsnr = if r.chance(1, 2) { Some((r.u16x(), r.u16x())) } else { None };
    let off = if with_offset && r.chance(1, 2) { Some(*r.pick(&[0usize, 0, 1.min(dl - 1), dl - 1, r.below(dl)]) as u16) } else { None };
    let total = data_header_len(has_len, nsnr.is_some(), off.is_some()) + dl;
    let (mut tid, mut sid) = (r.u16x(), r.u16x());
    let mut nsnr = nsnr;
    // fields related to each other and to the sizes: an id equal to the payload length or to the total length, Ns / Nr
    // equal to an id, the payload beginning with the message's own header octets
    match r.below(16) {
        0 => tid = dl as u16,
        1 => sid = total as u16,
        2 => {
            if let Some((a, _)) = nsnr {
                nsnr = Some((a, tid));
            }
        }
        3 => {
            if let Some((_, b)) = nsnr {
                nsnr = Some((sid, b));
            }
        }
        4 => sid = tid,
        _ => {}
    }
    let m = TMsg::Data { p: r.chance(1, 2), len: if has_len { Some(total as u16) } else { None }, tid, sid, nsnr, off, data };
    if r.chance(1, 12) {
        if let (Some(img), TMsg::Data { p, len, tid, sid, nsnr, off, data }) = (encode_msg(&m), m.clone()) {
            let mut d = data.clone();
            let k = d.len().min(img.len());
            d[..k].copy_from_slice(&img[..k]);
            return TMsg::Data { p, len, tid, sid, nsnr, off, data: d };
        }
    }
    nest_data(echo_header(digest_data(m)))
}

/// a data message as a caller may build it: the Length field absent, true, off by a little, or anything at all
/// (the encoder writes what it is given), the Offset Size field likewise
pub fn gen_data_free(r: &Rng) -> TMsg {
    let mut m = gen_data(r, true);
    if let TMsg::Data { len, off, data, .. } = &mut m {
        match r.below(6) {
            0 => *len = Some(r.u16x()),
            1 => *len = Some(len.unwrap_or(8).wrapping_add(*r.pick(&[1u16, 2, 0xffff, 0xfffe, 16]))),
            2 => *len = Some(*r.pick(&[0u16, 1, 6, 8, 0xffff])),
            3 => {
                if off.is_some() {
                    *off = Some(r.u16x());
                }
            }
            4 => {
                if r.chance(1, 3) {
                    data.clear();
                }
            }
            _ => {}
        }
    }
    m
}

/// Images for the decoder streams are assembled by the generator itself (flag word, length fields,
/// AVP headers); only the value octets of an AVP come from the crate's per-type writers.  A defect in
/// the crate's framing code therefore cannot silently turn the "valid" inputs into rejected ones.
pub fn encode_msg(t: &TMsg) -> Option<Vec<u8>> {
    match t {
        TMsg::Control { tid, sid, ns, nr, avps, .. } => {
            let recs: Vec<Vec<u8>> = avps.iter().map(encode_avp).collect::<Option<Vec<_>>>()?;
            let total: usize = recs.iter().map(|x| x.len()).sum();
            if total + 12 > 65535 {
                return None;
            }
            Some(assemble(0x1320, *tid, *sid, *ns, *nr, &recs))
        }
        TMsg::Data { p, len, tid, sid, nsnr, off, data } => {
            let w: u16 = 0x0020
                | if len.is_some() { 0x0200 } else { 0 }
                | if nsnr.is_some() { 0x1000 } else { 0 }
                | if off.is_some() { 0x4000 } else { 0 }
                | if *p { 0x8000 } else { 0 };
            let mut v = w.to_be_bytes().to_vec();
            if let Some(l) = len {
                v.extend_from_slice(&l.to_be_bytes());
            }
            v.extend_from_slice(&tid.to_be_bytes());
            v.extend_from_slice(&sid.to_be_bytes());
            if let Some((a, b)) = nsnr {
                v.extend_from_slice(&a.to_be_bytes());
                v.extend_from_slice(&b.to_be_bytes());
            }
            if let Some(o) = off {
                v.extend_from_slice(&o.to_be_bytes());
            }
            v.extend_from_slice(data);
            Some(v)
        }
    }
}

pub fn encode_avp(t: &TAvp) -> Option<Vec<u8>> {
    let a = to_crate(t)?;
    let full = guard(|| {
        let mut w = VecWriter::new();
        a.write(&mut w);
        std::mem::take(&mut w.data)
    })?;
    if full.len() < 6 || full.len() > 1023 {
        return None;
    }
    // own header: M bit, H bit for hidden values, vendor 0; payload (attribute type + value) as written
    let flags = if t.kind == "Hidden" { 3 } else { 1 };
    let attr = ((full[4] as u16) << 8) | full[5] as u16;
    Some(record(flags, 0, attr, &full[6..]))
}

/// assemble a control image from records (own assembler: the fault injectors need the record boundaries)
pub fn assemble(flags: u16, tid: u16, sid: u16, ns: u16, nr: u16, recs: &[Vec<u8>]) -> Vec<u8> {
    let body: Vec<u8> = recs.concat();
    let mut w = VecWriter::new();
    w.write_u16_be(flags);
    w.write_u16_be((12 + body.len()) as u16);
    w.write_u16_be(tid);
    w.write_u16_be(sid);
    w.write_u16_be(ns);
    w.write_u16_be(nr);
    w.write_bytes(&body);
    std::mem::take(&mut w.data)
}

pub fn record(flags_bits: u8, vendor: u16, attr: u16, payload: &[u8]) -> Vec<u8> {
    let l = 6 + payload.len();
    let mut v = vec![(((l >> 8) & 3) as u8) << 6 | (flags_bits & 0x3f), l as u8];
    v.extend_from_slice(&vendor.to_be_bytes());
    v.extend_from_slice(&attr.to_be_bytes());
    v.extend_from_slice(payload);
    v
}

fn set_len(rec: &mut [u8], l: usize) {
    rec[0] = (rec[0] & 0x3f) | ((((l >> 8) & 3) as u8) << 6);
    rec[1] = l as u8;
}

/// one mutation of a valid image
pub fn mutate(r: &Rng, b: &[u8]) -> Vec<u8> {
    let mut v = b.to_vec();
    if v.is_empty() {
        return r.bytes(1 + r.below(8));
    }
    match r.below(12) {
        0 => {
            let cut = r.below(v.len() + 1);
            v.truncate(cut);
        }
        1 => {
            let n = 1 + r.below(16);
            v.extend(r.bytes(n));
        }
        2 => {
            // a length-looking field: pick an even offset and write a boundary value
            if v.len() >= 4 {
                let off = if r.chance(1, 2) { 2 } else { 2 * r.below(v.len() / 2) };
                let cur = ((v[off] as usize) << 8) | v[(off + 1).min(v.len() - 1)] as usize;
                let val = *r.pick(&[0usize, 5, 6, 7, 11, 12, 13, cur.wrapping_sub(1) & 0xffff, (cur + 1) & 0xffff, 1023, 1024, 0xFFFF, v.len(), v.len() + 1, v.len().saturating_sub(1)]);
                v[off] = (val >> 8) as u8;
                if off + 1 < v.len() {
                    v[off + 1] = val as u8;
                }
            }
        }
        3 => {
            let bit = r.below(16.min(v.len() * 8));
            v[bit / 8] ^= 1 << (bit % 8);
        }
        4 => {
            let bit = r.below(v.len() * 8);
            v[bit / 8] ^= 1 << (bit % 8);
        }
        5 => {
            let i = r.below(v.len());
            v[i] = *r.pick(&[0u8, 0xff, 0x80, 0xc0, 0xfe, 0x7f]);
        }
        6 => {
            let i = r.below(v.len());
            v.remove(i);
        }
        7 => {
            let i = r.below(v.len() + 1);
            v.insert(i, r.next() as u8);
        }
        8 => {
            // AVP first octet of the first record: M/H/reserved/length-high bits
            if v.len() > 12 {
                v[12] = r.next() as u8;
            }
        }
        9 => {
            if v.len() > 13 {
                v[13] = *r.pick(&[0u8, 5, 6, 7, 8, 0xff]);
            }
        }
        10 => {
            // duplicate a tail
            let i = r.below(v.len());
            let tail = v[i..].to_vec();
            v.extend(tail);
        }
        _ => {
            let i = r.below(v.len());
            let n = r.below(v.len() - i + 1);
            for x in &mut v[i..i + n] {
                *x = 0;
            }
        }
    }
    v
}

fn raw(r: &Rng) -> Vec<u8> {
    match r.below(4) {
        0 => {
            let n = r.below(64);
            r.bytes(n)
        }
        1 => {
            // random body behind a valid control prefix
            let n = r.below(48);
            let body = r.bytes(n);
            let mut v = vec![0x13, 0x20];
            let l = if r.chance(1, 2) { 12 + n } else { r.below(64) };
            v.extend_from_slice(&(l as u16).to_be_bytes());
            v.extend(r.bytes(8));
            v.extend(body);
            v
        }
        2 => {
            // data-ish flag word
            let w: u16 = (r.next() as u16 & 0xD200) | 0x0020;
            let mut v = w.to_be_bytes().to_vec();
            let n = r.below(40);
            v.extend(r.bytes(n));
            v
        }
        _ => {
            let n = r.below(16);
            let mut v = vec![r.next() as u8, r.next() as u8];
            v.extend(r.bytes(n));
            v
        }
    }
}

fn opts(r: &Rng) -> &'static str {
    *r.pick(&crate::ops::ALL_OPTS)
}

fn valid_image(r: &Rng, big: bool) -> Vec<u8> {
    loop {
        let t = if r.chance(2, 3) { gen_control(r, 6, big) } else { gen_data(r, true) };
        if let Some(b) = encode_msg(&t) {
            return b;
        }
    }
}

/// accepted-but-non-canonical images (C10 weighting)
fn noncanonical(r: &Rng) -> Vec<u8> {
    let n = 1 + r.below(5);
    let mut recs = vec![];
    let mt = *r.pick(&[1u16, 2, 3, 4, 6, 7, 8, 9, 10, 11, 12, 14, 15, 16]);
    recs.push(record(r.next() as u8 & 0x3d, 0, 0, &[(mt >> 8) as u8, mt as u8]));
    for _ in 1..n {
        let t = gen_avp(r, r.chance(1, 5));
        if let Some(mut rec) = encode_avp(&t) {
            // unset M, set reserved bits (never H), surplus payload for fixed kinds
            rec[0] = (rec[0] & 0xC0) | (r.next() as u8 & 0x3d);
            if t.kind != "Hidden" && crate::ops::attr_of_kind(&t.kind).map(|a| min_len(a) > 1 || a == 39).unwrap_or(false) && r.chance(1, 2) && rec.len() < 1000 {
                let extra = 1 + r.below(4);
                // surplus only where it cannot change the value: fixed-format kinds
                if !["ResultCode", "Q931CauseCode"].contains(&t.kind.as_str()) {
                    rec.extend(r.bytes(extra));
                    let l = rec.len();
                    set_len(&mut rec, l);
                }
            }
            recs.push(rec);
        }
    }
    if r.chance(1, 3) {
        let n = 1 + r.below(5);
        recs.push(r.bytes(n)); // ignored tail of 1..5 octets
    }
    let mut flags: u16 = 0x1320;
    if r.chance(1, 2) {
        flags |= r.next() as u16 & 0x2C0F; // reserved bits
    }
    if r.chance(1, 3) {
        flags |= r.next() as u16 & 0xC000; // P / O
    }
    if r.chance(1, 4) {
        flags = (flags & !0x00F0) | ((r.next() as u16 & 0xF) << 4);
    }
    assemble(flags, r.u16x(), r.u16x(), r.u16x(), r.u16x(), &recs)
}

fn data_image_noncanonical(r: &Rng) -> Vec<u8> {
    let t = gen_data(r, false);
    let mut b = encode_msg(&t).unwrap_or_default();
    if b.len() >= 2 {
        if r.chance(1, 2) {
            b[1] |= r.next() as u8 & 0x0F;
            b[0] |= r.next() as u8 & 0x2C;
        }
        if r.chance(1, 3) {
            b[1] = (b[1] & 0x0F) | ((r.next() as u8 & 0xF) << 4);
        }
    }
    if let TMsg::Data { len: Some(_), .. } = t {
        if r.chance(1, 2) {
            let n = 1 + r.below(8);
            b.extend(r.bytes(n));
        }
    }
    b
}

// ---------------------------------------------------------------- bad records (C15, C20)

/// an individually undecodable record and the error it yields
/// flag octet of a non-hidden record: usually M alone, often M clear, sometimes reserved bits as well
pub fn mflag(r: &Rng) -> u8 {
    match r.below(4) {
        0 | 1 => 1,
        2 => 0,
        _ => r.next() as u8 & 0x3d,
    }
}

pub fn bad_record(r: &Rng, allow_mt: bool) -> (Vec<u8>, String) {
    loop {
        match r.below(8) {
            0 => {
                // truncated fixed field
                let attr = *r.pick(&[1u16, 2, 3, 4, 5, 6, 9, 10, 12, 13, 14, 15, 16, 17, 18, 19, 24, 25, 29, 32, 34, 35, 36, 38]);
                let l = r.below(min_len(attr));
                return (record(mflag(r), 0, attr, &r.bytes(l)), format!("IncompleteAVP({})", attr));
            }
            1 => {
                let attr = *r.pick(&[7u16, 8, 11, 21, 22, 23, 26, 27, 28, 30, 31, 33, 37]);
                return (record(mflag(r), 0, attr, &[]), format!("IncompleteAVP({})", attr));
            }
            2 => {
                let attr = *r.pick(&[8u16, 21, 22, 23]);
                let mut p = utf8(r, 1 + r.below(12));
                let i = r.below(p.len() + 1);
                p.insert(i, *r.pick(&[0xffu8, 0xc0, 0x80, 0xf8, 0xed]));
                if p[i] == 0xed {
                    p.insert(i + 1, 0xa0);
                    p.insert(i + 2, 0x80);
                }
                if std::str::from_utf8(&p).is_ok() {
                    continue;
                }
                return (record(mflag(r), 0, attr, &p), format!("InvalidUtf8({})", attr));
            }
            3 => {
                let attr = *r.pick(&[20u16, 40, 41, 255, 256, 0x8000, 0xFFFF, 40 + r.below(65000) as u16]);
                let n = r.below(12);
                return (record(mflag(r), 0, attr, &r.bytes(n)), format!("UnknownAvp({})", attr));
            }
            4 => {
                if !allow_mt {
                    continue;
                }
                let c = *r.pick(&[0u16, 5, 13, 17, 18, 255, 256, 0xFFFF, 17 + r.below(60000) as u16]);
                return (record(mflag(r), 0, 0, &c.to_be_bytes()), format!("UnknownMessageType({})", c));
            }
            5 => {
                let et = *r.pick(&[9u16, 10, 255, 256, 0xFFFF, 9 + r.below(60000) as u16]);
                let mut p = r.u16x().to_be_bytes().to_vec();
                p.extend_from_slice(&et.to_be_bytes());
                if r.chance(1, 2) {
                    p.extend(utf8(r, 8));
                }
                return (record(mflag(r), 0, 1, &p), format!("InvalidResultCodeErrorType({})", et));
            }
            6 => {
                let v = *r.pick(&[1u16, 9, 311, 0xFFFF, 1 + r.below(65534) as u16]);
                let attr = r.below(45) as u16;
                let n = r.below(12);
                // any flag bits, the hidden bit included: a vendor-specific AVP is refused whatever its flags say
                let fl = if r.chance(1, 2) { 1 } else { r.next() as u8 & 0x3f };
                return (record(fl, v, attr, &r.bytes(n)), format!("UnsupportedVendorId({})", v));
            }
            _ => {
                // bad text in the optional tails
                if r.chance(1, 2) {
                    let mut p = vec![0, 1, 0, 2];
                    p.extend_from_slice(&[0x61, 0xff]);
                    return (record(mflag(r), 0, 1, &p), "InvalidUtf8(1)".into());
                } else {
                    let p = vec![0, 1, 2, 0xc0, 0x61];
                    return (record(mflag(r), 0, 12, &p), "InvalidUtf8(12)".into());
                }
            }
        }
    }
}

fn good_record(r: &Rng) -> Vec<u8> {
    loop {
        let mut k = *r.pick(&ALL_KINDS);
        if r.chance(1, 10) {
            k = "Hidden";
        }
        if let Some(mut b) = encode_avp(&gen_avp_kind(r, k, false)) {
            // the M bit and the reserved flag bits are not the decoder's business: any of them, on any kind
            if r.chance(1, 3) {
                b[0] = (b[0] & 0xc2) | (mflag(r) & 0x3d);
            }
            return b;
        }
    }
}

fn mt_record(r: &Rng) -> Vec<u8> {
    encode_avp(&gen_avp_kind(r, "MessageType", false)).unwrap()
}

/// control messages with a large AVP area, each followed (by the caller) by ordinary traffic: a scratch buffer, a
/// table or a counter that was sized for "typical" messages, or that is not reset after a large one, shows on the
/// message *after* the large one
pub fn big_controls(r: &Rng) -> Vec<TMsg> {
    let mut v = vec![];
    for body in [4000usize, 4096, 4097, 4200, 5000, 8191, 8193, 12000, 16385, 33000, 60000, 65000] {
        let mut avps = vec![TAvp::new("MessageType", vec!["Hello".into()])];
        let mut size = 8usize;
        while size + 7 <= body {
            let room = body - size - 6;
            let l = room.min(1 + r.below(1017)).max(1);
            let kind = if avps.len() % 2 == 0 { "Challenge" } else { "HostName" };
            avps.push(TAvp::new(kind, vec![hex(&r.bytes(l))]));
            size += 6 + l;
        }
        v.push(TMsg::Control { len: (12 + size) as u16, tid: r.u16x(), sid: r.u16x(), ns: r.u16x(), nr: r.u16x(), avps });
    }
    v
}

/// What the changed source singles out, in combination.  `nums` / `texts`: the literals that are new in /repo's sources
/// (empty on the unchanged tree, where three well-known texts keep the stream alive at a small size).  Vendor-specific
/// records with every new number as vendor id × attribute number × value length, M set and clear, behind every message
/// type; text and octet-string AVPs carrying every new text — alone, NUL-terminated, next to a value of zeros — in pairs
/// of kinds, with lengths that make the message end at every residue modulo 4; each as `op` lines.
pub fn dictionary_cases(r: &Rng) -> Vec<Vec<u8>> {
    let d = dictionary();
    let mut images: Vec<Vec<u8>> = vec![];
    let nums: Vec<u16> = {
        let mut v: Vec<u16> = d.0.iter().filter(|x| **x <= 0xFFFF).map(|x| *x as u16).collect();
        v.sort();
        v.dedup();
        v.truncate(24);
        v
    };
    if !nums.is_empty() {
        let mut lens: Vec<usize> = vec![0, 1, 2, 3, 4, 8];
        lens.extend(nums.iter().filter(|x| **x <= 64).map(|x| *x as usize));
        lens.sort();
        lens.dedup();
        let mts: Vec<u16> = vec![1, 2, 3, 4, 6, 7, 8, 9, 10, 11, 12, 14, 15, 16];
        let many = nums.len() * nums.len() * lens.len() > 3000;
        for v in nums.iter().chain([0u16].iter()) {
            for attr in nums.iter() {
                for l in lens.iter() {
                    for fl in [0u8, 1] {
                        let rec = record(fl, *v, *attr, &r.bytes(*l));
                        let pick: Vec<u16> = if many { vec![*r.pick(&mts), 10] } else { mts.clone() };
                        for mt in pick {
                            let mtrec = record(1, 0, 0, &mt.to_be_bytes());
                            images.push(assemble(0x1320, r.u16x(), r.u16x(), r.u16x(), r.u16x(), &[mtrec, rec.clone()]));
                        }
                    }
                }
            }
        }
    }
    let mut texts: Vec<Vec<u8>> = d.1.iter().filter(|t| t.len() <= 64).cloned().collect();
    texts.truncate(12);
    let full = !texts.is_empty();
    if !full {
        texts = vec![b"Cisco Systems, Inc.".to_vec(), b"Microsoft".to_vec(), b"localhost".to_vec()];
    }
    let kinds: Vec<&str> = if full { BYTE_KINDS.iter().chain(STR_KINDS.iter()).cloned().collect() } else { vec!["HostName", "VendorName", "CalledNumber"] };
    for t in texts.iter() {
        let mut variants: Vec<Vec<u8>> = vec![t.clone()];
        let mut z = t.clone();
        z.push(0);
        variants.push(z);
        let mut tail = t.clone();
        tail.extend_from_slice(b"7");
        variants.push(tail);
        for k1 in kinds.iter() {
            for v1 in variants.iter() {
                for k2 in kinds.iter() {
                    for v2 in [vec![0u8], vec![0u8; 3], vec![0x61, 0], vec![0x61, 0x62, 0x63, 0, 0], t.clone(), r.bytes(5)] {
                        if std::str::from_utf8(&v2).is_err() && STR_KINDS.contains(k2) {
                            continue;
                        }
                        let a1 = crate::ops::attr_of_kind(k1).unwrap();
                        let a2 = crate::ops::attr_of_kind(k2).unwrap();
                        let recs = if r.chance(1, 2) {
                            vec![record(1, 0, 0, &[0, 1]), record(1, 0, a1, v1), record(1, 0, a2, &v2)]
                        } else {
                            vec![record(1, 0, 0, &[0, 2]), record(1, 0, a2, &v2), record(1, 0, a1, v1)]
                        };
                        images.push(assemble(0x1320, r.u16x(), r.u16x(), r.u16x(), r.u16x(), &recs));
                    }
                }
            }
        }
    }
    images
}

/// Messages built around the AVP kinds and message types the changed source has newly come to mention (`k` lines of
/// the dictionary): under each such message type (all fourteen when none is named) every ordered pair of the named
/// kinds, with values that coincide — the same octets under both kinds, a self-describing TLV (an LCP packet), zeros,
/// a new text, a new number — and values that do not.  Empty on the unchanged tree.
pub fn focus_messages(r: &Rng) -> Vec<TMsg> {
    let d = dictionary();
    let kinds: Vec<&str> = ALL_KINDS.iter().cloned().filter(|k| d.2.iter().any(|x| x == k)).take(8).collect();
    if kinds.is_empty() {
        return vec![];
    }
    let names: Vec<String> = MESSAGE_TYPES.iter().map(|m| format!("{:?}", m)).collect();
    let mut mts: Vec<String> = names.iter().filter(|n| d.2.iter().any(|x| x == *n)).cloned().collect();
    if mts.is_empty() {
        mts = names;
    }
    let texts: Vec<Vec<u8>> = d.1.iter().take(4).cloned().collect();
    let nums: Vec<u64> = d.0.iter().take(6).cloned().collect();
    let values = |r: &Rng, k: &str| -> Vec<Vec<String>> {
        if BYTE_KINDS.contains(&k) {
            let mut v: Vec<Vec<u8>> = vec![vec![1, 7, 0, 4], vec![1, 0x21, 0, 8, 5, 6, 0x11, 0x22], vec![2, 1, 0, 6, 0xaa, 0xbb], vec![0; 4], r.bytes(6), vec![1, 2, 0, 9, 1, 4, 5, 0xdc, 0]];
            v.extend(texts.iter().cloned());
            v.into_iter().map(|x| vec![hex(&x)]).collect()
        } else if STR_KINDS.contains(&k) {
            let mut v: Vec<Vec<u8>> = vec![b"a".to_vec(), b"555-0100".to_vec(), vec![0x61, 0]];
            v.extend(texts.iter().filter(|t| std::str::from_utf8(t).is_ok()).cloned());
            v.into_iter().map(|x| vec![hex(&x)]).collect()
        } else if U32_KINDS.contains(&k) || MASK_KINDS.contains(&k) {
            let mut v: Vec<u64> = vec![0, 1, 64000, 0xFFFF_FFFF, r.next() & 0xFFFF_FFFF];
            v.extend(nums.iter().map(|x| x & 0xFFFF_FFFF));
            v.into_iter().map(|x| vec![x.to_string()]).collect()
        } else if U16_KINDS.contains(&k) {
            let mut v: Vec<u64> = vec![0, 1, 0xFFFF, r.next() & 0xFFFF];
            v.extend(nums.iter().map(|x| x & 0xFFFF));
            v.into_iter().map(|x| vec![x.to_string()]).collect()
        } else {
            (0..3).map(|_| gen_avp_kind(r, k, false).args).collect()
        }
    };
    let mut out = vec![];
    for mt in mts.iter() {
        for k1 in kinds.iter() {
            for k2 in kinds.iter() {
                let v1s = values(r, k1);
                let v2s = values(r, k2);
                for (i, v1) in v1s.iter().enumerate() {
                    // the same value under both kinds when they take the same shape, and one that differs
                    let same_shape = v2s.iter().any(|x| x.len() == v1.len());
                    let mut seconds: Vec<Vec<String>> = vec![];
                    if same_shape && (BYTE_KINDS.contains(k1) == BYTE_KINDS.contains(k2)) && (STR_KINDS.contains(k1) == STR_KINDS.contains(k2)) {
                        seconds.push(v1.clone());
                    }
                    seconds.push(v2s[i % v2s.len()].clone());
                    for v2 in seconds {
                        let avps = vec![TAvp::new("MessageType", vec![mt.clone()]), TAvp::new(k1, v1.clone()), TAvp::new(k2, v2)];
                        out.push(TMsg::Control { len: 0, tid: r.u16x(), sid: r.u16x(), ns: r.u16x(), nr: r.u16x(), avps });
                    }
                }
            }
        }
    }
    out
}

/// the dictionary cases as lines of one operation (`dec` with strict and lenient options, `fix`, `sfx` with a trailer, …)
fn dictionary_stream(r: &Rng, out: &mut Out, op: &str) {
    let mut imgs = dictionary_cases(r);
    for m in focus_messages(r) {
        match op {
            "rt" => out.push(format!("rt {}", m.render())),
            "enc" => out.push(format!("enc {} {}", if r.chance(1, 3) { "0a0b0c".to_string() } else { ".".to_string() }, m.render())),
            _ => {
                if let Some(img) = encode_msg(&m) {
                    imgs.push(img);
                }
            }
        }
    }
    if op == "rt" || op == "enc" {
        return;
    }
    for img in imgs {
        match op {
            "dec" => out.push(format!("dec {} {}", if r.chance(1, 2) { "111" } else { "000" }, hex(&img))),
            "fix" => out.push(format!("fix {} {}", if r.chance(1, 2) { "111" } else { "000" }, hex(&img))),
            "sfx" => out.push(format!("sfx 111 {} {}", hex(&img), hex(&r.bytes(1 + r.below(12))))),
            "c15" => out.push(format!("dec 111 {}", hex(&img))),
            _ => out.push(format!("{} {}", op, hex(&img))),
        }
    }
}

// ---------------------------------------------------------------- per-property streams

pub struct Out {
    pub lines: Vec<String>,
}
impl Out {
    fn push(&mut self, s: String) {
        self.lines.push(s);
    }
}

/// Values chosen by rule, not by chance: for every AVP kind each field at its boundaries and with every single
/// bit set, every value of the small enumerated fields, every presence combination of the optional parts with
/// texts of 1..4 octets.  (`empty_text`: also `Some("")`, which the encoder accepts but which does not survive
/// a round trip — only for the streams whose property does not exclude it.)
pub fn systematic_avps(empty_text: bool) -> Vec<TAvp> {
    let mut v: Vec<TAvp> = vec![];
    let a = |k: &str, args: Vec<String>| TAvp::new(k, args);
    let u16s: Vec<u16> = {
        let mut x = vec![0u16, 1, 0x7f, 0x80, 0xff, 0x100, 0x7fff, 0x8000, 0xfffe, 0xffff];
        x.extend((0..16).map(|b| 1u16 << b));
        x
    };
    let u32s: Vec<u32> = {
        let mut x = vec![0u32, 1, 0xff, 0x100, 0xffff, 0x1_0000, 0x7fff_ffff, 0x8000_0000, 0xffff_ffff, 0x0102_0304];
        x.extend((0..32).map(|b| 1u32 << b));
        x
    };
    for k in U16_KINDS.iter() {
        for x in u16s.iter() {
            v.push(a(k, vec![x.to_string()]));
        }
    }
    for k in U32_KINDS.iter() {
        for x in u32s.iter() {
            v.push(a(k, vec![x.to_string()]));
        }
    }
    for k in MASK_KINDS.iter() {
        for x in u32s.iter() {
            v.push(a(k, vec![x.to_string()]));
            v.push(a(k, vec![(!x).to_string()]));
        }
    }
    for b in 0..64 {
        v.push(a("TieBreaker", vec![(1u64 << b).to_string()]));
    }
    v.push(a("TieBreaker", vec!["0".into()]));
    v.push(a("TieBreaker", vec![u64::MAX.to_string()]));
    v.push(a("TieBreaker", vec![0x0102_0304_0506_0708u64.to_string()]));
    for (x, y) in [(0u8, 0u8), (1, 0), (0, 1), (255, 255), (0, 255), (255, 0), (1, 2)] {
        v.push(a("ProtocolVersion", vec![x.to_string(), y.to_string()]));
    }
    // (terminator-like, padding-like and marker-like characters are part of a text: trailing and lone NULs, white
    // space at either end, CR LF, a byte-order mark, the replacement character)
    let texts: Vec<&[u8]> = vec![
        b"x", b"OK", b"NCC", b"four", b"fives", "\u{20ac}".as_bytes(), "\u{fffd}".as_bytes(), b"a\0", b"a\0\0", b"\0", b"\0\0\0", b" a ", b"a\r\n", b"a\n",
        "\u{feff}a".as_bytes(), b"1234567\0", b"\0a",
    ];
    let mut msgs: Vec<String> = vec!["-".to_string()];
    if empty_text {
        msgs.push(String::new());
    }
    msgs.extend(texts.iter().map(|t| hex(t)));
    for code in [0u16, 1, 2, 7, 11, 12, 255, 256, 65535] {
        v.push(a("ResultCode", vec![code.to_string(), "-".into(), "-".into()]));
        for e in ERROR_TYPES.iter() {
            for m in msgs.iter() {
                if code < 3 || m == "-" || code == 65535 {
                    v.push(a("ResultCode", vec![code.to_string(), format!("{:?}", e), m.clone()]));
                }
            }
        }
    }
    for code in [0u16, 1, 16, 255, 256, 65535] {
        for msg in [0u8, 1, 127, 128, 255] {
            for m in msgs.iter() {
                if code == 16 || msg == 0 || m == "-" {
                    v.push(a("Q931CauseCode", vec![code.to_string(), msg.to_string(), m.clone()]));
                }
            }
        }
    }
    let pat = |n: usize, i: usize, bit: u8| -> Vec<u8> {
        let mut b = vec![0u8; n];
        b[i] = bit;
        b
    };
    for i in 0..16 {
        v.push(a("ChallengeResponse", vec![hex(&pat(16, i, 0x80))]));
        v.push(a("ChallengeResponse", vec![hex(&pat(16, i, 0x01))]));
    }
    v.push(a("ChallengeResponse", vec![hex(&[0xffu8; 16])]));
    v.push(a("ChallengeResponse", vec![hex(&(1..=16).collect::<Vec<u8>>())]));
    for k in ["RandomVector", "PhysicalChannelId"] {
        for i in 0..4 {
            for bit in [0x01u8, 0x80, 0xff] {
                v.push(a(k, vec![hex(&pat(4, i, bit))]));
            }
        }
        v.push(a(k, vec![hex(&[1u8, 2, 3, 4])]));
    }
    for x in [0u8, 1, 127, 128, 255] {
        v.push(a("ProxyAuthenId", vec![x.to_string()]));
    }
    for i in 0..6 {
        for x in [1u32, 0x8000_0000, 0xffff_ffff, 0x0102_0304] {
            let mut f = vec!["0".to_string(); 6];
            f[i] = x.to_string();
            v.push(a("CallErrors", f));
        }
    }
    v.push(a("CallErrors", (1..=6u32).map(|x| (x * 0x0101_0101).to_string()).collect()));
    for i in 0..4 {
        for bit in [0x01u8, 0x80] {
            v.push(a("Accm", vec![hex(&pat(4, i, bit)), hex(&[0u8; 4])]));
            v.push(a("Accm", vec![hex(&[0u8; 4]), hex(&pat(4, i, bit))]));
        }
    }
    v.push(a("Accm", vec![hex(&[1u8, 2, 3, 4]), hex(&[5u8, 6, 7, 8])]));
    v.push(a("SequencingRequired", vec![]));
    for k in BYTE_KINDS.iter() {
        for b in [vec![0u8], vec![0xff], vec![0, 0], vec![1, 2, 3], vec![0xffu8; 4], (0..=255u8).collect::<Vec<u8>>()] {
            v.push(a(k, vec![hex(&b)]));
        }
        // an octet string is opaque: padding-like, terminator-like and structure-like octets are part of the value —
        // zeros behind and in front, a trailing CR LF / NUL / 0xff, type-length-value options (an LCP packet's
        // contents) alone and with zeros behind them, a value that is a whole LCP packet
        for b in [
            vec![7u8, 2, 0], vec![1, 4, 5, 0xdc, 0, 0], vec![1, 4, 5, 0xdc, 3, 4, 0xc0, 0x23, 0, 0, 0], vec![1, 4, 5, 0xdc], vec![0, 0, 1, 2], vec![0x61, 0],
            vec![0x61, 0x0d, 0x0a], vec![0x61, 0xff], vec![0x20, 0x61, 0x20], vec![1, 9, 0, 8, 1, 4, 5, 0xdc], vec![1, 9, 0, 8, 1, 4, 5, 0xdc, 0, 0], vec![0u8; 16],
        ] {
            v.push(a(k, vec![hex(&b)]));
        }
    }
    for k in STR_KINDS.iter() {
        for t in texts.iter() {
            v.push(a(k, vec![hex(t)]));
        }
        v.push(a(k, vec![hex(&[0x61u8; 250])]));
        v.push(a(k, vec![hex(&[0x61u8; 251])]));
    }
    for m in MESSAGE_TYPES.iter() {
        v.push(a("MessageType", vec![format!("{:?}", m)]));
    }
    for p in PROXY_TYPES.iter() {
        v.push(a("ProxyAuthenType", vec![format!("{:?}", p)]));
    }
    for (t, l) in [(0u16, 0usize), (7, 1), (65535, 16), (1, 250), (39, 251)] {
        v.push(a("Hidden", vec![t.to_string(), if l == 0 { ".".to_string() } else { hex(&vec![0x5au8; l]) }]));
    }
    v
}

fn decode_stream(r: &Rng, out: &mut Out, n: usize, with_leaf: bool) {
    // exhaustive small domains first
    for len in 0..=24usize {
        for blen in [0usize, 1, 5, 6, 7, 8, 12, 20] {
            let mut v = vec![0x13, 0x20];
            v.extend_from_slice(&(len as u16).to_be_bytes());
            v.extend_from_slice(&[0, 1, 0, 2, 0, 3, 0, 4]);
            v.extend(std::iter::repeat(0u8).take(blen));
            out.push(format!("dec 111 {}", hex(&v)));
        }
    }
    for alen in 0..=24usize {
        for blen in [0usize, 1, 2, 6, 10, 18, 30] {
            for attr in [0u16, 7, 20] {
                let mut rec = vec![((alen >> 8) as u8) << 6 | 1, alen as u8, 0, 0];
                rec.extend_from_slice(&attr.to_be_bytes());
                rec.extend((0..blen).map(|i| i as u8 + 1));
                out.push(format!("avps {}", hex(&rec)));
                let img = assemble(0x1320, 1, 2, 3, 4, &[mt_record(r), rec]);
                out.push(format!("dec 111 {}", hex(&img)));
            }
        }
    }
    // every attribute number 0..=41 with values at the sizes where a length field changes shape or a cap could sit:
    // around 255/256, 511/512, and the top of the range (1014..=1017 = the largest value an AVP can carry), as
    // octets any kind takes (ASCII letters), plain and with the H bit, bare and inside a message
    for attr in 0..=41u16 {
        for vl in [249usize, 250, 251, 255, 256, 257, 505, 506, 507, 511, 512, 1000, 1013, 1014, 1015, 1016, 1017] {
            let payload: Vec<u8> = (0..vl).map(|i| 0x41 + (i % 26) as u8).collect();
            for fl in [1u8, 3] {
                let rec = record(fl, 0, attr, &payload);
                out.push(format!("avps {}", hex(&rec)));
                if vl >= 1013 || vl == 256 {
                    let img = assemble(0x1320, 1, 2, 3, 4, &[mt_record(r), rec]);
                    out.push(format!("dec 111 {}", hex(&img)));
                }
            }
        }
    }
    // data messages over the 16 L/S/O/P combinations, length field around the truth, offsets
    for bits in 0..16u16 {
        let (l, s, o, p) = (bits & 1 != 0, bits & 2 != 0, bits & 4 != 0, bits & 8 != 0);
        let w: u16 = 0x0020 | if l { 0x0200 } else { 0 } | if s { 0x1000 } else { 0 } | if o { 0x4000 } else { 0 } | if p { 0x8000 } else { 0 };
        for dl in [0usize, 1, 2, 5] {
            for offv in [0u16, 1, 2, 0xFFFF] {
                let hdr = data_header_len(l, s, o);
                let total = hdr + dl;
                let lens: Vec<usize> = if l { (0..=total + 2).collect() } else { vec![0] };
                for lv in lens {
                    let mut v = w.to_be_bytes().to_vec();
                    if l {
                        v.extend_from_slice(&(lv as u16).to_be_bytes());
                    }
                    v.extend_from_slice(&[0, 7, 0, 9]);
                    if s {
                        v.extend_from_slice(&[0, 1, 0, 2]);
                    }
                    if o {
                        v.extend_from_slice(&offv.to_be_bytes());
                    }
                    v.extend((0..dl).map(|i| 0xa0 + i as u8));
                    out.push(format!("dec {} {}", if bits % 2 == 0 { "111" } else { "010" }, hex(&v)));
                }
                if !o {
                    break;
                }
            }
        }
    }
    // every single-octet substitution in a few representative images (all 256 values in the thorough tier; the
    // corners, the neighbours and each flipped bit otherwise): no single-octet fault depends on the random stream
    {
        let full = n > 100000;
        let mk = |k: &str, a: Vec<&str>| encode_avp(&TAvp::new(k, a.into_iter().map(|x| x.to_string()).collect())).unwrap();
        let imgs: Vec<Vec<u8>> = vec![
            assemble(0x1320, 1, 2, 3, 4, &[mk("MessageType", vec!["StartControlConnectionRequest"]), mk("ProtocolVersion", vec!["1", "0"]), mk("HostName", vec!["6c6163"]),
                mk("ResultCode", vec!["1", "Generic", "6f6b"]), mk("Hidden", vec!["7", "000102030405060708090a0b0c0d0e0f"]), mk("Q931CauseCode", vec!["16", "1", "4e43"])]),
            assemble(0x1320, 0xffff, 0, 0, 0xffff, &[mk("MessageType", vec!["CallDisconnectNotify"]), mk("ProxyAuthenType", vec!["PppChap"]), mk("Accm", vec!["01020304", "05060708"]),
                mk("SequencingRequired", vec![]), mk("VendorName", vec!["e282ac"])]),
            assemble(0x1320, 1, 2, 3, 4, &[]),
            vec![0x52, 0x20, 0x00, 0x12, 0, 7, 0, 9, 0, 1, 0, 2, 0, 2, 0xee, 0xee, 0xaa, 0xbb],
            vec![0x80, 0x20, 0, 7, 0, 9, 0xaa],
        ];
        for (k, img) in imgs.iter().enumerate() {
            for pos in 0..img.len() {
                let orig = img[pos];
                let mut vals: Vec<u8> = if full { (0..=255u8).collect() } else {
                    let mut v = vec![0u8, 1, 0x7f, 0x80, 0xff, orig.wrapping_add(1), orig.wrapping_sub(1)];
                    v.extend((0..8).map(|b| orig ^ (1 << b)));
                    v
                };
                vals.sort();
                vals.dedup();
                for x in vals {
                    if x == orig {
                        continue;
                    }
                    let mut m = img.clone();
                    m[pos] = x;
                    out.push(format!("dec {} {}", if (k + pos) % 2 == 0 { "111" } else { "000" }, hex(&m)));
                }
            }
            // and every truncation
            for cut in 0..img.len() {
                out.push(format!("dec 010 {}", hex(&img[..cut])));
            }
        }
    }
    // the AVP header: every value of its first two octets (flags, length high bits, length low octet) over a fixed tail
    for w in 0..=65535u32 {
        if n > 100000 || w % 5 == 0 || w < 1200 || (w & 0xff) < 12 {
            let mut rec = vec![(w >> 8) as u8, w as u8, 0, 0, 0, 7];
            rec.extend_from_slice(&[0x61, 0x62, 0x63, 0x64, 0x65, 0x66, 0x67, 0x68, 0x69, 0x6a]);
            out.push(format!("avps {}", hex(&rec)));
        }
    }
    // long record lists: counts around 255/256 and far beyond, all good, and with bad ones among them
    // (10919 = as many six-octet records as a control message can hold behind its Message Type AVP)
    for count in [255usize, 256, 257, 1000, 5000, 10919] {
        for every in [0usize, 1, 7] {
            let mut recs = vec![mt_record(r)];
            for i in 0..count {
                if every != 0 && i % every == 0 {
                    recs.push(record(1, 0, 99, &[]));
                } else {
                    recs.push(record(1, 0, 39, &[]));
                }
            }
            if count > 10000 && every == 1 {
                continue; // the model walks a list: two of these are enough to pay for
            }
            let img = assemble(0x1320, 1, 2, 3, 4, &recs);
            out.push(format!("dec 111 {}", hex(&img)));
            if count <= 10000 {
                out.push(format!("avps {}", hex(&img[12..])));
            }
        }
    }
    // the enumerated fields: every code 0..=40 and the 16-bit corners, at each place a code is carried
    for code in (0..=40u16).chain([0x00ff, 0x0100, 0x0101, 0x0111, 0x1100, 0x7fff, 0x8000, 0x8001, 0xff05, 0xfffe, 0xffff]) {
        let c = code.to_be_bytes();
        let mut recs: Vec<Vec<u8>> = vec![record(1, 0, 0, &c), record(1, 0, 29, &c), record(1, 0, 1, &c), record(1, 0, 1, &[0, 1, c[0], c[1]]), record(1, 0, 1, &[0, 1, c[0], c[1], 0x6f, 0x6b])];
        // the attribute number itself, with a payload most kinds accept
        recs.push(record(1, 0, code, &[0, 1, 0, 1, 0, 1, 0, 1, 0, 1]));
        recs.push(record(1, 0, code, &[]));
        recs.push(record(3, 0, code, &r.bytes(16)));
        for rec in recs {
            out.push(format!("avps {}", hex(&rec)));
            out.push(format!("dec 111 {}", hex(&assemble(0x1320, 1, 2, 3, 4, &[rec.clone()]))));
            out.push(format!("dec 000 {}", hex(&assemble(0x1320, 1, 2, 3, 4, &[mt_record(r), rec]))));
        }
    }
    if with_leaf {
        for k in ALL_KINDS.iter() {
            let attr = crate::ops::attr_of_kind(k).unwrap();
            for l in 0..=min_len(attr) + 2 {
                let p: Vec<u8> = (0..l).map(|i| (i as u8) & 1).collect();
                out.push(format!("pay {} {}", attr, hex(&p)));
            }
        }
    }
    // every kind through the public path, correctly framed, with every payload length around its format's
    // minimum and around each optional field: one octet short, exact, one octet over
    for k in ALL_KINDS.iter() {
        let attr = crate::ops::attr_of_kind(k).unwrap();
        for l in 0..=min_len(attr) + 6 {
            for variant in 0..3 {
                let p: Vec<u8> = match variant {
                    0 => (0..l).map(|i| (i as u8) & 1).collect(),
                    1 => vec![0u8; l],
                    _ => r.bytes(l),
                };
                let total = 6 + l;
                let mut rec = vec![((total >> 8) as u8) << 6 | (variant as u8 & 1), total as u8, 0, 0];
                rec.extend_from_slice(&attr.to_be_bytes());
                rec.extend_from_slice(&p);
                out.push(format!("avps {}", hex(&rec)));
                let img = assemble(0x1320, 1, 2, 3, 4, &[mt_record(r), rec]);
                out.push(format!("dec {} {}", if variant == 0 { "111" } else { "000" }, hex(&img)));
            }
        }
    }
    for i in 0..n {
        let b = match i % 10 {
            0 | 1 | 2 => valid_image(r, i % 40 == 0),
            3 | 4 | 5 | 6 => {
                let v = valid_image(r, false);
                let mut m = mutate(r, &v);
                if r.chance(1, 4) {
                    m = mutate(r, &m);
                }
                m
            }
            7 => {
                // every truncation of one structured message (spread over cases)
                let v = valid_image(r, false);
                let cut = r.below(v.len() + 1);
                v[..cut].to_vec()
            }
            8 => noncanonical(r),
            _ => raw(r),
        };
        if i % 7 == 3 {
            let body = if b.len() > 12 { &b[12..] } else { &b[..] };
            out.push(format!("avps {}", hex(body)));
        } else if with_leaf && i % 11 == 5 {
            let k = *r.pick(&ALL_KINDS);
            let attr = crate::ops::attr_of_kind(k).unwrap();
            let p = match encode_avp(&gen_avp_kind(r, k, false)) {
                Some(rec) => {
                    let mut p = rec[6..].to_vec();
                    if r.chance(1, 2) {
                        p = mutate(r, &p);
                    }
                    p
                }
                None => r.bytes(4),
            };
            out.push(format!("pay {} {}", attr, hex(&p)));
        } else {
            out.push(format!("dec {} {}", opts(r), hex(&b)));
        }
    }
}

fn c03_stream(r: &Rng, out: &mut Out, n: usize, thorough: bool) {
    for t in systematic_avps(false) {
        out.push(format!("rta {}", t.render()));
    }
    // every kind: extremes and the payload-length ladder
    for k in ALL_KINDS.iter() {
        for _ in 0..(if thorough { 40 } else { 12 }) {
            out.push(format!("rta {}", gen_avp_kind(r, k, true).render()));
        }
    }
    for v in 0..=255u16 {
        out.push(format!("rta ProxyAuthenId({})", v));
    }
    for m in MESSAGE_TYPES.iter() {
        out.push(format!("rta MessageType({:?})", m));
    }
    for p in PROXY_TYPES.iter() {
        out.push(format!("rta ProxyAuthenType({:?})", p));
    }
    for e in ERROR_TYPES.iter() {
        out.push(format!("rta ResultCode(2,{:?},-)", e));
        out.push(format!("rta ResultCode(65535,{:?},41)", e));
    }
    // every AVP length 6..=1023 for byte-string kinds and Hidden (exercises the two high length bits)
    let step = if thorough { 1 } else { 7 };
    let mut l = 1usize;
    while l <= 1017 {
        let k = BYTE_KINDS[l % 9];
        out.push(format!("rta {}({})", k, hex(&r.bytes(l))));
        out.push(format!("rta Hidden({},{})", l % 41, hex(&r.bytes(l))));
        if l % 3 == 0 {
            out.push(format!("rta {}({})", STR_KINDS[l % 4], hex(&utf8(r, l))));
        }
        l += step;
    }
    out.push("rta Hidden(0,.)".to_string());
    out.push(format!("rta Hidden(65535,{})", hex(&r.bytes(1017))));
    for k in BYTE_KINDS.iter() {
        out.push(format!("rta {}({})", k, hex(&r.bytes(1017))));
        out.push(format!("rta {}({})", k, hex(&r.bytes(1))));
    }
    for t in big_controls(r) {
        out.push(format!("rt {}", t.render()));
        out.push(format!("rt {}", gen_control(r, 4, false).render()));
        out.push(format!("rta {}", gen_avp(r, false).render()));
    }
    for i in 0..n {
        let big = i % 25 == 0;
        let t = gen_control(r, if i % 50 == 0 { 40 } else { 8 }, big);
        out.push(format!("rt {}", t.render()));
    }
    out.push("rt C(0,0,0,0,0)[]".to_string());
    // many AVPs in one message (counts around 255/256 and far beyond)
    for count in [64usize, 255, 256, 257, 1000, 4000] {
        let mut avps = vec![TAvp::new("MessageType", vec!["Hello".into()])];
        for i in 0..count {
            avps.push(match i % 4 {
                0 => TAvp::new("SequencingRequired", vec![]),
                1 => TAvp::new("AssignedTunnelId", vec![(i as u16).to_string()]),
                2 => TAvp::new("HostName", vec![hex(&[0x61 + (i % 26) as u8])]),
                _ => TAvp::new("ProtocolVersion", vec!["1".into(), "0".into()]),
            });
        }
        let m = TMsg::Control { len: 0, tid: 1, sid: 2, ns: 3, nr: 4, avps };
        out.push(format!("rt {}", m.render()));
        out.push(format!("rtp 0102030405 {}", m.render()));
    }
    // the same round trip with the message encoded behind what the writer already holds (another message, say)
    for i in 0..(n / 10).max(100) {
        let pl = *r.pick(&[1usize, 2, 3, 4, 7, 12, 20, 255, 256, 300, 1023]);
        let t = gen_control(r, if i % 10 == 0 { 20 } else { 5 }, i % 7 == 0);
        out.push(format!("rtp {} {}", hex(&r.bytes(pl)), t.render()));
    }
    out.push(format!("rtp {} C(0,0,0,0,0)[]", hex(&r.bytes(12))));
    // sizes close to 65535: 63 AVPs of 1023 octets + one filler + header
    for total in [65000usize, 65534, 65535] {
        let mut avps = vec![TAvp::new("MessageType", vec!["Hello".into()])];
        let mut size = 12 + 8;
        while size + 1023 <= total {
            avps.push(TAvp::new("Challenge", vec![hex(&r.bytes(1017))]));
            size += 1023;
        }
        let rest = total - size;
        if rest >= 7 {
            avps.push(TAvp::new("HostName", vec![hex(&r.bytes(rest - 6))]));
            size += rest;
        }
        let _ = size;
        out.push(format!("rt {}", TMsg::Control { len: 0, tid: 1, sid: 2, ns: 3, nr: 4, avps }.render()));
    }
}

fn c04_stream(r: &Rng, out: &mut Out, n: usize) {
    for bits in 0..16u8 {
        for dl in [1usize, 2, 255, 256, 1400] {
            for offsel in 0..3 {
                let (l, s, o, p) = (bits & 1 != 0, bits & 2 != 0, bits & 4 != 0, bits & 8 != 0);
                let off = if o { Some([0usize, 1.min(dl - 1), dl - 1][offsel] as u16) } else { None };
                if !o && offsel > 0 {
                    continue;
                }
                let total = data_header_len(l, s, o) + dl;
                let t = TMsg::Data {
                    p,
                    len: if l { Some(total as u16) } else { None },
                    tid: r.u16x(),
                    sid: r.u16x(),
                    nsnr: if s { Some((r.u16x(), r.u16x())) } else { None },
                    off,
                    data: r.bytes(dl),
                };
                out.push(format!("rt {}", t.render()));
            }
        }
    }
    for _ in 0..n {
        out.push(format!("rt {}", gen_data(r, true).render()));
    }
    let t = TMsg::Data { p: true, len: Some(65012), tid: 65535, sid: 0, nsnr: Some((65535, 0)), off: None, data: r.bytes(65000) };
    out.push(format!("rt {}", t.render()));
    // every payload length 1..=300 and the powers of two up to 32 768 (one below, at, one above), field combinations in turn
    let mut lens: Vec<usize> = (1..=300).collect();
    for b in 9..=15 {
        lens.extend([(1usize << b) - 1, 1 << b, (1 << b) + 1]);
    }
    for (i, dl) in lens.iter().enumerate() {
        let (l, s, o, p) = (i & 1 != 0, i & 2 != 0, i & 4 != 0, i & 8 != 0);
        let off = if o { Some(((i / 16) % (*dl)) as u16) } else { None };
        let total = data_header_len(l, s, o) + dl;
        let t = TMsg::Data { p, len: if l { Some(total as u16) } else { None }, tid: r.u16x(), sid: r.u16x(), nsnr: if s { Some((r.u16x(), r.u16x())) } else { None }, off, data: r.bytes(*dl) };
        out.push(format!("rt {}", t.render()));
    }
    // without Length the payload is whatever the datagram holds: sizes around 64 KiB and well beyond
    for (i, total) in [65530usize, 65534, 65535, 65536, 65537, 65540, 70000, 131080].iter().enumerate() {
        let nsnr = if i % 2 == 0 { None } else { Some((r.u16x(), r.u16x())) };
        let off = if i % 3 == 0 { Some(r.below(5) as u16) } else { None };
        let dl = total - data_header_len(false, nsnr.is_some(), off.is_some());
        let t = TMsg::Data { p: i % 4 == 1, len: None, tid: r.u16x(), sid: r.u16x(), nsnr, off, data: r.bytes(dl) };
        out.push(format!("rt {}", t.render()));
    }
    // offset pads of every size class in a message longer than 64 KiB (the pad test must not be done in 16 bits)
    for (i, offv) in [0usize, 1, 9, 10, 11, 100, 255, 256, 4095, 65535].iter().enumerate() {
        let dl = 65536 + 10 + i;
        let nsnr = if i % 2 == 0 { None } else { Some((r.u16x(), r.u16x())) };
        let t = TMsg::Data { p: i % 3 == 0, len: None, tid: r.u16x(), sid: r.u16x(), nsnr, off: Some(*offv as u16), data: r.bytes(dl) };
        out.push(format!("rt {}", t.render()));
    }
    for total in [65533usize, 65534, 65535] {
        let dl = total - data_header_len(true, true, false);
        let t = TMsg::Data { p: false, len: Some(total as u16), tid: r.u16x(), sid: r.u16x(), nsnr: Some((1, 2)), off: None, data: r.bytes(dl) };
        out.push(format!("rt {}", t.render()));
    }
    // the same round trip with the message encoded behind what the writer already holds
    for i in 0..(n / 20).max(50) {
        let pl = *r.pick(&[1usize, 2, 3, 7, 12, 255, 256, 300]);
        out.push(format!("rtp {} {}", hex(&r.bytes(pl)), gen_data(r, i % 2 == 0).render()));
    }
}

fn enc_stream(r: &Rng, out: &mut Out, n: usize, prefixes: bool, oversize: bool) {
    // large control messages first, ordinary traffic behind each
    for (i, t) in big_controls(r).iter().enumerate() {
        let p = if prefixes && i % 2 == 1 { hex(&r.bytes(1 + i)) } else { ".".to_string() };
        out.push(format!("enc {} {}", p, t.render()));
        out.push(format!("enc . {}", gen_control(r, 4, false).render()));
        out.push(format!("enca . {}", gen_avp(r, false).render()));
        out.push(format!("enc . {}", gen_data(r, true).render()));
    }
    for i in 0..n {
        let p = if prefixes {
            let pl = *r.pick(&[0usize, 1, 2, 3, 255, 256, 7, 12]);
            r.bytes(pl)
        } else {
            vec![]
        };
        if i % 3 == 0 {
            let t = gen_avp(r, true);
            out.push(format!("enca {} {}", hex(&p), t.render()));
        } else if i % 3 == 1 {
            let mut m = gen_control(r, 8, i % 9 == 1);
            if r.chance(1, 3) {
                m = relate_len(r, m, p.len());
            }
            out.push(format!("enc {} {}", hex(&p), m.render()));
        } else {
            let d = if i % 2 == 0 { gen_data(r, true) } else { gen_data_free(r) };
            out.push(format!("enc {} {}", hex(&p), d.render()));
        }
    }
    for count in [255usize, 256, 257, 1000] {
        let mut avps = vec![TAvp::new("MessageType", vec!["Hello".into()])];
        for i in 0..count {
            avps.push(if i % 2 == 0 { TAvp::new("SequencingRequired", vec![]) } else { TAvp::new("ReceiveWindowSize", vec![(i as u16).to_string()]) });
        }
        out.push(format!("enc {} {}", if prefixes { "0a0b0c" } else { "." }, TMsg::Control { len: 0, tid: 1, sid: 2, ns: 3, nr: 4, avps }.render()));
    }
    if prefixes {
        // every prefix length 0..=40 and the ones around 255 / 1023 / 4095 / 16383, each kind of value behind it
        let mut pls: Vec<usize> = (0..=40).collect();
        pls.extend([254usize, 255, 256, 257, 1022, 1023, 1024, 1025, 4095, 4096, 4097, 16383, 16384]);
        for (i, pl) in pls.iter().enumerate() {
            let p = r.bytes(*pl);
            out.push(format!("enc {} {}", hex(&p), gen_control(r, 3, false).render()));
            out.push(format!("enca {} {}", hex(&p), gen_avp(r, i % 5 == 0).render()));
            out.push(format!("enc {} {}", hex(&p), gen_data(r, true).render()));
        }
        // a writer that already holds a lot: around the largest UDP payload (65507), the 16-bit boundary and beyond
        for pl in [65400usize, 65500, 65507, 65535, 65536, 65537, 70000, 131072] {
            let p = r.bytes(pl);
            out.push(format!("enc {} {}", hex(&p), gen_control(r, 4, false).render()));
            out.push(format!("enca {} {}", hex(&p), gen_avp(r, false).render()));
            out.push(format!("enc {} {}", hex(&p), gen_data(r, true).render()));
            out.push(format!("enc {} {}", hex(&p), gen_data_free(r).render()));
        }
    }
    if oversize {
        for l in 1005..=1030usize {
            let k = BYTE_KINDS[l % 9];
            out.push(format!("enca . {}({})", k, hex(&r.bytes(l))));
            out.push(format!("enca . {}({})", STR_KINDS[l % 4], hex(&vec![0x61; l])));
            out.push(format!("enca . Hidden(7,{})", hex(&r.bytes(l))));
            out.push(format!("enca {} ResultCode(1,Generic,{})", hex(&r.bytes(3)), hex(&vec![0x62; l - 4])));
            out.push(format!("enca . Q931CauseCode(1,2,{})", hex(&vec![0x63; l - 3])));
        }
        // past 2^16 (a length narrowed to 16 bits before it is checked comes back into range): totals 65536+6 ..= 65536+1023
        for l in [65529usize, 65530, 65531, 65535, 65536, 65537, 65600, 66000, 66553, 66554, 131072, 131078, 132000] {
            out.push(format!("enca . {}({})", BYTE_KINDS[l % 9], hex(&vec![0x5a; l])));
            out.push(format!("enca . {}({})", STR_KINDS[l % 4], hex(&vec![0x61; l])));
            out.push(format!("enca . Hidden(7,{})", hex(&vec![0xa5; l])));
            out.push(format!("enca 0102 ResultCode(1,Generic,{})", hex(&vec![0x62; l - 4])));
            out.push(format!("enca . Q931CauseCode(1,2,{})", hex(&vec![0x63; l - 3])));
            out.push(format!("hide Challenge({}) 7365637265 deadbeef . 000102030405060708090a0b0c0d0e0f", hex(&vec![0x44; l])));
            out.push(format!("hide HostName({}) . 00000000 0102 000102030405060708090a0b0c0d0e0f", hex(&vec![0x45; l - 8])));
        }
        out.push(format!("enca . Hidden(7,{})", hex(&r.bytes(1100))));
        out.push(format!("enca . Challenge({})", hex(&r.bytes(4096))));
        // control messages with total sizes 65520..65550
        let mut totals: Vec<usize> = (65520usize..=65550).step_by(if n > 20000 { 1 } else { 3 }).collect();
        // the boundary itself, octet by octet, in every tier
        totals.extend(65531usize..=65540);
        // and the sizes whose low 16 bits are all ones, all zero or one (a total narrowed to 16 bits, or saturated,
        // before it is compared): 2·2^16 − 1 … 3·2^16 + 1
        totals.extend([131070usize, 131071, 131072, 131073, 196607, 196608, 196609]);
        totals.sort();
        totals.dedup();
        for total in totals {
            let mut avps = vec![TAvp::new("MessageType", vec!["Hello".into()])];
            let mut size = 12 + 8;
            while size + 1023 + 7 <= total {
                avps.push(TAvp::new("Challenge", vec![hex(&vec![0x11; 1017])]));
                size += 1023;
            }
            let rest = total - size;
            if rest > 1023 {
                avps.push(TAvp::new("Challenge", vec![hex(&vec![0x22; 500])]));
                size += 506;
            }
            let rest = total - size;
            avps.push(TAvp::new("HostName", vec![hex(&vec![0x33; rest - 6])]));
            out.push(format!("enc {} {}", if total % 2 == 0 { ".".to_string() } else { "aabb".to_string() }, TMsg::Control { len: 0, tid: 1, sid: 2, ns: 3, nr: 4, avps }.render()));
        }
        // a refused encode (caught by the caller) must leave nothing behind: ordinary messages and AVPs right after one
        for k in 0..12usize {
            let big = TAvp::new("Challenge", vec![hex(&vec![0x55; 1018 + k])]);
            let m = TMsg::Control { len: 0, tid: 1, sid: 2, ns: 3, nr: 4, avps: vec![TAvp::new("MessageType", vec!["Hello".into()]), big.clone()] };
            out.push(format!("enc {} {}", if k % 2 == 0 { ".".to_string() } else { "0102".to_string() }, m.render()));
            out.push(format!("enc . {}", gen_control(r, 4, false).render()));
            out.push(format!("enca . {}", big.render()));
            out.push(format!("enca . {}", gen_avp(r, false).render()));
            out.push(format!("enc 0a0b0c {}", gen_control(r, 3, false).render()));
            out.push(format!("enc . {}", gen_data(r, true).render()));
            out.push(format!("rt {}", gen_control(r, 3, false).render()));
        }
        // hide pushing the original length over the limit
        for l in 1010..=1020usize {
            out.push(format!("hide Challenge({}) 7365637265 deadbeef . 000102030405060708090a0b0c0d0e0f", hex(&vec![0x44; l])));
            // … and a refused hide leaves nothing behind either
            let t = gen_avp_kind(r, BYTE_KINDS[l % 9], false);
            let (s, rv, lp, ap) = hide_args(r, payload_len(&t));
            out.push(format!("hr {} {} {} {} {}", t.render(), hex(&s), hex(&rv), hex(&lp), hex(&ap)));
        }
    }
}

fn secret(r: &Rng) -> Vec<u8> {
    // the corners, and half of the time any length up to 130 (MD5 block boundaries of secret ‖ chunk and of
    // type ‖ secret ‖ vector, fixed-size scratch buffers)
    let l = if r.chance(1, 2) { *r.pick(&[0usize, 1, 15, 16, 17, 64, 200, 5, 9]) } else { r.below(131) };
    r.bytes(l)
}

fn hide_args(r: &Rng, value_len: usize) -> (Vec<u8>, Vec<u8>, Vec<u8>, Vec<u8>) {
    let s = secret(r);
    let rv = r.bytes(4);
    // choose lp so that the block count / alignment hits the interesting values
    let base = 2 + value_len;
    let lp_len = match r.below(6) {
        0 => 0,
        1 => (16 - base % 16) % 16,                                       // exact multiple of 16
        2 => (16 - base % 16) % 16 + 16 * r.below(4),                     // exact, more blocks
        3 => ((16 * *r.pick(&[1usize, 2, 3, 4, 5, 63])).saturating_sub(base)).min(1000), // block-count targets
        _ => r.below(40),
    };
    let mut s = s;
    let mut lp = r.bytes(lp_len);
    let mut ap = r.bytes(16);
    // the arguments related to each other: the secret equal to the random vector's octets, the padding a copy of the
    // secret or all one octet, the alignment padding equal to the start of the secret
    match r.below(20) {
        0 => s = rv.clone(),
        1 => {
            for (i, x) in lp.iter_mut().enumerate() {
                *x = if s.is_empty() { 0 } else { s[i % s.len()] };
            }
        }
        2 => {
            let b = ap[0];
            for x in ap.iter_mut() {
                *x = b;
            }
            for x in lp.iter_mut() {
                *x = b;
            }
        }
        3 => {
            for (i, x) in ap.iter_mut().enumerate() {
                *x = if s.is_empty() { 0 } else { s[i % s.len()] };
            }
        }
        _ => {}
    }
    // the arguments computed from each other (one case in twelve, decided by the arguments themselves): the secret a
    // check value of the random vector, the vector one of the secret, the padding one of the secret
    let cr = content_rng(&format!("{} {} {}", hex(&s), hex(&rv), hex(&lp)), "digest-hide");
    if cr.chance(1, 12) {
        match cr.below(3) {
            0 => s = cr.pick(&digests(&rv)).clone(),
            1 => {
                let d = md5::compute(&s).0;
                return (s, d[..4].to_vec(), lp, ap);
            }
            _ => {
                let d = cr.pick(&digests(&s)).clone();
                for (i, x) in lp.iter_mut().enumerate() {
                    *x = d[i % d.len()];
                }
            }
        }
    }
    (s, rv, lp, ap)
}

fn payload_len(t: &TAvp) -> usize {
    encode_avp(t).map(|b| b.len() - 6).unwrap_or(0)
}

fn hide_stream(r: &Rng, out: &mut Out, n: usize, op: &str) {
    // every kind's special values (bit patterns, terminator- and padding-like octets, structured octet strings) through
    // hide and reveal as well: the inner serialisation and the inner decoder see them too
    for (i, t) in systematic_avps(false).iter().enumerate() {
        if t.kind == "Hidden" || (i % 4 != 0 && !BYTE_KINDS.contains(&t.kind.as_str()) && !STR_KINDS.contains(&t.kind.as_str()) && t.kind != "ResultCode" && t.kind != "Q931CauseCode") {
            continue;
        }
        let (s_, rv, lp, ap) = hide_args(r, payload_len(t));
        if op == "hr" {
            out.push(format!("hr {} {} {} {} {}", t.render(), hex(&s_), hex(&rv), hex(&lp), hex(&ap)));
        } else {
            out.push(format!("hide {} {} {} {} {}", t.render(), hex(&s_), hex(&rv), if lp.is_empty() { ".".to_string() } else { hex(&lp) }, hex(&ap)));
        }
    }
    // outside the encodable domain: empty variable-length values and Some("") texts are hidden without complaint and
    // revealed as what the decoder makes of them (C11.reveal_hide_any); model and implementation must agree there too
    if op == "hr" {
        for k in BYTE_KINDS.iter().chain(STR_KINDS.iter()) {
            for lpl in [0usize, 14, 30] {
                out.push(format!("hr {}(.) {} {} {} {}", k, hex(&secret(r)), hex(&r.bytes(4)), hex(&r.bytes(lpl)), hex(&r.bytes(16))));
            }
        }
        for lpl in [0usize, 10, 12, 13, 40] {
            out.push(format!("hr ResultCode(7,Generic,.) {} {} {} {}", hex(&secret(r)), hex(&r.bytes(4)), hex(&r.bytes(lpl)), hex(&r.bytes(16))));
            out.push(format!("hr Q931CauseCode(16,3,.) {} {} {} {}", hex(&secret(r)), hex(&r.bytes(4)), hex(&r.bytes(lpl)), hex(&r.bytes(16))));
        }
    }
    // the value related to the key stream of its own hiding (a ciphertext chunk all zero, all ones, equal to the one
    // before it, equal to the first key), at the first, second and third chunk
    for target in 0..6usize {
        for at in 0..3usize {
            for _ in 0..3 {
                if let Some((kind, value, s_, rv, lp, cipher)) = keystream_case(r, target, at) {
                    let ap = r.bytes(16);
                    out.push(format!("{} {}({}) {} {} {} {}", op, kind, hex(&value), hex(&s_), hex(&rv), if lp.is_empty() && op != "hr" { ".".to_string() } else { hex(&lp) }, hex(&ap)));
                    if op == "hide" && cipher.len() >= 16 {
                        let attr = encode_avp(&TAvp::new(kind, vec!["00".into()])).map(|rec| ((rec[4] as u16) << 8) | rec[5] as u16).unwrap_or(0);
                        out.push(format!("reveal Hidden({},{}) {} {}", attr, hex(&cipher), hex(&s_), hex(&rv)));
                    }
                }
            }
        }
    }
    // long secrets (see reveal_stream): the 26 lengths up to each power of two 256 … 4096 and the two after
    {
        let lr = content_rng("long secrets", op);
        for p in [256usize, 512, 1024, 2048, 4096] {
            for sl in (p - 24)..=(p + 2) {
                let kind = BYTE_KINDS[sl % 9];
                let vl = 14 + sl % 40;
                out.push(format!("{} {}({}) {} {} {} {}", op, kind, hex(&lr.bytes(vl)), hex(&lr.bytes(sl)), hex(&lr.bytes(4)), hex(&lr.bytes(sl % 7)), hex(&lr.bytes(16))));
            }
        }
    }
    {
        let cr = content_rng("cipher starts with rv", op);
        for i in 0..8 {
            if let Some((kind, value, s_, rv)) = cipher_starts_with_rv(&cr) {
                out.push(format!("{} {}({}) {} {} {} {}", op, kind, hex(&value), hex(&s_), hex(&rv), hex(&cr.bytes(i % 5)), hex(&cr.bytes(16))));
            }
        }
    }
    // by rule: value lengths 1..=130 (one to nine 16-octet chunks, every remainder), length paddings that
    // leave the total just below, at and above a chunk boundary, secrets of every length 0..=70 (the MD5 block
    // boundaries of secret+chunk and of type+secret+vector lie in there) and two long ones
    let mut j = 0usize;
    for len in 1..=130usize {
        for lp in [0usize, 1, 15, 16] {
            let kind = BYTE_KINDS[j % 9];
            let sl = if j % 37 == 36 { 200 } else if j % 41 == 40 { 128 } else { j % 71 };
            let t = TAvp::new(kind, vec![hex(&r.bytes(len))]);
            let ap = r.bytes(16);
            out.push(format!("{} {} {} {} {} {}", op, t.render(), hex(&r.bytes(sl)), hex(&r.bytes(4)), hex(&r.bytes(lp)), hex(&ap)));
            j += 1;
        }
    }
    // every block count 1..=63: 2 + value + padding exactly k blocks, one octet short of it, one octet over
    for k in 1..=63usize {
        for d in [0isize, -1, 1] {
            let total = (16 * k) as isize + d;
            if total < 3 || total > 1008 {
                continue;
            }
            let total = total as usize;
            let vl = (1 + (k * 7) % 40).min(total - 2);
            let lpl = total - 2 - vl;
            let kind = BYTE_KINDS[k % 9];
            let t = TAvp::new(kind, vec![hex(&r.bytes(vl))]);
            out.push(format!("{} {} {} {} {} {}", op, t.render(), hex(&secret(r)), hex(&r.bytes(4)), hex(&r.bytes(lpl)), hex(&r.bytes(16))));
        }
    }
    for (i, t) in systematic_avps(false).iter().enumerate() {
        if t.kind == "Hidden" {
            continue;
        }
        if n > 100000 || i % 4 == 0 {
            let (s, rv, lp, ap) = hide_args(r, payload_len(t));
            out.push(format!("{} {} {} {} {} {}", op, t.render(), hex(&s), hex(&rv), hex(&lp), hex(&ap)));
        }
    }
    for i in 0..n {
        let k = ALL_KINDS[i % 39];
        let t = if i % 97 == 96 { gen_avp_kind(r, "Hidden", false) } else { gen_avp_kind(r, k, i % 13 == 0) };
        let (s, rv, lp, ap) = hide_args(r, payload_len(&t));
        out.push(format!("{} {} {} {} {} {}", op, t.render(), hex(&s), hex(&rv), hex(&lp), hex(&ap)));
    }
}

/// Hide arguments computed from each other: the value chosen so that one 16-octet chunk of the plaintext equals its
/// own key (the ciphertext chunk is all zero), its complement (all ones), the key xor the previous ciphertext chunk
/// (two equal ciphertext chunks in a row, hence two equal keys), the key xor the first key, or the key xor the last /
/// first 16 octets of the secret (a ciphertext chunk that repeats the secret's tail or head).  For the first chunk the
/// original-length field is part of it, so the random vector is searched until the first key starts with a feasible
/// length.  Returns (kind, value, secret, rv, length padding, ciphertext).
fn keystream_case(r: &Rng, target: usize, at: usize) -> Option<(&'static str, Vec<u8>, Vec<u8>, Vec<u8>, Vec<u8>, Vec<u8>)> {
    let kind = BYTE_KINDS[r.below(9)];
    let attr = {
        let rec = encode_avp(&TAvp::new(kind, vec!["00".into()]))?;
        ((rec[4] as u16) << 8) | rec[5] as u16
    };
    // (targets 4 and 5 take the ciphertext chunk from the secret's own tail / head: a secret of 16 octets and more)
    let s = if target >= 4 { r.bytes(16 + r.below(24)) } else { secret(r) };
    let key0_of = |rv: &[u8]| {
        let mut buf = attr.to_be_bytes().to_vec();
        buf.extend_from_slice(&s);
        buf.extend_from_slice(rv);
        md5::compute(&buf).0
    };
    let tgt = |i: usize, _key: &[u8; 16], key0: &[u8; 16], prev: &[u8]| -> u8 {
        match target {
            0 => 0,
            1 => 0xff,
            2 => {
                if prev.is_empty() {
                    0
                } else {
                    prev[i]
                }
            }
            3 => key0[i],
            4 => {
                if s.len() >= 16 {
                    s[s.len() - 16 + i]
                } else {
                    0
                }
            }
            _ => {
                if s.len() >= 16 {
                    s[i]
                } else {
                    0xff
                }
            }
        }
    };
    let mut rv = r.bytes(4);
    let mut vl = 46 + r.below(60);
    if at == 0 {
        let mut found = false;
        for _ in 0..20000 {
            let k = key0_of(&rv);
            let want = ((((k[0] ^ tgt(0, &k, &k, &[])) as usize) << 8) | (k[1] ^ tgt(1, &k, &k, &[])) as usize) as usize;
            if (6 + 46..=1000).contains(&want) {
                vl = want - 6;
                found = true;
                break;
            }
            rv = r.bytes(4);
        }
        if !found {
            return None;
        }
    }
    let lp_len = if r.chance(1, 2) { (16 - (2 + vl) % 16) % 16 } else { r.below(20) };
    let lp = r.bytes(lp_len);
    let mut plain = ((6 + vl) as u16).to_be_bytes().to_vec();
    plain.extend(r.bytes(vl));
    plain.extend_from_slice(&lp);
    let whole = plain.len() / 16 * 16;
    let key0 = key0_of(&rv);
    let mut key = key0;
    let mut cipher: Vec<u8> = vec![];
    for c in 0..whole / 16 {
        if c == at {
            let prev: Vec<u8> = if c > 0 { cipher[16 * (c - 1)..16 * c].to_vec() } else { vec![] };
            for i in 0..16 {
                let pos = 16 * c + i;
                if pos >= 2 && pos < 2 + vl {
                    plain[pos] = key[i] ^ tgt(i, &key, &key0, &prev);
                }
            }
        }
        let cc: Vec<u8> = (0..16).map(|i| plain[16 * c + i] ^ key[i]).collect();
        let mut b2 = s.clone();
        b2.extend_from_slice(&cc);
        key = md5::compute(&b2).0;
        cipher.extend(cc);
    }
    let value = plain[2..2 + vl].to_vec();
    Some((kind, value, s, rv, lp, cipher))
}

/// A hide whose first ciphertext chunk begins with the four octets of the random vector (the chunk that is hashed next
/// then starts like the one hashed first ended): value of three chunks and more.  (kind, value, secret, rv)
fn cipher_starts_with_rv(r: &Rng) -> Option<(&'static str, Vec<u8>, Vec<u8>, Vec<u8>)> {
    let kind = BYTE_KINDS[r.below(9)];
    let attr = {
        let rec = encode_avp(&TAvp::new(kind, vec!["00".into()]))?;
        ((rec[4] as u16) << 8) | rec[5] as u16
    };
    let s = secret(r);
    for _ in 0..20000 {
        let rv = r.bytes(4);
        let mut buf = attr.to_be_bytes().to_vec();
        buf.extend_from_slice(&s);
        buf.extend_from_slice(&rv);
        let k = md5::compute(&buf).0;
        let want = (((k[0] ^ rv[0]) as usize) << 8) | (k[1] ^ rv[1]) as usize;
        if (6 + 46..=600).contains(&want) {
            let vl = want - 6;
            let mut value = r.bytes(vl);
            value[0] = k[2] ^ rv[2];
            value[1] = k[3] ^ rv[3];
            return Some((kind, value, s, rv));
        }
    }
    None
}

/// RFC 2661 4.3 applied to a plaintext that is already a multiple of 16 octets (the generator's own
/// rendering, so that a ciphertext can be made to decrypt to any chosen octets)
fn hide_raw(attr: u16, secret: &[u8], rv: &[u8], plain: &[u8]) -> Vec<u8> {
    let mut buf = attr.to_be_bytes().to_vec();
    buf.extend_from_slice(secret);
    buf.extend_from_slice(rv);
    let mut key = md5::compute(&buf).0;
    let mut out = vec![];
    for chunk in plain.chunks(16) {
        let c: Vec<u8> = chunk.iter().zip(key.iter()).map(|(a, b)| a ^ b).collect();
        let mut b2 = secret.to_vec();
        b2.extend_from_slice(&c);
        key = md5::compute(&b2).0;
        out.extend(c);
    }
    out
}

/// a `reveal` case whose hidden value decrypts to the original-length field `6 + payload + dl` (dl = 0: consistent),
/// the payload, and padding up to a chunk boundary (plus `extra` whole chunks)
fn crafted_reveal(r: &Rng, out: &mut Out, attr: u16, payload: &[u8], dl: isize, extra: usize) {
    let s = secret(r);
    let rv = r.bytes(4);
    let want = (6 + payload.len() as isize + dl).max(0) as usize;
    let mut plain = (want as u16).to_be_bytes().to_vec();
    plain.extend_from_slice(payload);
    let pad = (16 - plain.len() % 16) % 16 + 16 * extra;
    plain.extend(r.bytes(pad));
    if plain.len() > 1017 {
        return;
    }
    out.push(format!("reveal Hidden({},{}) {} {}", attr, hex(&hide_raw(attr, &s, &rv, &plain)), hex(&s), hex(&rv)));
}

/// what an inner decoder can be handed once the chain is undone: for every attribute number 0..=41 every payload
/// length around the kind's minimum, every message-type / error-type / proxy-type code around the assigned ranges,
/// the undecodable payloads of `bad_record`, valid payloads of every kind, and each of them also with the
/// original-length field one off
fn reveal_inner_stream(r: &Rng, out: &mut Out, thorough: bool) {
    for attr in 0..=41u16 {
        let m = min_len(attr);
        for l in 0..=(m + 3).min(40) {
            crafted_reveal(r, out, attr, &r.bytes(l), 0, 0);
            crafted_reveal(r, out, attr, &vec![0u8; l], 0, r.below(2));
        }
    }
    for code in (0..=40u16).chain([255, 256, 0x0100, 0x1100, 0x7fff, 0x8000, 0xffff]) {
        crafted_reveal(r, out, 0, &code.to_be_bytes(), 0, 0);
        crafted_reveal(r, out, 29, &code.to_be_bytes(), 0, 0);
        let mut p = vec![0, 1];
        p.extend_from_slice(&code.to_be_bytes());
        crafted_reveal(r, out, 1, &p, 0, 0);
        p.extend_from_slice(b"why");
        crafted_reveal(r, out, 1, &p, 0, 0);
    }
    // the announced value does not decode (too short for its kind, an unassigned code) and the padding behind it is
    // itself a well-formed AVP record: the padding is padding, whatever it looks like
    {
        let pr = content_rng("padding that parses", "reveal");
        for (attr, payload) in [(9u16, vec![7u8]), (5, vec![1, 2, 3]), (0, vec![0, 99]), (29, vec![0, 77]), (3, vec![0, 0, 1]), (35, vec![0; 9]), (13, vec![1; 15])] {
            for pad_rec in [record(1, 0, 7, b"AB"), record(0, 0, 39, &[]), record(1, 0, 10, &[0, 4]), record(3, 0, 7, &pr.bytes(10))] {
                let mut plain = ((6 + payload.len()) as u16).to_be_bytes().to_vec();
                plain.extend_from_slice(&payload);
                plain.extend_from_slice(&pad_rec);
                while plain.len() % 16 != 0 {
                    plain.push(0);
                }
                let s = secret(&pr);
                let rv = pr.bytes(4);
                out.push(format!("reveal Hidden({},{}) {} {}", attr, hex(&hide_raw(attr, &s, &rv, &plain)), hex(&s), hex(&rv)));
            }
        }
    }
    for _ in 0..(if thorough { 6000 } else { 600 }) {
        let (rec, _) = bad_record(r, true);
        if rec.len() >= 6 && rec[2] == 0 && rec[3] == 0 && rec[0] & 2 == 0 {
            let attr = ((rec[4] as u16) << 8) | rec[5] as u16;
            crafted_reveal(r, out, attr, &rec[6..], 0, 0);
        }
        let g = good_record(r);
        if g[0] & 2 == 0 {
            let attr = ((g[4] as u16) << 8) | g[5] as u16;
            let dl = *r.pick(&[0isize, 0, 0, -1, 1, -2]);
            crafted_reveal(r, out, attr, &g[6..], dl, r.below(2));
        }
    }
    for (i, t) in systematic_avps(false).iter().enumerate() {
        if t.kind != "Hidden" && (thorough || i % 3 == 0) {
            if let Some(rec) = encode_avp(t) {
                let attr = ((rec[4] as u16) << 8) | rec[5] as u16;
                crafted_reveal(r, out, attr, &rec[6..], 0, 0);
            }
        }
    }
}

/// C13: ciphertexts built so that the decrypted length field takes chosen values
fn reveal_stream(r: &Rng, out: &mut Out, n: usize) {
    reveal_inner_stream(r, out, n > 100000);
    // every value length that is a multiple of 16 up to 1024 (crafted so that it decrypts to a well-formed value of
    // exactly that extent, and to one that claims one octet more), and the lengths next to each multiple
    for k in 1..=64usize {
        let vlen = 16 * k;
        let s = secret(r);
        let rv = r.bytes(4);
        for dl in [0usize, 1] {
            let mut plain = ((6 + vlen - 2 + dl) as u16).to_be_bytes().to_vec();
            plain.extend(r.bytes(vlen - 2));
            out.push(format!("reveal Hidden(7,{}) {} {}", hex(&hide_raw(7, &s, &rv, &plain)), hex(&s), hex(&rv)));
        }
        out.push(format!("reveal Hidden(7,{}) {} {}", hex(&r.bytes(vlen - 1)), hex(&s), hex(&rv)));
        out.push(format!("reveal Hidden(7,{}) {} {}", hex(&r.bytes(vlen + 1)), hex(&s), hex(&rv)));
    }
    // a value that decrypts to a well-formed AVP, made misaligned: 1..15 stray octets behind it, or its last chunk
    // cut short — refused whatever the first chunk says (short payloads that fit the first chunk included)
    for pl in (0..=20usize).chain([30, 31, 32, 46, 47]) {
        for extra in 0..2usize {
            let s = secret(r);
            let rv = r.bytes(4);
            let (attr, payload) = match pl {
                0 => (39u16, vec![]),
                2 => (9u16, r.bytes(2)),
                _ => (7u16, r.bytes(pl.max(1))),
            };
            let mut plain = ((6 + payload.len()) as u16).to_be_bytes().to_vec();
            plain.extend_from_slice(&payload);
            let pad = (16 - plain.len() % 16) % 16 + 16 * extra;
            plain.extend(r.bytes(pad));
            let good = hide_raw(attr, &s, &rv, &plain);
            for k in [1usize, 2, 7, 8, 15] {
                let mut v = good.clone();
                v.extend(r.bytes(k));
                out.push(format!("reveal Hidden({},{}) {} {}", attr, hex(&v), hex(&s), hex(&rv)));
                if good.len() > k {
                    out.push(format!("reveal Hidden({},{}) {} {}", attr, hex(&good[..good.len() - k]), hex(&s), hex(&rv)));
                }
            }
        }
    }
    // every secret length 0..=130 against values of one, two and three chunks, random and crafted
    for sl in 0..=130usize {
        for chunks in 1..=3usize {
            let s = r.bytes(sl);
            let rv = r.bytes(4);
            out.push(format!("reveal Hidden({},{}) {} {}", sl % 41, hex(&r.bytes(16 * chunks)), hex(&s), hex(&rv)));
            let payload = r.bytes(16 * chunks - 2 - (sl % 3));
            let mut plain = ((6 + payload.len()) as u16).to_be_bytes().to_vec();
            plain.extend_from_slice(&payload);
            plain.extend(r.bytes(16 * chunks - plain.len()));
            out.push(format!("reveal Hidden(7,{}) {} {}", hex(&hide_raw(7, &s, &rv, &plain)), hex(&s), hex(&rv)));
        }
    }
    // long secrets: every length in the 26 octets up to 256, 512, 1024, 2048 and 4096 and the two after (scratch buffers
    // sized by a power of two, or by the AVP limit), against values of two and three chunks, random and well-formed
    {
        let lr = content_rng("long secrets", "reveal");
        for p in [256usize, 512, 1024, 2048, 4096] {
            for sl in (p - 24)..=(p + 2) {
                let s = lr.bytes(sl);
                let rv = lr.bytes(4);
                let chunks = 2 + sl % 2;
                out.push(format!("reveal Hidden({},{}) {} {}", sl % 41, hex(&lr.bytes(16 * chunks)), hex(&s), hex(&rv)));
                let payload = lr.bytes(16 * chunks - 2 - (sl % 3));
                let mut plain = ((6 + payload.len()) as u16).to_be_bytes().to_vec();
                plain.extend_from_slice(&payload);
                plain.extend(lr.bytes(16 * chunks - plain.len()));
                out.push(format!("reveal Hidden(7,{}) {} {}", hex(&hide_raw(7, &s, &rv, &plain)), hex(&s), hex(&rv)));
            }
        }
        out.push(format!("reveal Hidden(7,{}) {} {}", hex(&lr.bytes(32)), hex(&lr.bytes(65535)), hex(&lr.bytes(4))));
    }
    for i in 0..n {
        let t: u16 = if r.chance(4, 5) { *r.pick(&[0u16, 1, 5, 7, 8, 12, 13, 34, 35, 39, 20, 40]) } else { r.u16x() };
        let s = secret(r);
        let rv = r.bytes(4);
        let vlen = *r.pick(&[0usize, 1, 15, 16, 17, 32, 48, 64, 1008, 1024, 16, 16, 32]);
        let mut v = r.bytes(vlen);
        if i % 3 != 0 && vlen >= 16 && vlen % 16 == 0 {
            // choose the decrypted length
            let want = *r.pick(&[0usize, 5, 6, 7, 8, vlen + 3, vlen + 4, vlen + 5, 1023, 1024, 0xFFFF, 6 + r.below(vlen.max(1))]);
            let mut buf = t.to_be_bytes().to_vec();
            buf.extend_from_slice(&s);
            buf.extend_from_slice(&rv);
            let k = md5::compute(&buf).0;
            v[0] = k[0] ^ (want >> 8) as u8;
            v[1] = k[1] ^ want as u8;
            if i % 2 == 0 && vlen == 16 {
                // make the decrypted payload plausible for the type: zeros/ones
                for j in 2..16 {
                    v[j] = k[j] ^ ((j as u8) & 1);
                }
            }
        }
        out.push(format!("reveal Hidden({},{}) {} {}", t, hex(&v), hex(&s), hex(&rv)));
    }
    // non-hidden input: identity
    for _ in 0..20 {
        let t = gen_avp(r, false);
        out.push(format!("reveal {} {} {}", t.render(), hex(&secret(r)), hex(&r.bytes(4))));
    }
}

fn c08_stream(r: &Rng, out: &mut Out, n: usize) {
    for i in 0..n {
        match i % 4 {
            0 | 1 => {
                let b = if r.below(8) < 5 { valid_image(r, false) } else if r.chance(1, 2) { noncanonical(r) } else { data_image_noncanonical(r) };
                let s = match r.below(3) {
                    0 => r.bytes(1),
                    1 => valid_image(r, false),
                    _ => {
                        let n = r.below(64);
                        r.bytes(n)
                    }
                };
                out.push(format!("sfx {} {} {}", opts(r), hex(&b), hex(&s)));
            }
            2 => {
                let k = 1 + r.below(8);
                let mut ms = vec![];
                for j in 0..k {
                    let last = j == k - 1;
                    let t = if r.chance(1, 2) {
                        gen_control(r, 4, false)
                    } else {
                        let mut d = gen_data(r, false);
                        if let TMsg::Data { len, data, nsnr, .. } = &mut d {
                            if !last && len.is_none() {
                                *len = Some((data_header_len(true, nsnr.is_some(), false) + data.len()) as u16);
                            }
                        }
                        d
                    };
                    ms.push(t.render());
                }
                out.push(format!("seqm {}", ms.join("|")));
            }
            _ => {
                let k = 1 + r.below(8);
                let mut recs = vec![];
                for _ in 0..k {
                    let rec = if r.chance(2, 3) { good_record(r) } else { bad_record(r, true).0 };
                    recs.push(hex(&rec));
                }
                out.push(format!("cat {}", recs.join("|")));
            }
        }
    }
    // the Length field walked across every boundary (below the header, the header, header + pad, one payload octet,
    // the whole message, beyond it) for the 16 L/S/O/P combinations, octets behind the message in every case: a
    // declared length is honoured exactly or the message is refused — never "as far as the buffer goes"
    for bits in 0..16u16 {
        let (l, s_, o, p) = (bits & 1 != 0, bits & 2 != 0, bits & 4 != 0, bits & 8 != 0);
        if !l {
            continue;
        }
        let w: u16 = 0x0220 | if s_ { 0x1000 } else { 0 } | if o { 0x4000 } else { 0 } | if p { 0x8000 } else { 0 };
        for dl in [1usize, 3] {
            for offv in [0u16, 1, 2] {
                let hdr = data_header_len(true, s_, o);
                let total = hdr + offv as usize + dl;
                for lv in 0..=total + 3 {
                    let mut v = w.to_be_bytes().to_vec();
                    v.extend_from_slice(&(lv as u16).to_be_bytes());
                    v.extend_from_slice(&[0, 7, 0, 9]);
                    if s_ {
                        v.extend_from_slice(&[0, 1, 0, 2]);
                    }
                    if o {
                        v.extend_from_slice(&offv.to_be_bytes());
                        v.extend(std::iter::repeat(0xee).take(offv as usize));
                    }
                    v.extend((0..dl).map(|i| 0xa0 + i as u8));
                    out.push(format!("sfx {} {} {}", if lv % 2 == 0 { "111" } else { "000" }, hex(&v), hex(&r.bytes(1 + (lv % 7)))));
                }
                if !o {
                    break;
                }
            }
        }
    }
    for lv in 0..=24usize {
        let mut v = vec![0x13, 0x20];
        v.extend_from_slice(&(lv as u16).to_be_bytes());
        v.extend_from_slice(&[0, 1, 0, 2, 0, 3, 0, 4]);
        v.extend_from_slice(&[1, 8, 0, 0, 0, 0, 0, 6]);
        out.push(format!("sfx 111 {} {}", hex(&v), hex(&r.bytes(1 + lv % 9))));
    }
    // the declared length may cover 1..5 octets that belong to no AVP (fewer than a header): they are inside the
    // message, the reader must stand behind them; every stray count, with and without records, before each kind of suffix
    for stray in 0..=5usize {
        for nrec in 0..3usize {
            for sfx in 0..4usize {
                let mut recs = vec![];
                if nrec > 0 {
                    recs.push(mt_record(r));
                }
                for _ in 1..nrec.max(1) {
                    recs.push(good_record(r));
                }
                if stray > 0 {
                    recs.push(r.bytes(stray));
                }
                let b = assemble(0x1320, r.u16x(), r.u16x(), r.u16x(), r.u16x(), &recs);
                let s_ = match sfx {
                    0 => vec![],
                    1 => r.bytes(1),
                    2 => valid_image(r, false),
                    _ => r.bytes(6 + r.below(20)),
                };
                out.push(format!("sfx {} {} {}", opts(r), hex(&b), if s_.is_empty() { ".".to_string() } else { hex(&s_) }));
            }
        }
    }
    // what follows the declared end may be long: suffix lengths that put the octets remaining after the
    // header across the 8-, 16- and 17-bit boundaries (a length comparison done in too narrow a type)
    for j in 0..(if n > 100000 { 12 } else { 4 }) {
        let b = if j % 2 == 0 { valid_image(r, false) } else { data_image_noncanonical(r) };
        for base in [256usize, 65536, 131072] {
            let lo = base.saturating_sub(b.len() + 2);
            for s in (lo..=base + 2).step_by(if n > 100000 { 1 } else { 5 }) {
                out.push(format!("sfx {} {} {}", opts(r), hex(&b), hex(&r.bytes(s))));
            }
        }
    }
    // and a packed sequence longer than 64 KiB
    {
        let mut ms = vec![];
        for i in 0..90 {
            let (cl, hl) = (700 + (i * 3) % 300, 1 + i % 50);
            let avps = vec![
                TAvp::new("MessageType", vec!["Hello".into()]),
                TAvp::new("Challenge", vec![hex(&vec![i as u8; cl])]),
                TAvp::new("HostName", vec![hex(&vec![0x61; hl])]),
            ];
            ms.push(TMsg::Control { len: (12 + 8 + 6 + cl + 6 + hl) as u16, tid: i as u16, sid: 2, ns: 3, nr: 4, avps }.render());
        }
        out.push(format!("seqm {}", ms.join("|")));
    }
}

fn c14_stream(r: &Rng, out: &mut Out, thorough: bool) {
    let ctl_tail = {
        let mut v = vec![0u8, 20, 0, 2, 0, 3, 0, 4, 0, 5];
        v.extend_from_slice(&[0x01, 8, 0, 0, 0, 0, 0, 1]);
        v
    };
    let data_tail = vec![0u8, 12, 0, 7, 0, 9, 0, 0, 0, 1, 0xde, 0xad];
    let trunc = vec![0u8, 20, 0, 2];
    let step = if thorough { 1 } else { 1 };
    let mut w = 0u32;
    while w <= 0xFFFF {
        let tails: Vec<&Vec<u8>> = if thorough { vec![&ctl_tail, &data_tail, &trunc] } else if (w >> 8) & 1 == 1 { vec![&ctl_tail] } else { vec![&data_tail] };
        for t in tails {
            let mut v = (w as u16).to_be_bytes().to_vec();
            v.extend_from_slice(t);
            out.push(format!("opts {}", hex(&v)));
        }
        w += step;
    }
    out.push("opts .".to_string());
    out.push("opts 13".to_string());
    for img in cross_layouts() {
        out.push(format!("opts {}", hex(&img)));
        // … and cut short by one, two and three octets (a Length that claims a little more than is there)
        for cut in 1..=3usize {
            if img.len() > cut + 2 {
                out.push(format!("opts {}", hex(&img[..img.len() - cut])));
            }
        }
    }
    let n = if thorough { 40000 } else { 4000 };
    for i in 0..n {
        let v = valid_image(r, false);
        let b = match i % 3 {
            0 => v,
            1 => mutate(r, &v),
            _ => {
                let mut m = v.clone();
                if m.len() >= 2 {
                    let w = r.next() as u16;
                    m[0] = (w >> 8) as u8;
                    m[1] = w as u8;
                }
                m
            }
        };
        out.push(format!("opts {}", hex(&b)));
    }
}

fn c15_stream(r: &Rng, out: &mut Out, n: usize) {
    // all 2^k placements for k <= 6, then sampled
    let emit = |r: &Rng, k: usize, mask: u64, first_mt: bool, badlen_at: Option<usize>, out: &mut Out| {
        let mut recs = vec![];
        let mut nbad = 0usize;
        for i in 0..k {
            if Some(i) == badlen_at {
                // unusable length: below 6 or past the end of the body
                let mut rec = good_record(r);
                let l = if r.chance(1, 2) { r.below(6) } else { rec.len() + 1 + r.below(40) };
                set_len(&mut rec, l.min(1023));
                if l.min(1023) >= 6 && l.min(1023) <= rec.len() {
                    set_len(&mut rec, 5);
                }
                recs.push(rec);
                nbad += 1;
                // everything after it is unreachable; make sure it really is past the end
                break;
            }
            let bad = mask >> i & 1 == 1;
            if i == 0 && first_mt {
                if bad {
                    // a bad first record that still *is* a Message Type AVP
                    let c = *r.pick(&[0u16, 5, 13, 17, 999]);
                    recs.push(record(1, 0, 0, &c.to_be_bytes()));
                    nbad += 1;
                } else {
                    recs.push(mt_record(r));
                }
            } else if bad {
                recs.push(bad_record(r, true).0);
                nbad += 1;
            } else {
                let mut g = good_record(r);
                if i == 0 {
                    // first record good but not a Message Type
                    while g[4] == 0 && g[5] == 0 && g[0] & 2 == 0 {
                        g = good_record(r);
                    }
                }
                recs.push(g);
            }
        }
        let total: usize = recs.iter().map(|x| x.len()).sum();
        if total + 12 > 65535 {
            return;
        }
        // a bad-length record claiming more than what follows must be last in the body: it is, by the break above
        let img = assemble(0x1320, r.u16x(), r.u16x(), r.u16x(), r.u16x(), &recs);
        let kk = if badlen_at.is_some() { recs.len() } else { k };
        out.push(format!("c15 {} {} {} {}", hex(&img), nbad, if first_mt || false { 1 } else { 0 }, kk));
        // the body ends where Length says: whatever the buffer holds after it (the next message, padding, records
        // good or bad) is not part of this message and changes neither the verdict nor the error count
        if r.chance(1, 3) {
            let mut img2 = img.clone();
            match r.below(5) {
                0 => img2.extend(vec![0u8; 6 + r.below(20)]),
                1 => img2.extend(good_record(r)),
                2 => img2.extend(bad_record(r, true).0),
                3 => img2.extend(valid_image(r, false)),
                _ => img2.extend(r.bytes(1 + r.below(40))),
            }
            out.push(format!("c15 {} {} {} {}", hex(&img2), nbad, if first_mt || false { 1 } else { 0 }, kk));
        }
    };
    out.push(format!("c15 {} 0 0 0", hex(&assemble(0x1320, 1, 2, 3, 4, &[]))));
    for tl in [1usize, 5, 6, 7, 12, 40] {
        let mut z = assemble(0x1320, 1, 2, 3, 4, &[]);
        z.extend(r.bytes(tl));
        out.push(format!("c15 {} 0 0 0", hex(&z)));
        z.truncate(12);
        z.extend(good_record(r));
        out.push(format!("c15 {} 0 0 0", hex(&z)));
    }
    for k in 1..=6usize {
        for mask in 0..(1u64 << k) {
            // first record is a Message Type AVP (good, or bad by its code when bit 0 is set)
            emit(r, k, mask, true, None, out);
        }
        for mask in 0..(1u64 << k) {
            if mask & 1 == 0 {
                emit(r, k, mask, false, None, out); // good first record that is not a Message Type
            }
        }
    }
    // many records: every count 13..=63 with all of them bad (after the Message Type), every other one bad, a random
    // half bad, and with an unusable length at the end; then far more records than any list cap one might think of
    for k in 13..=63usize {
        let all = (1u64 << k) - 2;
        emit(r, k, all, true, None, out);
        emit(r, k, all & 0xaaaa_aaaa_aaaa_aaaa, true, None, out);
        emit(r, k, r.next() & all, true, if k % 3 == 0 { Some(k - 1) } else { None }, out);
    }
    for count in [64usize, 65, 100, 127, 128, 129, 255, 256, 257, 1000, 5000] {
        for every in [1usize, 2, 3] {
            let mut recs = vec![mt_record(r)];
            let mut nbad = 0usize;
            for i in 0..count {
                if i % every == 0 {
                    let t = *r.pick(&[20u16, 40, 99, 0xffff]);
                    recs.push(record(mflag(r), 0, t, &r.bytes(i % 3)));
                    nbad += 1;
                } else {
                    recs.push(record(1, 0, 39, &[]));
                }
            }
            let total: usize = recs.iter().map(|x| x.len()).sum();
            if total + 12 <= 65535 {
                out.push(format!("c15 {} {} 1 {}", hex(&assemble(0x1320, 1, 2, 3, 4, &recs)), nbad, recs.len()));
            }
        }
    }
    for _ in 0..n {
        let k = 1 + r.below(12);
        let mask = r.next() & ((1 << k) - 1) & if r.chance(1, 3) { 0 } else { u64::MAX };
        let first_mt = r.chance(3, 4);
        let badlen = if r.chance(1, 5) { Some(r.below(k)) } else { None };
        let mask = if first_mt { mask } else { mask & !1 };
        emit(r, k, mask, first_mt, badlen, out);
    }
}

fn c16_stream(out: &mut Out, thorough: bool) {
    let _ = thorough;
    for field in ["mt", "et", "pat", "rc", "stop", "cdn", "attr"] {
        for x in 0..=65535u32 {
            out.push(format!("code {} {}", field, x));
        }
    }
    out.push("named".to_string());
    // the same fields where an AVP usually stands: behind a Message Type AVP, M bit clear / set, reserved flag bits,
    // as a bare list and inside a control message (strict and lenient): an unassigned code is refused wherever it stands
    let mut xs: Vec<u32> = (0..=64).collect();
    xs.extend([127u32, 128, 255, 256, 257, 511, 512, 1023, 1024, 4660, 32767, 32768, 65279, 65280, 65534, 65535]);
    let mt = record(1, 0, 0, &[0, 6]);
    for x in xs {
        let (hi, lo) = ((x >> 8) as u8, x as u8);
        for fl in [0u8, 1, 0x3c, 0x3d] {
            let mut recs: Vec<Vec<u8>> = vec![
                record(fl, 0, 0, &[hi, lo]),
                record(fl, 0, 1, &[0, 1, hi, lo]),
                record(fl, 0, 1, &[0, 1, hi, lo, 0x61]),
                record(fl, 0, 1, &[hi, lo]),
                record(fl, 0, 29, &[hi, lo]),
            ];
            let mut body = vec![];
            for _ in 0..16 {
                body.extend_from_slice(&[0, 1]);
            }
            recs.push(record(fl, 0, x as u16, &body));
            recs.push(record(fl, 0, x as u16, &[]));
            for rec in recs {
                for pos in [1usize, 2] {
                    let mut l: Vec<Vec<u8>> = vec![mt.clone(); pos];
                    l.push(rec.clone());
                    if fl == 0 || pos == 1 {
                        out.push(format!("avps {}", hex(&l.concat())));
                    }
                    if pos == 1 {
                        let img = assemble(0x1320, 1, 2, 3, 4, &l);
                        out.push(format!("dec {} {}", if fl & 1 == 0 { "111" } else { "000" }, hex(&img)));
                    }
                }
            }
        }
    }
    // an unassigned code is refused however many of them a message carries: 255, 256, 257, 511, 512, 513, 1024 records
    // with an unassigned Proxy Authen Type / error type / (non-first) Message Type code, alone and with assigned ones
    // between them (counts of refused records narrowed to eight bits)
    let mt = record(1, 0, 0, &[0, 6]);
    for count in [255usize, 256, 257, 511, 512, 513, 1024] {
        for field in 0..3 {
            for spaced in [false, true] {
                let mut l: Vec<Vec<u8>> = vec![mt.clone()];
                for i in 0..count {
                    l.push(match field {
                        0 => record(1, 0, 29, &[0, 6 + (i % 3) as u8]),
                        1 => record(1, 0, 1, &[0, 1, 0, 9 + (i % 5) as u8]),
                        _ => record(1, 0, 0, &[0, [5u8, 13, 17, 18][i % 4]]),
                    });
                    if spaced {
                        l.push(record(1, 0, 29, &[0, 2]));
                    }
                }
                let total: usize = 12 + l.iter().map(|x| x.len()).sum::<usize>();
                if total <= 65535 {
                    out.push(format!("dec 111 {}", hex(&assemble(0x1320, 1, 2, 3, 4, &l))));
                    out.push(format!("avps {}", hex(&l.concat())));
                }
            }
        }
    }
}

fn c17_stream(r: &Rng, out: &mut Out, n: usize) {
    for k in MASK_KINDS.iter() {
        for x in 0..2 {
            for y in 0..2 {
                out.push(format!("bits {} {} {}", k, x, y));
            }
        }
        for b in 0..32 {
            out.push(format!("word {} {}", k, 1u32 << b));
            out.push(format!("word {} {}", k, !(1u32 << b)));
        }
        for hi in 0..4u32 {
            for _ in 0..n {
                let w = (r.next() as u32 & !0xC0) | (hi << 6);
                out.push(format!("word {} {}", k, w));
            }
        }
        out.push(format!("word {} 0", k));
        out.push(format!("word {} 4294967295", k));
    }
    // a bitmask record at the very end of a list that has a vendor-specific record (skipped by its length) earlier on
    for attr in [3u16, 4, 18, 19] {
        for p in 1..=9usize {
            let w = [0u8, 0, (p as u8) << 4, 0xC0];
            let mut l = record(1, 9, 7, &vec![0x55; p]);
            if p % 2 == 0 {
                l.extend(record(1, 0, 10, &[0, 4]));
            }
            l.extend(record(1, 0, attr, &w));
            out.push(format!("avps {}", hex(&l)));
            let mut m = mt_record(&content_rng("c17 vendor", "x"));
            m.extend(l);
            out.push(format!("avps {}", hex(&m)));
        }
    }
    // a bitmask record that carries more than its four octets: the word is the first four, whatever follows them (a
    // second word with the accessor bits set, a zero word in front of one, one to eight stray octets)
    let sr = content_rng("bitmask surplus", "c17");
    for attr in [3u16, 4, 18, 19] {
        for w in [0u32, 0xC0, 0x40, 0x80, 0xFFFF_FF3F, sr.next() as u32] {
            for tail in [vec![0u8, 0, 0, 0xC0], vec![0x12, 0x34, 0x56, 0xC0], vec![0xFF; 4], vec![0u8; 4], sr.bytes(1 + sr.below(8))] {
                let mut p = w.to_be_bytes().to_vec();
                p.extend_from_slice(&tail);
                out.push(format!("pay {} {}", attr, hex(&p)));
                out.push(format!("avps {}", hex(&record(1, 0, attr, &p))));
            }
        }
    }
}

fn c18_stream(r: &Rng, out: &mut Out, n: usize) {
    for _ in 0..n {
        let dl = r.below(65);
        let data = r.bytes(dl);
        let mut rem = dl;
        let mut ops = vec![];
        let k = 1 + r.below(24);
        for _ in 0..k {
            let pick_n = |r: &Rng, rem: usize| -> usize {
                match r.below(6) {
                    0 => 0,
                    1 => 1.min(rem),
                    2 => rem.saturating_sub(1),
                    3 => rem,
                    _ => r.below(rem + 1),
                }
            };
            match r.below(8) {
                0 if rem >= 1 => {
                    ops.push("u8".to_string());
                    rem -= 1;
                }
                1 if rem >= 2 => {
                    ops.push("u16".to_string());
                    rem -= 2;
                }
                2 if rem >= 4 => {
                    ops.push("u32".to_string());
                    rem -= 4;
                }
                3 if rem >= 8 => {
                    ops.push("u64".to_string());
                    rem -= 8;
                }
                4 => {
                    let n = pick_n(r, rem);
                    ops.push(format!("k{}", n));
                    rem -= n;
                }
                5 => {
                    let n = pick_n(r, rem);
                    ops.push(format!("s{}", n));
                    rem -= n;
                }
                6 => {
                    // bytes, possibly too long: refused, and the sequence goes on from the same position
                    let n = if r.chance(1, 4) { rem + 1 + r.below(3) } else { pick_n(r, rem) };
                    ops.push(format!("b{}", n));
                    if n > rem {
                        continue;
                    }
                    rem -= n;
                }
                _ => {
                    let n = pick_n(r, rem);
                    ops.push(format!("b{}", n));
                    rem -= n;
                }
            }
        }
        out.push(format!("rd {} {}", hex(&data), if ops.is_empty() { ".".to_string() } else { ops.join(",") }));
    }
    // sub-readers that are used: carve one (P<n>), read inside it — also past its end with bytes(), which must be
    // refused whatever lies behind the window in the parent's slice — carve another inside it, go back (Q), go on
    for _ in 0..n {
        let dl = r.below(80);
        let data = r.bytes(dl);
        let mut rems: Vec<usize> = vec![dl]; // remaining octets of the current reader and of the waiting parents
        let mut ops: Vec<String> = vec![];
        let k = 2 + r.below(24);
        for _ in 0..k {
            let rem = *rems.last().unwrap();
            match r.below(10) {
                0 | 1 if rems.len() < 4 => {
                    let n = match r.below(5) {
                        0 => 0,
                        1 => rem,
                        2 => rem.saturating_sub(1),
                        _ => r.below(rem + 1),
                    };
                    *rems.last_mut().unwrap() -= n;
                    rems.push(n);
                    ops.push(format!("P{}", n));
                }
                2 if rems.len() > 1 => {
                    rems.pop();
                    ops.push("Q".to_string());
                }
                3 => {
                    // bytes() past the end of the current reader by a little: inside the parent's slice when there is one
                    let n = rem + 1 + r.below(4);
                    ops.push(format!("b{}", n));
                }
                4 if rem >= 1 => {
                    ops.push("u8".to_string());
                    *rems.last_mut().unwrap() -= 1;
                }
                5 if rem >= 2 => {
                    ops.push("u16".to_string());
                    *rems.last_mut().unwrap() -= 2;
                }
                6 if rem >= 4 => {
                    ops.push((if r.chance(1, 2) || rem < 8 { "u32" } else { "u64" }).to_string());
                    *rems.last_mut().unwrap() -= if ops.last().unwrap() == "u32" { 4 } else { 8 };
                }
                7 => {
                    let n = r.below(rem + 1);
                    ops.push(format!("k{}", n));
                    *rems.last_mut().unwrap() -= n;
                }
                8 => {
                    let n = r.below(rem + 1);
                    ops.push(format!("s{}", n));
                    *rems.last_mut().unwrap() -= n;
                }
                _ => {
                    let n = if r.chance(1, 3) { rem } else { r.below(rem + 1) };
                    ops.push(format!("b{}", n));
                    *rems.last_mut().unwrap() -= n;
                }
            }
        }
        while rems.len() > 1 {
            rems.pop();
            ops.push("Q".to_string());
            if r.chance(1, 2) {
                let rem = *rems.last().unwrap();
                ops.push(format!("b{}", rem + 1));
            }
        }
        out.push(format!("rd {} {}", hex(&data), ops.join(",")));
    }
    out.push("rd 0102030405060708 P3,b4,b3,Q,b5".to_string());
    out.push("rd 0102030405060708 P3,P2,b3,u16,Q,b2,u8,Q,u32,u8".to_string());
    out.push("rd 0102030405060708 u8,P0,b1,Q,P7,b8,b7".to_string());
    // slices around and beyond 64 KiB: a reader is a cursor over the slice it was given, however long
    for dl in [255usize, 256, 257, 4096, 65534, 65535, 65536, 65537, 70000, 131075] {
        let data = r.bytes(dl);
        let h = hex(&data);
        out.push(format!("rd {} k{},u8", h, dl - 1));
        out.push(format!("rd {} b{},b1", h, dl));
        out.push(format!("rd {} b{}", h, dl + 1));
        out.push(format!("rd {} s{}", h, dl));
        out.push(format!("rd {} s{},u16,u8", h, dl - 3));
        if dl > 16 {
            out.push(format!("rd {} k{},u64,u32,u16,u8,b1,b1", h, dl - 16));
            out.push(format!("rd {} u8,s{},b{},k3,u32", h, dl - 9, dl - 20));
        }
    }
    for wl in [255usize, 256, 65535, 65536, 70000] {
        let chunk = hex(&r.bytes(wl));
        out.push(format!("wr w:{},u16:258,at{}:aabb,at{}:cc,at{}:dd,u64:72623859790382856,at{}:0102030405060708", chunk, wl - 2, wl + 1, wl + 2, wl + 2));
        out.push(format!("wr u8:7,w:{},at{}:ee,at{}:ff,at0:11,w:{}", chunk, wl, wl + 1, hex(&r.bytes(3))));
    }
    out.push("rd . b0".to_string());
    out.push("rd . b1".to_string());
    out.push("rd 00 b2".to_string());
    out.push("rd 0a0b0c0d0e b6,u8,b5,b2,u16".to_string());
    out.push("rd 0a0b0c0d b9,s2,b3,k1,b2,b1".to_string());
    out.push("rd 0001 b18446744073709551615".to_string());
    for _ in 0..n {
        let k = 1 + r.below(16);
        let mut len = 0usize;
        let mut ops = vec![];
        for _ in 0..k {
            match r.below(8) {
                0 => {
                    let n = r.below(9);
                    ops.push(format!("w:{}", hex(&r.bytes(n))));
                    len += n;
                }
                1 => {
                    ops.push(format!("u8:{}", r.next() as u8));
                    len += 1;
                }
                2 => {
                    ops.push(format!("u16:{}", r.u16x()));
                    len += 2;
                }
                3 => {
                    ops.push(format!("u32:{}", r.u32x()));
                    len += 4;
                }
                4 => {
                    ops.push(format!("u64:{}", r.u64x()));
                    len += 8;
                }
                _ => {
                    // overwrite: inside, touching offset 0, the last octet, or one past it
                    let bl = r.below(5);
                    let off = match r.below(6) {
                        0 => 0,
                        1 => len.saturating_sub(bl),
                        2 => len.saturating_sub(bl) + 1,
                        3 => len,
                        4 => len + 1 + r.below(4),
                        _ => r.below(len + 2),
                    };
                    ops.push(format!("at{}:{}", off, hex(&r.bytes(bl))));
                }
            }
        }
        out.push(format!("wr {}", ops.join(",")));
    }
    out.push("wr at0:.".to_string());
    out.push("wr at0:00".to_string());
    out.push("wr at1:.".to_string());
}

/// the single faults of C20 by rule: every small value of the field at fault (and the 16-bit corners), at the
/// first possible and at a later position, so that no value of the field depends on the random stream
fn c20_by_rule(r: &Rng, out: &mut Out) {
    let base = |r: &Rng| -> Vec<Vec<u8>> { vec![mt_record(r), good_record(r), good_record(r)] };
    let corners = [0x00ffu16, 0x0100, 0x0101, 0x1234, 0x7fff, 0x8000, 0xff00, 0xfffe, 0xffff];
    for x in (0..=64u16).chain(corners) {
        // unknown attribute type
        if x == 20 || x >= 40 {
            for pos in [1usize, 3] {
                let mut recs = base(r);
                recs.insert(pos, record(1, 0, x, &r.bytes((x % 5) as usize)));
                out.push(format!("sf 111 {} UnknownAvp({})", hex(&assemble(0x1320, 1, 2, 3, 4, &recs)), x));
            }
        }
        // unknown message-type code, first and later
        if x == 0 || x == 5 || x == 13 || x >= 17 {
            let mut recs = base(r);
            recs[0] = record(1, 0, 0, &x.to_be_bytes());
            out.push(format!("sf 111 {} UnknownMessageType({})", hex(&assemble(0x1320, 1, 2, 3, 4, &recs)), x));
            let mut recs = base(r);
            recs.insert(2, record(1, 0, 0, &x.to_be_bytes()));
            out.push(format!("sf 111 {} UnknownMessageType({})", hex(&assemble(0x1320, 1, 2, 3, 4, &recs)), x));
        }
        // vendor id
        if x != 0 {
            let mut recs = base(r);
            let mut rec = good_record(r);
            rec[2] = (x >> 8) as u8;
            rec[3] = x as u8;
            recs.insert(1 + (x as usize % 3), rec);
            out.push(format!("sf 111 {} UnsupportedVendorId({})", hex(&assemble(0x1320, 1, 2, 3, 4, &recs)), x));
        }
        // error-type code of a Result Code AVP, with and without a message, behind several result codes
        if x >= 9 {
            for (k, rc) in [0u16, 1, 2, 3, 7, 11, 255].iter().enumerate() {
                let mut p = rc.to_be_bytes().to_vec();
                p.extend_from_slice(&x.to_be_bytes());
                if k % 2 == 1 {
                    p.extend_from_slice(b"why");
                }
                let mut recs = base(r);
                recs.insert(1 + k % 3, record(1, 0, 1, &p));
                out.push(format!("sf 111 {} InvalidResultCodeErrorType({})", hex(&assemble(0x1320, 1, 2, 3, 4, &recs)), x));
            }
        }
        // offset size beyond what follows, with every field combination of the data header
        if x >= 1 {
            for bits in 0..8u16 {
                let (l, s, p) = (bits & 1 != 0, bits & 2 != 0, bits & 4 != 0);
                let dl = (x as usize).saturating_sub(1).min(6);
                let w: u16 = 0x4020 | if l { 0x0200 } else { 0 } | if s { 0x1000 } else { 0 } | if p { 0x8000 } else { 0 };
                let mut v = w.to_be_bytes().to_vec();
                if l {
                    v.extend_from_slice(&((data_header_len(true, s, true) + dl) as u16).to_be_bytes());
                }
                v.extend_from_slice(&[0, 7, 0, 9]);
                if s {
                    v.extend_from_slice(&[0, 1, 0, 2]);
                }
                v.extend_from_slice(&x.to_be_bytes());
                v.extend(r.bytes(dl));
                out.push(format!("sf 111 {} InvalidOffset({})", hex(&v), x));
            }
        }
    }
    // the attribute type of a truncated AVP, every kind at every too-short length, and of a non-UTF-8 one
    for attr in 0..=39u16 {
        if attr == 20 || attr == 39 {
            continue;
        }
        for l in 0..min_len(attr) {
            let mut recs = base(r);
            if attr == 0 {
                recs[0] = record(1, 0, 0, &r.bytes(l));
            } else {
                recs.insert(1 + l % 3, record(1, 0, attr, &r.bytes(l)));
            }
            out.push(format!("sf 111 {} IncompleteAVP({})", hex(&assemble(0x1320, 1, 2, 3, 4, &recs)), attr));
        }
    }
    for (attr, pre) in [(8u16, vec![]), (21, vec![]), (22, vec![]), (23, vec![]), (1, vec![0u8, 1, 0, 2]), (12, vec![0u8, 16, 3])] {
        for bad in [vec![0xffu8], vec![0x61, 0xc0, 0x80], vec![0xed, 0xa0, 0x80], vec![0xf4, 0x90, 0x80, 0x80], vec![0xe2, 0x82], vec![0x61, 0x80]] {
            let mut p = pre.clone();
            p.extend_from_slice(&bad);
            let mut recs = base(r);
            recs.insert(2, record(1, 0, attr, &p));
            out.push(format!("sf 111 {} InvalidUtf8({})", hex(&assemble(0x1320, 1, 2, 3, 4, &recs)), attr));
        }
    }
    // the version nibble, every value but 2, control and data, under the option sets that check it
    for x in (0..16u16).filter(|x| *x != 2) {
        for o in ["111", "010", "011", "110"] {
            let flags = (0x1320 & !0x00F0) | (x << 4);
            out.push(format!("sf {} {} InvalidVersion({})", o, hex(&assemble(flags, 1, 2, 3, 4, &base(r))), x));
            out.push(format!("sf {} {} InvalidVersion({})", o, hex(&[0x00, (x as u8) << 4, 0, 7, 0, 9, 0xaa]), x));
        }
    }
    // a text that is cut off inside its last character, in every text place, at the AVP sizes next to and at the limit
    // (a cut-off character is a UTF-8 fault like any other, also in an AVP of 1023 octets)
    for (attr, pre) in [(8u16, vec![]), (21, vec![]), (22, vec![]), (23, vec![]), (1, vec![0u8, 1, 0, 2]), (12, vec![0u8, 16, 3])] {
        for total in [255usize, 256, 1021, 1022, 1023] {
            for cut in [vec![0xc3u8], vec![0xe2, 0x82], vec![0xf0, 0x9f, 0x98], vec![0xe2]] {
                let mut p = pre.clone();
                let fill = total - 6 - pre.len() - cut.len();
                p.extend(std::iter::repeat(0x61u8).take(fill));
                p.extend_from_slice(&cut);
                let mut recs = base(r);
                recs.insert(2, record(1, 0, attr, &p));
                out.push(format!("sf 111 {} InvalidUtf8({})", hex(&assemble(0x1320, 1, 2, 3, 4, &recs)), attr));
            }
        }
    }
    // an unusable AVP length (below the header size, or past the end of the body) as the single fault: last in a small
    // body and last in a body that fills the message up to the 16-bit limit (offsets and sums near 2^16); and the
    // other single faults at the tail of such a large body
    let lr = content_rng("c20 large bodies", "sf");
    for fill in [0usize, 1, 5, 30, 62, 63] {
        let mut recs: Vec<Vec<u8>> = vec![mt_record(&lr)];
        for _ in 0..fill {
            recs.push(record(1, 0, 11, &lr.bytes(1017)));
        }
        let used: usize = 12 + recs.iter().map(|x| x.len()).sum::<usize>();
        // what fits behind them
        let room = 65535 - used;
        for (ti, tail) in [40usize, 200, 1023, 40, 200].into_iter().enumerate() {
            let tl = tail.min(room);
            if tl < 8 {
                continue;
            }
            // (the last two: the faulty record pushed to the very end of the 65535 octets by one more filler)
            let mut recs = recs.clone();
            if ti >= 3 {
                let gap = room - tl;
                if gap < 7 || gap > 1023 {
                    continue;
                }
                recs.push(record(1, 0, 11, &lr.bytes(gap - 6)));
            }
            // a record of tl octets whose length field claims more than is there, or less than a header
            for claim in [tl + 1, tl + 2, (tl + 300).min(1023), 1023, 5, 0] {
                if (claim <= tl && claim >= 6) || claim > 1023 {
                    continue;
                }
                let mut rec = record(1, 0, 11, &lr.bytes(tl - 6));
                set_len(&mut rec, claim);
                let mut rs = recs.clone();
                rs.push(rec);
                let want = if claim < 6 { claim } else { claim - 6 };
                out.push(format!("sf 111 {} InvalidAVPLength({})", hex(&assemble(0x1320, 1, 2, 3, 4, &rs)), want));
            }
            let mut rs = recs.clone();
            rs.push(record(1, 0, 77, &lr.bytes(tl - 6)));
            out.push(format!("sf 111 {} UnknownAvp(77)", hex(&assemble(0x1320, 1, 2, 3, 4, &rs))));
            let mut rs = recs.clone();
            rs.push(record(1, 9, 11, &lr.bytes(tl - 6)));
            out.push(format!("sf 111 {} UnsupportedVendorId(9)", hex(&assemble(0x1320, 1, 2, 3, 4, &rs))));
            let mut rs = recs.clone();
            rs.push(record(1, 0, 11, &lr.bytes(tl - 6 - 7)));
            rs.push(record(1, 0, 5, &lr.bytes(1)));
            out.push(format!("sf 111 {} IncompleteAVP(5)", hex(&assemble(0x1320, 1, 2, 3, 4, &rs))));
        }
    }
}

fn c20_stream(r: &Rng, out: &mut Out, n: usize, thorough: bool) {
    c20_by_rule(r, out);
    for x in 0..=65535u32 {
        out.push(format!("name {}", x));
    }
    let vals: Vec<u32> = if thorough { (0..=65535).collect() } else { vec![0, 1, 2, 7, 8, 19, 20, 21, 39, 40, 255, 256, 4660, 65535] };
    for v in ["IncompleteAVP", "UnknownMessageType", "InvalidUtf8", "InvalidResultCodeErrorType", "AVPReadError", "InvalidAVPLength", "UnknownAvp", "InvalidOriginalAVPLength", "UnsupportedVendorId", "InvalidOffset"] {
        for x in &vals {
            out.push(format!("render {}({})", v, x));
        }
    }
    for x in 0..=255 {
        out.push(format!("render InvalidVersion({})", x));
    }
    for v in [
        "EmptyHiddenAVP",
        "MisalignedHiddenAVP",
        "InvalidReservedBits",
        "IncompleteFlags",
        "IncompleteDataMessageHeader",
        "IncompleteDataMessagePayload",
        "EmptyDataMessagePayload",
        "MessageReadError",
        "ForbiddenControlMessagePriority",
        "ForbiddenControlMessageOffset",
        "ControlMessageWithoutLength",
        "ControlMessageWithoutNsNr",
        "IncompleteControlMessageHeader",
        "IncompleteControlMessagePayload",
        "ControlMessageTypeNotFirst",
    ] {
        out.push(format!("render {}", v));
    }
    for i in 0..n {
        // a valid control message as records
        let k = 1 + r.below(6);
        let mut recs = vec![mt_record(r)];
        for _ in 1..k {
            recs.push(good_record(r));
        }
        let (tid, sid, ns, nr) = (r.u16x(), r.u16x(), r.u16x(), r.u16x());
        match i % 8 {
            0 => {
                // version nibble
                let x = *r.pick(&[0u16, 1, 3, 4, 5, 6, 7, 8, 9, 10, 11, 12, 13, 14, 15]);
                let flags = (0x1320 & !0x00F0) | (x << 4);
                let img = if r.chance(1, 2) {
                    assemble(flags, tid, sid, ns, nr, &recs)
                } else {
                    let mut b = encode_msg(&gen_data(r, false)).unwrap_or(vec![0, 0x20, 0, 0, 0, 0, 1]);
                    b[1] = (b[1] & 0x0F) | ((x as u8) << 4);
                    b
                };
                out.push(format!("sf {} {} InvalidVersion({})", *r.pick(&["111", "010", "011", "110"]), hex(&img), x));
            }
            1 => {
                // unknown attribute type at a position >= 2
                let t = *r.pick(&[20u16, 40, 41, 255, 256, 0x8000, 0xFFFF, 40 + r.below(65000) as u16]);
                let pos = 1 + r.below(k);
                let n = r.below(9);
                recs.insert(pos.min(recs.len()), record(1, 0, t, &r.bytes(n)));
                out.push(format!("sf 111 {} UnknownAvp({})", hex(&assemble(0x1320, tid, sid, ns, nr, &recs)), t));
            }
            2 => {
                // unknown message-type code: in the first AVP, or in a second Message Type AVP later on
                let c = *r.pick(&[0u16, 5, 13, 17, 18, 255, 256, 0xFFFF, 17 + r.below(60000) as u16]);
                let rec = record(1, 0, 0, &c.to_be_bytes());
                if r.chance(1, 2) {
                    recs[0] = rec;
                } else {
                    let pos = 1 + r.below(k);
                    recs.insert(pos.min(recs.len()), rec);
                }
                out.push(format!("sf 111 {} UnknownMessageType({})", hex(&assemble(0x1320, tid, sid, ns, nr, &recs)), c));
            }
            3 => {
                let v = *r.pick(&[1u16, 9, 311, 0xFFFF, 1 + r.below(65534) as u16]);
                let pos = 1 + r.below(k);
                let mut rec = good_record(r);
                rec[2] = (v >> 8) as u8;
                rec[3] = v as u8;
                recs.insert(pos.min(recs.len()), rec);
                out.push(format!("sf 111 {} UnsupportedVendorId({})", hex(&assemble(0x1320, tid, sid, ns, nr, &recs)), v));
            }
            4 => {
                // offset size larger than what follows (data message)
                let dl = r.below(20);
                let nsnr = r.chance(1, 2);
                let w: u16 = 0x4020 | if nsnr { 0x1000 } else { 0 } | if r.chance(1, 2) { 0x8000 } else { 0 };
                let x = (dl + 1 + r.below(300)) as u16;
                let mut v = w.to_be_bytes().to_vec();
                v.extend_from_slice(&[0, 7, 0, 9]);
                if nsnr {
                    v.extend_from_slice(&[0, 1, 0, 2]);
                }
                v.extend_from_slice(&x.to_be_bytes());
                v.extend(r.bytes(dl));
                out.push(format!("sf 111 {} InvalidOffset({})", hex(&v), x));
                // the same fault in a message that also carries Length (holding the true size of the datagram)
                let total = (v.len() + 2) as u16;
                let mut v2 = (w | 0x0200).to_be_bytes().to_vec();
                v2.extend_from_slice(&total.to_be_bytes());
                v2.extend_from_slice(&v[2..]);
                out.push(format!("sf 111 {} InvalidOffset({})", hex(&v2), x));
            }
            5 => {
                let et = *r.pick(&[9u16, 10, 255, 256, 0xFFFF, 9 + r.below(60000) as u16]);
                let mut p = r.u16x().to_be_bytes().to_vec();
                p.extend_from_slice(&et.to_be_bytes());
                if r.chance(1, 2) {
                    p.extend(utf8(r, 8));
                }
                let pos = 1 + r.below(k);
                recs.insert(pos.min(recs.len()), record(1, 0, 1, &p));
                out.push(format!("sf 111 {} InvalidResultCodeErrorType({})", hex(&assemble(0x1320, tid, sid, ns, nr, &recs)), et));
            }
            6 => {
                // truncated AVP (payload below the kind's minimum), any position incl. the first
                let (rec, attr) = if r.chance(1, 4) {
                    (record(1, 0, 0, &r.bytes(r.below(2))), 0u16)
                } else {
                    let attr = *r.pick(&[1u16, 2, 3, 4, 5, 6, 7, 8, 9, 10, 11, 12, 13, 14, 15, 16, 17, 18, 19, 21, 22, 23, 24, 25, 26, 27, 28, 29, 30, 31, 32, 33, 34, 35, 36, 37, 38]);
                    let l = r.below(min_len(attr));
                    (record(1, 0, attr, &r.bytes(l)), attr)
                };
                if attr == 0 {
                    recs[0] = rec;
                } else {
                    let pos = 1 + r.below(k);
                    recs.insert(pos.min(recs.len()), rec);
                }
                out.push(format!("sf 111 {} IncompleteAVP({})", hex(&assemble(0x1320, tid, sid, ns, nr, &recs)), attr));
            }
            _ => {
                let (rec, e) = loop {
                    let (rec, e) = bad_record(r, false);
                    if e.starts_with("InvalidUtf8") {
                        break (rec, e);
                    }
                };
                let pos = 1 + r.below(k);
                recs.insert(pos.min(recs.len()), rec);
                out.push(format!("sf 111 {} {}", hex(&assemble(0x1320, tid, sid, ns, nr, &recs)), e));
            }
        }
    }
}

fn md5_stream(r: &Rng, out: &mut Out, n: usize) {
    for l in [0usize, 1, 3, 14, 26, 55, 56, 57, 62, 63, 64, 65, 80, 119, 120, 121, 127, 128, 129, 300] {
        out.push(format!("md5 {}", hex(&r.bytes(l))));
    }
    out.push("md5 616263".to_string());
    for _ in 0..n {
        let l = r.below(300);
        out.push(format!("md5 {}", hex(&r.bytes(l))));
    }
}

fn utf8_stream(r: &Rng, out: &mut Out, n: usize, thorough: bool) {
    out.push("utf8all 1".to_string());
    out.push("utf8all 2".to_string());
    if thorough {
        out.push("utf8all 3".to_string());
    }
    for _ in 0..n {
        let mut b = utf8(r, 1 + r.below(12));
        if r.chance(2, 3) {
            b = mutate(r, &b);
        }
        out.push(format!("utf8 {}", hex(&b)));
    }
    // 4-octet forms: every lead >= 0xF0 with boundary continuation octets
    for lead in 0xF0..=0xFFu8 {
        for b1 in [0x7f, 0x80, 0x8f, 0x90, 0xbf, 0xc0u8] {
            for b2 in [0x7f, 0x80, 0xbf, 0xc0u8] {
                for b3 in [0x7f, 0x80, 0xbf, 0xc0u8] {
                    out.push(format!("utf8 {}", hex(&[lead, b1, b2, b3])));
                }
            }
        }
    }
    for lead in [0xE0u8, 0xE1, 0xEC, 0xED, 0xEE, 0xEF] {
        for b1 in [0x7f, 0x80, 0x9f, 0xa0, 0xbf, 0xc0u8] {
            for b2 in [0x7f, 0x80, 0xbf, 0xc0u8] {
                out.push(format!("utf8 {}", hex(&[lead, b1, b2])));
            }
        }
    }
}

/// text through the crate's own decoders: every position where an AVP carries UTF-8 text, with well-formed
/// strings the decoder must return unchanged (replacement character, BOM, noncharacters, NUL, white space at
/// either end, the largest scalar value …) and ill-formed ones it must reject
fn text_stream(r: &Rng, out: &mut Out, n: usize) {
    let special: Vec<Vec<u8>> = vec![
        vec![0xef, 0xbf, 0xbd], vec![0x61, 0xef, 0xbf, 0xbd, 0x62], vec![0xef, 0xbb, 0xbf, 0x61], vec![0xef, 0xbf, 0xbe],
        vec![0xef, 0xbf, 0xbf], vec![0x00], vec![0x61, 0x00], vec![0x00, 0x61], vec![0x61, 0x00, 0x00], vec![0x20], vec![0x20, 0x61, 0x20],
        vec![0x61, 0x0a], vec![0x0d, 0x0a], vec![0x09, 0x61], vec![0xc2, 0xa0, 0x61, 0xc2, 0xa0], vec![0xe2, 0x80, 0xa8],
        vec![0xf4, 0x8f, 0xbf, 0xbf], vec![0xf4, 0x90, 0x80, 0x80], vec![0xed, 0x9f, 0xbf], vec![0xed, 0xa0, 0x80], vec![0xe0, 0xa0, 0x80],
        vec![0xe0, 0x9f, 0xbf], vec![0xc0, 0x80], vec![0xc1, 0xbf], vec![0xc2, 0x80], vec![0x7f], vec![0x80], vec![0xff], vec![0x61, 0xc3],
        vec![0xf0, 0x90, 0x80, 0x80], vec![0xf0, 0x8f, 0xbf, 0xbf], vec![0x61; 300], "a\u{fffd}".repeat(40).into_bytes(),
    ];
    // (attribute, fixed prefix in front of the text)
    let positions: Vec<(u16, Vec<u8>)> = vec![
        (8, vec![]), (21, vec![]), (22, vec![]), (23, vec![]), (7, vec![]),
        (1, vec![0, 1, 0, 2]), (1, vec![0, 2, 0, 0]), (12, vec![0, 16, 3]),
    ];
    let mut emit = |text: &[u8], pos: &(u16, Vec<u8>), i: usize| {
        let mut p = pos.1.clone();
        p.extend_from_slice(text);
        let total = 6 + p.len();
        if total > 1023 {
            return;
        }
        let mut rec = vec![((total >> 8) as u8) << 6 | 1, total as u8, 0, 0];
        rec.extend_from_slice(&pos.0.to_be_bytes());
        rec.extend_from_slice(&p);
        if i % 2 == 0 {
            out.push(format!("avps {}", hex(&rec)));
        } else {
            let img = assemble(0x1320, 1, 2, 3, 4, &[mt_record(r), rec]);
            out.push(format!("dec 111 {}", hex(&img)));
        }
    };
    let mut i = 0;
    for t in special.iter() {
        for pos in positions.iter() {
            emit(t, pos, i);
            emit(t, pos, i + 1);
            i += 1;
        }
    }
    for _ in 0..n {
        let mut b = utf8(r, 1 + r.below(24));
        if r.chance(1, 3) {
            b = mutate(r, &b);
        }
        let pos = r.pick(&positions).clone();
        emit(&b, &pos, i);
        i += 1;
    }
}

fn c19_stream(r: &Rng, out: &mut Out, n: usize) {
    // a few secrets and random vectors that come back again and again, in changing order, with values of one
    // and of many chunks: whatever a call leaves behind (a memoised key, a scratch buffer) gets its chance to
    // show in a later call
    let pool: Vec<Vec<u8>> = vec![r.bytes(5), r.bytes(16), r.bytes(1), vec![], r.bytes(70)];
    let rvs: Vec<Vec<u8>> = vec![r.bytes(4), r.bytes(4), vec![0, 0, 0, 0]];
    for i in 0..n {
        match i % 6 {
            0 | 1 => out.push(format!("dec {} {}", opts(r), hex(&valid_image(r, false)))),
            2 => out.push(format!("dec {} {}", opts(r), hex(&mutate(r, &valid_image(r, false))))),
            3 => out.push(format!("enc . {}", gen_control(r, 6, false).render())),
            4 => {
                let t = if r.chance(1, 2) { gen_avp_kind(r, ALL_KINDS[i % 39], false) } else { gen_avp_kind(r, *r.pick(&BYTE_KINDS), true) };
                let (mut s, mut rv, lp, ap) = hide_args(r, payload_len(&t));
                if r.chance(4, 5) {
                    s = r.pick(&pool).clone();
                }
                if r.chance(1, 2) {
                    rv = r.pick(&rvs).clone();
                }
                out.push(format!("hr {} {} {} {} {}", t.render(), hex(&s), hex(&rv), hex(&lp), hex(&ap)));
            }
            _ => out.push(format!("enc . {}", (if i % 12 == 5 { gen_data(r, true) } else { gen_data_free(r) }).render())),
        }
    }
    // nothing may reach fd 1 / fd 2 from any entry point: the other operations once each over a varied sample
    for _ in 0..(n / 20) {
        out.push(format!("rt {}", gen_data_free(r).render()));
        out.push(format!("fix {} {}", opts(r), hex(&data_image_noncanonical(r))));
        out.push(format!("fix {} {}", opts(r), hex(&noncanonical(r))));
        let img = mutate(r, &valid_image(r, false));
        out.push(format!("avps {}", hex(&img[12.min(img.len())..])));
    }
}

/// One octet string turned into a different one that the usual cheap checksums cannot tell from it: two octets
/// exchanged at distance 1, 2, 4, 8 or 16 (octet sums, XOR, word sums, rotate-and-add), +1 / -1 at such a distance
/// (sums over words of that width), +1 -2 +1 at equal spacing and +1 -1 -1 +1 on four neighbours (sum and
/// position-weighted sum, i.e. Fletcher / Adler style pairs), one bit flipped in two octets (XOR), two blocks of
/// 4 or 8 octets exchanged.  No octet wraps round.  None when the field is too short or nothing would change.
fn checksum_sibling(r: &Rng, b: &[u8]) -> Option<Vec<u8>> {
    let n = b.len();
    let mut v = b.to_vec();
    for _ in 0..24 {
        let d = *r.pick(&[1usize, 2, 3, 4, 8, 16]);
        match r.below(6) {
            0 => {
                if n > d {
                    let i = r.below(n - d);
                    if v[i] != v[i + d] {
                        v.swap(i, i + d);
                        return Some(v);
                    }
                }
            }
            1 => {
                if n > d {
                    let i = r.below(n - d);
                    let (a, c) = if r.chance(1, 2) { (i, i + d) } else { (i + d, i) };
                    if v[a] < 255 && v[c] > 0 {
                        v[a] += 1;
                        v[c] -= 1;
                        return Some(v);
                    }
                }
            }
            2 => {
                if n > 2 * d {
                    let i = r.below(n - 2 * d);
                    if v[i] < 255 && v[i + d] > 1 && v[i + 2 * d] < 255 {
                        v[i] += 1;
                        v[i + d] -= 2;
                        v[i + 2 * d] += 1;
                        return Some(v);
                    }
                    if v[i] > 0 && v[i + d] < 254 && v[i + 2 * d] > 0 {
                        v[i] -= 1;
                        v[i + d] += 2;
                        v[i + 2 * d] -= 1;
                        return Some(v);
                    }
                }
            }
            3 => {
                if n > 3 {
                    let i = r.below(n - 3);
                    if v[i] < 255 && v[i + 1] > 0 && v[i + 2] > 0 && v[i + 3] < 255 {
                        v[i] += 1;
                        v[i + 1] -= 1;
                        v[i + 2] -= 1;
                        v[i + 3] += 1;
                        return Some(v);
                    }
                }
            }
            4 => {
                if n > d {
                    let i = r.below(n - d);
                    let m = 1u8 << r.below(8);
                    v[i] ^= m;
                    v[i + d] ^= m;
                    return Some(v);
                }
            }
            _ => {
                let w = if r.chance(1, 2) { 8 } else { 4 };
                if n >= 2 * w {
                    let i = r.below(n - 2 * w + 1);
                    if v[i..i + w] != v[i + w..i + 2 * w] {
                        for k in 0..w {
                            v.swap(i + k, i + w + k);
                        }
                        return Some(v);
                    }
                }
            }
        }
    }
    None
}

/// The octet-string fields of a case line (runs of at least four octets in hexadecimal between non-alphanumerics).
fn hex_fields(l: &str) -> Vec<(usize, usize)> {
    let b = l.as_bytes();
    let mut res = vec![];
    let mut i = 0;
    while i < b.len() {
        if b[i].is_ascii_alphanumeric() {
            let s = i;
            let mut all_hex = true;
            let mut all_digits = true;
            while i < b.len() && b[i].is_ascii_alphanumeric() {
                if !(b[i].is_ascii_digit() || (b'a'..=b'f').contains(&b[i])) {
                    all_hex = false;
                }
                if !b[i].is_ascii_digit() {
                    all_digits = false;
                }
                i += 1;
            }
            // (a run of decimal digits is a number, not an octet string)
            if all_hex && !all_digits && (i - s) % 2 == 0 && i - s >= 8 {
                res.push((s, i));
            }
        } else {
            i += 1;
        }
    }
    res
}

/// Calls related to their neighbours: about one line in ten is followed by a sibling of itself (one octet-string
/// field replaced by a `checksum_sibling`) and then by itself again, all three on the worker's one thread.  Each
/// line is a case in its own right (the model answers each); what the neighbourhood adds is a history: a memo, a
/// retransmission shortcut or a reused buffer keyed by anything less than the whole input answers the second or the
/// third call from the first.  With `rejected`, an encode the crate refuses (an AVP past 1023 octets inside a control
/// message) now and then precedes a line: what a refused call leaves behind.
fn with_neighbours(r: &Rng, lines: Vec<String>, rejected: bool) -> Vec<String> {
    let mut out = Vec::with_capacity(lines.len() + lines.len() / 4);
    for l in lines {
        if rejected && r.chance(1, 40) {
            let m = TMsg::Control { len: 0, tid: r.u16x(), sid: r.u16x(), ns: r.u16x(), nr: r.u16x(), avps: vec![TAvp::new("MessageType", vec!["Hello".into()]), TAvp::new("Challenge", vec![hex(&r.bytes(1018 + r.below(40)))])] };
            out.push(format!("enc . {}", m.render()));
        }
        // a line whose answer is judged from its own arguments alone gets its sibling in place; one that states what
        // to expect of its octets (`c15`, `sf`) gets the sibling of its octets as a plain decode
        let op = l.split(' ').next().unwrap_or("");
        let in_place = matches!(op, "dec" | "decd" | "avps" | "pay" | "enc" | "enca" | "rt" | "rtp" | "rta" | "fix" | "sfx" | "seqm" | "cat" | "hide" | "reveal" | "hr");
        let sib = if l.len() < 20000 && r.chance(1, 10) {
            if in_place {
                let fs = hex_fields(&l);
                if fs.is_empty() {
                    None
                } else {
                    let (s, e) = *r.pick(&fs);
                    unhex(&l[s..e]).and_then(|b| checksum_sibling(r, &b)).map(|nb| format!("{}{}{}", &l[..s], hex(&nb), &l[e..]))
                }
            } else if op == "c15" || op == "sf" {
                l.split(' ').nth(if op == "c15" { 1 } else { 2 }).and_then(unhex).and_then(|b| checksum_sibling(r, &b)).map(|nb| format!("dec 111 {}", hex(&nb)))
            } else {
                None
            }
        } else {
            None
        };
        match sib {
            Some(sl) => {
                out.push(l.clone());
                out.push(sl);
                out.push(l);
            }
            None => out.push(l),
        }
    }
    out
}

/// Inputs of 2^32 octets and more (a width narrowed to 32 bits shows nowhere else): a message with a declared length in
/// front of that many zero octets (`sfxbig`), a data message without Length field whose payload is all of them
/// (`paybig`, the payload's length is reported), and reader operation sequences that cross the 2^32 mark (`rdbig`).
fn big_writer_cases(r: &Rng, out: &mut Out, n: usize) {
    const G: usize = 1 << 32;
    for i in 0..n {
        // (… and prefixes that end a few octets below a multiple of 2^32, so that the value written straddles it)
        let size = match i % 9 {
            0 => G,
            1 => G + 1,
            2 => G - 1,
            3 => G - 3,
            4 => G - 7,
            5 => G - 12,
            6 => G - 40,
            7 => 2 * G - 6,
            _ => G + 65536 + r.below(1000),
        };
        match i % 3 {
            0 => out.push(format!("encbig {} {}", size, gen_control(r, 4, false).render())),
            1 => out.push(format!("encabig {} {}", size, gen_avp(r, false).render())),
            _ => out.push(format!("encbig {} {}", size, gen_data(r, true).render())),
        }
    }
}

fn big_input_cases(r: &Rng, out: &mut Out, sfx: usize, pay: usize, rd: usize) {
    const G: usize = 1 << 32;
    for i in 0..sfx {
        let m = if i % 2 == 0 {
            gen_control(r, 4, false)
        } else {
            let mut d = gen_data(r, true);
            if let TMsg::Data { len, nsnr, off, data, .. } = &mut d {
                if len.is_none() {
                    *len = Some((data_header_len(true, nsnr.is_some(), off.is_some()) + data.len()) as u16);
                }
            }
            d
        };
        if let Some(img) = encode_msg(&m) {
            let n = img.len();
            let size = match i % 6 {
                0 => G,
                1 => G + 1,
                2 => G + n - 1,
                3 => G + n,
                4 => G + n + 1,
                _ => 2 * G + 7,
            };
            out.push(format!("sfxbig {} {} {}", if i % 3 == 0 { "000" } else { "111" }, hex(&img), size));
        }
    }
    for i in 0..pay {
        let dl = 1 + r.below(12);
        let nsnr = if i % 2 == 0 { Some((r.u16x(), r.u16x())) } else { None };
        let off = if i % 3 == 0 { Some(r.below(dl) as u16) } else { None };
        let m = TMsg::Data { p: i % 4 == 0, len: None, tid: r.u16x(), sid: r.u16x(), nsnr, off, data: r.bytes(dl) };
        if let Some(img) = encode_msg(&m) {
            let n = img.len();
            let size = match i % 5 {
                0 => G,
                1 => G + n,
                2 => G + n - 1,
                3 => G + 6,
                _ => 2 * G,
            };
            out.push(format!("paybig {} {}", hex(&img), size));
        }
    }
    for i in 0..rd {
        let size = G + *r.pick(&[16usize, 17, 24, 8 + 4096, 16]);
        let big = *r.pick(&[G, G - 1, G + 1, G + 8, G - 8]);
        let ops: Vec<String> = match i % 6 {
            0 => vec![format!("k{}", big), "u8".into(), "b4".into(), "u16".into()],
            1 => vec!["u16".into(), format!("k{}", G - 2), "u32".into(), "b2".into(), "k1".into()],
            2 => vec![format!("P{}", big), "u64".into(), format!("k{}", big.saturating_sub(16)), "u8".into(), "Q".into(), "u8".into(), "b3".into()],
            3 => vec![format!("k{}", G / 2), format!("k{}", G / 2), "u8".into(), "s4".into(), "u8".into()],
            4 => vec![format!("k{}", size - 8), "u64".into(), "b1".into()],
            _ => vec![format!("k{}", size - 10), "u8".into(), "s8".into(), "u8".into()],
        };
        out.push(format!("rdbig {} {}", size, ops.join(",")));
    }
}

pub fn generate(prop: &str, tier: &str, seed: u64) -> Vec<String> {
    let lines = generate_base(prop, tier, seed);
    match prop {
        // exhaustive tables and the reader / writer operation sequences have no neighbours to relate
        "C14" | "C16" | "C17" | "C18" => lines,
        _ => with_neighbours(&Rng::new(seed, "neighbours"), lines, matches!(prop, "C06" | "C07" | "C09")),
    }
}

fn generate_base(prop: &str, tier: &str, seed: u64) -> Vec<String> {
    let thorough = tier == "thorough";
    let r = Rng::new(seed, prop);
    let mut out = Out { lines: vec![] };
    let n = |q: usize, t: usize| if thorough { t } else { q };
    match prop {
        "C01" => {
            decode_stream(&r, &mut out, n(30000, 1800000), false);
            dictionary_stream(&r, &mut out, "dec");
            for (i, img) in cross_layouts().iter().enumerate() {
                out.push(format!("dec {} {}", ["000", "111", "010", "101"][i % 4], hex(img)));
                let cut = 1 + i % 3;
                if img.len() > cut + 2 {
                    out.push(format!("dec {} {}", ["000", "010"][i % 2], hex(&img[..img.len() - cut])));
                }
            }
            // a bare AVP list is not bound by a 16-bit Length: more records than any message can hold (10922 six-octet
            // ones fill 65535 octets), one and two past that
            for count in [10922usize, 10923, 10924] {
                let mut l: Vec<u8> = Vec::with_capacity(6 * count + 8);
                for i in 0..count {
                    if i == 5000 {
                        l.extend_from_slice(&[0x01, 8, 0, 0, 0, 10, 0, 4]);
                    } else {
                        l.extend_from_slice(&[0x01, 6, 0, 0, 0, 39]);
                    }
                }
                out.push(format!("avps {}", hex(&l)));
            }
        }
        "C02" => {
            decode_stream(&r, &mut out, n(25000, 1200000), true);
            reveal_stream(&r, &mut out, n(3000, 60000));
        }
        "C03" => {
            c03_stream(&r, &mut out, n(6000, 400000), thorough);
            dictionary_stream(&r, &mut out, "rt");
            big_writer_cases(&Rng::new(seed, "bigw-C03"), &mut out, n(27, 90));
        }
        "C04" => c04_stream(&r, &mut out, n(20000, 1000000)),
        "C05" => {
            decode_stream(&r, &mut out, n(30000, 1500000), true);
            dictionary_stream(&r, &mut out, "dec");
            for (i, img) in cross_layouts().iter().enumerate() {
                out.push(format!("dec {} {}", ["000", "111", "010", "101", "110", "011"][i % 6], hex(img)));
            }
            // all attribute numbers with a payload every kind accepts
            for x in 0..=65535u32 {
                if thorough || x < 300 || x % 97 == 0 {
                    out.push(format!("code attr {}", x));
                }
            }
            utf8_stream(&r, &mut out, n(3000, 60000), thorough);
            text_stream(&r, &mut out, n(4000, 80000));
            big_input_cases(&Rng::new(seed, "big-C05"), &mut out, n(12, 60), n(15, 60), 0);
        }
        "C06" => {
            for t in systematic_avps(true) {
                out.push(format!("enca . {}", t.render()));
            }
            enc_stream(&r, &mut out, n(15000, 900000), false, false);
            dictionary_stream(&r, &mut out, "enc");
            big_writer_cases(&Rng::new(seed, "bigw-C06"), &mut out, n(27, 90));
            // the specified octets do not depend on what the writer already holds
            enc_stream(&r, &mut out, n(3000, 60000), true, false);
            for m in MESSAGE_TYPES.iter() {
                out.push(format!("enca . MessageType({:?})", m));
            }
            for p in PROXY_TYPES.iter() {
                out.push(format!("enca . ProxyAuthenType({:?})", p));
            }
            for e in ERROR_TYPES.iter() {
                out.push(format!("enca . ResultCode(7,{:?},-)", e));
            }
            let mut l = 1;
            while l <= 1017 {
                out.push(format!("enca . {}({})", BYTE_KINDS[l % 9], hex(&r.bytes(l))));
                l += if thorough { 1 } else { 5 };
            }
        }
        "C07" => {
            // every kind several times, and every value of the small enumerated fields: a length that is
            // wrong for one value of one kind must not depend on the random stream happening to draw it
            for t in systematic_avps(true) {
                out.push(format!("enca . {}", t.render()));
            }
            for k in ALL_KINDS.iter() {
                for _ in 0..(if thorough { 60 } else { 16 }) {
                    out.push(format!("enca . {}", gen_avp_kind(&r, k, true).render()));
                }
            }
            for e in ERROR_TYPES.iter() {
                for code in [0u16, 1, 2, 7, 65535] {
                    out.push(format!("enca . ResultCode({},{:?},-)", code, e));
                    out.push(format!("enca . ResultCode({},{:?},)", code, e));
                    out.push(format!("enca . ResultCode({},{:?},{})", code, e, hex(b"x")));
                }
            }
            for code in [0u16, 1, 16, 65535] {
                out.push(format!("enca . ResultCode({},-,-)", code));
                out.push(format!("enca . Q931CauseCode({},0,-)", code));
                out.push(format!("enca . Q931CauseCode({},255,)", code));
                out.push(format!("enca . Q931CauseCode({},3,{})", code, hex(b"NCC")));
            }
            for m in MESSAGE_TYPES.iter() {
                out.push(format!("enca . MessageType({:?})", m));
            }
            for p in PROXY_TYPES.iter() {
                out.push(format!("enca . ProxyAuthenType({:?})", p));
            }
            enc_stream(&r, &mut out, n(8000, 450000), true, true);
            big_writer_cases(&Rng::new(seed, "bigw-C07"), &mut out, n(27, 90));
        }
        "C08" => {
            c08_stream(&r, &mut out, n(20000, 400000));
            dictionary_stream(&r, &mut out, "sfx");
            big_input_cases(&Rng::new(seed, "big-C08"), &mut out, n(36, 120), n(6, 30), 0);
            // a bare list (not bound by a 16-bit Length): a vendor-specific record with vendor id v in front of exactly
            // v · 65536 octets of further records, one octet less, one more
            {
                let vr = content_rng("vendor in front of 65536", "c08");
                for v in [1u16, 2] {
                    for delta in [0isize, -1, 1] {
                        let mut l: Vec<u8> = record(1, v, 7, &vr.bytes(4));
                        let mut left = (v as isize * 65536 + delta) as usize;
                        while left >= 1023 + 7 {
                            l.extend(record(1, 0, 11, &vr.bytes(1017)));
                            left -= 1023;
                        }
                        if left > 1023 {
                            l.extend(record(1, 0, 11, &vr.bytes(500)));
                            left -= 506;
                        }
                        l.extend(record(1, 0, 7, &vr.bytes(left - 6)));
                        out.push(format!("avps {}", hex(&l)));
                    }
                }
            }
        }
        "C09" => {
            for (i, t) in systematic_avps(true).iter().enumerate() {
                if thorough || i % 3 == 0 {
                    out.push(format!("enca {} {}", hex(&r.bytes(1 + i % 5)), t.render()));
                }
            }
            enc_stream(&r, &mut out, n(12000, 250000), true, false);
            big_writer_cases(&Rng::new(seed, "bigw-C09"), &mut out, n(54, 180));
            for _ in 0..n(2000, 40000) {
                let k = 1 + r.below(8);
                let mut before = 0usize;
                let ms: Vec<String> = (0..k)
                    .map(|_| {
                        let mut m = if r.chance(1, 2) { gen_control(&r, 4, false) } else { gen_data(&r, false) };
                        if r.chance(1, 3) {
                            m = relate_len(&r, m, before);
                        }
                        before += encode_msg(&m).map(|b| b.len()).unwrap_or(0);
                        m.render()
                    })
                    .collect();
                out.push(format!("seqm {}", ms.join("|")));
            }
            // long runs into one writer: the total passes 65507, 65536 and 131072 octets
            for round in 0..n(2, 6) {
                let mut ms: Vec<String> = vec![];
                let mut total = 0usize;
                while total < 140000 {
                    let m = if (ms.len() + round) % 3 == 0 {
                        TMsg::Control { len: 0, tid: r.u16x(), sid: r.u16x(), ns: r.u16x(), nr: r.u16x(), avps: vec![TAvp::new("MessageType", vec!["Hello".into()]), TAvp::new("Challenge", vec![hex(&r.bytes(900 + r.below(100)))])] }
                    } else {
                        let dl = 1200 + r.below(250);
                        let nsnr = if r.chance(1, 2) { Some((r.u16x(), r.u16x())) } else { None };
                        let total = data_header_len(true, nsnr.is_some(), false) + dl;
                        TMsg::Data { p: r.chance(1, 2), len: Some(total as u16), tid: r.u16x(), sid: r.u16x(), nsnr, off: None, data: r.bytes(dl) }
                    };
                    total += encode_msg(&m).map(|b| b.len()).unwrap_or(0);
                    ms.push(m.render());
                }
                out.push(format!("seqm {}", ms.join("|")));
            }
        }
        "C10" => {
            // data messages over the 16 L/S/O/P combinations with the Length field around every boundary
            // (below the header, exactly the header, one payload octet, the whole input, beyond it) and
            // octets after the declared end
            for bits in 0..16u16 {
                let (l, s, o, p) = (bits & 1 != 0, bits & 2 != 0, bits & 4 != 0, bits & 8 != 0);
                let w: u16 = 0x0020 | if l { 0x0200 } else { 0 } | if s { 0x1000 } else { 0 } | if o { 0x4000 } else { 0 } | if p { 0x8000 } else { 0 };
                for dl in [0usize, 1, 2, 5] {
                    for offv in [0u16, 1, 2] {
                        let hdr = data_header_len(l, s, o);
                        let total = hdr + dl;
                        let lens: Vec<usize> = if l { (hdr.saturating_sub(2)..=total + 2).collect() } else { vec![0] };
                        for lv in lens {
                            let mut v = w.to_be_bytes().to_vec();
                            if l {
                                v.extend_from_slice(&(lv as u16).to_be_bytes());
                            }
                            v.extend_from_slice(&[0, 7, 0, 9]);
                            if s {
                                v.extend_from_slice(&[0, 1, 0, 2]);
                            }
                            if o {
                                v.extend_from_slice(&offv.to_be_bytes());
                            }
                            v.extend((0..dl).map(|i| 0xa0 + i as u8));
                            out.push(format!("fix {} {}", if bits % 2 == 0 { "111" } else { "000" }, hex(&v)));
                        }
                        if !o {
                            break;
                        }
                    }
                }
            }
            for t in systematic_avps(false) {
                if let Some(rec) = encode_avp(&t) {
                    let img = assemble(0x1320, 1, 2, 3, 4, &[mt_record(&r), rec]);
                    out.push(format!("fix 111 {}", hex(&img)));
                }
            }
            dictionary_stream(&r, &mut out, "fix");
            // a hidden AVP whose octets happen to read as the *clear* hidden subformat (length word 6 + n, n octets, zero
            // padding to the chunk size, or random padding): it is a hidden AVP all the same, and stays one
            {
                let hr = content_rng("clear subformat", "c10");
                for attr in [7u16, 9, 11, 0, 39] {
                    for nlen in [0usize, 1, 2, 8, 13, 14, 15, 20, 30] {
                        for zero_pad in [true, false] {
                            let mut v = ((6 + nlen) as u16).to_be_bytes().to_vec();
                            v.extend(hr.bytes(nlen));
                            while v.len() % 16 != 0 {
                                v.push(if zero_pad { 0 } else { hr.next() as u8 });
                            }
                            let rec = record(3, 0, attr, &v);
                            let img = assemble(0x1320, 1, 2, 3, 4, &[mt_record(&hr), rec.clone()]);
                            out.push(format!("fix 111 {}", hex(&img)));
                            out.push(format!("fix 000 {}", hex(&assemble(0x1320, 1, 2, 3, 4, &[mt_record(&hr), record(1, 0, 36, &hr.bytes(4)), rec]))));
                        }
                    }
                }
            }
            for (i, img) in cross_layouts().iter().enumerate() {
                out.push(format!("fix {} {}", if i % 2 == 0 { "000" } else { "010" }, hex(img)));
            }
            // large accepted messages, each followed by ordinary ones (what a large message leaves behind)
            for t in big_controls(&r) {
                if let Some(img) = encode_msg(&t) {
                    out.push(format!("fix 111 {}", hex(&img)));
                    out.push(format!("fix 111 {}", hex(&img)));
                    for _ in 0..3 {
                        out.push(format!("fix 000 {}", hex(&valid_image(&r, false))));
                    }
                }
            }
            for i in 0..n(25000, 500000) {
                let b = match i % 5 {
                    0 => valid_image(&r, i % 4 == 0),
                    1 | 2 => noncanonical(&r),
                    3 => data_image_noncanonical(&r),
                    _ => {
                        let v = noncanonical(&r);
                        mutate(&r, &v)
                    }
                };
                let o = if i % 3 == 0 { "000" } else { opts(&r) };
                out.push(format!("fix {} {}", o, hex(&b)));
            }
        }
        "C11" => hide_stream(&r, &mut out, n(12000, 250000), "hr"),
        "C12" => {
            hide_stream(&r, &mut out, n(8000, 150000), "hide");
            reveal_stream(&r, &mut out, n(6000, 100000));
            md5_stream(&r, &mut out, n(3000, 50000));
        }
        "C13" => reveal_stream(&r, &mut out, n(30000, 600000)),
        "C14" => c14_stream(&r, &mut out, thorough),
        "C15" => {
            c15_stream(&r, &mut out, n(12000, 750000));
            dictionary_stream(&r, &mut out, "c15");
        }
        "C16" => c16_stream(&mut out, thorough),
        "C17" => c17_stream(&r, &mut out, n(500, 10000)),
        "C18" => {
            c18_stream(&r, &mut out, n(15000, 900000));
            // a checked request for (nearly) as many octets as a usize can count, from a fresh reader, after some were
            // consumed, and inside a sub-reader: refused, not computed with
            for big in [usize::MAX, usize::MAX - 1, usize::MAX - 7, usize::MAX / 2 + 1, 1usize << 63, (1usize << 32) + 5] {
                for pre in ["", "u8,", "u16,k3,", "P9,u8,", "k1,P4,", "s3,u32,"] {
                    out.push(format!("rd 000102030405060708090a0b0c0d0e0f {}b{},u8,b2", pre, big));
                }
            }
            big_input_cases(&Rng::new(seed, "big-C18"), &mut out, 0, 0, n(36, 240));
        }
        "C19" => {
            c19_stream(&r, &mut out, n(6000, 100000));
            // encoding from a destructor while the thread unwinds
            {
                let ur = Rng::new(seed, "unwinding");
                for i in 0..n(60, 600) {
                    let m = if i % 3 == 2 { gen_data(&ur, true) } else { gen_control(&ur, 4, false) };
                    out.push(format!("encunw {}", m.render()));
                }
            }
            for t in big_controls(&r) {
                out.push(format!("enc . {}", t.render()));
                out.push(format!("rt {}", t.render()));
                if let Some(img) = encode_msg(&t) {
                    out.push(format!("dec 111 {}", hex(&img)));
                }
                out.push(format!("enc . {}", gen_control(&r, 4, false).render()));
                out.push(format!("rt {}", gen_control(&r, 4, false).render()));
            }
            // a print or a memo can sit on any path: a sample of every other property's stream, so that whatever
            // code any stream reaches is also run under the watch on fd 1 / fd 2, reordered, and from 16 threads
            for q in ["C01", "C03", "C04", "C05", "C06", "C07", "C08", "C10", "C11", "C12", "C13", "C14", "C15", "C16", "C17", "C18", "C20"] {
                let ls: Vec<String> = generate_base(q, "quick", seed).into_iter().filter(|l| l.len() < 6000).collect();
                let want = n(500, 5000);
                let step = (ls.len() / want).max(1);
                out.lines.extend(ls.into_iter().step_by(step));
            }
        }
        "C20" => {
            c20_stream(&r, &mut out, n(12000, 750000), thorough);
            // a vendor-specific record is a single fault whatever numbers it carries: every combination of the numbers
            // the source has newly come to mention
            for img in dictionary_cases(&r) {
                if img.len() >= 28 && (img[22] != 0 || img[23] != 0) {
                    let v = ((img[22] as u16) << 8) | img[23] as u16;
                    out.push(format!("sf 111 {} UnsupportedVendorId({})", hex(&img), v));
                }
            }
        }
        _ => {}
    }
    out.lines
}
